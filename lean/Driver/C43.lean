import Driver.Loop
import IrohModel.Common.Hex
import IrohModel.C43.Model
open IrohModel IrohModel.C43

/-! Line-protocol driver for C43 (trusted test plumbing: parsing and printing only).
Grammar: see harness/hrelay/src/bin/c43.rs. -/

namespace C43Drv

def parseDec (s : String) : Option Nat :=
  if s.isEmpty || !s.all Char.isDigit then none
  else some (s.foldl (fun n c => n * 10 + (c.toNat - 48)) 0)

def parseBounded (s : String) (bound : Nat) : Option Nat :=
  match parseDec s with
  | some n => if n < bound then some n else none
  | none => none

def purl (s : String) : Option Nat := parseBounded s 1000
def phandle (s : String) : Option Nat := parseBounded s (2 ^ 32)

def parseOpt (s : String) (bound : Nat) : Option (Option Nat) :=
  if s = "n" then some none else (parseBounded s bound).map some

def parseOp (s : String) : Option Op :=
  match (s.splitOn " ").filter (· ≠ "") with
  | ["new"] => some .new
  | ["from", us] =>
    if us = "-" then some (.fromUrls []) else ((us.splitOn ",").mapM purl).map .fromUrls
  | ["clone", h] => (phandle h).map .clone
  | ["ins", h, u, cu, port, tok] => do
    let h ← phandle h
    let u ← purl u
    let cu ← purl cu
    let port ← parseOpt port (2 ^ 16)
    let tok ← parseOpt tok 1000
    pure (.insert h u ⟨cu, port, tok⟩)
  | ["rem", h, u] => do pure (.remove (← phandle h) (← purl u))
  | ["ext", h, g] => do pure (.extend (← phandle h) (← phandle g))
  | ["tok", h, t] => do pure (.token (← phandle h) (← purl t))
  | ["get", h, u] => do pure (.get (← phandle h) (← purl u))
  | ["has", h, u] => do pure (.has (← phandle h) (← purl u))
  | ["len", h] => (phandle h).map .len
  | ["empty", h] => (phandle h).map .isEmpty
  | ["urls", h] => (phandle h).map .urls
  | ["eq", h, g] => do pure (.eq (← phandle h) (← phandle g))
  | _ => none

def showOptNat : Option Nat → String
  | none => "n"
  | some n => toString n

def showCfg (c : Config) : String := s!"{c.url}/{showOptNat c.port}/{showOptNat c.token}"

def showOut : Out → String
  | .ok => "ok"
  | .cfg none => "none"
  | .cfg (some c) => showCfg c
  | .bool b => if b then "t" else "f"
  | .num n => toString n
  | .urls l => "[" ++ ",".intercalate (l.map toString) ++ "]"
  | .noHandle => "nohandle"
  | .timeout => "timeout"

def showHandle (s : Sys) (i : Nat) : String :=
  match s.tblOf i with
  | some (_, t) => s!"h{i}\{" ++ ",".intercalate (t.map fun e => s!"{e.1}={showCfg e.2}") ++ "}"
  | none => s!"h{i}?"

/-- The harness never lets a case grow beyond this many handles (both sides skip the op). -/
def maxHandles : Nat := 12

def creates : Op → Bool
  | .new => true
  | .fromUrls _ => true
  | .clone _ => true
  | _ => false

/-- Run the ops one by one; stop at the first `timeout` like the harness does. -/
def exec : Sys → List Op → List String → Sys × List String × Bool
  | s, [], acc => (s, acc, false)
  | s, op :: ops, acc =>
    if s.handles.length ≥ maxHandles && creates op then exec s ops (acc ++ ["nohandle"])
    else
      let r := step s op
      if r.2 = Out.timeout then (s, acc ++ ["timeout"], true)
      else exec r.1 ops (acc ++ [showOut r.2])

def handleLine (payload : String) : String :=
  let p := payload.trimAscii.toString
  if p.isEmpty then "bad-input" else
  match (p.splitOn ";").mapM parseOp with
  | none => "bad-input"
  | some ops =>
    let (s, outs, hung) := exec Sys.init ops []
    let res := ";".intercalate outs
    if hung then res
    else res ++ " | " ++ " ".intercalate ((List.range s.handles.length).map (showHandle s))

end C43Drv

def main : IO Unit := Driver.run C43Drv.handleLine
