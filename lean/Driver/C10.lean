import Driver.Loop
import IrohModel.Common.Hex
import IrohModel.C10.Model
open IrohModel IrohModel.C10

def fnv64 (bs : Bytes) : UInt64 :=
  bs.foldl (fun h b => (h ^^^ b.toUInt64) * 0x100000001b3) 0xcbf29ce484222325

def compact (bs : Bytes) : String :=
  if bs.length ≤ 48 then hexOfBytes bs else s!"#{bs.length}:{(fnv64 bs).toNat}"

/-- The harness tells which of the 32-byte windows at offsets 1, 2, 4, 8 of the frame are valid
keys; any other byte string is not asked about by the decoders. -/
def validKeyOf (kbits : String) (frame : Bytes) : Bytes → Bool := fun k =>
  (List.zip [1, 2, 4, 8] kbits.toList).any fun (o, c) =>
    c == '1' && o + 32 ≤ frame.length && (frame.drop o).take 32 == k

def ecnOfCode (c : Nat) : Option Ecn :=
  match c % 4 with
  | 1 => some .ect1
  | 2 => some .ect0
  | 3 => some .ce
  | _ => none

def showDatagrams (k : Bytes) (d : Datagrams) : String :=
  s!"dg {hexOfBytes k} {ecnBits d.ecn} {d.segmentSize.getD 0} {compact d.contents}"

def showStatus : Status → String
  | .healthy => "h"
  | .sameEndpointIdConnected => "s"
  | .rateLimited => "r"
  | .unknown n => s!"u{n}"

def showR2C : RelayToClientMsg → String
  | .datagrams k d => showDatagrams k d
  | .endpointGone k => s!"gone {hexOfBytes k}"
  | .status s => s!"status {showStatus s}"
  | .restarting a b => s!"restart {a} {b}"
  | .ping d => s!"ping {hexOfBytes d}"
  | .pong d => s!"pong {hexOfBytes d}"
  | .health p => s!"health {compact p}"

def showC2R : ClientToRelayMsg → String
  | .datagrams k d => showDatagrams k d
  | .ping d => s!"ping {hexOfBytes d}"
  | .pong d => s!"pong {hexOfBytes d}"

def showErr : DecodeError → String
  | .frameTypeEof => "frame-type-eof"
  | .unknownFrameType tag => s!"unknown-frame-type:{tag}"
  | .tooLarge n => s!"too-large:{n}"
  | .invalidKey => "invalid-key"
  | .invalidFrame => "invalid-frame"
  | .invalidFrameType t => s!"invalid-frame-type:{t.toNat}"
  | .invalidUtf8 => "invalid-utf8"
  | .notAllowedInVersion => "not-allowed-in-version"

def showRes {α : Type} (r : Res α) (sh : α → String) : String :=
  match r with
  | .ok m => s!"ok {sh m}"
  | .error (.err e) => s!"err {showErr e}"
  | .error .panic => "panic"

def showSend : Option SendCheck → String
  | none => "panic"
  | some .ok => "ok"
  | some (.exceedsMaxPacketSize n) => s!"too-large:{n}"
  | some .emptyPacket => "empty"

def showLen : Option Nat → String
  | none => "panic"
  | some n => toString n

def parseDatagrams : List String → Option (Bytes × Datagrams)
  | [k, e, s, c] => do
    let k ← bytesOfHex k
    let e ← e.toNat?
    let s ← s.toNat?
    let c ← bytesOfHex c
    pure (k, { ecn := ecnOfCode e, segmentSize := if s = 0 then none else some s, contents := c })
  | _ => none

def parseStatus (s : String) : Option Status :=
  if s = "h" then some .healthy
  else if s = "s" then some .sameEndpointIdConnected
  else if s = "r" then some .rateLimited
  else if s.startsWith "u" then (s.drop 1).toString.toNat?.map .unknown
  else none

def parseR2C : List String → Option RelayToClientMsg
  | "dg" :: rest => (parseDatagrams rest).map fun (k, d) => .datagrams k d
  | ["gone", k] => (bytesOfHex k).map .endpointGone
  | ["status", s] => (parseStatus s).map .status
  | ["restart", a, b] => do pure (.restarting (← a.toNat?) (← b.toNat?))
  | ["ping", d] => (bytesOfHex d).map .ping
  | ["pong", d] => (bytesOfHex d).map .pong
  | ["health", p] => (bytesOfHex p).map .health
  | _ => none

def parseC2R : List String → Option ClientToRelayMsg
  | "dg" :: rest => (parseDatagrams rest).map fun (k, d) => .datagrams k d
  | ["ping", d] => (bytesOfHex d).map .ping
  | ["pong", d] => (bytesOfHex d).map .pong
  | _ => none

/-- Keys inside message payloads are valid by construction (they are `PublicKey` values). -/
def allValid : Bytes → Bool := fun _ => true

/-- One frame token of a history: `r1:<kbits>:<hex>` | `r2:<kbits>:<hex>` | `c:<kbits>:<hex>`. -/
def parseHistFrame (tok : String) : Option (Frame × (Bytes → Bool)) :=
  match tok.splitOn ":" with
  | [d, kbits, h] => do
    let bs ← bytesOfHex h
    let f ← if d = "r1" then some (Frame.r2c .v1 bs) else if d = "r2" then some (Frame.r2c .v2 bs)
            else if d = "c" then some (Frame.c2r bs) else none
    pure (f, validKeyOf kbits bs)
  | _ => none

def showDecoded : Decoded → String
  | .r2c r => showRes r showR2C
  | .c2r r => showRes r showC2R

def handleHistory (cap : String) (toks : List String) : String :=
  match cap.toNat?, toks.mapM parseHistFrame with
  | some cap, some fs =>
    -- validity is a property of the 32 bytes: a key is valid iff some frame's window says so
    let vk : Bytes → Bool := fun k => fs.any fun (_, v) => v k
    let (outs, c) := runCached vk (KeyCache.new cap) (fs.map (·.1))
    let cache := if c.cap = 0 then "off" else if c.entries.isEmpty then "-"
                 else ",".intercalate (c.entries.map hexOfBytes)
    " ; ".intercalate (outs.map showDecoded) ++ s!" | cache={cache}"
  | _, _ => "bad-input"

def handleLine (payload : String) : String :=
  match tokens payload with
  | "h" :: cap :: toks => handleHistory cap toks
  | ["dr", v, kbits, h] =>
    match bytesOfHex h with
    | none => "bad-input"
    | some frame =>
      let ver := if v = "1" then Version.v1 else Version.v2
      showRes (decodeR2C (validKeyOf kbits frame) ver frame) showR2C
  | ["dc", kbits, h] =>
    match bytesOfHex h with
    | none => "bad-input"
    | some frame => showRes (decodeC2R (validKeyOf kbits frame) frame) showC2R
  | "er" :: rest =>
    match parseR2C rest with
    | none => "bad-input"
    | some m =>
      let bytes := m.encode
      s!"len={showLen m.encodedLen} bytes={compact bytes} send={showSend (serverSend m)} | " ++
      s!"{showRes (decodeR2C allValid .v1 bytes) showR2C} | {showRes (decodeR2C allValid .v2 bytes) showR2C}"
  | "ec" :: rest =>
    match parseC2R rest with
    | none => "bad-input"
    | some m =>
      let bytes := m.encode
      s!"len={showLen m.encodedLen} bytes={compact bytes} send={showSend (clientSend m)} | " ++
      s!"{showRes (decodeC2R allValid bytes) showC2R}"
  | _ => "bad-input"

def main : IO Unit := Driver.run handleLine
