import Driver.Loop
import IrohModel.Common.Hex
import IrohModel.C27.Model
import IrohModel.C27.ProducerModel
open IrohModel IrohModel.C27

/-! Line-protocol driver for C27 (trusted test plumbing: parsing and printing only; all the
behaviour comes from `IrohModel.C27.Model`).  Grammar: see harness/hiroh/src/bin/c27.rs. -/

namespace C27Drv

def parseDec (s : String) : Option Nat :=
  if s.isEmpty || !s.all Char.isDigit then none
  else some (s.foldl (fun n c => n * 10 + (c.toNat - 48)) 0)

def parseBounded (s : String) (bound : Nat) : Option Nat :=
  match parseDec s with
  | some n => if n < bound then some n else none
  | none => none

def parseKind (s : String) : Option Probe :=
  if s = "h" then some .https else if s = "4" then some .v4 else if s = "6" then some .v6 else none

def parseAddr (s : String) : Option Addr :=
  match s.splitOn ":" with
  | [f, ip, port] =>
    if f = "4" then do
      let ip ← parseBounded ip (2 ^ 32)
      let port ← parseBounded port (2 ^ 16)
      pure (Addr.v4 ip port)
    else if f = "6" then do
      let ip ← parseBounded ip (2 ^ 128)
      let port ← parseBounded port (2 ^ 16)
      pure (Addr.v6 ip port)
    else none
  | _ => none

/-- One item; `withAddr` = probe reports (QAD kinds carry an address), else bare updates. -/
def parseItem (withAddr : Bool) (item : String) : Option (Probe × Nat × Nat × Option Addr) :=
  let t := (item.splitOn " ").filter (· ≠ "")
  match t with
  | k :: u :: lat :: rest => do
    let k ← parseKind k
    let u ← parseBounded u 1000
    let lat ← parseBounded lat (2 ^ 64)
    if withAddr && k != .https then
      match rest with
      | [a] => do
        let a ← parseAddr a
        pure (k, u, lat, some a)
      | _ => none
    else
      match rest with
      | [] => pure (k, u, lat, none)
      | _ => none
  | _ => none

def parseSeq (withAddr : Bool) (s : String) : Option (List (Probe × Nat × Nat × Option Addr)) :=
  let s := s.trimAscii.toString
  if s = "-" then some [] else (s.splitOn ";").mapM (parseItem withAddr)

def toProbeReport : Probe × Nat × Nat × Option Addr → Option ProbeReport
  | (.https, u, l, none) => some (.https u l)
  | (.v4, u, l, some a) => some (.qad4 u l a)
  | (.v6, u, l, some a) => some (.qad6 u l a)
  | _ => none

def join (xs : List String) : String := if xs.isEmpty then "-" else ",".intercalate xs

def showTbl (t : Table) : String := join (t.map fun e => s!"{e.1}:{e.2}")

/-- sorted, de-duplicated keys -/
def keysOf (us : List Nat) : List Nat := (us.foldl (fun t u => Table.update t u 0) ([] : Table)).map (·.1)

def showLat (l : Latencies) (urls : List Nat) : String :=
  let get := urls.filterMap fun u => (l.get u).map fun m => s!"{u}:{m}"
  s!"https={showTbl l.https} v4={showTbl l.ipv4} v6={showTbl l.ipv6} get={join get}"

def showProbe : Probe → String
  | .https => "h" | .v4 => "4" | .v6 => "6"

def showIter (l : Latencies) : String :=
  join (l.iter.map fun e => s!"{showProbe e.1}:{e.2.1}:{e.2.2}")

def ob : Option Bool → String
  | none => "n" | some true => "t" | some false => "f"

def og : Option (Nat × Nat) → String
  | none => "none" | some (ip, port) => s!"{ip}:{port}"

def b01 (b : Bool) : String := if b then "1" else "0"

/-- `Q <ops>`: the end-to-end QAD scenario (`R` full report, `r` incremental report, `b` rebind). -/
def showSock : Option (Nat × Nat) → String
  | none => "none"
  | some (ip, _) => toString ip

def runQad (ops : List Char) : String :=
  let (_, outs) := ops.foldl (fun (acc : QadWorld × List String) op =>
    let w := acc.1
    if op = 'b' then
      let (w', p) := w.rebind
      let tok := match p with
        | some (.qad4 _ _ (.v4 ip _)) => s!"p{ip}"
        | some _ => "px"
        | none => "p-"
      (w', acc.2 ++ [tok])
    else
      let (w', r) := w.report (op = 'R')
      (w', acc.2 ++ [s!"g{showSock r.g4}:{ob r.mv4}"])) (({} : QadWorld), [])
  " ".intercalate outs

def handleLine (payload : String) : String :=
  let p := payload.trimAscii.toString
  if p.startsWith "Q " then
    let ops := (p.drop 2).toString.trimAscii.toString.toList
    if ops.isEmpty || ops.length > 12 || !ops.all (fun c => c = 'r' || c = 'R' || c = 'b') then
      "bad-input"
    else runQad ops
  else if p.startsWith "R " then
    match parseSeq true (p.drop 2).toString with
    | none => "bad-input"
    | some items =>
      match items.mapM toProbeReport with
      | none => "bad-input"
      | some ps =>
        let r := Report.run ps
        let urls := keysOf (items.map (·.2.1))
        s!"udp4={b01 r.udpV4} udp6={b01 r.udpV6} mv4={ob r.mv4} mv6={ob r.mv6} g4={og r.g4} g6={og r.g6} {showLat r.lat urls} iter={showIter r.lat}"
  else if p.startsWith "M " then
    match (p.drop 2).toString.splitOn "|" with
    | [a, b] =>
      match parseSeq false a, parseSeq false b with
      | some a, some b =>
        let la := Latencies.build (a.map fun e => (e.1, e.2.1, e.2.2.1))
        let lb := Latencies.build (b.map fun e => (e.1, e.2.1, e.2.2.1))
        let urls := keysOf ((a ++ b).map (·.2.1))
        s!"ab {showLat (la.merge lb) urls} ba {showLat (lb.merge la) urls}"
      | _, _ => "bad-input"
    | _ => "bad-input"
  else "bad-input"

end C27Drv

def main : IO Unit := Driver.run C27Drv.handleLine
