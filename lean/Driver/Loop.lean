/-
Line-protocol loop shared by all per-property drivers.  Reads `I <id> <payload>`
lines from stdin, prints `O <id> <model output>`; every other line is ignored.
-/
namespace Driver

partial def loop (h : IO.FS.Stream) (out : IO.FS.Stream) (handle : String → String) : IO Unit := do
  let line ← h.getLine
  if line.isEmpty then return ()
  let line := (line.dropEndWhile (fun c => c == '\n' || c == '\r')).toString
  if line.startsWith "I " then
    let rest := (line.drop 2).toString
    let (id, payload) := match rest.splitOn " " with
      | [] => ("", "")
      | id :: ps => (id, " ".intercalate ps)
    out.putStrLn s!"O {id} {handle payload}"
  loop h out handle

def run (handle : String → String) : IO Unit := do
  let stdin ← IO.getStdin
  let stdout ← IO.getStdout
  loop stdin stdout handle
  stdout.flush

end Driver
