import Driver.Loop
import IrohModel.Common.Hex
import IrohModel.C40.WithHooksModel
open IrohModel IrohModel.C40
open IrohModel.C42 (Hook Target)

def parseAlpns (s : String) : Option (List Alpn) :=
  if s = "-" then some [] else
  (s.splitOn ",").mapM (fun t => (bytesOfHex t).bind (fun b => if b.isEmpty ∨ b.length > 255 then none else some b))

/-- An offer list: the primary (first) name may be `-` = empty. -/
def parseOffer (s : String) : Option (List Alpn) :=
  (s.splitOn ",").zipIdx.mapM (fun (t, i) =>
    (bytesOfHex t).bind (fun b => if (b.isEmpty ∧ i ≠ 0) ∨ b.length > 255 then none else some b))

def verdictOf? : Char → Option Verdict
  | 'a' => some .accept | 't' => some .retry | 'r' => some .reject | 'i' => some .ignore | _ => none

def letter : Verdict → String
  | .accept => "a" | .retry => "t" | .reject => "r" | .ignore => "i"

def parsePairs (s : String) : Option (List (Verdict × Verdict)) :=
  (s.splitOn ".").mapM (fun p =>
    match p.toList with
    | [x, y] => do let a ← verdictOf? x; let b ← verdictOf? y; pure (a, b)
    | _ => none)

def parseHook (t : String) : Option Hook :=
  match t.toList with
  | b :: rest =>
    let before? : Option Bool := if b = 'a' then some true else if b = 'r' then some false else none
    let after? : Option (Option Nat) :=
      match rest with
      | ['a'] => some none
      | 'r' :: ds => (String.ofList ds).toNat?.bind (fun c => if c < 2 ^ 62 then some (some c) else none)
      | _ => none
    match before?, after? with
    | some bf, some af => some ⟨bf, af⟩
    | _, _ => none
  | [] => none

def parseHooks (s : String) : Option (List Hook) :=
  if s = "-" then some [] else (s.splitOn ",").mapM parseHook

/-- The harness' filter: the verdict pair of the dial the source address belongs to. -/
def tableFilter (pairs : List (Verdict × Verdict)) : Filter := fun att =>
  match pairs[att.src]? with
  | some (x, y) => if att.validated then y else x
  | none => .reject

def dotted (l : List String) : String := if l.isEmpty then "-" else ".".intercalate l

def renderOutcome (o : COutcome) : String :=
  let f := if o.filterCalls.isEmpty then "-" else
    String.join (o.filterCalls.map (fun (v, vd) => (if v then "1" else "0") ++ letter vd))
  let r := match o.dial with
    | .ok a => s!"ok:{hexOfBytes a}"
    | .refused => "refused" | .noalpn => "noalpn" | .ignored => "ignored"
    | .rejBefore => "rej-before" | .selfConnect => "self" | .invalidAlpn => "invalid-alpn"
    | .rejAfter => "rej-after" | .closed c => s!"closed:{c}"
  let race := o.dial == .rejAfter
  let h := match o.onAccepting with
    | none => "-"
    | some (h, a) =>
      if race then s!"on{h}*" else
      match o.accept with
      | .yes => s!"on{h},ac{h}:{hexOfBytes a}"
      | _ => s!"on{h}"
  let dcalls := dotted (o.dBefore.map (fun i => s!"b{i}") ++ o.dAfter.map (fun i => s!"a{i}"))
  let acalls := match o.aAfter with
    | none => "*"
    | some l => dotted (l.map (fun i => s!"a{i}"))
  s!"{f}|{r}|{h}|{dcalls}|{acalls}"

structure DialSpec where
  toSelf : Bool
  offered : List Alpn

def parseDial (t : String) : Option DialSpec :=
  let (toSelf, rest) := if t.startsWith "@" then (true, (t.drop 1).toString) else (false, t)
  (parseOffer rest).map (fun o => ⟨toSelf, o⟩)

def handleLine (payload : String) : String :=
  match tokens payload with
  | "infra" :: _ => "infra"
  | r :: f :: d :: rest =>
    let hooks? : Option (Option (List (List Hook)) × List Hook) :=
      match rest with
      | [] => some (none, [])
      | [dh, ah] =>
        match (dh.dropPrefix? "DH=").bind (fun x => (x.toString.splitOn "/").mapM parseHooks),
              (ah.dropPrefix? "AH=").bind (fun x => parseHooks x.toString) with
        | some dh, some ah => some (some dh, ah)
        | _, _ => none
      | _ => none
    match (r.dropPrefix? "R=").bind (fun x => parseAlpns x.toString),
          (f.dropPrefix? "F="), (d.dropPrefix? "D="), hooks? with
    | some regs, some fs, some ds, some (dh?, ah) =>
      match (ds.toString.splitOn "/").mapM parseDial with
      | none => "bad-input"
      | some dials =>
        let dhs : List (List Hook) := match dh? with
          | some dh => dh
          | none => dials.map (fun _ => [])
        if dials.isEmpty ∨ dials.length > 4 ∨ dials.any (fun o => o.offered.isEmpty ∨ o.offered.length > 4)
            ∨ regs.length > 6 ∨ dhs.length ≠ dials.length ∨ dhs.any (·.length > 4) ∨ ah.length > 4 then
          "bad-input" else
        let filter? : Option (Option Filter) :=
          if fs.toString = "-" then some none else
          match parsePairs fs.toString with
          | some pairs => if pairs.length = dials.length then some (some (tableFilter pairs)) else none
          | none => none
        match filter? with
        | none => "bad-input"
        | some filter =>
          let outs := (dials.zip dhs).zipIdx.map (fun ((dial, dh), i) =>
            renderOutcome (connectRouted (if dial.toSelf then .self else .peer) regs filter i dial.offered dh ah))
          " ; ".intercalate outs
    | _, _, _, _ => "bad-input"
  | _ => "bad-input"

def main : IO Unit := Driver.run handleLine
