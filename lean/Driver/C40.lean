import Driver.Loop
import IrohModel.Common.Hex
import IrohModel.C40.Model
open IrohModel IrohModel.C40

def parseAlpns (s : String) : Option (List Alpn) :=
  if s = "-" then some [] else
  (s.splitOn ",").mapM (fun t => (bytesOfHex t).bind (fun b => if b.isEmpty ∨ b.length > 255 then none else some b))

def verdictOf? : Char → Option Verdict
  | 'a' => some .accept | 't' => some .retry | 'r' => some .reject | 'i' => some .ignore | _ => none

def letter : Verdict → String
  | .accept => "a" | .retry => "t" | .reject => "r" | .ignore => "i"

def parsePairs (s : String) : Option (List (Verdict × Verdict)) :=
  (s.splitOn ".").mapM (fun p =>
    match p.toList with
    | [x, y] => do let a ← verdictOf? x; let b ← verdictOf? y; pure (a, b)
    | _ => none)

/-- The harness' filter: the verdict pair of the dial the source address belongs to. -/
def tableFilter (pairs : List (Verdict × Verdict)) : Filter := fun att =>
  match pairs[att.src]? with
  | some (x, y) => if att.validated then y else x
  | none => .reject

def renderOutcome (o : Outcome) : String :=
  let f := if o.filterCalls.isEmpty then "-" else
    String.join (o.filterCalls.map (fun (v, vd) => (if v then "1" else "0") ++ letter vd))
  let r := match o.dial with
    | .ok a => s!"ok:{hexOfBytes a}"
    | .refused => "refused"
    | .noalpn => "noalpn"
    | .ignored => "ignored"
  let h := match o.handler with
    | none => "-"
    | some (h, a) => s!"on{h},ac{h}:{hexOfBytes a}"
  s!"{f}|{r}|{h}"

def handleLine (payload : String) : String :=
  match tokens payload with
  | "infra" :: _ => "infra"
  | [r, f, d] =>
    match (r.dropPrefix? "R=").bind (fun x => parseAlpns x.toString),
          (f.dropPrefix? "F="), (d.dropPrefix? "D=") with
    | some regs, some fs, some ds =>
      match (ds.toString.splitOn "/").mapM parseAlpns with
      | none => "bad-input"
      | some dials =>
        if dials.isEmpty ∨ dials.length > 4 ∨ dials.any (fun o => o.isEmpty ∨ o.length > 4) ∨ regs.length > 6 then
          "bad-input" else
        let filter? : Option (Option Filter) :=
          if fs.toString = "-" then some none else
          match parsePairs fs.toString with
          | some pairs => if pairs.length = dials.length then some (some (tableFilter pairs)) else none
          | none => none
        match filter? with
        | none => "bad-input"
        | some filter =>
          let m := build regs
          let outs := dials.zipIdx.map (fun (offered, i) => renderOutcome (dispatch m filter i offered))
          " ; ".intercalate outs
    | _, _, _ => "bad-input"
  | _ => "bad-input"

def main : IO Unit := Driver.run handleLine
