import Driver.Loop
import IrohModel.Common.Hex
import IrohModel.C22.Model
open IrohModel IrohModel.C22
open IrohModel.C23 (Path Status)

/-- `-` | `a,b,c` with every id below 4 000 000 (the harness' bound). -/
def parseAddrs (s : String) : Option (List Nat) :=
  if s = "-" then some []
  else (s.splitOn ",").mapM fun t => t.toNat?.bind fun a => if a < 4000000 then some a else none

def parseOne (s : String) : Option Nat :=
  match parseAddrs s with
  | some [a] => some a
  | _ => none

/-- One op of the model input: `<op> [@<order>]`. -/
def parseStep (s : String) : Option Step :=
  let (toks, order?) : List String × Option (List Nat) :=
    match tokens s with
    | [] => ([], some [])
    | ts =>
      let last := ts.getLast!
      if last.startsWith "@" then (ts.dropLast, parseAddrs (last.drop 1).toString) else (ts, some [])
  match order? with
  | none => none
  | some order =>
    let mk (op : Op) : Option Step := some ⟨op, order⟩
    match toks with
    | ["r", a] => (parseAddrs a).bind fun v => mk (.resolve v)
    | ["m", a] => (parseAddrs a).bind fun v => mk (.insertMultiple v)
    | ["o", a] => (parseOne a).bind fun v => mk (.insertOpen v)
    | ["a", a] => (parseOne a).bind fun v => mk (.abandon v)
    | ["p"] => mk .prune
    | ["t", ms] => ms.toNat?.bind fun t => if t ≤ 1000000 then mk (.advance t) else none
    | ["s", a] => if a = "-" then mk (.select none) else (parseOne a).bind fun v => mk (.select (some v))
    | ["i", a] => (parseAddrs a).bind fun v => mk (.lookupItem v false)
    | ["w", a] => (parseAddrs a).bind fun v => mk (.lookupItem v true)
    | ["e"] => mk (.advance 0)          -- an inline service error is filtered out: nothing happens
    | ["E"] => mk (.advance 0)          -- marker of connection-shaped histories: no handler call
    | ["d"] => mk .lookupEnd
    | ["n"] => mk .lookupPoll
    | _ => none

def needsService : Op → Bool
  | .lookupItem _ _ => true
  | .lookupEnd => true
  | _ => false

def insertAsc (x : Nat) : List Nat → List Nat
  | [] => [x]
  | y :: ys => if x ≤ y then x :: y :: ys else y :: insertAsc x ys

def sortAsc (xs : List Nat) : List Nat := xs.foldr insertAsc []

def showIds (xs : List Nat) : String :=
  if xs.isEmpty then "-" else ",".intercalate (xs.map toString)

def showAnswer (a : Answer) : String :=
  match a.2 with
  | .ok => s!"+{a.1}"
  | .err .noService => s!"-{a.1}:ns"
  | .err .noResults => s!"-{a.1}:nr"

def showStatus : Status → String
  | .open => "o"
  | .unknown => "k"
  | .unusable => "u"
  | .inactive t => s!"i{t}"

def showFinal (paths : List Path) : String :=
  let ids := sortAsc (paths.map (·.id))
  if ids.isEmpty then "-"
  else ",".intercalate (ids.filterMap fun i => (findId paths i).map fun p => s!"{i}:{showStatus p.status}")

def handleLine (payload : String) : String :=
  match payload.splitOn ";" with
  | [] => "bad-input"
  | hd :: rest =>
    let k? : Option Nat := if hd = "L0" then some 0 else if hd = "L1" then some 1 else if hd = "L2" then some 2 else none
    match k?, rest.mapM parseStep with
    | some k, some steps =>
      -- raw `e` ops were parsed as no-ops; they, items and `d` need a service
      if k == 0 && (steps.any (fun st => needsService st.op) || rest.any (fun r => tokens r == ["e"])) then "bad-input"
      else
        let (s, outs) := steps.foldl (fun (acc : State × List String) st =>
          let s := acc.1
          let (s', ans) := step s st
          let removed := sortAsc ((s.paths.filter fun p => !hasId s'.paths p.id).map (·.id))
          let o := s!"A{if ans.isEmpty then "-" else ",".intercalate (ans.map showAnswer)}|P{s'.paths.length}|Q{s'.pending.length}|L{if s'.lookup then 1 else 0}|X{showIds removed}"
          (s', o :: acc.2)) (init (k != 0), [])
        s!"{";".intercalate outs.reverse} F {showFinal s.paths}"
    | _, _ => "bad-input"

def main : IO Unit := Driver.run handleLine
