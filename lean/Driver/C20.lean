import Driver.Loop
import IrohModel.Common.Hex
import IrohModel.C20.Model
open IrohModel IrohModel.C20

/-- `<fam>:<prefix>:<flag>:<req>` -/
def parseReq (s : String) : Option Req :=
  match s.splitOn ":" with
  | [f, p, fl, rq] => do
    let family ← (if f = "4" then some Family.v4 else if f = "6" then some Family.v6 else none)
    let prefixLen ← p.toNat?
    let flag ← (if fl = "u" then some none else if fl = "t" then some (some true)
                else if fl = "f" then some (some false) else none)
    let required ← (if rq = "r" then some true else if rq = "n" then some false else none)
    pure ⟨family, prefixLen, flag, required⟩
  | _ => none

def handleLine (payload : String) : String :=
  let reqs? : Option (List Req) :=
    if payload = "-" then some [] else (payload.splitOn ";").mapM parseReq
  match reqs? with
  | none => "bad-input"
  | some reqs =>
    match addAll initial 0 reqs with
    | .ok _ => "ok"
    | .error (.dup, i) => s!"err:dup@{i}"
    | .error (.badPrefix, i) => s!"err:prefix@{i}"

def main : IO Unit := Driver.run handleLine
