import Driver.Loop
import IrohModel.Common.Hex
import IrohModel.C02.Model
open IrohModel IrohModel.C02

namespace DriverC02

def algOf : String → Option BaseN
  | "hex" => some hexLower
  | "hexperm" => some hexPermissive
  | "b32" => some base32
  | "b32hex" => some base32Hex
  | "dnssec" => some base32Dnssec
  | "z32" => some zbase32
  | "b64url" => some base64Url
  | _ => none

def hx := hexOfBytes

/-- The `validPoint` answers the harness obtained from curve25519-dalek: one table entry. -/
def vpTable (key : Bytes) (bit : Bool) : Bytes → Bool := fun b => bit && b == key

def keyErrName : KeyErr → String
  | .hex => "hex" | .base32 => "base32" | .length => "length" | .keyData => "keydata"

def describeKey (k : PublicKey) : String :=
  match k.fmtShort with
  | .ok short =>
    s!"ok {hx k.bytes} disp={hx k.display} short={hx short} z32={hx k.toZ32} dbg={hx k.debug}"
  | _ => "panic"

def showKey : Res KeyErr PublicKey → String
  | .ok k => describeKey k
  | .err e => s!"err:{keyErrName e}"
  | .panic => "panic"

def showBytes : Res KeyErr Bytes → String
  | .ok b => s!"ok {hx b}"
  | .err e => s!"err:{keyErrName e}"
  | .panic => "panic"

def describeAddr (a : CustomAddr) : String :=
  match a.dataBytes, a.display, a.toVec, a.toPostcard, a.debug with
  | .ok d, .ok s, .ok v, .ok p, .ok g =>
    s!"id={a.id.toNat} data={hx d} kind={a.data.kind} str={hx s} vec={hx v} pc={hx p} dbg={hx g} hash={hx a.hashFeed}"
  | _, _, _, _, _ => "panic"

def addrErrName : AddrErr → String
  | .sep => "sep" | .id => "id" | .data => "data" | .short => "short"

def showAddr : Res AddrErr CustomAddr → String
  | .ok a => match describeAddr a with
    | "panic" => "panic"
    | d => s!"ok {d}"
  | .err e => s!"err:{addrErrName e}"
  | .panic => "panic"

def ordName : Ordering → String
  | .lt => "lt" | .eq => "eq" | .gt => "gt"

def bit (b : Bool) : String := if b then "1" else "0"

def handleTokens : List String → Option String
  | ["enc", alg, data] => do
    let b ← algOf alg
    let d ← bytesOfHex data
    pure (hx (b.encodeBytes d))
  | ["dec", alg, str] => do
    let b ← algOf alg
    let s ← bytesOfHex str
    pure (match b.decodeBytes s with
      | some d => s!"ok {hx d}"
      | none => "err")
  | ["pk-str", str, vpkey, vpbit] => do
    let s ← bytesOfHex str
    let k ← bytesOfHex vpkey
    pure (showKey (PublicKey.fromStr (vpTable k (vpbit == "1")) s))
  | ["pk-z32", str, vpkey, vpbit] => do
    let s ← bytesOfHex str
    let k ← bytesOfHex vpkey
    pure (showKey (PublicKey.fromZ32 (vpTable k (vpbit == "1")) s))
  | ["pk-bytes", data, vpbit] => do
    let d ← bytesOfHex data
    pure (showKey (PublicKey.tryFromSlice (vpTable d (vpbit == "1")) d))
  | ["sk-str", str] => do
    let s ← bytesOfHex str
    pure (showBytes (secretKeyFromStr s))
  | ["sk-bytes", data] => do
    let d ← bytesOfHex data
    pure (showBytes (secretKeyFromSlice d))
  | ["sig-bytes", data] => do
    let d ← bytesOfHex data
    pure (match signatureFromSlice d with
      | .ok b => s!"ok {hx b}"
      | .err _ => "err:sig"
      | .panic => "panic")
  | ["sig", sk, msg, sk2, msg2] =>
    -- ideal-scheme assumption (recorded in props/C02.json): a signature verifies exactly
    -- under the signing key's public key for the signed message
    let t (b : Bool) := if b then "ok" else "err"
    some s!"own=ok othermsg={t (msg == msg2)} otherkey={t (sk == sk2)}"
  | ["ca-parts", id, data] => do
    let i ← id.toNat?
    let d ← bytesOfHex data
    pure (match CustomAddr.fromParts (UInt64.ofNat i) d with
      | .ok a => describeAddr a
      | _ => "panic")
  | ["ca-str", str] => do
    let s ← bytesOfHex str
    pure (showAddr (CustomAddr.fromStr s))
  | ["ca-bin", data] => do
    let d ← bytesOfHex data
    pure (showAddr (CustomAddr.fromBytes d))
  | ["ca-pc", data] => do
    let d ← bytesOfHex data
    pure (match CustomAddr.fromPostcard d with
      | .ok (a, rest) => match describeAddr a with
        | "panic" => "panic"
        | desc => s!"ok {desc} rest={rest.length}"
      | .err .unexpectedEnd => "err:end"
      | .err .badVarint => "err:varint"
      | .panic => "panic")
  | ["ca-cmp", id1, d1, id2, d2] => do
    let i1 ← id1.toNat?
    let i2 ← id2.toNat?
    let b1 ← bytesOfHex d1
    let b2 ← bytesOfHex d2
    pure (match CustomAddr.fromParts (UInt64.ofNat i1) b1, CustomAddr.fromParts (UInt64.ofNat i2) b2 with
      | .ok a, .ok b =>
        s!"eq={bit (decide (a = b))} cmp={ordName (a.cmp b)} hasheq={bit (a.hashFeed == b.hashFeed)}"
      | _, _ => "panic")
  | ["ca-json", _] => some "checked"   -- serde_json is outside the model: oracle only
  | ["ea-pc", _] => some "checked"     -- EndpointAddr (url, SocketAddr) likewise
  | ["ea", _] => some "checked"
  | ["url", _] => some "checked"
  | _ => none

def handleLine (payload : String) : String :=
  match handleTokens (tokens payload) with
  | some out => out
  | none => "bad-input"

end DriverC02

def main : IO Unit := Driver.run DriverC02.handleLine
