import Driver.Loop
import IrohModel.Common.Hex
import IrohModel.C42.Model
open IrohModel IrohModel.C42

def parseHook (t : String) : Option Hook :=
  match t.toList with
  | b :: rest =>
    let before? : Option Bool := if b = 'a' then some true else if b = 'r' then some false else none
    let after? : Option (Option Nat) :=
      match rest with
      | ['a'] => some none
      | 'r' :: ds => (String.ofList ds).toNat?.bind (fun c => if c < 2 ^ 62 then some (some c) else none)
      | _ => none
    match before?, after? with
    | some bf, some af => some ⟨bf, af⟩
    | _, _ => none
  | [] => none

def parseHooks (s : String) : Option (List Hook) :=
  if s = "-" then some [] else (s.splitOn ",").mapM parseHook

def joinCalls (pfx : String) (l : List Nat) : List String := l.map (fun i => s!"{pfx}{i}")

def dotted (l : List String) : String := if l.isEmpty then "-" else ".".intercalate l

def render (o : Outcome) : String :=
  let d := match o.dres with
    | .rejBefore => "rej-before" | .selfConnect => "self" | .invalidAlpn => "invalid-alpn"
    | .noAlpn => "noalpn" | .rejAfter => "rej-after" | .closed c => s!"closed:{c}" | .estab => "estab"
  let a := match o.ares with
    | .none => "none" | .hsFailed => "hs-failed" | .peerRejected _ => "peer-rejected"
    | .rejAfter => "rej-after" | .estab => "estab"
  let ac := match o.aAfter with
    | none => "*"
    | some l => dotted (joinCalls "a" l)
  s!"d:{dotted (joinCalls "b" o.dBefore ++ joinCalls "a" o.dAfter)}|{d} a:{ac}|{a}"

def handleLine (payload : String) : String :=
  match tokens payload with
  | "infra" :: _ => "infra"
  | [t, a, dh, ah] =>
    let t? : Option Target := if t = "T=peer" then some .peer else if t = "T=self" then some .self else none
    let a? : Option AlpnKind :=
      if a = "A=ok" then some .ok else if a = "A=other" then some .other else if a = "A=empty" then some .empty else none
    match t?, a?, (dh.dropPrefix? "DH=").bind (fun x => parseHooks x.toString),
          (ah.dropPrefix? "AH=").bind (fun x => parseHooks x.toString) with
    | some t, some a, some dh, some ah =>
      if dh.length > 4 ∨ ah.length > 4 then "bad-input" else render (connect t a dh ah)
    | _, _, _, _ => "bad-input"
  | _ => "bad-input"

def main : IO Unit := Driver.run handleLine
