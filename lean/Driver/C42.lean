import Driver.Loop
import IrohModel.Common.Hex
import IrohModel.C42.Model
open IrohModel IrohModel.C42

def parseHook (t : String) : Option Hook :=
  match t.toList with
  | b :: rest =>
    let before? : Option Bool := if b = 'a' then some true else if b = 'r' then some false else none
    let after? : Option (Option Nat) :=
      match rest with
      | ['a'] => some none
      | 'r' :: ds => (String.ofList ds).toNat?.bind (fun c => if c < 2 ^ 62 then some (some c) else none)
      | _ => none
    match before?, after? with
    | some bf, some af => some ⟨bf, af⟩
    | _, _ => none
  | [] => none

def parseHooks (s : String) : Option (List Hook) :=
  if s = "-" then some [] else (s.splitOn ",").mapM parseHook

def joinCalls (pfx : String) (l : List Nat) : List String := l.map (fun i => s!"{pfx}{i}")

def dotted (l : List String) : String := if l.isEmpty then "-" else ".".intercalate l

def render (v : VOutcome) : String :=
  let o := v.base
  let d := match o.dres with
    | .rejBefore => "rej-before" | .selfConnect => "self" | .invalidAlpn => "invalid-alpn"
    | .noAlpn => "noalpn" | .rejAfter => "rej-after" | .closed c => s!"closed:{c}" | .estab => "estab"
  let a := match o.ares with
    | .none => "none" | .hsFailed => "hs-failed" | .peerRejected _ => "peer-rejected"
    | .rejAfter => "rej-after" | .estab => "estab"
  let ac := match o.aAfter with
    | none => "*"
    | some l => dotted (joinCalls "a" l)
  let z := match v.z with
    | .notAttempted => "-" | .handedBack => "none" | .accepted => "acc" | .rejected => "rej" | .unknown => "?"
  let peerRejected := o.dres == .rejAfter
  let early := if peerRejected then "*" else match v.aEarly with
    | .none => "-" | .pre => "pre" | .unspecified => "*"
  s!"d:{dotted (joinCalls "b" o.dBefore ++ joinCalls "a" o.dAfter)}|{d}|{z} a:{ac}|{a}|{early}"

def parseVariants (s : String) : Option (DVariant × AVariant) :=
  match s.splitOn "/" with
  | [d, a] =>
    let dv? : Option DVariant := match d with
      | "c" => some .connect | "o" => some .opts | "zn" => some .zNoTicket
      | "za" => some .zAccepted | "zr" => some .zRejected | _ => none
    let av? : Option AVariant := match a with
      | "a" => some .accepting | "i" => some .incoming | "z" => some .zeroRtt | _ => none
    match dv?, av? with
    | some dv, some av => some (dv, av)
    | _, _ => none
  | _ => none

def handleLine (payload : String) : String :=
  match tokens payload with
  | "infra" :: _ => "infra"
  | t :: a :: dh :: ah :: rest =>
    let t? : Option Target := if t = "T=peer" then some .peer else if t = "T=self" then some .self else none
    let a? : Option AlpnKind :=
      if a = "A=ok" then some .ok else if a = "A=other" then some .other else if a = "A=empty" then some .empty else none
    let v? : Option (DVariant × AVariant) := match rest with
      | [] => some (.opts, .accepting)
      | [v] => (v.dropPrefix? "V=").bind (fun x => parseVariants x.toString)
      | _ => none
    match t?, a?, (dh.dropPrefix? "DH=").bind (fun x => parseHooks x.toString),
          (ah.dropPrefix? "AH=").bind (fun x => parseHooks x.toString), v? with
    | some t, some a, some dh, some ah, some (dv, av) =>
      if dh.length > 4 ∨ ah.length > 4 then "bad-input"
      else if dv.attempts0rtt ∧ ¬ (t = .peer ∧ a = .ok) then "bad-input"
      else render (connectV dv av t a dh ah)
    | _, _, _, _, _ => "bad-input"
  | _ => "bad-input"

def main : IO Unit := Driver.run handleLine
