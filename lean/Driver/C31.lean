import Driver.Loop
import IrohModel.Common.Hex
import IrohModel.C31.Model
import IrohModel.C31.CustomAddrCodec
open IrohModel IrohModel.C31

/-- hex of UTF-8 bytes → string (`-` = empty). -/
def strOfHex (h : String) : Option Str := do
  let bs ← bytesOfHex h
  let s ← String.fromUTF8? (ByteArray.mk bs.toArray)
  pure s.toList

def hexOfStr (s : Str) : String := hexOfBytes (String.ofList s).toUTF8.toList

def optStrOfHex (h : String) : Option (Option Str) :=
  if h = "~" then some none else (strOfHex h).map some

def field? (tok key : String) : Option String :=
  if tok.startsWith (key ++ "=") then some (tok.drop (key.length + 1)).toString else none

structure Verdict where
  s : Str
  url : Option Str
  ip : Option Str
  custom : Option Str

def parseDict (d : String) : Option (List Verdict) :=
  if d = "~" then some [] else
  (d.splitOn ",").mapM fun e =>
    match e.splitOn "/" with
    | [s, u, i, c] => do
      pure ⟨← strOfHex s, ← optStrOfHex u, ← optStrOfHex i, ← optStrOfHex c⟩
    | _ => none

def noVerdict : Str := "?no-verdict?".toList

def codecsOf (d : List Verdict) (validKey : Bool) : Codecs where
  parseUrl s := match d.find? (·.s = s) with | some v => v.url | none => some noVerdict
  parseIp s := match d.find? (·.s = s) with | some v => v.ip | none => some noVerdict
  parseCustom s := match d.find? (·.s = s) with | some v => v.custom | none => some noVerdict
  validKey _ := validKey

def parseAddrTok (t : String) : Option Addr :=
  match t.splitOn ":" with
  | ["r", h] => (strOfHex h).map .relay
  | ["i", h] => (strOfHex h).map .ip
  | ["c", h] => (strOfHex h).map .custom
  | _ => none

def addrTok : Addr → String
  | .relay s => s!"r:{hexOfStr s}"
  | .ip s => s!"i:{hexOfStr s}"
  | .custom s => s!"c:{hexOfStr s}"

def listOr (l : List String) : String := if l.isEmpty then "~" else ",".intercalate l

def parseErrName : ParseErr → String
  | .unexpectedFormat => "UnexpectedFormat" | .attrFromString => "AttrFromString"
  | .numLabels => "NumLabels" | .notAnIrohRecord => "NotAnIrohRecord" | .decodingError => "DecodingError"

def renderInfo : Except ParseErr Info → String
  | .error e => s!"err:{parseErrName e}"
  | .ok i =>
    let ud := match i.userData with | some u => hexOfStr u | none => "~"
    s!"ok(id={hexOfBytes i.id};a={listOr (i.addrs.map addrTok)};ud={ud})"

/-- The C02 custom-address codec must agree with the real `CustomAddr::from_str` verdicts. -/
def codecMismatch (d : List Verdict) : Option String :=
  (d.find? fun v => c02ParseCustom v.s != v.custom).map fun v => s!"custom-codec-mismatch:{hexOfStr v.s}"

def handleCase (payload : String) : String :=
  match tokens payload with
  | ["rt", _sk, pk, id, a, ud, d] =>
    match field? pk "pk" >>= bytesOfHex, field? id "id" >>= bytesOfHex, field? a "a", field? ud "ud",
          field? d "d" >>= parseDict with
    | some pk, some id, some a, some ud, some dict =>
      let addrs? : Option (List Addr) := if a = "~" then some [] else (a.splitOn ",").mapM parseAddrTok
      match addrs?, optStrOfHex ud with
      | some addrs, some ud =>
        match (match ud with | none => some none | some u => (mkUserData u).map some) with
        | none => "ud-too-long"
        | some userData =>
          let C := codecsOf dict true
          let info : Info := ⟨id, addrs, userData⟩
          let strings := toTxtStrings (toAttrs info)
          let lk := fromTxtLookup C (txtName id "dns.example.org.".toList) strings
          let (pkt, rp) := match toSignedPacket pk info with
            | .ok p => ("ok", renderInfo (fromSignedPacket C p))
            | .error .dnsError => ("err:DnsError", "na")
            | .error .packetTooLarge => ("err:PacketTooLarge", "na")
          s!"txt={listOr (strings.map hexOfStr)} lk={renderInfo lk} pkt={pkt} rp={rp}"
      | _, _ => "bad-input"
    | _, _, _, _, _ => "bad-input"
  | ["raw", name, kv, t, d] =>
    match field? name "name" >>= strOfHex, field? kv "kv", field? t "t", field? d "d" >>= parseDict with
    | some name, some kv, some t, some dict =>
      let strings? : Option (List Str) := if t = "~" then some [] else (t.splitOn ",").mapM strOfHex
      match strings? with
      | some strings => s!"lk={renderInfo (fromTxtLookup (codecsOf dict (kv = "1")) name strings)}"
      | none => "bad-input"
    | _, _, _, _ => "bad-input"
  | _ => "bad-input"

def handleLine (payload : String) : String :=
  let dictTok := (tokens payload).find? (·.startsWith "d=")
  match dictTok >>= (field? · "d") >>= parseDict >>= codecMismatch with
  | some m => m
  | none => handleCase payload

def main : IO Unit := Driver.run handleLine
