import Driver.Loop
import IrohModel.Common.Hex
import IrohModel.C38.Model
open IrohModel IrohModel.Pkarr IrohModel.LTS IrohModel.C38

/-
payload: `old=<ts.id|none> warm=<0|1> th=<L|P<ts>.<id>>,... sch=<digits>` (see the harness
binary c38.rs).  A packet `ts.id` is modelled with the two bytes of the DNS message id as
its payload (the rest of the payload is a function of `ts.id`, so the order is the same).
-/

def parseVal (s : String) : Option Packet :=
  match s.splitOn "." with
  | [t, i] => do
    let t ← t.toNat?
    let i ← i.toNat?
    pure ⟨0, 0, t, [UInt8.ofNat (i / 256), UInt8.ofNat (i % 256)]⟩
  | _ => none

def fmtVal : Option Packet → String
  | none => "none"
  | some p =>
    let id := match p.payload with
      | [a, b] => a.toNat * 256 + b.toNat
      | _ => 0
    s!"{p.ts}.{id}"

def isDone : Thread → Bool
  | .lDone _ _ => true
  | .pDone _ _ => true
  | _ => false

def showState (s : State) : String :=
  let c := if s.lock.isSome then "L" else match s.cache with
    | none => "none"
    | some p => toString p.ts
  s!"{fmtVal s.store},{c}"

def hold : Bool := Generated.C38.lockHeldAcrossStoreRead

/-- Event of a step taken by thread `idx` (state after the step). -/
def evOf (s' : State) (idx : Nat) : String :=
  match s'.threads[idx]? with
  | some (.lDone _ a) => s!"ans:{fmtVal a}"
  | some (.pDone _ b) => if b then "ack:1" else "ack:0"
  | _ => "ok"

/-- Driver state: the LTS state plus the threads that ran into the held cache lock and are
parked on the mutex (FIFO, as tokio's mutex hands it over). -/
structure DSt where
  s : State
  pending : List Nat

/-- The parked threads take their step, in order, as soon as it is enabled. -/
partial def servePending (off : Nat) (d : DSt) (acc : String) : DSt × String :=
  match d.pending with
  | [] => (d, acc)
  | h :: rest =>
    match step hold d.s (.run h) with
    | none => (d, acc)
    | some s' => servePending off ⟨s', rest⟩ (acc ++ s!"+{h - off}:{evOf s' h}")

/-- One schedule token for model thread index `idx`. -/
def token (off : Nat) (d : DSt) (idx : Nat) : DSt × String :=
  match d.s.threads[idx]? with
  | none => (d, "-")
  | some t =>
    if isDone t then (d, "-") else
    if d.pending.contains idx then (d, "b") else
    match step hold d.s (.run idx) with
    | none => (⟨d.s, d.pending ++ [idx]⟩, "b")
    | some s' => servePending off ⟨s', d.pending⟩ (evOf s' idx)

def field (toks : List String) (k : String) : Option String :=
  toks.findSome? fun t => if t.startsWith (k ++ "=") then some (t.drop (k.length + 1)).toString else none

def handleLine (payload : String) : String :=
  let toks := tokens payload
  match field toks "old", field toks "warm", field toks "th", field toks "sch" with
  | some old, some warm, some th, some sch =>
    let old := parseVal old
    let ths := (th.splitOn ",").filter (· ≠ "")
    let labels? : Option (List Label) := ths.mapM fun t =>
      if t = "L" then some Label.spawnLookup
      else if t.startsWith "P" then (parseVal (t.drop 1).toString).map Label.spawnPublish
      else none
    match labels? with
    | none => "bad-input"
    | some labels =>
      let k := labels.length
      let sched := sch.toList.map fun c => c.toNat - 48
      if sched.any (· ≥ k) || k > 9 then "bad-input" else
      let off := if old.isSome then 1 else 0
      let s0 := run (sys hold old (warm = "1")) (initState old (warm = "1")) labels
      let allDone (s : State) : Bool := (s.threads.drop off).all isDone
      -- explicit schedule
      let (d1, outs1) := sched.foldl (fun (acc : DSt × List String) i =>
        let (d', ev) := token off acc.1 (i + off)
        (d', s!"{ev},{showState d'.s}" :: acc.2)) ((⟨s0, []⟩ : DSt), [])
      -- drain
      let drain := (List.range (3 * k + 3)).flatMap fun _ => List.range k
      let (d2, outs2) := drain.foldl (fun (acc : DSt × List String) i =>
        if allDone acc.1.s then acc else
        let (d', ev) := token off acc.1 (i + off)
        (d', s!"{ev},{showState d'.s}" :: acc.2)) (d1, outs1)
      let s2 := d2.s
      let outs2 := if allDone s2 then outs2 else "unfinished" :: outs2
      -- a fresh lookup and a packet read after everything
      let n := s2.threads.length
      let s3 := run (sys hold old false) s2 [.spawnLookup, .run n, .run n, .run n]
      let fin := match s3.threads[n]? with
        | some (.lDone _ a) => fmtVal a
        | _ => "stuck"
      " ".intercalate (outs2.reverse ++ [s!"final={fin}", s!"read={fmtVal s3.store}"])
  | _, _, _, _ => "bad-input"

def main : IO Unit := Driver.run handleLine
