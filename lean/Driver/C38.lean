import Driver.Loop
import IrohModel.Common.Hex
import IrohModel.C38.Model
open IrohModel IrohModel.Pkarr IrohModel.LTS IrohModel.C38

/-
payload: `old=<ts.id|none> warm=<0|1> th=<L|P<ts>.<id>>,... sch=<digits>` (see the harness
binary c38.rs).  A packet `ts.id` is modelled with the two bytes of the DNS message id as
its payload (the rest of the payload is a function of `ts.id`, so the order is the same).
-/

def parseVal (s : String) : Option Packet :=
  match s.splitOn "." with
  | [t, i] => do
    let t ← t.toNat?
    let i ← i.toNat?
    pure ⟨0, 0, t, [UInt8.ofNat (i / 256), UInt8.ofNat (i % 256)]⟩
  | _ => none

def fmtVal : Option Packet → String
  | none => "none"
  | some p =>
    let id := match p.payload with
      | [a, b] => a.toNat * 256 + b.toNat
      | _ => 0
    s!"{p.ts}.{id}"

def isDone : Thread → Bool
  | .lDone _ _ => true
  | .pDone _ _ => true
  | _ => false

def showState (s : State) : String :=
  let c := if s.lock.isSome then "L" else match s.cache with
    | none => "none"
    | some p => toString p.ts
  s!"{fmtVal s.store},{c}"

def hold : Bool := Generated.C38.lockHeldAcrossStoreRead

/-- One schedule token for model thread index `idx`. -/
def token (s : State) (idx : Nat) : State × String :=
  match s.threads[idx]? with
  | none => (s, "-")
  | some t =>
    if isDone t then (s, "-") else
    match step hold s (.run idx) with
    | none => (s, "b")
    | some s' =>
      let ev := match s'.threads[idx]? with
        | some (.lDone _ a) => s!"ans:{fmtVal a}"
        | some (.pDone _ b) => if b then "ack:1" else "ack:0"
        | _ => "ok"
      (s', ev)

def field (toks : List String) (k : String) : Option String :=
  toks.findSome? fun t => if t.startsWith (k ++ "=") then some (t.drop (k.length + 1)).toString else none

def handleLine (payload : String) : String :=
  let toks := tokens payload
  match field toks "old", field toks "warm", field toks "th", field toks "sch" with
  | some old, some warm, some th, some sch =>
    let old := parseVal old
    let ths := (th.splitOn ",").filter (· ≠ "")
    let labels? : Option (List Label) := ths.mapM fun t =>
      if t = "L" then some Label.spawnLookup
      else if t.startsWith "P" then (parseVal (t.drop 1).toString).map Label.spawnPublish
      else none
    match labels? with
    | none => "bad-input"
    | some labels =>
      let k := labels.length
      let sched := sch.toList.map fun c => c.toNat - 48
      if sched.any (· ≥ k) || k > 9 then "bad-input" else
      let off := if old.isSome then 1 else 0
      let s0 := run (sys hold old (warm = "1")) (initState old (warm = "1")) labels
      let allDone (s : State) : Bool := (s.threads.drop off).all isDone
      -- explicit schedule
      let (s1, outs1) := sched.foldl (fun (acc : State × List String) i =>
        let (s', ev) := token acc.1 (i + off)
        (s', s!"{ev},{showState s'}" :: acc.2)) (s0, [])
      -- drain
      let drain := (List.range (3 * k + 3)).flatMap fun _ => List.range k
      let (s2, outs2) := drain.foldl (fun (acc : State × List String) i =>
        if allDone acc.1 then acc else
        let (s', ev) := token acc.1 (i + off)
        (s', s!"{ev},{showState s'}" :: acc.2)) (s1, outs1)
      let outs2 := if allDone s2 then outs2 else "unfinished" :: outs2
      -- a fresh lookup and a packet read after everything
      let n := s2.threads.length
      let s3 := run (sys hold old false) s2 [.spawnLookup, .run n, .run n, .run n]
      let fin := match s3.threads[n]? with
        | some (.lDone _ a) => fmtVal a
        | _ => "stuck"
      " ".intercalate (outs2.reverse ++ [s!"final={fin}", s!"read={fmtVal s3.store}"])
  | _, _, _, _ => "bad-input"

def main : IO Unit := Driver.run handleLine
