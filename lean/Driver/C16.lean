import Driver.Loop
import IrohModel.Common.Hex
import IrohModel.C16.Model
open IrohModel IrohModel.C16

def ecnOfCode (c : Nat) : Option Ecn :=
  match c % 4 with
  | 1 => some .ect1
  | 2 => some .ect0
  | 3 => some .ce
  | _ => none

def ecnCode : Option Ecn → Nat
  | none => 0
  | some .ect1 => 1
  | some .ect0 => 2
  | some .ce => 3

def segCode (s : Option Nat) : Nat := s.getD 0

def fnv64 (bs : Bytes) : UInt64 :=
  bs.foldl (fun h b => (h ^^^ b.toUInt64) * 0x100000001b3) 0xcbf29ce484222325

def compact (bs : Bytes) : String :=
  if bs.length ≤ 48 then hexOfBytes bs else s!"#{bs.length}:{(fnv64 bs).toNat}"

def renderStep (st : Step) : String :=
  s!"{ecnCode st.taken.ecn}/{segCode st.taken.segmentSize}/{compact st.taken.contents}>{segCode st.rest.segmentSize}"

def handleLine (payload : String) : String :=
  match tokens payload with
  | [e, s, n, h] =>
    match e.toNat?, s.toNat?, n.toNat?, bytesOfHex h with
    | some e, some s, some n, some bs =>
      if s > 65535 ∨ n > usizeMax then "bad-input" else
      let d : Datagrams := { ecn := ecnOfCode e, segmentSize := if s = 0 then none else some s, contents := bs }
      let (steps, stuck) := takeAll n d
      ";".intercalate (steps.map renderStep) ++ (if stuck then " stuck" else "")
    | _, _, _, _ => "bad-input"
  | _ => "bad-input"

def main : IO Unit := Driver.run handleLine
