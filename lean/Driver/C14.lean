import Driver.Loop
import IrohModel.Common.Hex
import IrohModel.C14.Model
open IrohModel IrohModel.C14

/-!
payload: `<max_timeout_ms> <op>;<op>;…`   ops:
  `p`        new_ping()                       `pt <ms>`  new_ping_with_timeout(ms)
  `g <k>`    pong carrying the data of the k-th successfully issued ping (0-based;
             out of range = a payload never issued)
  `f <16 hex>` pong carrying these 8 bytes (never equal to issued data: the harness re-runs on collision)
  `a <ms>`   let `ms` of virtual time pass        `w <ms>`  `timeout(ms, tracker.timeout())`
output: one token per op, `<outcome>/<ping_timeout() in ms | panic>`.
-/

/-- Ping payloads as the driver sees them: the k-th issued (random, pairwise distinct and
distinct from every forged value) or a forged constant. -/
inductive D where
  | issued (k : Nat)
  | forged (s : String)
deriving DecidableEq

def decimal? (s : String) : Option Nat :=
  if s.isEmpty || s.length > 12 || !s.all Char.isDigit then none else s.toNat?

def isHex16 (s : String) : Bool :=
  s.length == 16 && s.all fun c => c.isDigit || ('a' ≤ c && c ≤ 'f')

structure World where
  now : Nat
  s : State D
  issued : Nat

def showTimeout (s : State D) : String :=
  match pingTimeout s with
  | none => "panic"
  | some t => toString t

def showOut : Out → String
  | .ok => "ok" | .panic => "panic" | .fired => "fired" | .pending => "pending"

/-- Runs one op; `none` = malformed op. -/
def runOp (w : World) (toks : List String) : Option (World × String) :=
  match toks with
  | ["p"] =>
    let (s', o) := step w.s w.now (.ping (.issued w.issued) none)
    some ({ w with s := s', issued := if o == .ok then w.issued + 1 else w.issued }, showOut o)
  | ["pt", ms] => do
    let ms ← decimal? ms
    let (s', o) := step w.s w.now (.ping (.issued w.issued) (some ms))
    some ({ w with s := s', issued := w.issued + 1 }, showOut o)
  | ["g", k] => do
    let k ← decimal? k
    let d := if k < w.issued then D.issued k else D.forged "out-of-range"
    let (s', o) := step w.s w.now (.pong d)
    some ({ w with s := s' }, showOut o)
  | ["f", h] =>
    if isHex16 h then
      let (s', o) := step w.s w.now (.pong (.forged h))
      some ({ w with s := s' }, showOut o)
    else none
  | ["a", ms] => do
    let ms ← decimal? ms
    some ({ w with now := w.now + ms }, "ok")
  | ["w", ms] => do
    let ms ← decimal? ms
    let (s', now', o) := wait w.s w.now ms
    let txt := if o == .fired then s!"fired:{now' - w.now}" else showOut o
    some ({ w with s := s', now := now' }, txt)
  | _ => none

def runOps (w : World) : List String → List String → Option (List String)
  | [], acc => some acc.reverse
  | op :: rest, acc =>
    match runOp w (tokens op) with
    | none => none
    | some (w', o) => runOps w' rest (s!"{o}/{showTimeout w'.s}" :: acc)

/-! `A <stall 0|1> <ping 0|1> <drop: - | k<ms> | i<ms>> <redial ms>` — a scenario played against the
real `ActiveRelayActor` through a TCP forwarder (see harness/hiroh/src/bin/c14.rs); the model
plays it with nominal times: connection 1 at 0 with its first ping answered at once, the
optional stall and `CheckConnection` ping at 100 ms. -/

def awaitA (a : Actor D) (now ms : Nat) : Actor D × Nat × Option Nat :=
  match a.conn with
  | some c =>
    match c.tracker.inner with
    | some p =>
      if p.deadline ≤ now + ms then
        let t := max now p.deadline
        match astep a t (.tr .poll) with
        | (a', .dead n) => (a', t, some n)
        | (a', _) => (a', now + ms, none)
      else (a, now + ms, none)
    | none => (a, now + ms, none)
  | none => (a, now + ms, none)

def trA (a : Actor D) (now : Nat) (op : Op D) : Actor D := (astep a now (.tr op)).1

def runA (stall ping : Bool) (drop : Option Nat) (redial : Nat) : String :=
  let a : Actor D := Actor.start
  let a := (astep a 0 .connected).1
  let a := trA a 0 (.ping (.issued 0) none)
  let a := trA a 0 (.pong (.issued 0))
  let a := if ping then trA a 100 (.ping (.issued 1) none) else a
  let a := if ping && !stall then trA a 100 (.pong (.issued 1)) else a
  let window := drop.getD 1300
  let (a, t, dead) := awaitA a 100 window
  match dead, drop with
  | none, none => "c1 alive1"
  | _, _ =>
    let (a, first) := match dead with
      | some n => (a, s!"dead{n}")
      | none => ((astep a t .lost).1, "lost1")
    let t2 := t + redial
    let a := (astep a t2 .connected).1
    let a := trA a t2 (.ping (.issued 2) none)
    let a := trA a t2 (.pong (.issued 2))
    let (_, _, dead2) := awaitA a t2 450
    let last := match dead2 with
      | some n => s!"dead{n}"
      | none => "alive2"
    s!"c1 {first} c2 {last}"

def natLe? (s : String) (hi : Nat) : Option Nat := do
  let n ← decimal? s
  if n ≤ hi then some n else none

def handleA (toks : List String) : String :=
  match toks with
  | [st, pg, dr, rd] =>
    let b? (s : String) : Option Bool := if s = "0" then some false else if s = "1" then some true else none
    let drop? : Option (Option Nat) :=
      if dr = "-" then some none
      else if dr.startsWith "k" || dr.startsWith "i" then (natLe? (dr.drop 1).toString 5000).map some
      else none
    match b? st, b? pg, drop?, natLe? rd 5000 with
    | some st, some pg, some dr, some rd => runA st pg dr rd
    | _, _, _, _ => "bad-input"
  | _ => "bad-input"

def handleLine (payload : String) : String :=
  match tokens payload with
  | [] => "bad-input"
  | "A" :: rest => handleA rest
  | m :: rest =>
    match decimal? m with
    | none => "bad-input"
    | some maxT =>
      let ops := (" ".intercalate rest).splitOn ";"
      if rest.isEmpty then "bad-input" else
      match runOps ⟨0, init maxT, 0⟩ ops [] with
      | none => "bad-input"
      | some outs => " ".intercalate outs

def main : IO Unit := Driver.run handleLine
