import Driver.Loop
import IrohModel.Common.Hex
import IrohModel.C14.Model
open IrohModel IrohModel.C14

/-!
payload: `<max_timeout_ms> <op>;<op>;…`   ops:
  `p`        new_ping()                       `pt <ms>`  new_ping_with_timeout(ms)
  `g <k>`    pong carrying the data of the k-th successfully issued ping (0-based;
             out of range = a payload never issued)
  `f <16 hex>` pong carrying these 8 bytes (never equal to issued data: the harness re-runs on collision)
  `a <ms>`   let `ms` of virtual time pass        `w <ms>`  `timeout(ms, tracker.timeout())`
output: one token per op, `<outcome>/<ping_timeout() in ms | panic>`.
-/

/-- Ping payloads as the driver sees them: the k-th issued (random, pairwise distinct and
distinct from every forged value) or a forged constant. -/
inductive D where
  | issued (k : Nat)
  | forged (s : String)
deriving DecidableEq

def decimal? (s : String) : Option Nat :=
  if s.isEmpty || s.length > 12 || !s.all Char.isDigit then none else s.toNat?

def isHex16 (s : String) : Bool :=
  s.length == 16 && s.all fun c => c.isDigit || ('a' ≤ c && c ≤ 'f')

structure World where
  now : Nat
  s : State D
  issued : Nat

def showTimeout (s : State D) : String :=
  match pingTimeout s with
  | none => "panic"
  | some t => toString t

def showOut : Out → String
  | .ok => "ok" | .panic => "panic" | .fired => "fired" | .pending => "pending"

/-- Runs one op; `none` = malformed op. -/
def runOp (w : World) (toks : List String) : Option (World × String) :=
  match toks with
  | ["p"] =>
    let (s', o) := step w.s w.now (.ping (.issued w.issued) none)
    some ({ w with s := s', issued := if o == .ok then w.issued + 1 else w.issued }, showOut o)
  | ["pt", ms] => do
    let ms ← decimal? ms
    let (s', o) := step w.s w.now (.ping (.issued w.issued) (some ms))
    some ({ w with s := s', issued := w.issued + 1 }, showOut o)
  | ["g", k] => do
    let k ← decimal? k
    let d := if k < w.issued then D.issued k else D.forged "out-of-range"
    let (s', o) := step w.s w.now (.pong d)
    some ({ w with s := s' }, showOut o)
  | ["f", h] =>
    if isHex16 h then
      let (s', o) := step w.s w.now (.pong (.forged h))
      some ({ w with s := s' }, showOut o)
    else none
  | ["a", ms] => do
    let ms ← decimal? ms
    some ({ w with now := w.now + ms }, "ok")
  | ["w", ms] => do
    let ms ← decimal? ms
    let (s', now', o) := wait w.s w.now ms
    let txt := if o == .fired then s!"fired:{now' - w.now}" else showOut o
    some ({ w with s := s', now := now' }, txt)
  | _ => none

def runOps (w : World) : List String → List String → Option (List String)
  | [], acc => some acc.reverse
  | op :: rest, acc =>
    match runOp w (tokens op) with
    | none => none
    | some (w', o) => runOps w' rest (s!"{o}/{showTimeout w'.s}" :: acc)

def handleLine (payload : String) : String :=
  match tokens payload with
  | [] => "bad-input"
  | m :: rest =>
    match decimal? m with
    | none => "bad-input"
    | some maxT =>
      let ops := (" ".intercalate rest).splitOn ";"
      if rest.isEmpty then "bad-input" else
      match runOps ⟨0, init maxT, 0⟩ ops [] with
      | none => "bad-input"
      | some outs => " ".intercalate outs

def main : IO Unit := Driver.run handleLine
