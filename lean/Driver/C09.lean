import Driver.Loop
import IrohModel.Common.Hex
import IrohModel.C09.Model
open IrohModel IrohModel.C09

/-!
payload (see harness/hrelay/src/bin/c09.rs):
  `B <max> <bps> <period_ms> <op>;…`  ops `a <ms>` | `c <bytes>` (raw consume) | `r <bytes>` (consume unless throttled)
  `R <cfg> <op>;…`                    ops `a <ms>` | `d <n>` (n more bytes ready) | `e` (then EOF) | `x <code>` (then error) | `s <cfg>` (live reconfig)
                                          | `w <ms> <buf>` (`timeout(ms, read(buf))`)
  cfg = `none` | `<bps>,<burst>` | `<bps>,-`
  `S <n|t|l|i> <op>;…`               real `Server`: ops `s <n|t|l|i>` set_client_rate_limit | `c <k>` connect client k
                                          | `x <k>` disconnect | `p <k>` probe which limit governs client k
-/

def nat? (s : String) : Option Nat :=
  if s.isEmpty || s.length > 25 || !s.all Char.isDigit then none else s.toNat?

def int? (s : String) : Option Int :=
  if s.startsWith "-" then (nat? (s.drop 1).toString).map fun n => -(n : Int)
  else (nat? s).map fun n => (n : Int)

def natLe? (s : String) (hi : Nat) : Option Nat := do
  let n ← nat? s
  if n ≤ hi then some n else none

def i64? (s : String) : Option Int := do
  let x ← int? s
  if i64Min ≤ x ∧ x ≤ i64Max then some x else none

def u64Max : Nat := 18446744073709551615
def maxAdvance : Nat := 10000000000000
def maxAvail : Nat := 1048576
def maxBuf : Nat := 1048576

def cfg? (s : String) : Option (Option Cfg) :=
  if s = "none" then some none else
  match s.splitOn "," with
  | [b, m] => do
    let bps ← natLe? b u32Max
    if bps = 0 then none else
    if m = "-" then some (some ⟨bps, none⟩) else do
      let burst ← natLe? m u32Max
      if burst = 0 then none else some (some ⟨bps, some burst⟩)
  | _ => none

def showDeadline : Option Nat → String
  | none => "ok"
  | some d => s!"err:{d}"

/-- Bucket-level ops.  `acc` reversed outputs; result `none` = malformed. -/
def runB (rd : Reader) (now : Nat) : List String → List String → Option (List String)
  | [], acc => some acc.reverse
  | op :: rest, acc =>
    match tokens op with
    | ["a", ms] => do
      let ms ← natLe? ms maxAdvance
      runB rd (now + ms) rest ("ok" :: acc)
    | ["c", n] => do
      let n ← natLe? n u64Max
      match rd.b.consume n now with
      | none => some ("panic" :: acc).reverse
      | some (b', res) => runB ⟨b', res⟩ now rest (showDeadline res :: acc)
    | ["r", n] => do
      let n ← natLe? n u64Max
      match rd.read n now with
      | none => some ("panic" :: acc).reverse
      | some (rd', .blocked) => runB rd' now rest ("blocked" :: acc)
      | some (rd', .ok) => runB rd' now rest ("ok" :: acc)
      | some (rd', .err d) => runB rd' now rest (s!"err:{d}" :: acc)
    | _ => none

/-- The inner reader's byte at stream position `i` (the harness uses the same pattern). -/
def patternByte (i : Nat) : UInt8 := UInt8.ofNat ((i * 131 + (i / 256) * 17 + 7) % 256)

def patternBytes (pos n : Nat) : List UInt8 := (List.range n).map fun k => patternByte (pos + k)

/-- FNV-1a (32 bit) of the delivered bytes, 8 hex digits. -/
def fnv32 (bs : List UInt8) : String :=
  let h : UInt32 := bs.foldl (fun h b => (h ^^^ b.toUInt32) * 16777619) 2166136261
  let n := h.toNat
  String.ofList ((List.range 8).map fun k => hexDigit ((n / 16 ^ (7 - k)) % 16))

def runR (r : RLC) (now pos : Nat) : List String → List String → Option (List String)
  | [], acc => some acc.reverse
  | op :: rest, acc =>
    match tokens op with
    | ["a", ms] => do
      let ms ← natLe? ms maxAdvance
      runR r (now + ms) pos rest ("ok" :: acc)
    | ["d", n] => do
      let n ← natLe? n maxAvail
      runR { r with inner := { r.inner with data := r.inner.data ++ patternBytes pos n } } now (pos + n) rest
        ("ok" :: acc)
    | ["e"] => runR { r with inner := { r.inner with tail := .eof } } now pos rest ("ok" :: acc)
    | ["x", c] => do
      let c ← natLe? c 3
      runR { r with inner := { r.inner with tail := .err c } } now pos rest ("ok" :: acc)
    | ["s", c] => do
      let c ← cfg? c
      runR { r with rl := { r.rl with pendingCfg := some c } } now pos rest ("ok" :: acc)
    | ["w", ms, buf] => do
      let ms ← natLe? ms maxAdvance
      let buf ← natLe? buf maxBuf
      match r.wait now ms buf with
      | none => some ("panic" :: acc).reverse
      | some (r', now', out) =>
        let lim := r'.rl.limited
        let txt := match out with
          | .ready bs => s!"read:{bs.length}:{now' - now}:{lim}:{fnv32 bs}"
          | .eof => if buf = 0 then s!"read:0:{now' - now}:{lim}:{fnv32 []}" else s!"eof:{now' - now}:{lim}"
          | .err c => s!"err:{c}:{now' - now}:{lim}"
          | .pending => s!"pending:{lim}"
        runR r' now' pos rest (txt :: acc)
    | _ => none

/-- Limits the `S` cases use: `n` none, `t` tight, `l` loose, `i` invalid (< 1 token per period). -/
def svcCfg? (s : String) : Option (Option Cfg) :=
  match s with
  | "n" => some none
  | "t" => some (some ⟨1000000, some 1000⟩)
  | "l" => some (some ⟨3000000, some 60000⟩)
  | "i" => some (some ⟨5, none⟩)
  | _ => none

def connected (s : Service) (k : Nat) : Bool := s.conns.any fun c => c.1 == k

def runS (s : Service) : List String → List String → Option (List String)
  | [], acc => some acc.reverse
  | op :: rest, acc =>
    match tokens op with
    | ["s", c] => do
      let c ← svcCfg? c
      runS (s.set c) rest ("ok" :: acc)
    | ["c", k] => do
      let k ← natLe? k 3
      if connected s k then runS s rest ("noop" :: acc) else
      match s.connect k 0 with
      | none => runS s rest ("refused" :: acc)
      | some s' => runS s' rest ("ok" :: acc)
    | ["x", k] => do
      let k ← natLe? k 3
      if connected s k then runS (s.disconnect k) rest ("ok" :: acc) else runS s rest ("noop" :: acc)
    | ["p", k] => do
      let k ← natLe? k 3
      match s.limitOf k 0 with
      | none => runS s rest ("noconn" :: acc)
      | some bk =>
        let cls := match bk with
          | none => "none"
          | some b => if b.max = 1000 then "tight" else if b.max = 60000 then "loose" else "other"
        -- the probe makes the limiter poll: a pending update is picked up
        let s' : Service := ⟨s.stored, s.conns.map fun c => if c.1 == k then (c.1, c.2.applyCfg 0) else c⟩
        runS s' rest (cls :: acc)
    | _ => none

/-- Both sides validate the whole op list before running anything. -/
def validOps (kind : String) (ops : List String) : Bool :=
  ops.all fun op =>
    match kind, tokens op with
    | _, ["a", ms] => (natLe? ms maxAdvance).isSome
    | "B", ["c", n] => (natLe? n u64Max).isSome
    | "B", ["r", n] => (natLe? n u64Max).isSome
    | "R", ["d", n] => (natLe? n maxAvail).isSome
    | "S", ["s", c] => (svcCfg? c).isSome
    | "S", ["c", k] => (natLe? k 3).isSome
    | "S", ["x", k] => (natLe? k 3).isSome
    | "S", ["p", k] => (natLe? k 3).isSome
    | "R", ["e"] => true
    | "R", ["x", c] => (natLe? c 3).isSome
    | "R", ["s", c] => (cfg? c).isSome
    | "R", ["w", ms, buf] => (natLe? ms maxAdvance).isSome && (natLe? buf maxBuf).isSome
    | _, _ => false

def handleLine (payload : String) : String :=
  match tokens payload with
  | "B" :: mx :: bps :: pms :: rest =>
    match i64? mx, i64? bps, natLe? pms (u64Max * 1000 + 999) with
    | some mx, some bps, some pms =>
      let ops := (" ".intercalate rest).splitOn ";"
      if rest.isEmpty || !validOps "B" ops then "bad-input" else
      match Bucket.new mx bps pms 0 with
      | none => "new:invalid"
      | some b =>
        match runB ⟨b, none⟩ 0 ops [] with
        | none => "bad-input"
        | some outs => " ".intercalate ("new:ok" :: outs)
    | _, _, _ => "bad-input"
  | "R" :: c :: rest =>
    match cfg? c with
    | none => "bad-input"
    | some c =>
      let ops := (" ".intercalate rest).splitOn ";"
      if rest.isEmpty || !validOps "R" ops then "bad-input" else
      match RL.fromWatcher c 0 with
      | none => "new:invalid"
      | some r =>
        match runR ⟨r, ⟨[], .open⟩⟩ 0 0 ops [] with
        | none => "bad-input"
        | some outs => " ".intercalate ("new:ok" :: outs)
  | "S" :: c :: rest =>
    match svcCfg? c with
    | none => "bad-input"
    | some c =>
      let ops := (" ".intercalate rest).splitOn ";"
      if rest.isEmpty || !validOps "S" ops then "bad-input" else
      match runS (Service.new c) ops [] with
      | none => "bad-input"
      | some outs => " ".intercalate outs
  | _ => "bad-input"

def main : IO Unit := Driver.run handleLine
