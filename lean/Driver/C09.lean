import Driver.Loop
import IrohModel.Common.Hex
import IrohModel.C09.Model
open IrohModel IrohModel.C09

/-!
payload (see harness/hrelay/src/bin/c09.rs):
  `B <max> <bps> <period_ms> <op>;…`  ops `a <ms>` | `c <bytes>` (raw consume) | `r <bytes>` (consume unless throttled)
  `R <cfg> <op>;…`                    ops `a <ms>` | `d <n>` (n more bytes ready) | `s <cfg>` (live reconfig)
                                          | `w <ms> <buf>` (`timeout(ms, read(buf))`)
  cfg = `none` | `<bps>,<burst>` | `<bps>,-`
-/

def nat? (s : String) : Option Nat :=
  if s.isEmpty || s.length > 25 || !s.all Char.isDigit then none else s.toNat?

def int? (s : String) : Option Int :=
  if s.startsWith "-" then (nat? (s.drop 1).toString).map fun n => -(n : Int)
  else (nat? s).map fun n => (n : Int)

def natLe? (s : String) (hi : Nat) : Option Nat := do
  let n ← nat? s
  if n ≤ hi then some n else none

def i64? (s : String) : Option Int := do
  let x ← int? s
  if i64Min ≤ x ∧ x ≤ i64Max then some x else none

def u64Max : Nat := 18446744073709551615
def maxAdvance : Nat := 10000000000000
def maxAvail : Nat := 1099511627776
def maxBuf : Nat := 1048576

def cfg? (s : String) : Option (Option Cfg) :=
  if s = "none" then some none else
  match s.splitOn "," with
  | [b, m] => do
    let bps ← natLe? b u32Max
    if bps = 0 then none else
    if m = "-" then some (some ⟨bps, none⟩) else do
      let burst ← natLe? m u32Max
      if burst = 0 then none else some (some ⟨bps, some burst⟩)
  | _ => none

def showDeadline : Option Nat → String
  | none => "ok"
  | some d => s!"err:{d}"

/-- Bucket-level ops.  `acc` reversed outputs; result `none` = malformed. -/
def runB (rd : Reader) (now : Nat) : List String → List String → Option (List String)
  | [], acc => some acc.reverse
  | op :: rest, acc =>
    match tokens op with
    | ["a", ms] => do
      let ms ← natLe? ms maxAdvance
      runB rd (now + ms) rest ("ok" :: acc)
    | ["c", n] => do
      let n ← natLe? n u64Max
      match rd.b.consume n now with
      | none => some ("panic" :: acc).reverse
      | some (b', res) => runB ⟨b', res⟩ now rest (showDeadline res :: acc)
    | ["r", n] => do
      let n ← natLe? n u64Max
      match rd.read n now with
      | none => some ("panic" :: acc).reverse
      | some (rd', .blocked) => runB rd' now rest ("blocked" :: acc)
      | some (rd', .ok) => runB rd' now rest ("ok" :: acc)
      | some (rd', .err d) => runB rd' now rest (s!"err:{d}" :: acc)
    | _ => none

def runR (r : RL) (now : Nat) : List String → List String → Option (List String)
  | [], acc => some acc.reverse
  | op :: rest, acc =>
    match tokens op with
    | ["a", ms] => do
      let ms ← natLe? ms maxAdvance
      runR r (now + ms) rest ("ok" :: acc)
    | ["d", n] => do
      let n ← natLe? n maxAvail
      runR { r with avail := r.avail + n } now rest ("ok" :: acc)
    | ["s", c] => do
      let c ← cfg? c
      runR { r with pendingCfg := some c } now rest ("ok" :: acc)
    | ["w", ms, buf] => do
      let ms ← natLe? ms maxAdvance
      let buf ← natLe? buf maxBuf
      match r.wait now ms buf with
      | none => some ("panic" :: acc).reverse
      | some (r', now', .ready n) => runR r' now' rest (s!"read:{n}:{now' - now}:{r'.limited}" :: acc)
      | some (r', now', .pending) => runR r' now' rest (s!"pending:{r'.limited}" :: acc)
    | _ => none

/-- Both sides validate the whole op list before running anything. -/
def validOps (kind : String) (ops : List String) : Bool :=
  ops.all fun op =>
    match kind, tokens op with
    | _, ["a", ms] => (natLe? ms maxAdvance).isSome
    | "B", ["c", n] => (natLe? n u64Max).isSome
    | "B", ["r", n] => (natLe? n u64Max).isSome
    | "R", ["d", n] => (natLe? n maxAvail).isSome
    | "R", ["s", c] => (cfg? c).isSome
    | "R", ["w", ms, buf] => (natLe? ms maxAdvance).isSome && (natLe? buf maxBuf).isSome
    | _, _ => false

def handleLine (payload : String) : String :=
  match tokens payload with
  | "B" :: mx :: bps :: pms :: rest =>
    match i64? mx, i64? bps, natLe? pms (u64Max * 1000 + 999) with
    | some mx, some bps, some pms =>
      let ops := (" ".intercalate rest).splitOn ";"
      if rest.isEmpty || !validOps "B" ops then "bad-input" else
      match Bucket.new mx bps pms 0 with
      | none => "new:invalid"
      | some b =>
        match runB ⟨b, none⟩ 0 ops [] with
        | none => "bad-input"
        | some outs => " ".intercalate ("new:ok" :: outs)
    | _, _, _ => "bad-input"
  | "R" :: c :: rest =>
    match cfg? c with
    | none => "bad-input"
    | some c =>
      let ops := (" ".intercalate rest).splitOn ";"
      if rest.isEmpty || !validOps "R" ops then "bad-input" else
      match RL.fromWatcher c 0 with
      | none => "new:invalid"
      | some r =>
        match runR r 0 ops [] with
        | none => "bad-input"
        | some outs => " ".intercalate ("new:ok" :: outs)
  | _ => "bad-input"

def main : IO Unit := Driver.run handleLine
