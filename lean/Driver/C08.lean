import Driver.Loop
import IrohModel.C08.Model
open IrohModel IrohModel.C08

/-!
Driver for C08: replays a harness script (grammar in `harness/hrelay/src/bin/c08.rs`) on the
model.  Trusted test infrastructure: it only decides WHICH model operations happen in which
order; every state change goes through `C08.step`.

* `conn id` = `request id` (the model allocates connection ids 0,1,2,… like the script indices);
* a script op on a connection that is not in the phase the op needs is ignored (`-`), exactly as
  the harness ignores it;
* after a `disc` that found something, and after a `close`, the harness waits until the affected
  actors have unregistered: every registered connection whose token is cancelled takes its
  `actorExit` step (the order does not matter for the resulting registry);
* at the end every open accept thread is completed in index order (requested → denied,
  admitted → confirmed → registered).
-/

def phaseIs (s : State) (k : Nat) (p : Phase) : Bool := phaseOf s k == some p

/-- Every cancelled registered actor exits. -/
def settle (s : State) : State :=
  (List.range s.nextCid).foldl (fun s c =>
    match s.conns c with
    | some x => if inRegistry s c && x.cancelled then step s (.actorExit c) else s
    | none => s) s

/-- Loop iterations of every cancelled registered actor, with the code's arm priority, while the
client of `k` keeps writing (`more` further frames arrive, one per round). -/
def actorRound (s : State) : State :=
  (List.range s.nextCid).foldl (fun s c =>
    match s.conns c with
    | some x => if inRegistry s c && x.cancelled then step s (.actorStep c) else s
    | none => s) s

def settleSteps (k : Nat) : Nat → State → State
  | 0, s => actorRound s
  | more + 1, s => settleSteps k more (actorRound (step s (.arrive k)))

def applyOp (acc : State × List String) (toks : List String) : Option (State × List String) :=
  let (s, rs) := acc
  let gated (k : Nat) (p : Phase) (op : Op) : Option (State × List String) :=
    if phaseIs s k p then some (step s op, rs ++ ["ok"]) else some (s, rs ++ ["-"])
  match toks with
  | ["conn", id] => do
    let id ← id.toNat?
    if id ≥ 4 then none else some (step s (.request id), rs ++ ["req"])
  | ["allow", k] => do let k ← k.toNat?; gated k .requested (.allow k)
  | ["deny", k] => do let k ← k.toNat?; gated k .requested (.deny k)
  | ["confirm", k] => do let k ← k.toNat?; gated k .admitted (.confirm k true)
  | ["reg", k] => do let k ← k.toNat?; gated k .confirmed (.register k)
  | ["close", k] => do
    let k ← k.toNat?
    if phaseIs s k .registered then some (step s (.actorExit k), rs ++ ["ok"]) else some (s, rs ++ ["-"])
  | ["load", k, dst, n, sel, mode] => do
    let k ← k.toNat?
    let dst ← dst.toNat?
    let n ← n.toNat?
    if dst ≥ 4 || n > 2000 || !(sel == "c" || sel == "*") ||
        !(mode == "b" || mode == "f" || mode == "t" || mode == "T") then none else
    if mode == "t" || mode == "T" then
      -- load TOWARDS k from peer connection `dst`: both registered, different endpoints, k active
      let p := dst
      match s.conns k, s.conns p with
      | some x, some y =>
        if p == k || !(phaseIs s k .registered) || !(phaseIs s p .registered) || x.owner == y.owner ||
            (s.entries x.owner).head? != some k then some (s, rs ++ ["-"])
        else
          -- packets queued for k before the call, the call, more packets while k is still registered
          let pre := if mode == "T" then 19 else min n 19
          let s1 := (List.range pre).foldl (fun s _ => step s (.enqueue k)) s
          let d0 := s1.delivered k
          let s2 := step s1 (.disconnect x.owner (if sel == "c" then some k else none))
          let r := s2.results.getLast?.getD false
          let post := if mode == "T" then 64 else n - pre
          let s3 := (List.range post).foldl (fun s _ => step s (.enqueue k)) s2
          let s4 := settle (actorRound (actorRound s3))
          let tag := if s4.delivered k > d0 + 2 then "served" else if inRegistry s4 k then "open" else "q"
          some (s4, rs ++ [s!"{r}+{tag}"])
      | _, _ => some (s, rs ++ ["-"])
    else
    if !(phaseIs s k .registered) then some (s, rs ++ ["-"]) else
    match s.conns k with
    | none => some (s, rs ++ ["-"])
    | some x =>
      -- the backlog is in the socket (flood: some frames, and more keep coming afterwards)
      let pre := if mode == "f" then 64 else n
      let s1 := (List.range pre).foldl (fun s _ => step s (.arrive k)) s
      let h0 := s1.handled k
      let s2 := step s1 (.disconnect x.owner (if sel == "c" then some k else none))
      let r := s2.results.getLast?.getD false
      let s3 := settleSteps k (if mode == "f" then 16 else 0) s2
      let tag := if s3.handled k > h0 + 2 then "served" else if inRegistry s3 k then "open" else "q"
      some (s3, rs ++ [s!"{r}+{tag}"])
  | ["disc", id, sel] => do
    let id ← id.toNat?
    if id ≥ 4 then none else
    let run (sel : Option Nat) : Option (State × List String) :=
      let s' := step s (.disconnect id sel)
      let r := s'.results.getLast?.getD false
      some (settle s', rs ++ [toString r])
    if sel == "*" then run none else do
      let k ← sel.toNat?
      -- a connection index the script has not created: the harness ignores the op
      if k ≥ s.nextCid then some (s, rs ++ ["-"]) else run (some k)
  | _ => none

def complete (s : State) : State :=
  (List.range s.nextCid).foldl (fun s k =>
    if phaseIs s k .requested then step s (.deny k)
    else if phaseIs s k .admitted then step (step s (.confirm k true)) (.register k)
    else if phaseIs s k .confirmed then step s (.register k)
    else s) s

def joinOr (l : List String) (sep : String) : String := if l.isEmpty then "-" else sep.intercalate l

def handleLine (payload : String) : String :=
  let parts := payload.splitOn ";"
  let r := parts.foldl (fun acc part =>
    match acc with
    | none => none
    | some a => applyOp a ((part.splitOn " ").filter (· ≠ ""))) (some (init, []))
  match r with
  | none => "bad-input"
  | some (s, rs) =>
    let s := complete s
    let entries := (List.range 4).filterMap fun id =>
      match s.entries id with
      | [] => none
      | a :: rest => some s!"{id}:{a}/{",".intercalate (rest.reverse.map toString)}"
    let servedL := (List.range s.nextCid).filter (served s)
    s!"{joinOr rs ","} | {joinOr entries " "} | {joinOr (servedL.map toString) " "}"

def main : IO Unit := Driver.run handleLine
