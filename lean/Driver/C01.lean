import Driver.Loop
import IrohModel.Common.Hex
import IrohModel.C01.Model
open IrohModel IrohModel.C01

def kv (ts : List String) (k : String) : String :=
  match ts.find? (·.startsWith (k ++ "=")) with
  | some t => (t.drop (k.length + 1)).toString
  | none => ""

def listOf (s : String) : List String := if s = "-" || s = "" then [] else s.splitOn ","

def hx (s : String) : List UInt8 := (bytesOfHex s).getD []

/-- UTF-8 decoding of the name bytes (the harness only sends valid UTF-8). -/
def utf8Chars (bs : List UInt8) : List Char :=
  match String.fromUTF8? (ByteArray.mk bs.toArray) with
  | some s => s.toList
  | none => []

def cryptoOfFacts (ts : List String) : Crypto :=
  let vp := (listOf (kv ts "vp")).filterMap fun e =>
    match e.splitOn ":" with | [pk, b] => some (hx pk, b == "1") | _ => none
  let vf := (listOf (kv ts "vf")).filterMap fun e =>
    match e.splitOn ":" with | [pk, m, s, b] => some (hx pk, hx m, hx s, b == "1") | _ => none
  { validPoint := fun pk => match vp.find? (·.1 == pk) with | some (_, b) => b | none => false
    verify := fun pk m s => match vf.find? (fun e => e.1 == pk && e.2.1 == m && e.2.2.1 == s) with
      | some (_, _, _, b) => b | none => false }

def vErrName : VErr → String
  | .unsupportedNameType => "unsupported-name-type"
  | .notValidForName => "not-valid-for-name"
  | .unknownIssuer => "unknown-issuer"

def hexOfChars (cs : List Char) : String := hexOfBytes (String.ofList cs).toUTF8.toList

def handleLine (payload : String) : String :=
  let ts := tokens payload
  let C := cryptoOfFacts ts
  match ts with
  | "e2e" :: which :: _ =>
    -- `resume`: the dialer only accepts a peer that proves possession of the dialed key
    -- (theorem wrong_key_rejected), whatever sessions it had before
    if which == "right" then "established client-sees-holder server-sees-holder dialed-match" else "refused"
  | "ne" :: key :: _ =>
    let k := hx key
    if k.length = 32 ∧ C.validPoint k then hexOfChars (encodeName k) else "not-a-key"
  | "nd" :: name :: _ =>
    match decodeName C (utf8Chars (hx name)) with
    | some id => s!"some:{hexOfBytes id}"
    | none => "none"
  | "sc" :: ee :: inter :: name :: _ =>
    if kv ts "sn" == "bad" then "not-a-server-name" else
    let sn : ServerName := match name.splitOn ":" with
      | ["dns", h] => .dns (utf8Chars (hx h))
      | _ => .ip
    match verifyServerCert C (hx ee) ((listOf inter).map hx) sn with
    | .ok _ => "ok"
    | .error e => s!"err:{vErrName e}"
  | "cc" :: ee :: inter :: _ =>
    match verifyClientCert (hx ee) ((listOf inter).map hx) with
    | .ok _ => "ok"
    | .error e => s!"err:{vErrName e}"
  | "sg" :: _side :: msg :: cert :: scheme :: sig :: _ =>
    if verifyTls13 C (hx msg) (hx cert) (scheme.toNat?.getD 0) (hx sig) then "ok" else "err"
  | _ => "bad-input"

def main : IO Unit := Driver.run handleLine
