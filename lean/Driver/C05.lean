import Driver.Loop
import IrohModel.C05.Model
open IrohModel

/-- payload: the harness script (grammar in `harness/hrelay/src/relayreg.rs`, plus the
`raw` operation of `harness/hrelay/src/bin/c05.rs`); output as for C04/C06. -/
def handleLine (payload : String) : String :=
  RelaySched.runPayloadWith C05.parseRaw C05.driverCfg 8 payload Generated.C05.writeTimeoutMs

def main : IO Unit := Driver.run handleLine
