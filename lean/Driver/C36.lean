import Driver.Loop
import IrohModel.Common.Hex
import IrohModel.C36.Compose
open IrohModel IrohModel.C36

/-
payload: ops separated by `;` (see harness/hdns/src/bin/c36.rs)
  `keys <hex32> ...`                                         the valid public keys (no output)
  `put <label> <signer> <mode> <ts> <id> <dnslen> <recs>`    → `204` | `400`
  `get <label>`                                              → `200:<ts>.<id>` | `404` | `400`
  `q <name> <type>`                                          → `noerror:<rec>,...` | `nxdomain`
recs = `-` (none) | `!` (DNS does not parse) | `<name>/<type>/<tag>,...`; names are labels joined by `.`.
The signature is instantiated with a toy ideal scheme: a signature *is* (signer key, message).

End-to-end ops (composed model C31 ∘ C36, `IrohModel.C36.Compose`):
  `dict <dict>`                              verdicts of the real address parsers (as in C31)
  `pub <signer> <idkey> <addrs> <ud>`        real EndpointInfo → to_pkarr_signed_packet(signer) →
                                             PUT under the signer's label → `204` | `400` | `enc-err:<Class>`
  `pubx <signer> <pathkey> <zonekey> <addrs> <ud>`  hand-made packet: the same TXT strings at
                                             `_iroh.<z32 zonekey>`, signed by signer, PUT under pathkey
  `res <idkey> <e|r>`                        TXT query `_iroh.<z32>.<origin>` + from_txt_lookup →
                                             `ok(id=..;a=<sorted>;ud=..)` | `err:<Class>` | `nxdomain`
-/

def msgBytes (ts : Nat) (dns : List UInt8) : List UInt8 :=
  ((toString ts).toList.map fun c => UInt8.ofNat c.toNat) ++ [255] ++ dns

def toyVerify : Verify := fun k m sig => sig == k ++ msgBytes m.1 m.2

def idBytes (id : Nat) : List UInt8 := [UInt8.ofNat (id / 256), UInt8.ofNat (id % 256)]

def parseName (s : String) : Name := ((s.splitOn ".").filter (· ≠ "")).map String.toList

def showName (n : Name) : String := ".".intercalate ((lowerName n).map String.ofList)

def parseRecs (s : String) : Option (Option (List Rec)) :=
  if s = "-" then some (some []) else if s = "!" then some none else
  ((s.splitOn ",").mapM fun (r : String) => match r.splitOn "/" with
    | [n, t, g] => some (⟨parseName n, t, g⟩ : Rec)
    | _ => none).map some

def showRecs (rs : List Rec) : String :=
  let strs := rs.map fun r => s!"{showName r.name}/{r.rtype}/{r.tag}"
  let sorted := strs.toArray.qsort (· < ·) |>.toList
  ",".intercalate sorted.eraseDups

def origins : List Name := [parseName "irohdns.example", []]

/-! helpers for the end-to-end ops (same conventions as Driver/C31.lean) -/

def strOfHex (h : String) : Option C31.Str := do
  let bs ← bytesOfHex h
  let s ← String.fromUTF8? (ByteArray.mk bs.toArray)
  pure s.toList

def hexOfStr (s : C31.Str) : String := hexOfBytes (String.ofList s).toUTF8.toList

def optStrOfHex (h : String) : Option (Option C31.Str) :=
  if h = "~" then some none else (strOfHex h).map some

structure Verdict where
  s : C31.Str
  url : Option C31.Str
  ip : Option C31.Str
  custom : Option C31.Str

def parseDict (d : String) : Option (List Verdict) :=
  if d = "~" then some [] else
  (d.splitOn ",").mapM fun (e : String) =>
    match e.splitOn "/" with
    | [s, u, i, c] => do
      pure ⟨← strOfHex s, ← optStrOfHex u, ← optStrOfHex i, ← optStrOfHex c⟩
    | _ => none

def noVerdict : C31.Str := "?no-verdict?".toList

def codecsOf (d : List Verdict) (validKey : Key → Bool) : C31.Codecs where
  parseUrl s := match d.find? (·.s = s) with | some v => v.url | none => some noVerdict
  parseIp s := match d.find? (·.s = s) with | some v => v.ip | none => some noVerdict
  parseCustom s := match d.find? (·.s = s) with | some v => v.custom | none => some noVerdict
  validKey := validKey

def parseAddrTok (t : String) : Option C31.Addr :=
  match t.splitOn ":" with
  | ["r", h] => (strOfHex h).map .relay
  | ["i", h] => (strOfHex h).map .ip
  | ["c", h] => (strOfHex h).map .custom
  | _ => none

def addrTok : C31.Addr → String
  | .relay s => s!"r:{hexOfStr s}"
  | .ip s => s!"i:{hexOfStr s}"
  | .custom s => s!"c:{hexOfStr s}"

def parseErrName : C31.ParseErr → String
  | .unexpectedFormat => "UnexpectedFormat" | .attrFromString => "AttrFromString"
  | .numLabels => "NumLabels" | .notAnIrohRecord => "NotAnIrohRecord" | .decodingError => "DecodingError"

def renderResolved : Except E2E.ResolveErr C31.Info → String
  | .error .noRecords => "nxdomain"
  | .error (.parse e) => s!"err:{parseErrName e}"
  | .ok i =>
    let ud := match i.userData with | some u => hexOfStr u | none => "~"
    let a := ((i.addrs.map addrTok).toArray.qsort (· < ·)).toList
    s!"ok(id={hexOfBytes i.id};a={if a.isEmpty then "~" else ",".intercalate a};ud={ud})"

def parseInfo (id : Key) (a ud : String) : Option C31.Info := do
  let addrs ← if a = "~" then some [] else (a.splitOn ",").mapM parseAddrTok
  let ud ← optStrOfHex ud
  pure ⟨id, addrs, ud⟩

structure St where
  keys : List Key
  store : Store
  dict : List Verdict := []
  seq : Nat := 0

def stepOp (st : St) (op : String) : Option (St × Option String) :=
  let vp : Key → Bool := fun k => st.keys.contains k
  match tokens op with
  | "keys" :: ks => do
    let ks ← ks.mapM bytesOfHex
    pure ({ st with keys := ks }, none)
  | ["put", label, signer, mode, ts, id, dnslen, recs] => do
    let signer ← signer.toNat?
    let ts ← ts.toNat?
    let id ← id.toNat?
    let dnslen ← dnslen.toNat?
    let recs ← parseRecs recs
    let sk ← st.keys[signer]?
    let dns := idBytes id
    let good := sk ++ msgBytes ts dns
    let (hdr, sig) := match mode with
      | "ok" => (72, good)
      | "badsig" => (72, good ++ [1])
      | "wrongts" => (72, sk ++ msgBytes (ts + 1) dns)
      | "wrongdns" => (72, sk ++ msgBytes ts (idBytes (id + 1)))
      | _ => (dnslen, good)   -- "short": `dnslen` bytes of body in total, no DNS part
    let body : Body := ⟨hdr, sig, ts, dns, if mode = "short" then 0 else dnslen, recs⟩
    let (s', status) := put toyVerify vp st.store label.toList body
    pure ({ st with store := s' }, some (toString status))
  | ["dict", d] => do
    let d ← parseDict d
    pure ({ st with dict := d }, none)
  | ["pub", signer, idkey, a, ud] => do
    let sk ← st.keys[← signer.toNat?]?
    let idk ← st.keys[← idkey.toNat?]?
    let info ← parseInfo idk a ud
    let ts := 1000000000000000 + st.seq
    match C31.toSignedPacket sk info with
    | .error .dnsError => pure ({ st with seq := st.seq + 1 }, some "enc-err:DnsError")
    | .error .packetTooLarge => pure ({ st with seq := st.seq + 1 }, some "enc-err:PacketTooLarge")
    | .ok p =>
      -- toy wire: the DNS bytes are a fresh sequence number; their parse is the packet's TXT records
      let dns := idBytes st.seq
      let body : Body := ⟨72, sk ++ msgBytes ts dns, ts, dns, C31.dnsSize sk.length p.txts,
        some (E2E.txtRecs p.key p.txts)⟩
      let (s', status) := put toyVerify vp st.store (z32 sk) body
      pure ({ st with store := s', seq := st.seq + 1 }, some (toString status))
  | ["pubx", signer, pathkey, zonekey, a, ud] => do
    let sk ← st.keys[← signer.toNat?]?
    let pk ← st.keys[← pathkey.toNat?]?
    let zk ← st.keys[← zonekey.toNat?]?
    let info ← parseInfo zk a ud
    let ts := 1000000000000000 + st.seq
    let dns := idBytes st.seq
    let txts := C31.toTxtStrings (C31.toAttrs info)
    -- the hand-made packet is encoded without name compression: 12 + Σ (60 name + 10 + 1 + len)
    let size := 12 + (txts.map fun t => 71 + C31.utf8Len t).sum
    if txts.any (fun t => decide (255 < C31.utf8Len t)) then
      pure ({ st with seq := st.seq + 1 }, some "enc-err:DnsError")
    else if size > 1000 then
      pure ({ st with seq := st.seq + 1 }, some "enc-err:PacketTooLarge")
    else
    let body : Body := ⟨72, sk ++ msgBytes ts dns, ts, dns, size, some (E2E.txtRecs zk txts)⟩
    let (s', status) := put toyVerify vp st.store (z32 pk) body
    pure ({ st with store := s', seq := st.seq + 1 }, some (toString status))
  | ["res", idkey, org] => do
    let idk ← st.keys[← idkey.toNat?]?
    let (o, os) := if org = "e" then (parseName "irohdns.example", "irohdns.example.".toList)
      else (([] : Name), ([] : C31.Str))
    pure (st, some (renderResolved (E2E.resolve (codecsOf st.dict vp) origins st.store idk o os)))
  | ["get", label] =>
    match get vp st.store label.toList with
    | (200, some p) =>
      let id := match p.dns with | [a, b] => a.toNat * 256 + b.toNat | _ => 0
      some (st, some s!"200:{p.ts}.{id}")
    | (code, _) => some (st, some (toString code))
  | ["q", name, ty] =>
    match answer vp origins st.store (parseName name) ty with
    | .nxdomain => some (st, some "nxdomain")
    | .staticSoa => some (st, some s!"noerror:{showName (origins.headD [])}/SOA/0")
    | .records rs => some (st, some s!"noerror:{showRecs rs}")
  | _ => none

def handleLine (payload : String) : String :=
  let ops := (payload.splitOn ";").filter (· ≠ "")
  let rec go (st : St) (ops : List String) (acc : List String) : String :=
    match ops with
    | [] => " ".intercalate acc.reverse
    | op :: rest =>
      match stepOp st op with
      | none => "bad-input"
      | some (st', none) => go st' rest acc
      | some (st', some o) => go st' rest (o :: acc)
  go { keys := [], store := Store.empty } ops []

def main : IO Unit := Driver.run handleLine
