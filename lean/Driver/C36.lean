import Driver.Loop
import IrohModel.Common.Hex
import IrohModel.C36.Model
open IrohModel IrohModel.C36

/-
payload: ops separated by `;` (see harness/hdns/src/bin/c36.rs)
  `keys <hex32> ...`                                         the valid public keys (no output)
  `put <label> <signer> <mode> <ts> <id> <dnslen> <recs>`    → `204` | `400`
  `get <label>`                                              → `200:<ts>.<id>` | `404` | `400`
  `q <name> <type>`                                          → `noerror:<rec>,...` | `nxdomain`
recs = `-` (none) | `!` (DNS does not parse) | `<name>/<type>/<tag>,...`; names are labels joined by `.`.
The signature is instantiated with a toy ideal scheme: a signature *is* (signer key, message).
-/

def msgBytes (ts : Nat) (dns : List UInt8) : List UInt8 :=
  ((toString ts).toList.map fun c => UInt8.ofNat c.toNat) ++ [255] ++ dns

def toyVerify : Verify := fun k m sig => sig == k ++ msgBytes m.1 m.2

def idBytes (id : Nat) : List UInt8 := [UInt8.ofNat (id / 256), UInt8.ofNat (id % 256)]

def parseName (s : String) : Name := ((s.splitOn ".").filter (· ≠ "")).map String.toList

def showName (n : Name) : String := ".".intercalate ((lowerName n).map String.ofList)

def parseRecs (s : String) : Option (Option (List Rec)) :=
  if s = "-" then some (some []) else if s = "!" then some none else
  ((s.splitOn ",").mapM fun (r : String) => match r.splitOn "/" with
    | [n, t, g] => some (⟨parseName n, t, g⟩ : Rec)
    | _ => none).map some

def showRecs (rs : List Rec) : String :=
  let strs := rs.map fun r => s!"{showName r.name}/{r.rtype}/{r.tag}"
  let sorted := strs.toArray.qsort (· < ·) |>.toList
  ",".intercalate sorted.eraseDups

def origins : List Name := [parseName "irohdns.example", []]

structure St where
  keys : List Key
  store : Store

def stepOp (st : St) (op : String) : Option (St × Option String) :=
  let vp : Key → Bool := fun k => st.keys.contains k
  match tokens op with
  | "keys" :: ks => do
    let ks ← ks.mapM bytesOfHex
    pure ({ st with keys := ks }, none)
  | ["put", label, signer, mode, ts, id, dnslen, recs] => do
    let signer ← signer.toNat?
    let ts ← ts.toNat?
    let id ← id.toNat?
    let dnslen ← dnslen.toNat?
    let recs ← parseRecs recs
    let sk ← st.keys[signer]?
    let dns := idBytes id
    let good := sk ++ msgBytes ts dns
    let (hdr, sig) := match mode with
      | "ok" => (72, good)
      | "badsig" => (72, good ++ [1])
      | "wrongts" => (72, sk ++ msgBytes (ts + 1) dns)
      | "wrongdns" => (72, sk ++ msgBytes ts (idBytes (id + 1)))
      | _ => (dnslen, good)   -- "short": `dnslen` bytes of body in total, no DNS part
    let body : Body := ⟨hdr, sig, ts, dns, if mode = "short" then 0 else dnslen, recs⟩
    let (s', status) := put toyVerify vp st.store label.toList body
    pure ({ st with store := s' }, some (toString status))
  | ["get", label] =>
    match get vp st.store label.toList with
    | (200, some p) =>
      let id := match p.dns with | [a, b] => a.toNat * 256 + b.toNat | _ => 0
      some (st, some s!"200:{p.ts}.{id}")
    | (code, _) => some (st, some (toString code))
  | ["q", name, ty] =>
    match answer vp origins st.store (parseName name) ty with
    | .nxdomain => some (st, some "nxdomain")
    | .staticSoa => some (st, some s!"noerror:{showName (origins.headD [])}/SOA/0")
    | .records rs => some (st, some s!"noerror:{showRecs rs}")
  | _ => none

def handleLine (payload : String) : String :=
  let ops := (payload.splitOn ";").filter (· ≠ "")
  let rec go (st : St) (ops : List String) (acc : List String) : String :=
    match ops with
    | [] => " ".intercalate acc.reverse
    | op :: rest =>
      match stepOp st op with
      | none => "bad-input"
      | some (st', none) => go st' rest acc
      | some (st', some o) => go st' rest (o :: acc)
  go ⟨[], Store.empty⟩ ops []

def main : IO Unit := Driver.run handleLine
