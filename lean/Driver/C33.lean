import Driver.Loop
import IrohModel.Common.Hex
import IrohModel.C33.Model
open IrohModel IrohModel.C33

/-- `a,b,c` → numbers; `-` is the empty list. -/
def natList? (s : String) : Option (List Nat) :=
  if s = "-" then some [] else (s.splitOn ",").mapM (·.toNat?)

/-- payload:
  `sched <cell0> <clocks of thread 0>|<clocks of thread 1>|… <schedule>`  (lists `a,b,c` or `-`)
  `burst <mode> <threads> <rounds> <seed>` — barrier-released concurrent rounds, cell behind the clock
  `repub <threads> <calls> <seed> <dups> <tasks>` — end-to-end republish run (see Republish.lean)
  `stress <threads> <calls>`   — free-running threads on the real clock; the model's prediction is
                                 that every call returns (no panic far below `u64::MAX`). -/
def handleLine (payload : String) : String :=
  match tokens payload with
  | ["sched", c0, cl, sc] =>
    match c0.toNat?, (cl.splitOn "|").mapM natList?, natList? sc with
    | some c0, some clocks, some sched =>
      if c0 ≤ cellMax ∧ clocks.all (·.all (· ≤ cellMax)) then render (runCase c0 clocks sched)
      else "bad-input"
    | _, _, _ => "bad-input"
  | ["burst", _mode, th, rounds, _seed] =>
    -- concurrent one-call bursts far below `u64::MAX`: every call returns (`panic_only_at_max`)
    match th.toNat?, rounds.toNat? with
    | some th, some rounds => s!"burst rounds={rounds} returned={th * rounds} panics=0"
    | _, _ => "bad-input"
  | ["repub", th, calls, _seed, _dups, _tasks] =>
    -- Republish.last_published_wins: the store ends with the real-time-last publication (the
    -- `final` one, published after all threads returned) and the lookup decodes to it
    match th.toNat?, calls.toNat? with
    | some th, some calls => s!"repub published={th * calls + 1} stored=final decoded=final"
    | _, _ => "bad-input"
  | ["stress", th, calls] =>
    match th.toNat?, calls.toNat? with
    | some th, some calls => s!"stress returned={th * calls} panics=0"
    | _, _ => "bad-input"
  | _ => "bad-input"

def main : IO Unit := Driver.run handleLine
