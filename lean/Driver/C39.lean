import Driver.Loop
import IrohModel.Common.Hex
import IrohModel.C39.Model
open IrohModel IrohModel.Pkarr IrohModel.C39

/-
payload kinds (see harness/hdns/src/bin/c39.rs)
  `crash b=<B> m=<msg>,...`      msg = `u<key>.<ts>.<id>` | `g<key>`
  `evict m=u<key>.<off>.<id>,...` timestamps `cutoff + off`
  `evstep m=<op>,...`            op = `u<key>.<off>.<id>` | `s` | `c`
  `raw <k0><d0><k8><d8> <hex>`
A packet `ts.id` is modelled with the two bytes of its DNS message id as payload.
-/

def idBytes (id : Nat) : List UInt8 := [UInt8.ofNat (id / 256), UInt8.ofNat (id % 256)]
def idOf (p : Packet) : Nat := match p.payload with | [a, b] => a.toNat * 256 + b.toNat | _ => 0

inductive M where
  | up (k : Nat) (ts : Int) (id : Nat)
  | get (k : Nat)

def parseMsg (s : String) : Option M :=
  if s.startsWith "u" then
    match (s.drop 1).toString.splitOn "." with
    | [k, ts, id] => do
      let k ← k.toNat?
      let ts ← ts.toInt?
      let id ← id.toNat?
      pure (.up k ts id)
    | _ => none
  else if s.startsWith "g" then (s.drop 1).toString.toNat?.map .get
  else none

def field (toks : List String) (k : String) : Option String :=
  toks.findSome? fun t => if t.startsWith (k ++ "=") then some (t.drop (k.length + 1)).toString else none

def join (xs : List String) : String := if xs.isEmpty then "-" else ",".intercalate xs

def sortNatPairs (xs : List (Nat × Nat)) : List (Nat × Nat) :=
  (xs.toArray.qsort fun a b => a.1 < b.1 || (a.1 == b.1 && a.2 < b.2)).toList.eraseDups

/-- Render the packets table over the keys `0..3` and the index over the candidate entries;
`base` is subtracted from timestamps (eviction cases print offsets). -/
def showTables (T : Tables) (cands : List (Nat × Nat)) (base : Nat) : String × String :=
  let ps := (List.range 4).filterMap fun k => (T.packets k).map fun p =>
    s!"{k}:{(p.ts : Int) - base}.{idOf p}"
  let ix := (sortNatPairs (cands.filter fun (ts, k) => T.index ts k)).map fun (ts, k) =>
    s!"{(ts : Int) - base}:{k}"
  (join ps, join ix)

def crashCase (msgs : List M) : String :=
  let (T, outs) := msgs.foldl (fun (acc : Tables × List String) m =>
    match m with
    | .up k ts id =>
      let (T', f) := upsert acc.1 ⟨k, 0, ts.toNat, idBytes id⟩
      (T', (if f then "1" else "0") :: acc.2)
    | .get k =>
      (acc.1, (match acc.1.packets k with
        | some p => s!"{p.ts}.{idOf p}"
        | none => "none") :: acc.2)) (Tables.empty, [])
  -- all batches committed; a crash/reopen afterwards gives the committed tables
  let db := stepDb 0 (stepDb 0 ⟨Tables.empty, T⟩ .commit) .crash
  let cands := msgs.filterMap fun m => match m with | .up k ts _ => some (ts.toNat, k) | _ => none
  let (ps, ix) := showTables db.committed cands 0
  let (ps2, _) := showTables db.pending cands 0
  " ".intercalate (outs.reverse ++ [s!"final={ps}", s!"index={ix}", s!"reopen={ps2}", "crash=ok"])

def retention : Nat := 3600 * 1000000
/-- Reference cut-off for eviction cases (any value large enough for the offsets). -/
def baseCut : Nat := 1000000000000000

def evictCase (msgs : List M) : String :=
  let now := baseCut + retention
  let (T, outs) := msgs.foldl (fun (acc : Tables × List String) m =>
    match m with
    | .up k off id =>
      let (T', f) := upsert acc.1 ⟨k, 0, ((baseCut : Int) + off).toNat, idBytes id⟩
      (T', (if f then "1" else "0") :: acc.2)
    | .get _ => acc) (Tables.empty, [])
  let cands := msgs.filterMap fun m => match m with
    | .up k off _ => some (((baseCut : Int) + off).toNat, k) | _ => none
  -- one eviction round: scan, then handle the messages
  let T' := (scan retention now T cands).foldl (fun T m => checkExpired retention now T m.1 m.2) T
  let (ps, ix) := showTables T' cands baseCut
  " ".intercalate (outs.reverse ++ [s!"after={ps}", s!"index={ix}"])

/-- `evstep`: the eviction pass played step by step (`s` snapshot, `c` handle the oldest
queued CheckExpired) with publishes in between; the clock stays within the margins. -/
def evstepCase (ops : List String) : Option String := do
  let now := baseCut + retention
  let mut st : EState := ⟨Tables.empty, [], now⟩
  let mut cands : List (Nat × Nat) := []
  let mut outs : List String := []
  for op in ops do
    if op = "s" then
      let found := sortNatPairs (scan retention st.clock st.tables cands)
      st := { st with queue := st.queue ++ found }
      outs := (if found.isEmpty then "snap:-" else
        "snap:" ++ "/".intercalate (found.map fun (t, k) => s!"{(t : Int) - baseCut}:{k}")) :: outs
    else if op = "c" then
      match st.queue with
      | [] => outs := "chk:-" :: outs
      | (t, k) :: _ =>
        match estep retention st .check with
        | some st' => st := st'; outs := s!"chk:{(t : Int) - baseCut}:{k}" :: outs
        | none => outs := "chk:?" :: outs
    else
      match ← parseMsg op with
      | .up k off id =>
        let p : Packet := ⟨k, 0, ((baseCut : Int) + off).toNat, idBytes id⟩
        let f := (upsert st.tables p).2
        st := (estep retention st (.publish p)).getD st
        cands := (p.ts, k) :: cands
        outs := (if f then "1" else "0") :: outs
      | .get _ => none
  let (ps, ix) := showTables st.tables cands baseCut
  pure (" ".intercalate (outs.reverse ++ [s!"after={ps}", s!"index={ix}"]))

def rawCase (bits : String) (data : List UInt8) : String :=
  match bits.toList with
  | [k0, d0, k8, d8] =>
    -- the opaque predicates, answered for the two slices that are ever inspected
    let keyOk : C39.Bytes → Bool := fun bs =>
      if bs == data.take 32 then k0 == '1' else if bs == (data.drop 8).take 32 then k8 == '1' else false
    let dnsOk : C39.Bytes → Bool := fun bs =>
      if bs == data.drop 104 then d0 == '1' else if bs == (data.drop 8).drop 104 then d8 == '1' else false
    match deserialize keyOk dnsOk data with
    | none => "none"
    | some p => if p == data then "some:0" else "some:8"
  | _ => "bad-input"

def handleLine (payload : String) : String :=
  match tokens payload with
  | "crash" :: rest =>
    match field rest "m" with
    | some m => match ((m.splitOn ",").filter (· ≠ "")).mapM parseMsg with
      | some msgs => crashCase msgs
      | none => "bad-input"
    | none => "bad-input"
  | ["evict", m] =>
    match ((((m.drop 2).toString).splitOn ",").filter (· ≠ "")).mapM parseMsg with
    | some msgs => evictCase msgs
    | none => "bad-input"
  | ["evstep", m] =>
    (evstepCase ((((m.drop 2).toString).splitOn ",").filter (· ≠ ""))).getD "bad-input"
  | ["raw", bits, hx] =>
    match bytesOfHex hx with
    | some data => rawCase bits data
    | none => "bad-input"
  | _ => "bad-input"

def main : IO Unit := Driver.run handleLine
