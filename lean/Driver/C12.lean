import Driver.Loop
import IrohModel.Common.Hex
import IrohModel.C12.Model
open IrohModel IrohModel.C12

/-- Byte strings that `http::HeaderValue::from_bytes` rejects never reach the code; the
harness reports them as `illegal-header`, and so does this rule. -/
def legalHeaderByte (b : UInt8) : Bool := b == 9 || (b ≥ 32 && b != 127)

/-- `http::uri::path::QUERY_MAP`: bytes allowed in a query (high bytes additionally require the
whole target to be UTF-8). -/
def legalQueryByte (b : UInt8) : Bool :=
  b == 0x21 || (0x24 ≤ b && b ≤ 0x3B) || b == 0x3D || (0x3F ≤ b && b ≤ 0x7E) || b ≥ 0x80

/-- What `http::Uri` keeps of the raw text after `?`: everything before the first `#`;
`none` when the request target is rejected. -/
def uriQuery (raw : C12.Bytes) : Option C12.Bytes :=
  let q := raw.takeWhile (· != 35)
  if q.all legalQueryByte && utf8Valid q then some q else none

def renderPairs (ps : List (C12.Bytes × C12.Bytes)) : String :=
  "[" ++ ";".intercalate (ps.map fun (k, v) => s!"{hexOfBytes k}={hexOfBytes v}") ++ "]"

def renderTok : Option C12.Bytes → String
  | none => "none"
  | some t => s!"some:{hexOfBytes t}"

def handleLine (payload : String) : String :=
  match tokens payload with
  | [] => "bad-input"
  | ["enc", t] =>
    -- the query the client's `append_pair("token", t)` produces, and what the server extracts
    match bytesOfHex t with
    | none => "bad-input"
    | some tok =>
      let q := clientQuery tok
      s!"{hexOfBytes q} {renderTok (authTokenOfRequest [] (some q))}"
  | q :: hs =>
    match hs.mapM bytesOfHex with
    | none => "bad-input"
    | some auths =>
      if !auths.all (·.all legalHeaderByte) then "illegal-header" else
      let query? : Option (Option C12.Bytes) :=
        if q = "none" then some none else
        match bytesOfHex q with
        | none => none
        | some raw => some (some raw)
      match query? with
      | none => "bad-input"
      | some none => s!"{renderTok (authTokenOfRequest auths none)} {renderPairs (parseQuery [])}"
      | some (some raw) =>
        match uriQuery raw with
        | none => "illegal-uri"
        | some qq => s!"{renderTok (authTokenOfRequest auths (some qq))} {renderPairs (parseQuery qq)}"

def main : IO Unit := Driver.run handleLine
