import Driver.Loop
import IrohModel.Common.Hex
import IrohModel.C35.Model
open IrohModel IrohModel.C35

namespace DrvC35

def parseRes (s : String) : Option LookupRes :=
  match s.splitOn "." with
  | "ok" :: ids => (ids.mapM String.toNat?).map LookupRes.ok
  | [e] => if e.startsWith "e" then some (.error e) else none
  | _ => none

def parseImm (s : String) : Option (Option LookupRes) :=
  if s = "-" then some none else (parseRes s).map some

def parseEv (s : String) : Option Ev :=
  if s = "n" then some .next
  else if s.startsWith "a" then ((s.drop 1).toString.toNat?).map Ev.advance
  else if s.startsWith "d4=" then (parseRes (s.drop 3).toString).map (Ev.deliver .v4)
  else if s.startsWith "d6=" then (parseRes (s.drop 3).toString).map (Ev.deliver .v6)
  else none

def parseHost (s : String) : Option Host :=
  if s = "dom" then some .domain
  else if s = "none" then some .missing
  else if s.startsWith "v4:" then ((s.drop 3).toString.toNat?).map fun i => .lit ⟨.v4, i⟩
  else if s.startsWith "v6:" then ((s.drop 3).toString.toNat?).map fun i => .lit ⟨.v6, i⟩
  else none

def famTag : Fam → String | .v4 => "4" | .v6 => "6"

def renderOut : TopOut → String
  | .errMissingHost => "EMH"
  | .out (.item a) => s!"I{famTag a.fam}.{a.id}"
  | .out (.errBoth a b) => s!"EB.{a}.{b}"
  | .out .errNoResponse => "ENR"
  | .out .fin => "END"
  | .out .pending => "P"

/-- Apply the schedule; a stream that returned `None` is not polled again. -/
def play (cfg : Config) : Stream → Bool → List Ev → List String → Stream × List String
  | st, _, [], acc => (st, acc)
  | st, ended, ev :: rest, acc =>
    match ev, st with
    | .next, st =>
      if ended then play cfg st ended rest acc
      else
        let (st', o) := st.poll cfg
        play cfg st' (o == .out .fin) rest (acc ++ [renderOut o])
    | ev, .unfold s => play cfg (.unfold (step cfg s ev)) ended rest acc
    | _, st => play cfg st ended rest acc

def handleLine (payload : String) : String :=
  match tokens payload with
  | [host, tmo, i4, i6, sched] =>
    match parseHost host, tmo.toNat?, parseImm i4, parseImm i6,
        ((if sched = "-" then [] else sched.splitOn ",").mapM parseEv) with
    | some h, some tmo, some i4, some i6, some evs =>
      let cfg : Config := { tmo := tmo, imm4 := i4, imm6 := i6 }
      let (st, outs) := play cfg (resolveHostAll h) false evs []
      let calls := match st with
        | .unfold s => s.calls.map fun (f, t) => s!"{famTag f}@{t}"
        | _ => []
      let j := fun (l : List String) => if l.isEmpty then "-" else ",".intercalate l
      s!"{j outs} calls={j calls}"
    | _, _, _, _, _ => "bad-input"
  | _ => "bad-input"

end DrvC35

def main : IO Unit := Driver.run DrvC35.handleLine
