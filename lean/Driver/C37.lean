import Driver.Loop
import IrohModel.Common.Hex
import IrohModel.C37.Model
open IrohModel IrohModel.Pkarr IrohModel.C37

/-
payload: ops separated by `;`
  `p <key> <ts> <tag> <hex dns>`  publish (ZoneStore::insert)        → `1` | `0`
  `g <key>`                       pkarr GET (get_signed_packet)      → `<ts>:<hex dns>` | `none`
  `r <key>`                       DNS resolve of the TXT record      → `<tag>` | `none`
The tag is the TXT string the harness put into that packet's DNS payload (driver
plumbing: the model treats the payload as opaque bytes).
-/

structure St where
  store : Store
  tags : List ((Nat × Nat × List UInt8) × String)

def tagOf (st : St) (p : Packet) : String :=
  match st.tags.find? (fun e => e.1 == (p.key, p.ts, p.payload)) with
  | some e => e.2
  | none => "?"

def stepOp (st : St) (op : String) : Option (St × String) :=
  match tokens op with
  | ["p", k, ts, tag, hx] => do
    let k ← k.toNat?
    let ts ← ts.toNat?
    let bs ← bytesOfHex hx
    let p : Packet := ⟨k, 0, ts, bs⟩
    let (s', u) := upsert st.store p
    pure ({ store := s', tags := ((k, ts, bs), tag) :: st.tags }, if u then "1" else "0")
  | ["g", k] => do
    let k ← k.toNat?
    match get st.store k with
    | none => pure (st, "none")
    | some p => pure (st, s!"{p.ts}:{hexOfBytes p.payload}")
  | ["r", k] => do
    let k ← k.toNat?
    match get st.store k with
    | none => pure (st, "none")
    | some p => pure (st, tagOf st p)
  | _ => none

def handleLine (payload : String) : String :=
  let ops := (payload.splitOn ";").filter (· ≠ "")
  let rec go (st : St) (ops : List String) (acc : List String) : String :=
    match ops with
    | [] => " ".intercalate acc.reverse
    | op :: rest =>
      match stepOp st op with
      | none => "bad-input"
      | some (st', o) => go st' rest (o :: acc)
  go ⟨Store.empty, []⟩ ops []

def main : IO Unit := Driver.run handleLine
