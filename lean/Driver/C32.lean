import Driver.Loop
import IrohModel.Common.Hex
import IrohModel.C32.Model
open IrohModel IrohModel.C32

def fnv64 (bs : Bytes) : UInt64 :=
  bs.foldl (fun h b => (h ^^^ b.toUInt64) * 0x100000001b3) 0xcbf29ce484222325

def hex16 (x : UInt64) : String :=
  String.ofList ((List.range 16).map fun i => hexDigit ((x.toNat / 16 ^ (15 - i)) % 16))

/-- `<len>:<fnv64>:<hex of the first 48 bytes>` — same digest as the harness prints. -/
def digest (bs : Bytes) : String :=
  s!"{bs.length}:{hex16 (fnv64 bs)}:{hexOfBytes (bs.take 48)}"

def envOfBits (s : String) : Option Env :=
  match s.toList with
  | [a, b, c] =>
    if [a, b, c].all (fun x => x == '0' || x == '1') then
      some ⟨fun _ => a == '1', fun _ _ _ => b == '1', fun _ => c == '1'⟩
    else none
  | _ => none

def handleLine (payload : String) : String :=
  match tokens payload with
  | ["b", _tag, hb, vb] =>
    match bytesOfHex hb, envOfBits vb with
    | some b, some E =>
      let fb := renderResult E (fromBytes E b)
      let fbu := renderResult E (fromBytesUnchecked E b)
      -- `from_relay_payload` needs a `PublicKey` value: only callable when the first 32 bytes are one
      let frp := if 32 ≤ b.length ∧ E.validPoint (keyOf b) then
                   renderResult E (fromRelayPayload E (b.take 32) (b.drop 32)) else "na"
      let sg := if headerSize ≤ b.length then digest (signedMsg b) else "na"
      s!"fb={fb} fbu={fbu} frp={frp} sg={sg}"
    | _, _ => "bad-input"
  | ["res", _kind, hk, st, hbody, vb] =>
    match bytesOfHex hk, st.toNat?, bytesOfHex hbody, envOfBits vb with
    | some k, some st, some body, some E => s!"rs={renderResolve E (resolveViaRelay E k st body)}"
    | _, _, _, _ => "bad-input"
  | ["p", hpk, hsig, ts, hdns, vb] =>
    match bytesOfHex hpk, bytesOfHex hsig, ts.toNat?, bytesOfHex hdns, envOfBits vb with
    | some pk, some sig, some ts, some dns, some E =>
      s!"fpu={renderResult E (fromPartsUnchecked E pk sig ts dns)}"
    | _, _, _, _, _ => "bad-input"
  | _ => "bad-input"

def main : IO Unit := Driver.run handleLine
