import Driver.Loop
import IrohModel.Common.Hex
import IrohModel.C41.Model
open IrohModel IrohModel.C41

/-- Driver state: the model state plus what each caller saw at the moment it returned
(handlers done, endpoint closed) — the harness reads the same two facts right after the await. -/
structure DS where
  s : State
  seen : List (Nat × Nat × Bool) := []

def recordReturns (n : Nat) (d : DS) : DS :=
  (List.range n).foldl (fun d i =>
    if d.s.callers i = .returned ∧ ¬ d.seen.any (fun (e : Nat × Nat × Bool) => e.1 == i) then
      { d with seen := d.seen ++ [(i, doneCount d.s, d.s.epClosed)] } else d) d

def applyLabel (n : Nat) (d : DS) (l : Label) : DS :=
  recordReturns n { d with s := step d.s l }

/-- Let the router's own code run until nothing moves (what the harness waits for). -/
def settle (h n : Nat) (d : DS) : DS :=
  let round (d : DS) : DS := (internalLabels h n).foldl (applyLabel n) d
  (List.range (4 * (h + n) + 8)).foldl (fun d _ => round d) d

def parseEv (h n : Nat) (t : String) : Option Label :=
  if t = "e" then some .extClose else
  match t.toList with
  | k :: rest =>
    match (String.ofList rest).toNat? with
    | some i =>
      if k = 'c' ∧ i < n then some (.call i)
      else if k = 'r' ∧ i < h then some (.release i)
      else if k = 'd' ∧ i < n then some (.drop i)
      else if k = 'p' ∧ i < h then some (.panic i)
      else none
    | none => none
  | [] => none

def b01 (b : Bool) : String := if b then "1" else "0"

def snapshot (n : Nat) (t : String) (d : DS) : String :=
  let ret := (List.range n).filter (fun i => d.s.callers i = .returned)
  let rs := if ret.isEmpty then "-" else ".".intercalate (ret.map toString)
  s!"{t}>{rs}/{b01 d.s.cancelled}/{b01 d.s.epClosed}"

def callerTok (h : Nat) (d : DS) (i : Nat) : String :=
  let st := match d.s.callers i with
    | .idle => "nc"
    | .dropped => "dropped"
    | .returned =>
      match d.seen.find? (fun (e : Nat × Nat × Bool) => e.1 == i) with
      | some (_, dc, cl) => s!"ret:{dc}/{h}:{b01 cl}:ok"
      | none => "ret:?"
    | _ => "pend"
  s!"c{i}:{st}"

def handleLine (payload : String) : String :=
  match tokens payload with
  | "infra" :: _ => "infra"
  | [hs, ns, evs] =>
    match (hs.dropPrefix? "h=").bind (·.toString.toNat?), (ns.dropPrefix? "n=").bind (·.toString.toNat?) with
    | some h, some n =>
      if h > 8 ∨ n > 8 then "bad-input" else
      let toks := if evs = "-" then [] else evs.splitOn ";"
      match toks.mapM (fun t => (parseEv h n t).map (fun l => (t, l))) with
      | none => "bad-input"
      | some evl =>
        let (d, snaps) := evl.foldl (fun (acc : DS × List String) (tl : String × Label) =>
          let d := settle h n (applyLabel n acc.1 tl.2)
          (d, acc.2 ++ [snapshot n tl.1 d])) ({ s := init h }, [])
        let cs := (List.range n).map (callerTok h d)
        let a := if snaps.isEmpty then "-" else ";".intercalate snaps
        let b := if cs.isEmpty then "-" else ",".intercalate cs
        s!"{a} | {b}"
    | _, _ => "bad-input"
  | _ => "bad-input"

def main : IO Unit := Driver.run handleLine
