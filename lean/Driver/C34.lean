import Driver.Loop
import IrohModel.Common.Hex
import IrohModel.C34.Model
open IrohModel IrohModel.C34

namespace DrvC34

def commaList (s : String) : List String := if s = "-" then [] else s.splitOn ","

def fmtList (xs : List String) : String := if xs.isEmpty then "-" else ",".intercalate xs

def parseDelays (withR : Bool) (s : String) : Option (List (Nat × Nat)) :=
  (commaList s).mapM fun it =>
    if withR then
      match it.splitOn ":" with
      | [d, r] => do pure ((← d.toNat?), (← r.toNat?))
      | _ => none
    else do pure ((← it.toNat?), 0)

def parseScripts (s : String) : Option (List (Option Nat × Res Unit String)) :=
  (commaList s).mapM fun it =>
    match it.splitOn ":" with
    | [d, r] => do
      let dt ← if d = "h" then pure none else (d.toNat?).map some
      pure (dt, if r = "ok" then Res.ok () else if r = "bad" then Res.err "parse" else Res.err r)
    | _ => none

/-- Inside one millisecond the order of two *timer* events is the timer wheel's business.  It
is observable in exactly one situation: a merged attempt becomes successful through a
per-lookup timeout in the very millisecond in which another attempt's sleep may end.  Harness
and driver both report such a case as `tie-suspect` (the test uses only the ±20 % window). -/
def tieSuspect {α : Type} (delays : List Nat) : Outcome α → Bool
  | .done _ (some (.ok _)) (t, phase, _) =>
    phase == 1 && delays.any fun d => decide (5 * (t - d) ≤ d ∧ 5 * (d - t) ≤ d)
  | _ => false

def renderWith {α : Type} (showV : α → String) (dup : Bool) (withTimes : Bool) : Outcome α → String
  | .panic => "panic"
  | .invalid => "model-invalid"
  | .done calls result (t, _, _) =>
    let res := match result with
      | none => "pending"
      | some (.ok v) => if withTimes then s!"ok {showV v} {t}" else s!"ok {showV v}"
      | some (.error es) => if withTimes then s!"err {fmtList es} {t}" else s!"err {fmtList es}"
    let calls := if dup then calls.flatMap fun c => [c, c] else calls
    if withTimes then s!"calls {fmtList (calls.map toString)} {res}" else res

def handleLine (payload : String) : String :=
  match tokens payload with
  | ["jit", d, r] =>
    match d.toNat?, r.toNat? with
    | some d, some r => match addJitter d r with
      | none => "panic"
      | some v => toString v
    | _, _ => "bad-input"
  | [kind, _fam, tmo, h, delays, scripts] =>
    if kind ≠ "stag" ∧ kind ≠ "real" then "bad-input" else
    let withR := kind = "stag"
    match tmo.toNat?, h.toNat?, parseDelays withR delays, parseScripts scripts with
    | some tmo, some h, some ds, some ss =>
      -- the endpoint-info lookups use the fixed `DNS_TIMEOUT`
      let tmo := if _fam = "txtn" ∨ _fam = "txti" then Generated.C34.dnsTimeoutMs else tmo
      let sc : Scenario := { tmo := tmo, horizon := h, delays := ds, scripts := ss }
      if _fam = "both" then
        let o := simulateBoth sc
        if tieSuspect (ds.map (·.1)) o then "tie-suspect"
        else renderWith (fun (v : List Nat) => ".".intercalate (v.map toString)) true withR o
      else renderWith (fun (v : Nat) => toString v) false withR (simulate sc)
    | _, _, _, _ => "bad-input"
  | _ => "bad-input"

end DrvC34

def main : IO Unit := Driver.run DrvC34.handleLine
