import Driver.Loop
import IrohModel.Common.Hex
import IrohModel.C34.Model
open IrohModel IrohModel.C34

namespace DrvC34

def commaList (s : String) : List String := if s = "-" then [] else s.splitOn ","

def fmtList (xs : List String) : String := if xs.isEmpty then "-" else ",".intercalate xs

def parseDelays (withR : Bool) (s : String) : Option (List (Nat × Nat)) :=
  (commaList s).mapM fun it =>
    if withR then
      match it.splitOn ":" with
      | [d, r] => do pure ((← d.toNat?), (← r.toNat?))
      | _ => none
    else do pure ((← it.toNat?), 0)

def parseScripts (s : String) : Option (List (Option Nat × Res Unit String)) :=
  (commaList s).mapM fun it =>
    match it.splitOn ":" with
    | [d, r] => do
      let dt ← if d = "h" then pure none else (d.toNat?).map some
      pure (dt, if r = "ok" then Res.ok () else Res.err r)
    | _ => none

def render (withTimes : Bool) : Outcome → String
  | .panic => "panic"
  | .invalid => "model-invalid"
  | .done calls result t =>
    let res := match result with
      | none => "pending"
      | some (.ok k) => if withTimes then s!"ok {k} {t}" else s!"ok {k}"
      | some (.error es) => if withTimes then s!"err {fmtList es} {t}" else s!"err {fmtList es}"
    if withTimes then s!"calls {fmtList (calls.map toString)} {res}" else res

def handleLine (payload : String) : String :=
  match tokens payload with
  | ["jit", d, r] =>
    match d.toNat?, r.toNat? with
    | some d, some r => match addJitter d r with
      | none => "panic"
      | some v => toString v
    | _, _ => "bad-input"
  | [kind, _fam, tmo, h, delays, scripts] =>
    if kind ≠ "stag" ∧ kind ≠ "real" then "bad-input" else
    let withR := kind = "stag"
    match tmo.toNat?, h.toNat?, parseDelays withR delays, parseScripts scripts with
    | some tmo, some h, some ds, some ss =>
      render withR (simulate { tmo := tmo, horizon := h, delays := ds, scripts := ss })
    | _, _, _, _ => "bad-input"
  | _ => "bad-input"

end DrvC34

def main : IO Unit := Driver.run DrvC34.handleLine
