import Driver.Loop
import IrohModel.Common.Hex
import IrohModel.C19.Model
open IrohModel IrohModel.C19

def hexNat? (s : String) : Option Nat :=
  s.toList.foldlM (fun acc c => (nibble? c).map (acc * 16 + ·)) 0

def fam? : String → Option Fam
  | "4" => some .v4 | "6" => some .v6 | _ => none

def bool01? : String → Option Bool
  | "0" => some false | "1" => some true | _ => none

def parseCfg (tag : Nat) (s : String) : Option Cfg :=
  match s.splitOn "," with
  | [f, a, p, sc, d, r, b] => do
    let fam ← fam? f
    let addr ← hexNat? a
    let p ← p.toNat?
    let sc ← sc.toNat?
    let d ← bool01? d
    let r ← bool01? r
    let b ← bool01? b
    pure ⟨fam, addr, p, sc, d, r, b, tag⟩
  | _ => none

def parseCfgs (s : String) : Option (List Cfg) :=
  if s == "-" then some [] else
  let rec go (i : Nat) : List String → Option (List Cfg)
    | [] => some []
    | x :: xs => do
      let c ← parseCfg i x
      let cs ← go (i + 1) xs
      pure (c :: cs)
  go 0 (s.splitOn ";")

def parseRelay (s : String) : Option (List Ans) :=
  if s == "-" then some [] else
  s.toList.mapM fun c => match c with
    | 'o' => some Ans.ok | 'f' => some Ans.pending | 'c' => some Ans.err | _ => none

/-- custom sender spec: (accepts, answer) -/
def parseCustom (s : String) : Option (List (Char × Ans)) :=
  if s == "-" then some [] else
  (s.splitOn ";").mapM fun x => match x.toList with
    | [a, ':', r] =>
      (match r with | 'o' => some Ans.ok | 'p' => some Ans.pending | 'e' => some Ans.err | _ => none).map (a, ·)
    | _ => none

def customFor (spec : List (Char × Ans)) (key : Nat) : List (Bool × Ans) :=
  spec.map fun (a, r) => ((if a == 'a' then true else if a == 'e' then key % 2 == 0 else key % 2 == 1), r)

def parseMaps (s : String) : Option Maps :=
  let empty : Maps := ⟨C18.AddrMap.empty, C18.AddrMap.empty, C18.AddrMap.empty⟩
  if s == "-" then some empty else
  (s.splitOn ";").foldlM (fun (m : Maps) x =>
    match x.splitOn "," with
    | [k, key, h] => do
      let key ← key.toNat?
      let a ← bytesOfHex h
      let ins (t : C18.AddrMap) : C18.AddrMap := ⟨(key, a) :: t.addrs, (a, key) :: t.lookup⟩
      match k with
      | "e" => pure { m with mixed := ins m.mixed }
      | "r" => pure { m with relay := ins m.relay }
      | "c" => pure { m with custom := ins m.custom }
      | _ => none
    | _ => none) empty

def parseIp (s : String) : Option Ip :=
  match s.splitOn ":" with
  | [f, h] => do pure ⟨← fam? f, ← hexNat? h⟩
  | _ => none

def parseSock (s : String) (scope : Nat) : Option SockAddr :=
  match s.splitOn ":" with
  | [f, h] => do
    let fam ← fam? f
    let o ← bytesOfHex h
    pure ⟨fam == .v4, o, scope⟩
  | _ => none

def showHanded : Handed → String
  | .ip t => s!"ip:{t}"
  | .relay i k => s!"relay:{i}:{k}"
  | .custom i k l => s!"custom:{i}:{k}:{match l with | some l => toString l | none => "-"}"
  | .endpointState k => s!"state:{k}"

def showAns : Ans → String
  | .ok => "ok" | .err => "err" | .pending => "pending"

def showHandedList (hs : List Handed) : String :=
  if hs.isEmpty then "-" else ",".intercalate (hs.map showHanded)

def showFam (name : String) (l : List Cfg) : String :=
  let tags := if l.isEmpty then "-" else ".".intercalate (l.map fun c => toString c.tag)
  let d := match l.findIdx? (·.isDefault) with | some i => toString i | none => "-"
  s!"{name}:{tags}/d{d}"

def stepOp (b : Bound) (relay : List Ans) (cspec : List (Char × Ans)) (maps : Maps) (op : String) : String :=
  let senders (key : Nat) : Senders := ⟨b, fun _ => .ok, relay, customFor cspec key⟩
  match tokens op with
  | ["P", "i", d, src] =>
    match d.splitOn ":" with
    | [f, h, sc] =>
      match fam? f, hexNat? h, sc.toNat?, (if src == "-" then some none else (parseIp src).map some) with
      | some fam, some v, some sc, some src =>
        let r := tsPollSend (senders 0) (.ip ⟨fam, v⟩ sc src)
        s!"{showHandedList r.1}/{if r.1.isEmpty then showAns r.2 else "*"}"
      | _, _, _, _ => "bad-op"
    | _ => "bad-op"
  | ["P", "r", key] =>
    match key.toNat? with
    | some key => let r := tsPollSend (senders key) (.relay key); s!"{showHandedList r.1}/{showAns r.2}"
    | none => "bad-op"
  | ["P", "c", key, loc] =>
    match key.toNat?, (if loc == "-" then some none else loc.toNat?.map some) with
    | some key, some loc =>
      let r := tsPollSend (senders key) (.custom key loc); s!"{showHandedList r.1}/{showAns r.2}"
    | _, _ => "bad-op"
  | ["Q", closed, d, sc, src] =>
    match bool01? closed, sc.toNat? with
    | some closed, some sc =>
      match parseSock d sc, (if src == "-" then some none else (parseSock src 0).map some) with
      | some dst, some src =>
        -- the custom senders' acceptance depends on the looked-up key
        let key := (C18.findKey maps.custom dst.octets).getD 0
        let r := senderPollSend closed maps (senders key) dst src
        s!"{showHandedList r.1}/{match r.2 with | .ok => "ok" | .errClosed => "closed"}"
      | _, _ => "bad-op"
    | _, _ => "bad-op"
  | _ => "bad-op"

def parseBReq (tag : Nat) (s : String) : Option BReq :=
  match s.splitOn "," with
  | [f, a, p, sc, fl, r, b] => do
    let fam ← (match f with | "4" => some C20.Family.v4 | "6" => some C20.Family.v6 | _ => none)
    let addr ← hexNat? a
    let p ← p.toNat?
    let sc ← sc.toNat?
    let fl ← (match fl with | "u" => some none | "t" => some (some true) | "f" => some (some false) | _ => none)
    let r ← bool01? r
    let b ← bool01? b
    pure ⟨⟨fam, p, fl, r⟩, addr, sc, b, tag⟩
  | _ => none

def parseBReqs (s : String) : Option (List BReq) :=
  if s == "-" then some [] else
  let rec go (i : Nat) : List String → Option (List BReq)
    | [] => some []
    | x :: xs => do
      let c ← parseBReq i x
      let cs ← go (i + 1) xs
      pure (c :: cs)
  go 0 (s.splitOn ";")

def showBound (b : Bound) (ops : String) : String :=
  let lay := s!"{showFam "L4" b.v4},{showFam "L6" b.v6}"
  let maps : Maps := ⟨C18.AddrMap.empty, C18.AddrMap.empty, C18.AddrMap.empty⟩
  ";".intercalate (lay :: (ops.splitOn ";").map (stepOp b [] [] maps))

def handleBuilder (reqs ok ops : String) : String :=
  match parseBReqs reqs, ok.toList with
  | some rs, [o4, o6] =>
    match builderBind (o4 == '1') (o6 == '1') rs with
    | .error (.dup, i) => s!"reject:dup@{i}"
    | .error (.badPrefix, i) => s!"reject:prefix@{i}"
    | .ok (.error (.failed _)) => "binderr:failed"
    | .ok (.error (.dupDefault .v4)) => "binderr:dup4"
    | .ok (.error (.dupDefault .v6)) => "binderr:dup6"
    | .ok (.ok b) => showBound b ops
  | _, _ => "bad-input"

def handleLine (payload : String) : String :=
  match payload.splitOn "|" with
  | ["b", reqs, ok, _, _, ops] => handleBuilder reqs ok ops
  | [_variant, cfgs, relay, custom, maps, ops] =>
    match parseCfgs cfgs, parseRelay relay, parseCustom custom, parseMaps maps with
    | some cfgs, some relay, some cspec, some maps =>
      if cfgs.any (fun c => c.fam.bits < c.prefixLen) then "binderr:prefix" else
      match bind cfgs with
      | .error (.failed _) => "binderr:failed"
      | .error (.dupDefault .v4) => "binderr:dup4"
      | .error (.dupDefault .v6) => "binderr:dup6"
      | .ok b =>
        let lay := s!"{showFam "L4" b.v4},{showFam "L6" b.v6}"
        ";".intercalate (lay :: (ops.splitOn ";").map (stepOp b relay cspec maps))
    | _, _, _, _ => "bad-input"
  | _ => "bad-input"

def main : IO Unit := Driver.run handleLine
