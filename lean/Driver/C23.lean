import Driver.Loop
import IrohModel.Common.Hex
import IrohModel.C23.Model
open IrohModel IrohModel.C23

/-- `<id>:<kind>:<status>` -/
def parsePath (s : String) : Option Path :=
  match s.splitOn ":" with
  | [i, k, st] => do
    let id ← i.toNat?
    let relay ← (if k = "r" then some true
                 else if k = "4" || k = "6" || k = "c" then some false else none)
    let status ←
      (if st = "o" then some Status.open
       else if st = "k" then some Status.unknown
       else if st = "u" then some Status.unusable
       else if st.startsWith "i" then (st.drop 1).toString.toNat?.map Status.inactive
       else none)
    pure ⟨id, relay, status⟩
  | _ => none

/-- Ascending insertion sort of the kept ids (canonical output order). -/
def insertAsc (x : Nat) : List Nat → List Nat
  | [] => [x]
  | y :: ys => if x ≤ y then x :: y :: ys else y :: insertAsc x ys

def sortAsc (xs : List Nat) : List Nat := xs.foldr insertAsc []

def hasDup : List Nat → Bool
  | [] => false
  | x :: xs => xs.contains x || hasDup xs

def handleLine (payload : String) : String :=
  let paths? : Option (List Path) :=
    if payload = "-" then some [] else (tokens payload).mapM parsePath
  match paths? with
  | none => "bad-input"
  | some paths =>
    -- map keys are distinct; the harness reports the same for inputs it cannot build
    if hasDup (paths.map (·.id)) then "bad-input" else
    let kept := sortAsc ((prune paths).map (·.id))
    if kept.isEmpty then "kept -" else "kept " ++ ",".intercalate (kept.map toString)

def main : IO Unit := Driver.run handleLine
