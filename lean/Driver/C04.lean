import Driver.Loop
import IrohModel.C04.Model
open IrohModel

/-- payload: the harness script (see `harness/hrelay/src/relayreg.rs`);
output: per operation what every connection received, which actors ended, the registry. -/
def handleLine (payload : String) : String :=
  RelaySched.runPayload C04.driverCfg 8 payload

def main : IO Unit := Driver.run handleLine
