import Driver.Loop
import IrohModel.C04.Model
import IrohModel.C04.WireModel
open IrohModel IrohModel.RelayRegistry IrohModel.RelaySched

/-!
Driver for C04.  Two payload kinds:
* a registry script (see `harness/hrelay/src/relayreg.rs`): replayed on the registry model with
  abstract contents tokens;
* `W <cap> <keys>;op;…` — WIRE mode (see `harness/hrelay/src/bin/c04.rs`): datagram operations are
  byte strings; they go through the composed model `C04/WireModel.lean`
  (C10 `decodeC2R` → registry → C10 `encode`), and what a connection receives is shown as the
  receiving client decodes it (C10 `decodeR2C` in the connection's protocol version).
-/

namespace WireDrv
open IrohModel.C04

/-- The harness' pseudo-random contents `p<len>.<seed>` (xorshift64, little endian). -/
def prgBytes (len seed : Nat) : Bytes :=
  let x0 : UInt64 := (UInt64.ofNat seed * 0x9E3779B97F4A7C15) ^^^ 0xD1B54A32D192ED03
  let rec go (fuel : Nat) (x : UInt64) (acc : List (List UInt8)) : List (List UInt8) :=
    match fuel with
    | 0 => acc.reverse
    | fuel + 1 =>
      let x := x ^^^ (x <<< 13)
      let x := x ^^^ (x >>> 7)
      let x := x ^^^ (x <<< 17)
      let bs := (List.range 8).map fun i => (x >>> (UInt64.ofNat (8 * i))).toUInt8
      go fuel x (bs :: acc)
  ((go (len / 8 + 1) x0 []).flatten).take len

def tokBytes (s : String) : Option Bytes :=
  if s.startsWith "p" then
    match ((s.drop 1).toString.splitOn ".") with
    | [l, sd] => do pure (prgBytes (← l.toNat?) (← sd.toNat?))
    | _ => none
  else bytesOfHex s

def ecnOfNat : Nat → Option C10.Ecn
  | 1 => some .ect1
  | 2 => some .ect0
  | 3 => some .ce
  | _ => none

def mkKm (keys : List Bytes) : KeyMap :=
  let valid := keys.take 8
  { validKey := fun k => valid.contains k,
    keyOf := fun i => keys.getD i [],
    idOf := fun k => (valid.findIdx? (· == k)).getD 999 }

/-- `<len>:<sum of (i+1)·byte_i mod 2^32>` — how both sides show datagram contents. -/
def cstr (bs : Bytes) : String :=
  let (sum, _) := bs.foldl (fun (acc : Nat × Nat) b => ((acc.1 + (acc.2 + 1) * b.toNat) % 4294967296, acc.2 + 1)) (0, 0)
  s!"{bs.length}:{sum}"

def showR2C (km : KeyMap) : C10.Res C10.RelayToClientMsg → String
  | .ok (.datagrams k d) => s!"D{km.idOf k}.{C10.ecnBits d.ecn}.{d.segmentSize.getD 0}.{cstr d.contents}"
  | .ok (.endpointGone k) => s!"G{km.idOf k}"
  | .ok (.status .healthy) => "S0"
  | .ok (.status .sameEndpointIdConnected) => "S1"
  | .ok (.status _) => "S?"
  | .ok (.health p) =>
    if p == statusText .healthy then "H0" else if p == statusText .sameIdConnected then "H1" else "H?"
  | .ok (.pong d) => s!"P{hexOfBytes d}"
  | .ok (.ping d) => s!"I{hexOfBytes d}"
  | .ok (.restarting _ _) => "R"
  | .error _ => "E"

/-- A frame written to connection `c`, as its client decodes the bytes. -/
def render (km : KeyMap) (before : State D) (c : Cid) (f : R2C D) : String :=
  let v : C10.Version := match before.conns c with
    | some x => if x.v1 then .v1 else .v2
    | none => .v2
  showR2C km (clientDecode km v (wireOut km f))

def honest (km : KeyMap) (dst ecn seg : Nat) (contents : Bytes) : Bytes :=
  clientEncode km dst { ecn := ecnOfNat ecn, segmentSize := if seg = 0 then none else some seg, contents := contents }

def setAt (bs : Bytes) (i : Nat) (f : UInt8 → UInt8) : Bytes :=
  bs.mapIdx fun j b => if j = i then f b else b

def parseWire (km : KeyMap) (s : String) : Option (SOp D) :=
  match tokens s with
  | ["wsend", c, dst, ecn, seg, tok] => do
    let bs := honest km (← dst.toNat?) (← ecn.toNat?) (← seg.toNat?) (← tokBytes tok)
    pure (.decoded (← c.toNat?) (wireIn km bs))
  | ["wmut", c, dst, ecn, seg, tok, kind, a, b] => do
    let bs := honest km (← dst.toNat?) (← ecn.toNat?) (← seg.toNat?) (← tokBytes tok)
    let a ← a.toNat?
    let b ← b.toNat?
    let bs' ← (match kind with
      | "trunc" => some (bs.take a)
      | "flip" => some (setAt bs a (fun x => x ^^^ UInt8.ofNat b))
      | "app" => some (bs ++ List.replicate a (UInt8.ofNat b))
      | _ => none)
    pure (.decoded (← c.toNat?) (wireIn km bs'))
  | ["wraw", c, hex] => do pure (.decoded (← c.toNat?) (wireIn km (← bytesOfHex hex)))
  | _ => parseCtl s

def run (payload : String) : String :=
  match payload.splitOn ";" with
  | [] => "bad-input"
  | hd :: opsS =>
    match tokens hd with
    | ["W", cap, keys] =>
      match cap.toNat?, (keys.splitOn ",").mapM bytesOfHex with
      | some cap, some keys =>
        let km := mkKm keys
        match (opsS.filter (fun o => !(tokens o).isEmpty)).mapM (parseWire km) with
        | none => "bad-input"
        | some ops => runScript (render km) (wcfg cap) 8 ops
      | _, _ => "bad-input"
    | _ => "bad-input"

end WireDrv

/-- payload: the harness script; output: per operation what every connection received,
which actors ended, the registry. -/
def handleLine (payload : String) : String :=
  if payload.startsWith "W " then WireDrv.run payload
  else RelaySched.runPayload C04.driverCfg 8 payload

def main : IO Unit := Driver.run handleLine
