import Driver.Loop
import IrohModel.Common.Hex
import IrohModel.C21.Model
open IrohModel IrohModel.C21

inductive Item
  | step (i : Nat) (l : Label)
  | snapshot

/-- `<i> q<r>` | `<i> p<g>` | `<i> i<g>` | `<i> c<g>` | `<i> u<g>` | `#` -/
def parseItem (s : String) : Option Item :=
  match tokens s with
  | ["#"] => some .snapshot
  | [i, l] => do
    let i ← i.toNat?
    if i > 1 then none
    let n ← (l.drop 1).toString.toNat?
    let lbl ←
      (if l.startsWith "q" then some (Label.request n)
       else if l.startsWith "p" then some (Label.process n)
       else if l.startsWith "i" then some (Label.idleDecide n)
       else if l.startsWith "c" then some (Label.closeDrain n)
       else if l.startsWith "u" then some (Label.cleanup n)
       else none)
    pure (.step i lbl)
  | _ => none

def showIds (xs : List Nat) : String :=
  if xs.isEmpty then "-" else ",".intercalate (xs.map toString)

def showRemote (i : Nat) (R : Remote) : String :=
  let inbox :=
    match R.sender with
    | none => "none"
    | some g =>
      match findTask R.tasks g with
      | some (.running _ inbox) => s!"open:{inbox.length}"
      | some (.exiting inbox) => s!"open:{inbox.length}"
      | some (.done l) => s!"closed:{l.length}"
      | none => "dangling"
  s!"R{i}:m{showIds R.made}:p{showIds R.processed}:s{if R.sender.isSome then 1 else 0}:{inbox}"

def showSys (s : Sys) : String :=
  s!"T{(s 0).tasks.length + (s 1).tasks.length}|{showRemote 0 (s 0)}|{showRemote 1 (s 1)}"

def handleLine (payload : String) : String :=
  match (payload.splitOn ";").mapM parseItem with
  | none => "bad-input"
  | some items =>
    let (_, outs, _) := items.foldl (fun (acc : Sys × List String × Nat) it =>
      let (s, outs, k) := acc
      match it with
      | .snapshot => (s, showSys s :: outs, k + 1)
      | .step i l =>
        match sysStep s (i, l) with
        | some s' => (s', outs, k + 1)
        -- a step the implementation took is not enabled in the model: say where
        | none => (s, s!"disabled@{k}" :: outs, k + 1)) (Sys.init, [], 0)
    ";".intercalate outs.reverse

def main : IO Unit := Driver.run handleLine
