import Driver.Loop
import IrohModel.Common.Hex
import IrohModel.C17.Model
open IrohModel IrohModel.C17

def natList? (s : String) : Option (List Nat) :=
  if s == "-" then some [] else (s.splitOn ",").mapM String.toNat?

def showSlot (s : Slot) : String :=
  s!"{s.src}/{s.stride}/n/{hexOfBytes s.contents}"

def showPoll : PollRes → String
  | .ready slots => s!"ready:{slots.length}:{",".intercalate (slots.map showSlot)}"
  | .pending w => s!"pending:w{if w then 1 else 0}"
  | .errClosed => "err:closed"

def showArrive : ArriveRes → String
  | .ok => "ok" | .full => "full" | .closed => "closed"

/-- `none` state = no `q` op seen yet. -/
def stepOp (st : Option St) (op : String) : Option St × String :=
  match tokens op, st with
  | ["q", cap], _ =>
    match cap.toNat? with
    | some c => (some (init c), "ok")
    | none => (st, "bad-op")
  | ["a", src, ecn, seg, h], some st =>
    match src.toNat?, ecn.toNat?, seg.toNat?, bytesOfHex h with
    | some src, some _, some seg, some c =>
      if seg ≤ 65535 then
        let r := arrive st ⟨src, seg, c⟩
        (some r.1, showArrive r.2)
      else (some st, "bad-op")
    | _, _, _, _ => (some st, "bad-op")
  | ["p", lens], some st =>
    match natList? lens with
    | some bufs =>
      let r := pollRecv st bufs
      (some r.st, showPoll r.res)
    | none => (some st, "bad-op")
  | ["c"], some st => (some { st with closed := true }, "ok")
  | _, _ => (st, "bad-op")

def handleLine (payload : String) : String :=
  let (_, outs) := (payload.splitOn ";").foldl
    (fun (acc : Option St × List String) op => let (st, o) := stepOp acc.1 op; (st, o :: acc.2)) (none, [])
  ";".intercalate outs.reverse

def main : IO Unit := Driver.run handleLine
