import Driver.Loop
import IrohModel.Common.Hex
import IrohModel.C25.Model
open IrohModel IrohModel.C25

def mode? : String → Option Mode
  | "run" => some .run | "skip" => some .skip | _ => none

/-- `q:<Why>:<run|skip>` | `d:<run|skip>` | `t` | `r` | `s` | `T` -/
def obs? (tok : String) : Option Obs :=
  match tok.splitOn ":" with
  | ["q", w, m] => match Why.parse? w, mode? m with
                   | some w, some m => some (.req w m)
                   | _, _ => none
  | ["d", m] => (mode? m).map fun m => .lab (.onDone m)
  | ["t"] => some (.lab .report)
  | ["r"] => some (.lab .release)
  | ["s"] => some (.lab .signal)
  | ["T"] => some .timeout
  | _ => none

/-- model input: `run <obs>,<obs>,…` (or `run -`): the schedule observed on the implementation;
`bad`: a malformed payload. -/
def handleLine (payload : String) : String :=
  match tokens payload with
  | ["run", "-"] => renderRun codeRf []
  | ["run", ls] =>
    match (ls.splitOn ",").mapM obs? with
    | some obs => renderRun codeRf obs
    | none => "bad-input"
  | _ => "bad-input"

def main : IO Unit := Driver.run handleLine
