import Driver.Loop
import IrohModel.Common.Hex
import IrohModel.C15.Model
open IrohModel IrohModel.C15

namespace DrvC15

open IrohModel.C35 (Fam LookupRes Host Config)

def parseRes (s : String) : Option LookupRes :=
  match s.splitOn "." with
  | "ok" :: ids => (ids.mapM String.toNat?).map LookupRes.ok
  | [e] => if e.startsWith "e" then some (.error e) else none
  | _ => none

def parseImm (s : String) : Option (Option LookupRes) :=
  if s = "-" then some none else (parseRes s).map some

def parseEv (s : String) : Option Ev :=
  if s.startsWith "a" then ((s.drop 1).toString.toNat?).map Ev.advance
  else if s.startsWith "r4=" then (parseRes (s.drop 3).toString).map (Ev.dns .v4)
  else if s.startsWith "r6=" then (parseRes (s.drop 3).toString).map (Ev.dns .v6)
  else if s.startsWith "c" then
    match (s.drop 1).toString.splitOn "=" with
    | [i, r] => (i.toNat?).map fun i => Ev.dial i (if r = "ok" then none else some s!"io.{r}")
    | _ => none
  else none

def parseHost (s : String) : Option Host :=
  if s = "dom" then some .domain
  else if s.startsWith "v4:" then ((s.drop 3).toString.toNat?).map fun i => .lit ⟨.v4, i⟩
  else if s.startsWith "v6:" then ((s.drop 3).toString.toNat?).map fun i => .lit ⟨.v6, i⟩
  else none

def famTag : Fam → String | .v4 => "4" | .v6 => "6"

def j (l : List String) : String := if l.isEmpty then "-" else ",".intercalate l

def render (path : Option Path) (sim : Sim) : String :=
  let starts := sim.d.attempts.map fun a => s!"{famTag a.addr.fam}.{a.addr.id}@{a.start}"
  let res := match sim.d.result with
    | none => "pending"
    | some r =>
      match (match path with | some pa => dialUrlResult pa r | none => r) with
      | .ok i => s!"ok.{i}@{sim.retAt}"
      | .error e => s!"err.{e}@{sim.retAt}"
  let calls := match sim.stream with
    | .unfold s => s.calls.map fun (f, t) => s!"{famTag f}@{t}"
    | _ => []
  let stuck := if sim.stuck then " MODEL-STUCK" else ""
  s!"starts={j starts} res={res} calls={j calls}{stuck}"

def handleLine (payload : String) : String :=
  match tokens payload with
  | [prefer, host, i4, i6, sched] =>
    let path : Option Path :=
      if prefer.endsWith "d" then some .direct
      else if prefer.endsWith "p" then some (.proxy 200)
      else if prefer.endsWith "q" then some (.proxy 403)
      else none
    if host = "noport" then
      let r : Except Err Nat := .error "port"
      match (match path with | some pa => dialUrlResult pa r | none => r) with
      | .ok _ => "bad-input"
      | .error e => s!"starts=- res=err.{e}@0 calls=-"
    else
    match parseHost host, parseImm i4, parseImm i6,
        ((if sched = "-" then [] else sched.splitOn ",").mapM fun g => (g.splitOn "+").mapM parseEv) with
    | some h, some i4, some i6, some groups =>
      let cfg : Config := { tmo := Generated.C15.dnsTimeout, imm4 := i4, imm6 := i6 }
      render path (simulate (prefer.startsWith "6") h cfg groups)
    | _, _, _, _ => "bad-input"
  | _ => "bad-input"

end DrvC15

def main : IO Unit := Driver.run DrvC15.handleLine
