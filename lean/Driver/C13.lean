import Driver.Loop
import IrohModel.Common.Hex
import IrohModel.C13.Model
open IrohModel IrohModel.C13

/-- The harness maps byte strings that are not legal HTTP header values to
`illegal-header` before they reach the handler; the same rule here. -/
def legalHeaderByte (b : UInt8) : Bool := b == 9 || (b ≥ 32 && b != 127)

def handleLine (payload : String) : String :=
  let render (r : Response) : String :=
    match r.header with
    | none => s!"{r.status} none"
    | some h => s!"{r.status} {hexOfBytes h}"
  let payload := if payload.startsWith "srv " then (payload.drop 4).toString else payload
  if payload = "none" then render (handle none) else
  match bytesOfHex payload with
  | none => "bad-input"
  | some bs => if bs.all legalHeaderByte then render (handle (some bs)) else "illegal-header"

def main : IO Unit := Driver.run handleLine
