import Driver.Loop
import IrohModel.Common.Hex
import IrohModel.C11.Model
open IrohModel IrohModel.C11

/-- Byte strings that `http::HeaderValue::from_bytes` rejects cannot be sent / received as a
header value; the harness reports them as `illegal-header`, and so does this rule. -/
def legalHeaderByte (b : UInt8) : Bool := b == 9 || (b ≥ 32 && b != 127)

/-- What an HTTP/1.1 parser hands to the application for a header line: optional white space
(space, tab) around the field value is not part of the value (RFC 9110 §5.5). -/
def stripOws (v : C11.Bytes) : C11.Bytes :=
  let ows (b : UInt8) : Bool := b == 32 || b == 9
  ((v.dropWhile ows).reverse.dropWhile ows).reverse

def versionTag : Version → String
  | .v1 => "v1"
  | .v2 => "v2"

def renderUpgrade (u : Upgrade) : String :=
  let cls := match u with
    | .switching v => s!"switching:{versionTag v}"
    | .missingHeader => "missing"
    | .notAscii => "not-ascii"
    | .unsupported => "unsupported"
  let ans := match u.answer with
    | some a => hexOfBytes a
    | none => "none"
  s!"{u.status} {ans} {cls}"

def handleLine (payload : String) : String :=
  match tokens payload with
  | "srv" :: hs =>
    -- server side: the values of the request's Sec-WebSocket-Protocol header lines, in order
    match hs.mapM bytesOfHex with
    | none => "bad-input"
    | some hdrs =>
      if !hdrs.all (·.all legalHeaderByte) then "illegal-header" else
      renderUpgrade (negotiate hdrs.head?)
  | "offer" :: _ =>
    -- the real client's offer and the round trip through server and client
    let u := negotiate (some clientOffer)
    let acc := match clientAccept u.answer with
      | some v => s!"accept:{versionTag v}"
      | none => "reject"
    s!"{hexOfBytes clientOffer} {renderUpgrade u} {acc}"
  | [kind, a] =>
    if kind != "cli" && kind != "rcli" then "bad-input" else
    -- client side: the value of the response's Sec-WebSocket-Protocol header (`none` = absent)
    let ans? : Option (Option C11.Bytes) :=
      if a = "none" then some none else (bytesOfHex a).map some
    match ans? with
    | none => "bad-input"
    | some ans =>
      if !(ans.getD []).all legalHeaderByte then "illegal-header" else
      let ans := if kind = "rcli" then ans.map stripOws else ans
      match clientAccept ans with
      | some v => if kind = "cli" then s!"accept:{versionTag v}" else "accept"
      | none => "reject"
  | _ => "bad-input"

def main : IO Unit := Driver.run handleLine
