import Driver.Loop
import IrohModel.Common.Hex
import IrohModel.C29.Model
import IrohModel.C29.ResolveModel
open IrohModel IrohModel.C29

/-- `i<id>[@delay]` / `e<id>[@delay]` -/
def parseElem (s : String) : Option (Nat × Res) :=
  let (body, delay) := match s.splitOn "@" with
    | [b] => (b, some 0)
    | [b, d] => (b, d.toNat?)
    | _ => ("", none)
  match delay, body.toList with
  | some d, 'i' :: ds => (String.ofList ds).toNat?.map fun n => (d, Res.item n)
  | some d, 'e' :: ds => (String.ofList ds).toNat?.map fun n => (d, Res.err n)
  | _, _ => none

/-- A service: `D` declines; `S:<elem>,..[,$<end delay>]` returns a stream. -/
def parseService (s : String) : Option (Option (List (Nat × Res) × Nat)) :=
  if s == "D" then some none
  else if s.startsWith "S:" then
    let body := (s.drop 2).toString
    let toks := if body == "" then [] else body.splitOn ","
    let (toks, endDelay) := match toks.getLast? with
      | some l => if l.startsWith "$" then (toks.dropLast, (l.drop 1).toString.toNat?) else (toks, some 0)
      | none => (toks, some 0)
    match endDelay, toks.mapM parseElem with
    | some e, some els => some (some (els, e))
    | _, _ => none
  else none

def parseServices (s : String) : Option (List (Option (List (Nat × Res) × Nat))) :=
  if s == "-" then some [] else (s.splitOn "/").mapM parseService

def parseSched (s : String) : Option (List (Option Nat)) :=
  if s == "-" then some []
  else (s.splitOn ",").mapM fun t => if t == "p" then some none else t.toNat?.map some

def fmtOut : Out → String
  | .item x => s!"i{x}"
  | .err e => s!"e{e}"
  | .noResults es => "NR[" ++ ".".intercalate (es.map toString) ++ "]"
  | .noService => "NS"

def fmtPoll : Poll → String
  | .pending => "P"
  | .ready none => "end"
  | .ready (some o) => fmtOut o

def stamp (ts : List Nat) (tEnd : Nat) (ps : List Poll) : List String :=
  -- tokens up to and including the first `end` carry the virtual time; then two bare tokens
  let rec go : List Nat → List Poll → Nat → List String
    | _, [], _ => []
    | ts, p :: ps, after =>
      if after > 0 then
        if after > 2 then [] else fmtPoll p :: go ts ps (after + 1)
      else
        let (t, ts') := match ts with
          | t :: ts' => (t, ts')
          | [] => (tEnd, [])
        let tok := s!"{t}:{fmtPoll p}"
        if p == .ready none then tok :: go ts' ps 1 else tok :: go ts' ps 0
  go ts ps 0

/-! ### R / RT modes: the stream feeds the resolve plumbing (C29 ∘ C22) -/

/-- `i<id>[w][=a.b.c][@delay]` / `e<id>[@delay]` with the item's content. -/
def parseElemR (s : String) : Option (Nat × Res × ItemInfo) :=
  let (body, delay) := match s.splitOn "@" with
    | [b] => (b, some 0)
    | [b, d] => (b, d.toNat?)
    | _ => ("", none)
  let (head, addrs) : String × Option (List Nat) := match body.splitOn "=" with
    | [h] => (h, some [])
    | [h, a] => (h, (a.splitOn ".").mapM String.toNat?)
    | _ => ("", none)
  match delay, addrs, head.toList with
  | some d, some as, 'i' :: ds =>
    let (ds, w) := match ds.getLast? with
      | some 'w' => (ds.dropLast, true)
      | _ => (ds, false)
    (String.ofList ds).toNat?.map fun n => (d, Res.item n, ⟨as, w⟩)
  | some d, some [], 'e' :: ds =>
    if body.contains '=' then none else (String.ofList ds).toNat?.map fun n => (d, Res.err n, ⟨[], false⟩)
  | _, _, _ => none

def parseServiceR (s : String) : Option (Option (List (Nat × Res × ItemInfo) × Nat)) :=
  if s == "D" then some none
  else if s.startsWith "S:" then
    let body := (s.drop 2).toString
    let toks := if body == "" then [] else body.splitOn ","
    let (toks, endDelay) := match toks.getLast? with
      | some l => if l.startsWith "$" then (toks.dropLast, (l.drop 1).toString.toNat?) else (toks, some 0)
      | none => (toks, some 0)
    match endDelay, toks.mapM parseElemR with
    | some e, some els => some (some (els, e))
    | _, _ => none
  else none

def parseServicesR (s : String) : Option (List (Option (List (Nat × Res × ItemInfo) × Nat))) :=
  if s == "-" then some [] else (s.splitOn "/").mapM parseServiceR

def contentOf (svcs : List (Option (List (Nat × Res × ItemInfo) × Nat))) (x : Nat) : ItemInfo :=
  let all := svcs.flatMap fun s => match s with
    | some (els, _) => els
    | none => []
  match all.find? (fun e => e.2.1 == Res.item x) with
  | some e => e.2.2
  | none => ⟨[], false⟩

def fmtReply (p : Poll) : C22.Reply → String
  | .ok => "+ok"
  | .err .noService => "+NS"
  | .err .noResults => "+NR[" ++ ".".intercalate ((carriedErrors p).map toString) ++ "]"

def kindOf : Poll → String
  | .pending => "P"
  | .ready none => "FO"
  | .ready (some (.item _)) => "I"
  | .ready (some (.err _)) => "P"
  | .ready (some (.noResults _)) => "FNR"
  | .ready (some .noService) => "FNS"

/-- One run of the actor's `address_lookup_stream` arm. -/
def actorPoll (content : Nat → ItemInfo) (st : St) (a : C22.State) (first next : Inner) :
    St × C22.State × String × Option C22.Reply :=
  if !a.lookup then (st, a, "X", none) else
  let (st', p) := outerPoll st first next 4
  match opOfPoll content p with
  | none => (st', a, kindOf p, none)
  | some op =>
    let (a', ans) := C22.step a ⟨op, []⟩
    let rep := ans.head?.map (·.2)
    (st', a', kindOf p ++ (match rep with | some r => fmtReply p r | none => ""), rep)

def finalR (a : C22.State) : String :=
  s!"paths={a.paths.length} lookup={if a.lookup then 1 else 0} pending={a.pending.length}"

def handleLine (payload : String) : String :=
  match tokens payload with
  | ["P", sv, sc] =>
    match parseServices sv, parseSched sc with
    | some svs, some sched =>
      let services : List Service := svs.map fun s => s.map fun (els, _) => els.map (·.2)
      let init := (resolve services).1
      let live : Live := if services.isEmpty then [] else services
      let (_, _, ps) := runSched init live (sched ++ [none, none])
      ",".intercalate (ps.map fmtPoll)
    | _, _ => "bad-payload"
  | ["T", sv] =>
    match parseServices sv with
    | some svs =>
      let services : List Service := svs.map fun s => s.map fun (els, _) => els.map (·.2)
      let init := (resolve services).1
      let streams := svs.filterMap fun s => s.map fun (els, _) => absTimes 0 els
      let endTimes := svs.filterMap fun s => s.map fun (els, e) => els.foldl (fun a x => a + x.1) 0 + e
      let tEnd := endTimes.foldl max 0
      let fuel := streams.foldl (fun a s => a + s.length) 0
      let merged := timeMerge fuel streams
      let inner := merged.map (fun x => Inner.elem x.2) ++ [.done, .done, .done, .done]
      let (_, ps) := runPolls init inner
      ",".intercalate (stamp (merged.map (·.1)) tEnd ps)
    | none => "bad-payload"
  | ["R", sv, sc] =>
    match parseServicesR sv, parseSched sc with
    | some svcs, some sched =>
      let services : List Service := svcs.map fun s => s.map fun (els, _) => els.map (·.2.1)
      let content := contentOf svcs
      let a0 := (C22.step (C22.init (!services.isEmpty)) ⟨.resolve [], []⟩).1
      let st0 := (resolve services).1
      let live : Live := if services.isEmpty then [] else services
      let (_, _, a, toks) := (sched ++ [none, none]).foldl
        (fun (acc : St × Live × C22.State × List String) step =>
          let (st, ss, a, toks) := acc
          let (ss', ev) := schedStep ss step
          let (st', a', tok, _) := actorPoll content st a ev (idle ss')
          (st', ss', a', tok :: toks)) (st0, live, a0, [])
      ",".intercalate toks.reverse ++ " | " ++ finalR a
    | _, _ => "bad-payload"
  | ["RT", sv] =>
    match parseServicesR sv with
    | some svcs =>
      let services : List Service := svcs.map fun s => s.map fun (els, _) => els.map (·.2.1)
      let content := contentOf svcs
      let a0 := (C22.step (C22.init (!services.isEmpty)) ⟨.resolve [], []⟩).1
      let st0 := (resolve services).1
      let streams := svcs.filterMap fun s => s.map fun (els, _) => absTimes 0 (els.map fun e => (e.1, e.2.1))
      let endTimes := svcs.filterMap fun s => s.map fun (els, e) => els.foldl (fun a x => a + x.1) 0 + e
      let tEnd := endTimes.foldl max 0
      let fuel := streams.foldl (fun a s => a + s.length) 0
      let merged := timeMerge fuel streams
      let events : List (Nat × Inner) := merged.map (fun x => (x.1, Inner.elem x.2)) ++ [(tEnd, .done)]
      let (_, a, toks, ans) := events.foldl
        (fun (acc : St × C22.State × List String × Option String) ev =>
          let (st, a, toks, ans) := acc
          let (st', a', tok, rep) := actorPoll content st a ev.2 .pending
          let kind := (tok.splitOn "+").headD ""
          let toks := if kind == "P" || kind == "X" then toks else s!"{ev.1}:{kind}" :: toks
          let ans := match ans, rep with
            | none, some _ => some s!"{ev.1}:{(tok.drop (kind.length + 1)).toString}"
            | a, _ => a
          (st', a', toks, ans)) (st0, a0, [], none)
      ",".intercalate toks.reverse ++ s!" | ans={ans.getD "none"} | " ++ finalR a
    | none => "bad-payload"
  | _ => "bad-payload"

def main : IO Unit := Driver.run handleLine
