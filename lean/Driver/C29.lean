import Driver.Loop
import IrohModel.Common.Hex
import IrohModel.C29.Model
open IrohModel IrohModel.C29

/-- `i<id>[@delay]` / `e<id>[@delay]` -/
def parseElem (s : String) : Option (Nat × Res) :=
  let (body, delay) := match s.splitOn "@" with
    | [b] => (b, some 0)
    | [b, d] => (b, d.toNat?)
    | _ => ("", none)
  match delay, body.toList with
  | some d, 'i' :: ds => (String.ofList ds).toNat?.map fun n => (d, Res.item n)
  | some d, 'e' :: ds => (String.ofList ds).toNat?.map fun n => (d, Res.err n)
  | _, _ => none

/-- A service: `D` declines; `S:<elem>,..[,$<end delay>]` returns a stream. -/
def parseService (s : String) : Option (Option (List (Nat × Res) × Nat)) :=
  if s == "D" then some none
  else if s.startsWith "S:" then
    let body := (s.drop 2).toString
    let toks := if body == "" then [] else body.splitOn ","
    let (toks, endDelay) := match toks.getLast? with
      | some l => if l.startsWith "$" then (toks.dropLast, (l.drop 1).toString.toNat?) else (toks, some 0)
      | none => (toks, some 0)
    match endDelay, toks.mapM parseElem with
    | some e, some els => some (some (els, e))
    | _, _ => none
  else none

def parseServices (s : String) : Option (List (Option (List (Nat × Res) × Nat))) :=
  if s == "-" then some [] else (s.splitOn "/").mapM parseService

def parseSched (s : String) : Option (List (Option Nat)) :=
  if s == "-" then some []
  else (s.splitOn ",").mapM fun t => if t == "p" then some none else t.toNat?.map some

def fmtOut : Out → String
  | .item x => s!"i{x}"
  | .err e => s!"e{e}"
  | .noResults es => "NR[" ++ ".".intercalate (es.map toString) ++ "]"
  | .noService => "NS"

def fmtPoll : Poll → String
  | .pending => "P"
  | .ready none => "end"
  | .ready (some o) => fmtOut o

def stamp (ts : List Nat) (tEnd : Nat) (ps : List Poll) : List String :=
  -- tokens up to and including the first `end` carry the virtual time; then two bare tokens
  let rec go : List Nat → List Poll → Nat → List String
    | _, [], _ => []
    | ts, p :: ps, after =>
      if after > 0 then
        if after > 2 then [] else fmtPoll p :: go ts ps (after + 1)
      else
        let (t, ts') := match ts with
          | t :: ts' => (t, ts')
          | [] => (tEnd, [])
        let tok := s!"{t}:{fmtPoll p}"
        if p == .ready none then tok :: go ts' ps 1 else tok :: go ts' ps 0
  go ts ps 0

def handleLine (payload : String) : String :=
  match tokens payload with
  | ["P", sv, sc] =>
    match parseServices sv, parseSched sc with
    | some svs, some sched =>
      let services : List Service := svs.map fun s => s.map fun (els, _) => els.map (·.2)
      let init := (resolve services).1
      let live : Live := if services.isEmpty then [] else services
      let (_, _, ps) := runSched init live (sched ++ [none, none])
      ",".intercalate (ps.map fmtPoll)
    | _, _ => "bad-payload"
  | ["T", sv] =>
    match parseServices sv with
    | some svs =>
      let services : List Service := svs.map fun s => s.map fun (els, _) => els.map (·.2)
      let init := (resolve services).1
      let streams := svs.filterMap fun s => s.map fun (els, _) => absTimes 0 els
      let endTimes := svs.filterMap fun s => s.map fun (els, e) => els.foldl (fun a x => a + x.1) 0 + e
      let tEnd := endTimes.foldl max 0
      let fuel := streams.foldl (fun a s => a + s.length) 0
      let merged := timeMerge fuel streams
      let inner := merged.map (fun x => Inner.elem x.2) ++ [.done, .done, .done, .done]
      let (_, ps) := runPolls init inner
      ",".intercalate (stamp (merged.map (·.1)) tEnd ps)
    | none => "bad-payload"
  | _ => "bad-payload"

def main : IO Unit := Driver.run handleLine
