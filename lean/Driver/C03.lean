import Driver.Loop
import IrohModel.Common.Hex
import IrohModel.C03.Model
open IrohModel IrohModel.C03

/-- key=value lookup in a token list -/
def kv (ts : List String) (k : String) : String :=
  match ts.find? (·.startsWith (k ++ "=")) with
  | some t => (t.drop (k.length + 1)).toString
  | none => ""

def listOf (s : String) : List String := if s = "-" || s = "" then [] else s.splitOn ","
-- frames are written `F:<hex>` (`F:-` = empty frame), `E` = read error

def hx (s : String) : (List UInt8) := (bytesOfHex s).getD []

/-- Crypto whose answers are the facts recorded from the real implementation. -/
def cryptoOfFacts (ts : List String) (chal : (List UInt8)) : Crypto :=
  let vp := (listOf (kv ts "vp")).filterMap fun e =>
    match e.splitOn ":" with | [pk, b] => some (hx pk, b == "1") | _ => none
  let vf := (listOf (kv ts "vf")).filterMap fun e =>
    match e.splitOn ":" with | [pk, m, s, b] => some (hx pk, hx m, hx s, b == "1") | _ => none
  let km := (listOf (kv ts "km")).filterMap fun e =>
    match e.splitOn ":" with
    | [pk, k] => some (hx pk, if k == "none" then none else some (hx k))
    | _ => none
  let dk := hx (kv ts "dk")
  { validPoint := fun pk => match vp.find? (·.1 == pk) with | some (_, b) => b | none => false
    verify := fun pk m s => match vf.find? (fun e => e.1 == pk && e.2.1 == m && e.2.2.1 == s) with
      | some (_, _, _, b) => b | none => false
    deriveKey := fun c => if c == chal then dk else []
    exportKm := fun pk => match km.find? (·.1 == pk) with | some (_, k) => k | none => none }

def errName : Err → String
  | .websocket => "websocket" | .unexpectedEnd => "unexpected-end" | .frameType => "frame-type"
  | .serverDenied => "server-denied" | .unexpectedFrameType => "unexpected-frame-type"
  | .deserialization => "deserialization" | .headerInvalid => "header-invalid"

def mechName : Mech → String
  | .challenge => "challenge" | .keyMaterial => "keymaterial"

def legalHeaderByte (b : UInt8) : Bool := b == 9 || (b ≥ 32 && b != 127)

def framesStr (w : List (List UInt8)) : String := if w.isEmpty then "-" else ",".intercalate (w.map hexOfBytes)

def runAdv (ts : List String) : String :=
  let hdr : Option (List UInt8) := if kv ts "hdr" == "none" then none else some (hx (kv ts "hdr"))
  let chal := if kv ts "chal" == "none" then [] else hx (kv ts "chal")
  let incoming : List Incoming := (listOf (kv ts "frames")).map fun f =>
    if f == "E" then .ioError else .data (hx (f.drop 2).toString)
  let wo : WriteOk := match (kv ts "wfail").toNat? with
    | some k => fun i => i != k
    | none => fun _ => true
  let a := kv ts "access"
  let access : Access :=
    if a == "allow" then .allow
    else if a == "denynone" then .deny none
    else .deny (some (hx (a.drop 5).toString))
  let C := cryptoOfFacts ts chal
  match serverside C hdr chal incoming wo with
  | (.error e, w) => s!"err:{errName e} | - | {framesStr w}"
  | (.ok auth, w) =>
    let (r, w') := authorize auth access wo w.length
    let fin := match r with
      | .ok k => s!"admit:{hexOfBytes k}"
      | .error e => s!"err:{errName e}"
    s!"ok:{hexOfBytes auth.key}:{mechName auth.mech} | {fin} | {framesStr (w ++ w')}"

/-- Toy scheme for the honest run (the theorem `honest_complete` covers every scheme). -/
def toyS : SigScheme := ⟨fun sk => sk, fun sk m => ((sk ++ m) ++ List.replicate 64 0).take 64⟩
def toyC (km : Option (List UInt8)) : Crypto :=
  ⟨fun pk => pk.length == 32, fun pk m sig => sig == ((pk ++ m) ++ List.replicate 64 0).take 64,
   fun c => c ++ c, fun _ => km⟩
def toyKm (s : String) : Option (List UInt8) :=
  match s.toNat? with
  | some n => some (List.replicate 32 (UInt8.ofNat (n + 1)))
  | none => none

def runHonest (key cli srv access : String) : String :=
  let sk : (List UInt8) := List.replicate 32 (UInt8.ofNat ((key.toNat?.getD 0) + 100))
  let C := toyC (toyKm srv)
  let chal : (List UInt8) := List.replicate 16 3
  let acc : Access := if access == "allow" then .allow else .deny none
  match session C (honestHeader toyS sk (toyKm cli)) chal (honestIncoming toyS C sk chal) acc (fun _ => true),
        serverside C (honestHeader toyS sk (toyKm cli)) chal (honestIncoming toyS C sk chal) (fun _ => true) with
  | (r, _), (.ok auth, _) =>
    let who := if auth.key == sk then "self" else "other"
    let fin := match r with
      | .ok _ => "admit"
      | .error e => errName e
    let cl := match r with
      | .ok _ => "confirmed"
      | .error e => errName e
    s!"ok:{who}:{mechName auth.mech} | {fin} | client:{cl}"
  | _, (.error e, _) => s!"err:{errName e} | - | client:{errName e}"

def handleLine (payload : String) : String :=
  match tokens payload with
  | "adv" :: ts =>
    if kv ts "hdr" != "none" && !(hx (kv ts "hdr")).all legalHeaderByte then "illegal-header" else runAdv ts
  | ["honest", key, cli, srv, access] => runHonest key cli srv access
  | _ => "bad-input"

def main : IO Unit := Driver.run handleLine
