import Driver.Loop
import IrohModel.Common.Hex
import IrohModel.C30.Model
import IrohModel.C30.Triggers
import IrohModel.C30.TriggersConc
open IrohModel IrohModel.C30 IrohModel.Generated.C30

def parseNat? (s : String) : Option Nat :=
  if s.isEmpty || s.length > 15 || !s.all Char.isDigit then none else s.toNat?

def parseOp (s : String) : Option Op :=
  match s.toList with
  | 'a' :: ds => (parseNat? (String.ofList ds)).map Op.add
  | 'p' :: rest =>
    let digits := rest.takeWhile Char.isDigit
    let flags := String.ofList (rest.dropWhile Char.isDigit)
    let fl : Option (Bool × Bool) := match flags with
      | "" => some (false, false) | "r" => some (true, false)
      | "i" => some (false, true) | "ri" => some (true, true) | _ => none
    match parseNat? (String.ofList digits), fl with
    | some n, some (r, i) => some (.publish ⟨n, r, i⟩)
    | _, _ => none
  | _ => none

def parseOps (s : String) : Option (List Op) :=
  if s == "-" then some [] else (s.splitOn ",").mapM parseOp

def stripPrefix? (s pre : String) : Option String :=
  if s.startsWith pre then some (s.drop pre.length).toString else none

def fmtData (d : Data) : String :=
  s!"{d.id}{if d.relay then "r" else ""}{if d.ip then "i" else ""}"

def pcName : Pc → String
  | .pLockLast => ptPublishLockLast
  | .pLockSvc => ptPublishLockSvc
  | .pSvc _ => ptPublishService
  | .pStore => ptPublishStore
  | .aLockLast => ptAddLockLast
  | .aLockSvc => ptAddLockSvc
  | .done => "done"

def isDone (st : State) (tid : Nat) : Bool := (st.threads tid).pc == .done

/-- Run thread `tid` alone until it is done (sequential `pre` operation). -/
def runAlone (f : Data → Data) (st : State) (tid : Nat) : Nat → State
  | 0 => st
  | fuel + 1 => if isDone st tid then st else runAlone f (step f st tid) tid fuel

/-- Driver state: the LTS state plus the thread (at most one) that was sent into a contended lock
call and is parked inside it (`!tid` steps of the harness). -/
structure DS where
  st : State
  committed : Option Nat

/-- std `RwLock`: a parked writer keeps new readers out. -/
def writerWaiting (ds : DS) : Bool :=
  match ds.committed with
  | some c => (ds.st.threads c).pc == .pLockLast
  | none => false

def enabledD (ds : DS) (tid : Nat) : Bool :=
  enabled ds.st tid && !((ds.st.threads tid).pc == .aLockLast && writerWaiting ds)

/-- The parked thread goes on as soon as its lock is free. -/
def settle (f : Data → Data) (ds : DS) : DS × String :=
  match ds.committed with
  | some c =>
    if enabled ds.st c then
      let st' := step f ds.st c
      ({ st := st', committed := none }, s!"+{c}:{pcName (st'.threads c).pc}")
    else (ds, "")
  | none => (ds, "")

def schedStep (f : Data → Data) (n : Nat) (ds : DS) (tid : Nat) (attempt : Bool) : DS × String :=
  if tid ≥ n || isDone ds.st tid then (ds, s!"{tid}:noop")
  else if ds.committed == some tid then (ds, s!"{tid}:waiting")
  else if enabledD ds tid then
    let st' := step f ds.st tid
    let (ds', suf) := settle f { ds with st := st' }
    (ds', s!"{tid}:{pcName (st'.threads tid).pc}" ++ suf)
  else if attempt && ds.committed.isNone then ({ ds with committed := some tid }, s!"{tid}:stuck")
  else (ds, s!"{tid}:blocked")

def drain (f : Data → Data) (n : Nat) : Nat → DS → List String → DS × List String × Bool
  | 0, ds, acc => (ds, acc.reverse, false)
  | fuel + 1, ds, acc =>
    if (List.range n).all (isDone ds.st) then (ds, acc.reverse, true)
    else match (List.range n).find? (fun t => !isDone ds.st t && ds.committed != some t && enabledD ds t) with
      | none => (ds, acc.reverse, false)
      | some tid =>
        let (ds', tok) := schedStep f n ds tid false
        drain f n fuel ds' (tok :: acc)

def insertSorted (s : Svc) : List Svc → List Svc
  | [] => [s]
  | x :: xs => if s.id ≤ x.id then s :: x :: xs else x :: insertSorted s xs

/-! ### `E` payloads: publish triggers (Triggers.lean) -/

open IrohModel.C30.Triggers in
def fmtEData : Option EData → String
  | none => "none"
  | some d =>
    let ips := d.ips.map fun a => if a == 0 then "L" else s!"x{a - 1}"
    s!"ips={if ips.isEmpty then "-" else ".".intercalate ips} relay={if d.relay.isSome then 1 else 0} ud={match d.ud with | some u => s!"u{u}" | none => "-"}"

def insertNat (a : Nat) : List Nat → List Nat
  | [] => [a]
  | x :: xs => if a < x then a :: x :: xs else if a == x then x :: xs else x :: insertNat a xs

open IrohModel.C30.Triggers in
def evOfTok (s : Sock) (tok : String) : Option Ev :=
  if tok.startsWith "+x" then (parseNat? (tok.drop 2).toString).map fun k => .storeDirect (insertNat (k + 1) s.direct)
  else if tok.startsWith "-x" then (parseNat? (tok.drop 2).toString).map fun k => .storeDirect (s.direct.filter (· != k + 1))
  else if tok == "u-" then some (.setUserData none)
  else if tok.startsWith "u" then (parseNat? (tok.drop 1).toString).map fun k => .setUserData (some k)
  else none

open IrohModel.C30.Triggers in
/-- Boot of the endpoint and the sequential operations; the state and the per-step outputs. -/
def runE (cfg ops l : String) : Option (Sock × List String) :=
  let hasLocal := l == "L=1"
  -- start of the endpoint: initial publish, then the transports report their local addresses,
  -- then the first direct-address update
  let boot : Option (List Ev) := match cfg with
    | "ip" => some ([.start, .localAddrs [0] none] ++ (if hasLocal then [.storeDirect [0]] else []))
    | "relay" => some [.start, .localAddrs [] (some 1)]
    | "dead" => some [.start]
    | _ => none
  let opToks := if ops == "-" then [] else ops.splitOn ","
  boot.bind fun boot =>
    let s0 := Triggers.run {} boot
    opToks.foldl (fun (acc : Option (Sock × List String)) tok =>
      acc.bind fun (s, outs) =>
        (evOfTok s tok).map fun ev => let s' := Triggers.step s ev; (s', outs ++ [fmtEData s'.last]))
      (some (s0, [fmtEData s0.last]))

def handleE (cfg ops l : String) : String :=
  match runE cfg ops l with
  | some (_, outs) => ";".intercalate outs
  | none => "bad-payload"

open IrohModel.C30.Triggers in
/-- `EC`: trigger A parked after its snapshot, trigger B attempted, A goes on, B goes on. -/
def handleEC (cfg ops a b l : String) : String :=
  match runE cfg ops l with
  | none => "bad-payload"
  | some (s, outs) =>
    let isUd (t : String) := t.startsWith "u"
    if !isUd a || a.contains ',' || b.contains ',' then "bad-payload" else
    match evOfTok s a with
    | none => "bad-payload"
    | some ea =>
      -- A: state change, then `publish_my_addr` up to the pause point
      let st0 : CState := cinit s (fun j => if j = 0 then some ea else none)
      let st1 := cstep false (cstep false st0 0) 0
      let parked := match (st1.threads 0).pc with
        | .publish _ => true
        | _ => false
      -- B's event is built from the state it finds (A's change is done)
      match evOfTok st1.sock b with
      | none => "bad-payload"
      | some eb =>
        let st2 : CState := setT st1 1 ⟨eb, .change⟩
        let st3 := cstep false st2 1                       -- B's state change
        let bWantsLock := (st3.threads 1).pc == .lock
        let bBlocked := bWantsLock && !cenabled false st3 1
        let tokB :=
          if !parked then "B:run"
          else if isUd b then (if bBlocked then "B:blocked" else "B:done")
          else (if bWantsLock && !bBlocked then "B:passed" else "B:quiet")
        -- B goes as far as it can, A finishes, B finishes
        let fin := crun false st3 [1, 1, 0, 1, 1]
        let toks := outs ++ [if parked then "A:parked" else "A:done", tokB, "final=" ++ fmtEData fin.sock.last]
        ";".intercalate toks

def handleLine (payload : String) : String :=
  match tokens payload with
  | ["E", cfg, ops, l] => handleE cfg ops l
  | ["EC", cfg, ops, a, b, l] => handleEC cfg ops a b l
  | ["EC", _, _, _, _] => "bad-payload"
  | ["E", _, _] => "bad-payload"
  | [f, pre, th, sc] =>
    let filt : Option Filter := match f with
      | "f=n" => some .none | "f=r" => some .relayOnly | "f=i" => some .ipOnly | _ => none
    let pre := (stripPrefix? pre "pre=").bind parseOps
    let th := (stripPrefix? th "T=").bind parseOps
    let sched : Option (List (Nat × Bool)) := (stripPrefix? sc "S=").bind fun s =>
      if s == "-" then some [] else (s.splitOn ",").mapM fun t =>
        if t.startsWith "!" then (parseNat? (t.drop 1).toString).map (·, true)
        else (parseNat? t).map (·, false)
    match filt, pre, th, sched with
    | some filt, some pre, some th, some sched =>
      let sids := (pre ++ th).filterMap fun | .add s => some s | _ => none
      if sids.eraseDups.length != sids.length then "bad-payload" else
      let f := applyFilter filt
      -- sequential prefix: each operation in a thread of its own, run to completion
      let (st, _) := pre.foldl (fun (acc : State × Nat) op =>
        let st := acc.1.setThread acc.2 (Thread.start op)
        (runAlone f st acc.2 (st.services.length + 8), acc.2 + 1)) (State.init, 1000)
      let n := th.length
      let (st, _) := th.foldl (fun (acc : State × Nat) op =>
        (acc.1.setThread acc.2 (Thread.start op), acc.2 + 1)) (st, 0)
      let (ds, toks) := sched.foldl (fun (acc : DS × List String) (x : Nat × Bool) =>
        let (ds', tok) := schedStep f n acc.1 x.1 x.2
        (ds', tok :: acc.2)) (({ st := st, committed := none } : DS), [])
      let (ds, dtoks, ok) := drain f n (n * (sids.length + 8) + 1) ds []
      let st := ds.st
      let head := ",".intercalate toks.reverse ++ " | " ++ ",".intercalate dtoks ++ " | "
      if !ok then head ++ "deadlock" else
      let sorted := st.services.foldl (fun acc s => insertSorted s acc) []
      let fin := [s!"last={match st.last with | some d => fmtData d | none => "none"}", s!"n={st.services.length}"] ++
        sorted.map fun s => s!"s{s.id}=[{".".intercalate (s.log.map fmtData)}]"
      head ++ " ".intercalate fin
    | _, _, _, _ => "bad-payload"
  | _ => "bad-payload"

def main : IO Unit := Driver.run handleLine
