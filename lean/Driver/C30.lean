import Driver.Loop
import IrohModel.Common.Hex
import IrohModel.C30.Model
open IrohModel IrohModel.C30 IrohModel.Generated.C30

def parseNat? (s : String) : Option Nat :=
  if s.isEmpty || s.length > 15 || !s.all Char.isDigit then none else s.toNat?

def parseOp (s : String) : Option Op :=
  match s.toList with
  | 'a' :: ds => (parseNat? (String.ofList ds)).map Op.add
  | 'p' :: rest =>
    let digits := rest.takeWhile Char.isDigit
    let flags := String.ofList (rest.dropWhile Char.isDigit)
    let fl : Option (Bool × Bool) := match flags with
      | "" => some (false, false) | "r" => some (true, false)
      | "i" => some (false, true) | "ri" => some (true, true) | _ => none
    match parseNat? (String.ofList digits), fl with
    | some n, some (r, i) => some (.publish ⟨n, r, i⟩)
    | _, _ => none
  | _ => none

def parseOps (s : String) : Option (List Op) :=
  if s == "-" then some [] else (s.splitOn ",").mapM parseOp

def stripPrefix? (s pre : String) : Option String :=
  if s.startsWith pre then some (s.drop pre.length).toString else none

def fmtData (d : Data) : String :=
  s!"{d.id}{if d.relay then "r" else ""}{if d.ip then "i" else ""}"

def pcName : Pc → String
  | .pLockLast => ptPublishLockLast
  | .pLockSvc => ptPublishLockSvc
  | .pSvc _ => ptPublishService
  | .pStore => ptPublishStore
  | .aLockLast => ptAddLockLast
  | .aLockSvc => ptAddLockSvc
  | .done => "done"

def isDone (st : State) (tid : Nat) : Bool := (st.threads tid).pc == .done

/-- Run thread `tid` alone until it is done (sequential `pre` operation). -/
def runAlone (f : Data → Data) (st : State) (tid : Nat) : Nat → State
  | 0 => st
  | fuel + 1 => if isDone st tid then st else runAlone f (step f st tid) tid fuel

def schedStep (f : Data → Data) (n : Nat) (st : State) (tid : Nat) : State × String :=
  if tid ≥ n || isDone st tid then (st, s!"{tid}:noop")
  else if !enabled st tid then (st, s!"{tid}:blocked")
  else
    let st' := step f st tid
    (st', s!"{tid}:{pcName (st'.threads tid).pc}")

def drain (f : Data → Data) (n : Nat) : Nat → State → List String → State × List String × Bool
  | 0, st, acc => (st, acc.reverse, false)
  | fuel + 1, st, acc =>
    if (List.range n).all (isDone st) then (st, acc.reverse, true)
    else match (List.range n).find? (fun t => !isDone st t && enabled st t) with
      | none => (st, acc.reverse, false)
      | some tid =>
        let (st', tok) := schedStep f n st tid
        drain f n fuel st' (tok :: acc)

def insertSorted (s : Svc) : List Svc → List Svc
  | [] => [s]
  | x :: xs => if s.id ≤ x.id then s :: x :: xs else x :: insertSorted s xs

def handleLine (payload : String) : String :=
  match tokens payload with
  | [f, pre, th, sc] =>
    let filt : Option Filter := match f with
      | "f=n" => some .none | "f=r" => some .relayOnly | "f=i" => some .ipOnly | _ => none
    let pre := (stripPrefix? pre "pre=").bind parseOps
    let th := (stripPrefix? th "T=").bind parseOps
    let sched : Option (List Nat) := (stripPrefix? sc "S=").bind fun s =>
      if s == "-" then some [] else (s.splitOn ",").mapM parseNat?
    match filt, pre, th, sched with
    | some filt, some pre, some th, some sched =>
      let sids := (pre ++ th).filterMap fun | .add s => some s | _ => none
      if sids.eraseDups.length != sids.length then "bad-payload" else
      let f := applyFilter filt
      -- sequential prefix: each operation in a thread of its own, run to completion
      let (st, _) := pre.foldl (fun (acc : State × Nat) op =>
        let st := acc.1.setThread acc.2 (Thread.start op)
        (runAlone f st acc.2 (st.services.length + 8), acc.2 + 1)) (State.init, 1000)
      let n := th.length
      let (st, _) := th.foldl (fun (acc : State × Nat) op =>
        (acc.1.setThread acc.2 (Thread.start op), acc.2 + 1)) (st, 0)
      let (st, toks) := sched.foldl (fun (acc : State × List String) tid =>
        let (st', tok) := schedStep f n acc.1 tid
        (st', tok :: acc.2)) (st, [])
      let (st, dtoks, ok) := drain f n (n * (sids.length + 8) + 1) st []
      let head := ",".intercalate toks.reverse ++ " | " ++ ",".intercalate dtoks ++ " | "
      if !ok then head ++ "deadlock" else
      let sorted := st.services.foldl (fun acc s => insertSorted s acc) []
      let fin := [s!"last={match st.last with | some d => fmtData d | none => "none"}", s!"n={st.services.length}"] ++
        sorted.map fun s => s!"s{s.id}=[{".".intercalate (s.log.map fmtData)}]"
      head ++ " ".intercalate fin
    | _, _, _, _ => "bad-payload"
  | _ => "bad-payload"

def main : IO Unit := Driver.run handleLine
