import Driver.Loop
import IrohModel.Common.Hex
import IrohModel.C24.Model
import IrohModel.C24.WithPrune
open IrohModel IrohModel.C24

def parseAddr (s : String) : Option Addr := do
  let k ← (match s.toList.head? with
    | some 'f' => some Kind.v4
    | some 's' => some Kind.v6
    | some 'r' => some Kind.relay
    | some 'c' => some Kind.custom
    | _ => none)
  let id ← (s.drop 1).toString.toNat?
  pure ⟨k, id⟩

def showAddr (a : Addr) : String :=
  (match a.kind with | .v4 => "f" | .v6 => "s" | .relay => "r" | .custom => "c") ++ toString a.id

def parseCand (s : String) : Option Cand :=
  match s.splitOn ":" with
  | [a, r] => do
    let addr ← parseAddr a
    let rtt ← (if r = "x" then some none else r.toNat?.map some)
    pure ⟨addr, rtt⟩
  | _ => none

/-- `<addr>:<status>` of the path-set section of a `world` payload. -/
def parsePathTok (s : String) : Option C23.Path :=
  match s.splitOn ":" with
  | [a, st] => do
    let addr ← parseAddr a
    let status ←
      (if st = "o" then some C23.Status.open
       else if st = "k" then some C23.Status.unknown
       else if st = "u" then some C23.Status.unusable
       else if st.startsWith "i" then (st.drop 1).toString.toNat?.map C23.Status.inactive
       else none)
    if addr.id ≥ 1000 then none else
    pure ⟨WithPrune.remoteKey addr, addr.kind == .relay, status⟩
  | _ => none

def insertAsc (x : Nat) : List Nat → List Nat
  | [] => [x]
  | y :: ys => if x ≤ y then x :: y :: ys else y :: insertAsc x ys

def hasDup : List Nat → Bool
  | [] => false
  | x :: xs => xs.contains x || hasDup xs

def section? (s : String) : List String := if s.trimAscii.toString = "-" then [] else tokens s

/-- `world cur=… | path set | candidates` -/
def handleWorld (payload : String) : String :=
  match payload.splitOn " | " with
  | [c, ps, cs] =>
    let cstr := ((c.drop 6).toString.trimAscii.toString)
    if !cstr.startsWith "cur=" then "bad-input" else
    let curS := (cstr.drop 4).toString
    let cur? : Option (Option Addr) := if curS = "-" then some none else (parseAddr curS).map some
    match cur?, (section? ps).mapM parsePathTok, (section? cs).mapM parseCand with
    | some cur, some paths, some cands =>
      if hasDup (paths.map (·.id)) then "bad-input" else
      let w : WithPrune.World := ⟨paths, cands, cur⟩
      let (selA, kept) := WithPrune.selectThenPrune WithPrune.remoteKey w
      let (selB, _) := WithPrune.pruneThenSelect WithPrune.remoteKey w
      let showSel (s : Option Addr) := match s with | none => "none" | some a => showAddr a
      let keys := (kept.map (·.id)).foldr insertAsc []
      let keptS := if keys.isEmpty then "-" else ",".intercalate (keys.map toString)
      s!"selA={showSel selA} selB={showSel selB} kept={keptS}"
    | _, _, _ => "bad-input"
  | _ => "bad-input"

def handleLine (payload : String) : String :=
  if payload.startsWith "world " then handleWorld payload else
  match tokens payload with
  | [] => "bad-input"
  | c :: ps =>
    if !c.startsWith "cur=" then "bad-input" else
    let cs := (c.drop 4).toString
    let cur? : Option (Option Addr) := if cs = "-" then some none else (parseAddr cs).map some
    match cur?, ps.mapM parseCand with
    | some cur, some paths =>
      match select cur paths with
      | none => "none"
      | some a => "sel=" ++ showAddr a
    | _, _ => "bad-input"

def main : IO Unit := Driver.run handleLine
