import Driver.Loop
import IrohModel.Common.Hex
import IrohModel.C24.Model
open IrohModel IrohModel.C24

def parseAddr (s : String) : Option Addr := do
  let k ← (match s.toList.head? with
    | some 'f' => some Kind.v4
    | some 's' => some Kind.v6
    | some 'r' => some Kind.relay
    | some 'c' => some Kind.custom
    | _ => none)
  let id ← (s.drop 1).toString.toNat?
  pure ⟨k, id⟩

def showAddr (a : Addr) : String :=
  (match a.kind with | .v4 => "f" | .v6 => "s" | .relay => "r" | .custom => "c") ++ toString a.id

def parseCand (s : String) : Option Cand :=
  match s.splitOn ":" with
  | [a, r] => do
    let addr ← parseAddr a
    let rtt ← (if r = "x" then some none else r.toNat?.map some)
    pure ⟨addr, rtt⟩
  | _ => none

def handleLine (payload : String) : String :=
  match tokens payload with
  | [] => "bad-input"
  | c :: ps =>
    if !c.startsWith "cur=" then "bad-input" else
    let cs := (c.drop 4).toString
    let cur? : Option (Option Addr) := if cs = "-" then some none else (parseAddr cs).map some
    match cur?, ps.mapM parseCand with
    | some cur, some paths =>
      match select cur paths with
      | none => "none"
      | some a => "sel=" ++ showAddr a
    | _, _ => "bad-input"

def main : IO Unit := Driver.run handleLine
