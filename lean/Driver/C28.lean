import Driver.Loop
import IrohModel.Common.Hex
import IrohModel.C28.Model
open IrohModel IrohModel.C27 IrohModel.C28

/-! Line-protocol driver for C28 (trusted test plumbing: parsing and printing only).
Grammar: see harness/hiroh/src/bin/c28.rs. -/

namespace C28Drv

def parseDec (s : String) : Option Nat :=
  if s.isEmpty || !s.all Char.isDigit then none
  else some (s.foldl (fun n c => n * 10 + (c.toNat - 48)) 0)

def parseBounded (s : String) (bound : Nat) : Option Nat :=
  match parseDec s with
  | some n => if n < bound then some n else none
  | none => none

def parseKind (s : String) : Option Probe :=
  if s = "h" then some .https else if s = "4" then some .v4 else if s = "6" then some .v6 else none

def parseUpd (item : String) : Option (Probe × Nat × Nat) :=
  match (item.splitOn " ").filter (· ≠ "") with
  | [k, u, lat] => do
    let k ← parseKind k
    let u ← parseBounded u 1000
    let lat ← parseBounded lat (2 ^ 64)
    pure (k, u, lat)
  | _ => none

/-- `<after_ms> <upd>;…` or `<after_ms> -`; the first space separates the delay. -/
def parseStep (s : String) : Option (Nat × List (Probe × Nat × Nat)) :=
  let s := s.trimAscii.toString
  match s.splitOn " " with
  | after :: restToks =>
    if restToks.isEmpty then none else
    let rest := (" ".intercalate restToks).trimAscii.toString
    match parseBounded after (2 ^ 32) with
    | none => none
    | some a =>
      if rest = "-" then some (a, [])
      else match (rest.splitOn ";").mapM parseUpd with
        | some us => some (a, us)
        | none => none
  | [] => none

def showStep (o : Option Url × Nat) : String :=
  match o.1 with
  | none => s!"none,{o.2}"
  | some u => s!"{u},{o.2}"

def handleLine (payload : String) : String :=
  let p := payload.trimAscii.toString
  if p.isEmpty then "bad-input" else
  match (p.splitOn "|").mapM parseStep with
  | none => "bad-input"
  | some steps =>
    -- absolute instants: cumulative sum of the delays
    let (_, timed) := steps.foldl (fun (acc : Nat × List (Nat × Report)) st =>
      let now := acc.1 + st.1
      (now, acc.2 ++ [(now, ({ lat := Latencies.build st.2 } : Report))])) (0, [])
    " ".intercalate ((runHist timed).2.map showStep)

end C28Drv

def main : IO Unit := Driver.run C28Drv.handleLine
