import Driver.Loop
import IrohModel.Common.Hex
import IrohModel.C28.Model
open IrohModel IrohModel.C27 IrohModel.C28

/-! Line-protocol driver for C28 (trusted test plumbing: parsing and printing only).
Grammar: see harness/hiroh/src/bin/c28.rs.  Two modes: reports given as `update_relay` items,
and (`P …`) reports given as raw probe reports that are folded by the C27 model of
`Report::update` before they reach the C28 model of the history function. -/

namespace C28Drv

def parseDec (s : String) : Option Nat :=
  if s.isEmpty || !s.all Char.isDigit then none
  else some (s.foldl (fun n c => n * 10 + (c.toNat - 48)) 0)

def parseBounded (s : String) (bound : Nat) : Option Nat :=
  match parseDec s with
  | some n => if n < bound then some n else none
  | none => none

def parseKind (s : String) : Option Probe :=
  if s = "h" then some .https else if s = "4" then some .v4 else if s = "6" then some .v6 else none

def parseUpd (item : String) : Option (Probe × Nat × Nat) :=
  match (item.splitOn " ").filter (· ≠ "") with
  | [k, u, lat] => do
    let k ← parseKind k
    let u ← parseBounded u 1000
    let lat ← parseBounded lat (2 ^ 64)
    pure (k, u, lat)
  | _ => none

def parseAddr (s : String) : Option Addr :=
  match s.splitOn ":" with
  | [f, ip, port] =>
    if f = "4" then do
      let ip ← parseBounded ip (2 ^ 32)
      let port ← parseBounded port (2 ^ 16)
      pure (Addr.v4 ip port)
    else if f = "6" then do
      let ip ← parseBounded ip (2 ^ 128)
      let port ← parseBounded port (2 ^ 16)
      pure (Addr.v6 ip port)
    else none
  | _ => none

/-- A raw probe report: `h u lat` | `4 u lat addr` | `6 u lat addr`. -/
def parseProbe (item : String) : Option ProbeReport :=
  match (item.splitOn " ").filter (· ≠ "") with
  | [k, u, lat] => do
    let k ← parseKind k
    let u ← parseBounded u 1000
    let lat ← parseBounded lat (2 ^ 64)
    if k = .https then pure (.https u lat) else none
  | [k, u, lat, a] => do
    let k ← parseKind k
    let u ← parseBounded u 1000
    let lat ← parseBounded lat (2 ^ 64)
    let a ← parseAddr a
    match k with
    | .https => none
    | .v4 => pure (.qad4 u lat a)
    | .v6 => pure (.qad6 u lat a)
  | _ => none

/-- `<after_ms> <item>;…` or `<after_ms> -`; the first space separates the delay. -/
def parseStep {α : Type} (item : String → Option α) (s : String) : Option (Nat × List α) :=
  let s := s.trimAscii.toString
  match s.splitOn " " with
  | after :: restToks =>
    if restToks.isEmpty then none else
    let rest := (" ".intercalate restToks).trimAscii.toString
    match parseBounded after (2 ^ 32) with
    | none => none
    | some a =>
      if rest = "-" then some (a, [])
      else match (rest.splitOn ";").mapM item with
        | some us => some (a, us)
        | none => none
  | [] => none

/-- Caller mode step: `<after_ms> <flags> <upd>;…` with flags `-` or distinct letters of `mcu`. -/
def parseFlags (f : String) : Option (Bool × Bool × Bool) :=
  if f = "-" then some (false, false, false)
  else if f.isEmpty then none
  else f.toList.foldlM (fun (acc : Bool × Bool × Bool) ch =>
    if ch = 'm' && !acc.1 then some (true, acc.2.1, acc.2.2)
    else if ch = 'c' && !acc.2.1 then some (acc.1, true, acc.2.2)
    else if ch = 'u' && !acc.2.2 then some (acc.1, acc.2.1, true)
    else none) (false, false, false)

def parseStepCaller (s : String) : Option (Nat × (Bool × Bool × Bool) × List (Probe × Nat × Nat)) :=
  let s := s.trimAscii.toString
  match s.splitOn " " with
  | after :: restToks =>
    if restToks.isEmpty then none else
    let rest := (" ".intercalate restToks).trimAscii.toString
    match rest.splitOn " " with
    | flags :: rest2 =>
      if rest2.isEmpty then none else
      match parseFlags flags, parseStep parseUpd (after ++ " " ++ (" ".intercalate rest2).trimAscii.toString) with
      | some f, some (a, us) => some (a, f, us)
      | _, _ => none
    | [] => none
  | [] => none

def showStepCaller (o : Option Url × Nat × Bool) : String :=
  let p := match o.1 with
    | none => "none"
    | some u => toString u
  s!"{p},{o.2.1},{if o.2.2 then "F" else "I"}"

def showStep (o : Option Url × Nat) : String :=
  match o.1 with
  | none => s!"none,{o.2}"
  | some u => s!"{u},{o.2}"

/-- Absolute instants (cumulative delays), then the whole history on a fresh client. -/
def runSteps (steps : List (Nat × Report)) : String :=
  let (_, timed) := steps.foldl (fun (acc : Nat × List (Nat × Report)) st =>
    let now := acc.1 + st.1
    (now, acc.2 ++ [(now, st.2)])) (0, [])
  " ".intercalate ((runHist timed).2.map showStep)

def handleLine (payload : String) : String :=
  let p := payload.trimAscii.toString
  if p.isEmpty then "bad-input"
  else if p.startsWith "G " then
    match ((p.drop 2).toString.splitOn "|").mapM parseStepCaller with
    | none => "bad-input"
    | some steps =>
      let (_, timed) := steps.foldl (fun (acc : Nat × List (Nat × Bool × Report)) st =>
        let now := acc.1 + st.1
        let r : Report := { lat := Latencies.build st.2.2, udpV4 := st.2.1.2.2,
                            captive := if st.2.1.2.1 then some true else none }
        (now, acc.2 ++ [(now, st.2.1.1, r)])) (0, [])
      " ".intercalate ((runCaller timed).2.map showStepCaller)
  else if p.startsWith "P " then
    match ((p.drop 2).toString.splitOn "|").mapM (parseStep parseProbe) with
    | none => "bad-input"
    | some steps => runSteps (steps.map fun st => (st.1, Report.run st.2))
  else
    match (p.splitOn "|").mapM (parseStep parseUpd) with
    | none => "bad-input"
    | some steps =>
      runSteps (steps.map fun st => (st.1, ({ lat := Latencies.build st.2 } : Report)))

end C28Drv

def main : IO Unit := Driver.run C28Drv.handleLine
