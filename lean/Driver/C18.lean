import Driver.Loop
import IrohModel.Common.Hex
import IrohModel.C18.Model
open IrohModel IrohModel.C18

structure Maps where
  mixed : AddrMap := AddrMap.empty
  relay : AddrMap := AddrMap.empty
  custom : AddrMap := AddrMap.empty
  -- the socket's typed tables (driven by the `G` / `x` ops), same model, separate state
  tMixed : AddrMap := AddrMap.empty
  tRelay : AddrMap := AddrMap.empty
  tCustom : AddrMap := AddrMap.empty
  -- the live socket's tables (driven by `B` receive batches); candidates are unknown to the
  -- model, a counter supplies distinct hosts (the output only shows the translation back)
  sRelay : AddrMap := AddrMap.empty
  sCustom : AddrMap := AddrMap.empty
  sNext : Nat := 0

def kindOf? : String → Option Kind
  | "m" => some .mixed | "r" => some .relay | "c" => some .custom | _ => none

def Maps.get (ms : Maps) : Kind → AddrMap
  | .mixed => ms.mixed | .relay => ms.relay | .custom => ms.custom | .ip => AddrMap.empty

def Maps.set (ms : Maps) (k : Kind) (m : AddrMap) : Maps :=
  match k with
  | .mixed => { ms with mixed := m } | .relay => { ms with relay := m }
  | .custom => { ms with custom := m } | .ip => ms

def hexNat? (s : String) : Option Nat :=
  s.toList.foldlM (fun acc c => (nibble? c).map (acc * 16 + ·)) 0

def kindName : Kind → String
  | .mixed => "mixed" | .relay => "relay" | .custom => "custom" | .ip => "ip"

def stepOp (ms : Maps) (op : String) : Maps × String :=
  match tokens op with
  | ["g", k, key, cands] =>
    match kindOf? k, key.toNat?, (cands.splitOn ",").mapM hexNat? with
    | some k, some key, some cs =>
      match C18.get (ms.get k) k key cs with
      | some (m', a, n) => (ms.set k m', s!"{hexOfBytes a}:{Generated.C18.mappedPort}:{n}")
      | none => (ms, "exhausted")
    | _, _, _ => (ms, "bad-op")
  | ["l", k, a] =>
    match kindOf? k, bytesOfHex a with
    | some k, some a =>
      match lookupAddr (ms.get k) k a with
      | none => (ms, "notkind")
      | some none => (ms, "none")
      | some (some key) => (ms, s!"some:{key}")
    | _, _ => (ms, "bad-op")
  | ["k", fa, _port] =>
    match fa.splitOn ":" with
    | [fam, h] =>
      match bytesOfHex h with
      | some a => (ms, kindName (classify (fam == "4") a))
      | none => (ms, "bad-op")
    | _ => (ms, "bad-op")
  | ["G", k, key, cands] =>
    match kindOf? k, key.toNat?, (cands.splitOn ",").mapM hexNat? with
    | some k, some key, some cs =>
      let cur := match k with | .mixed => ms.tMixed | .relay => ms.tRelay | _ => ms.tCustom
      match C18.get cur k key cs with
      | some (m', a, n) =>
        let ms' := match k with
          | .mixed => { ms with tMixed := m' } | .relay => { ms with tRelay := m' } | _ => { ms with tCustom := m' }
        (ms', s!"{hexOfBytes a}:{Generated.C18.mappedPort}:{n}")
      | none => (ms, "exhausted")
    | _, _, _ => (ms, "bad-op")
  | ["x", fa, _port] =>
    match fa.splitOn ":" with
    | [fam, h] =>
      match bytesOfHex h with
      | some a =>
        match toTransport ms.tRelay ms.tCustom (fam == "4") a with
        | none => (ms, "none")
        | some .ip => (ms, "ip")
        | some (.relay k) => (ms, s!"relay:{k}")
        | some (.custom k) => (ms, s!"custom:{k}")
      | none => (ms, "bad-op")
    | _ => (ms, "bad-op")
  | ["B", srcs] =>
    let step := fun (acc : Maps × List String) (src : String) =>
      let (ms, outs) := acc
      let k := (src.drop 1).toString
      if src.startsWith "r" then
        match k.toNat?.bind (fun key => C18.get ms.sRelay .relay key [ms.sNext]) with
        | some (m', a, _) =>
          let ms' := { ms with sRelay := m', sNext := ms.sNext + 1 }
          let o := match toTransport ms'.sRelay ms'.sCustom false a with
            | some (.relay k) => s!"relay:{k}" | some (.custom k) => s!"custom:{k}"
            | some .ip => "ip" | none => "none"
          (ms', o :: outs)
        | none => (ms, "bad-op" :: outs)
      else if src.startsWith "c" then
        match k.toNat?.bind (fun key => C18.get ms.sCustom .custom key [ms.sNext]) with
        | some (m', a, _) =>
          let ms' := { ms with sCustom := m', sNext := ms.sNext + 1 }
          let o := match toTransport ms'.sRelay ms'.sCustom false a with
            | some (.relay k) => s!"relay:{k}" | some (.custom k) => s!"custom:{k}"
            | some .ip => "ip" | none => "none"
          (ms', o :: outs)
        | none => (ms, "bad-op" :: outs)
      else (ms, "ip" :: outs)
    let (ms', outs) := (srcs.splitOn ",").foldl step (ms, [])
    (ms', ",".intercalate outs.reverse)
  | ["t", _, _, _] => (ms, "ok")
  | _ => (ms, "bad-op")

def handleLine (payload : String) : String :=
  let (_, outs) := (payload.splitOn ";").foldl
    (fun (acc : Maps × List String) op => let (ms, o) := stepOp acc.1 op; (ms, o :: acc.2)) ({}, [])
  ";".intercalate outs.reverse

def main : IO Unit := Driver.run handleLine
