import Driver.Loop
import IrohModel.Common.Hex
import IrohModel.C26.Model
import IrohModel.C26.Caller
open IrohModel IrohModel.C26

/-- Decimal without sign, 1–6 digits (the harness parses the same language). -/
def nat6? (s : String) : Option Nat :=
  let cs := s.toList
  if cs.isEmpty ∨ cs.length > 6 ∨ ¬ cs.all Char.isDigit then none
  else some (cs.foldl (fun a c => a * 10 + (c.toNat - '0'.toNat)) 0)

/-- `a,b,c` → items; `-` is the empty list. -/
def list? {α} (f : String → Option α) (s : String) : Option (List α) :=
  if s = "-" then some [] else (s.splitOn ",").mapM f

/-- `c<u>` | `cn` | `s<u>.<st>` -/
def call? (s : String) : Option Call :=
  if s = "cn" then some (.choose none)
  else match s.toList with
  | 'c' :: r => (nat6? (String.ofList r)).map fun u => .choose (some u)
  | 's' :: r =>
    match (String.ofList r).splitOn "." with
    | [u, st] =>
      match nat6? u, nat6? st with
      | some u, some st => if st ≤ 3 then some (.status u st) else none
      | _, _ => none
    | _ => none
  | _ => none

/-- `h<u>` | `hn` | `t<u>` with `u` ∈ {0, 1} (the harness runs two relays) -/
def glueOp? (s : String) : Option GlueOp :=
  if s = "hn" then some (.home none)
  else match s.toList with
  | 'h' :: r => (nat6? (String.ofList r)).bind fun u => if u ≤ 1 then some (.home (some u)) else none
  | 't' :: r => (nat6? (String.ofList r)).bind fun u => if u ≤ 1 then some (.traffic u) else none
  | _ => none

/-- payload:
  `sched <calls of thread 0>|<calls of thread 1>|… <schedule>`  (lists `a,b,c` or `-`)
  `glue <op>,…` — messages for the real `RelayActor` (`h<u>`/`hn`: NetworkChange with preferred relay u /
  none, `t<u>`: a datagram via relay u), handled one at a time; output: the advertised relay after each
  (`n`, `<u>C` connected).
  `stress <urls> <updaters per url> <rounds>` — free-running threads; the model's prediction is that
  the chooser never sees a stale url. -/
def handleLine (payload : String) : String :=
  match tokens payload with
  | ["sched", cl, sc] =>
    match (cl.splitOn "|").mapM (list? call?), list? nat6? sc with
    | some calls, some sched =>
      if calls.length ≤ 16 then render (runCase codeLk calls sched) else "bad-input"
    | _, _ => "bad-input"
  | ["glue", ops] =>
    match (ops.splitOn ",").mapM glueOp? with
    | some ops => if ops.length ≤ 24 then " ".intercalate ("glue" :: runGlue codeSa codeLk cinit ops) else "bad-input"
    | none => "bad-input"
  | ["stress", u, p, r] =>
    match nat6? u, nat6? p, nat6? r with
    | some u, some p, some _ => if u ≥ 1 ∧ u * p ≤ 64 then "stress stale=0 final=ok" else "bad-input"
    | _, _, _ => "bad-input"
  | _ => "bad-input"

def main : IO Unit := Driver.run handleLine
