import Driver.Loop
import IrohModel.Common.Hex
import IrohModel.C07.Model
import IrohModel.C07.AcceptPipeline
open IrohModel IrohModel.C07

/-!
Driver for C07: turns a harness script (grammar in `harness/hrelay/src/bin/c07.rs`) into the
model inputs of the connections it describes, runs `C07.serve` and prints, per `on_connect`
call in call order, the decision and the number of `on_disconnect` callbacks of that
connection, followed by the connections that are registered when the script ends.

Trusted test infrastructure: it decides which fault script / ending corresponds to a step at
which the hand-rolled client drops its TCP connection; all callbacks come from `C07.accept`.
-/

structure Spec where
  key : Nat
  dec : String
  stop : String
  cause : String

def parseSpec (s : String) : Option Spec :=
  match (s.splitOn " ").filter (· ≠ "") with
  | [key, dec, stop, how, cause] => do
    let key ← key.toNat?
    if key ≥ 3 then none
    else if !(["allow", "deny", "badsig"].contains dec) then none
    else if !(["tcp", "halfreq", "req", "upgraded", "challenge", "halfauth", "gate", "allowed", "admitted",
        "confirmed", "pingsent", "pong", "halfframe", "-"].contains stop) then none
    else if !(["rst", "fin"].contains how) then none
    else if !(["close", "fin", "errframe", "badws", "disc", "discid", "hold", "shutdown", "shutpark", "rtdrop"].contains cause) then none
    else some { key, dec, stop, cause }
  | _ => none

def oks (n : Nat) : List Io := List.replicate n .ok

/-- Does the spec get as far as its `cause` (admitted, never dropped by the client)? -/
def Spec.reachesCause (sp : Spec) : Bool := sp.dec == "allow" && sp.stop == "-"

/-- One connection of the script, with how it finally ends (decided once the whole script is known). -/
structure Conn where
  idx : Nat
  sp : Spec
  /-- still open (held by the harness) -/
  held : Bool
  cause : Cause
  view : RegView

def baseInput (sp : Spec) (cause : Cause) (view : RegView) : Input :=
  let mk (io : List Io) (sigOk allow : Bool) : Input :=
    { id := sp.key, keyMaterial := false, sigOk, connectAbort := false, allow, io, cause,
      finalFlush := .ok, view }
  let allow := sp.dec == "allow"
  -- steps before `on_connect`: the authentication exchange fails
  if sp.stop == "tcp" || sp.stop == "halfreq" || sp.stop == "req" || sp.stop == "upgraded" then mk [.fail] true allow
  else if sp.stop == "challenge" || sp.stop == "halfauth" then mk [.ok, .ok, .fail] true allow
  else if sp.dec == "badsig" then mk [] false true
  else if !allow then mk [] true false
  -- the confirmation is written to a dead socket
  else if sp.stop == "gate" || sp.stop == "allowed" then mk (oks 3 ++ [.fail]) true true
  -- registered; the actor's I/O fails after some operations
  else if sp.stop == "admitted" || sp.stop == "confirmed" then mk (oks 5 ++ [.fail]) true true
  else if sp.stop == "pingsent" then mk (oks 6 ++ [.fail]) true true
  else if sp.stop == "pong" then mk (oks 9 ++ [.fail]) true true
  else if sp.stop == "halfframe" then mk (oks 10 ++ [.fail]) true true
  else mk [] true true

def causeOf (c : String) : Cause :=
  if c == "errframe" || c == "badws" then .errorFrame
  else if c == "disc" || c == "discid" then .disconnectRequest
  else if c == "shutdown" then .serverShutdown
  else if c == "rtdrop" then .taskAbort
  else .normalClose

/-- Processes the specs in order; returns the connections (accept runs for each spec). -/
def build : List Spec → Nat → List Conn → List Conn
  | [], _, acc => acc
  | sp :: rest, idx, acc =>
    if !sp.reachesCause then
      build rest (idx + 1) (acc ++ [{ idx, sp, held := false, cause := .normalClose, view := .activeAlone }])
    else
      let c := sp.cause
      if c == "hold" then
        build rest (idx + 1) (acc ++ [{ idx, sp, held := true, cause := .normalClose, view := .activeAlone }])
      else if c == "discid" then
        -- every open connection of this endpoint is cancelled
        let acc := acc.map fun k =>
          if k.held && k.sp.key == sp.key then { k with held := false, cause := .disconnectRequest, view := .inactive } else k
        build rest (idx + 1) (acc ++ [{ idx, sp, held := false, cause := .disconnectRequest, view := .activeAlone }])
      else if c == "shutdown" then
        let acc := acc.map fun k =>
          if k.held then { k with held := false, cause := .serverShutdown, view := .noEntry } else k
        acc ++ [{ idx, sp, held := false, cause := .serverShutdown, view := .noEntry }]
      else if c == "shutpark" then
        let acc := acc.map fun k =>
          if k.held then { k with held := false, cause := .serverShutdown, view := .noEntry } else k
        acc ++ [{ idx, sp, held := true, cause := .normalClose, view := .activeAlone }]
      else if c == "rtdrop" then
        let acc := acc.map fun k => if k.held then { k with cause := .taskAbort } else k
        acc ++ [{ idx, sp, held := true, cause := .taskAbort, view := .activeAlone }]
      else
        build rest (idx + 1) (acc ++ [{ idx, sp, held := false, cause := causeOf c, view := .activeAlone }])

/-- Registry view of the held connections when they are closed one after the other. -/
def closeViews (order : List Conn) : List (Nat × RegView) :=
  let rec go : List Conn → List (Nat × RegView)
    | [] => []
    | k :: rest =>
      let same := rest.filter (·.sp.key == k.sp.key)
      let v : RegView :=
        if same.any (·.idx > k.idx) then .inactive
        else if same.isEmpty then .activeAlone else .activeWithInactive
      (k.idx, v) :: go rest
  go order

/-! ### accept-pipeline cases (`pipe k=v …`, grammar in `harness/hrelay/src/c07pipe.rs`) -/

namespace PipeDrv
open IrohModel.C07.Pipeline

def kv (ts : List String) (k : String) : Option String :=
  (ts.find? (·.startsWith (k ++ "="))).map fun t => (t.drop (k.length + 1)).toString

def hx (s : String) : Option (List UInt8) := bytesOfHex s

def optHex (s : String) : Option (Option (List UInt8)) :=
  if s == "none" then some none else (hx s).map some

def hexList (s : String) : Option (List (List UInt8)) :=
  if s == "-" || s == "none" then some [] else (s.splitOn ",").mapM hx

/-- The endpoint key with index `j`, as the harness derives it: only its public key matters to the
model, and the harness passes every public key it used as a fact (`vp`), so keys are compared as bytes. -/
def cryptoOfFacts (ts : List String) (chal : List UInt8) : C03.Crypto :=
  let lst (k : String) : List String := match kv ts k with
    | some v => if v == "-" then [] else v.splitOn ","
    | none => []
  let vp := (lst "vp").filterMap fun e =>
    match e.splitOn ":" with
    | [pk, b] => (hx pk).map fun pk => (pk, b == "1")
    | _ => none
  let vf := (lst "vf").filterMap fun e =>
    match e.splitOn ":" with
    | [pk, m, sg, b] => do some ((← hx pk), (← hx m), (← hx sg), b == "1")
    | _ => none
  let dk := ((kv ts "dk").bind hx).getD []
  { validPoint := fun pk => match vp.find? (·.1 == pk) with | some (_, b) => b | none => false
    verify := fun pk m sg => match vf.find? (fun e => e.1 == pk && e.2.1 == m && e.2.2.1 == sg) with
      | some (_, _, _, b) => b | none => false
    deriveKey := fun c => if c == chal then dk else []
    -- plain HTTP: the stream cannot export keying material
    exportKm := fun _ => none }

def frameStr (f : List UInt8) : String := if f.head? == some 0 then "00" else hexOfBytes f

def versionName : C11.Version → String
  | .v1 => "v1"
  | .v2 => "v2"

def run (ts : List String) : Option String := do
  let m ← kv ts "m"
  let path ← (kv ts "p").bind hx
  let up ← (kv ts "up").bind optHex
  let wk ← kv ts "wk"
  let wv ← (kv ts "wv").bind optHex
  let wp ← (kv ts "wp").bind hexList
  let az ← (kv ts "az").bind hexList
  let q ← (kv ts "q").bind optHex
  let pl ← (kv ts "pl").bind hx
  let dec ← kv ts "dec"
  let hdr ← (kv ts "hdr").bind optHex
  let chal := ((kv ts "chal").bind hx).getD []
  let frames := match kv ts "frames" with
    | some v => if v == "-" then [] else v.splitOn ","
    | none => []
  let incoming : List C03.Incoming := frames.filterMap fun f =>
    if f == "E" then some .ioError else (hx (f.drop 2).toString).map .data
  let req : Request :=
    { isGet := m == "GET", path, upgrade := up, wsKey := if wk == "1" then some [1] else none,
      wsVersion := wv, wsProtocol := wp.head?, clientAuth := hdr, authorizations := az, query := q,
      pipelined := pl }
  let ss : Session := { crypto := cryptoOfFacts ts chal, chal, incoming, writeOk := fun _ => true }
  -- the policy is a function of what it is shown
  let keyFacts : List (List UInt8) := match kv ts "keys" with
    | some v => (v.splitOn ",").filterMap hx
    | none => []
  let policy : ClientRequest → C03.Access ←
    if dec == "allow" then some (fun _ => .allow)
    else if dec == "deny" then some (fun _ => .deny none)
    else if dec.startsWith "denyr:" then (hx (dec.drop 6).toString).map fun r => fun _ => .deny (some r)
    else if dec.startsWith "tok:" then
      (hx (dec.drop 4).toString).map fun t => fun cr => if cr.authToken == some t then .allow else .deny none
    else if dec.startsWith "key:" then do
      let j ← (dec.drop 4).toString.toNat?
      let k ← keyFacts[j]?
      some fun cr => if cr.endpointId == k then .allow else .deny none
    else none
  let out := acceptPipeline req ss policy 0
  let http := match out.http with
    | .switching _ => "101"
    | .badRequest _ => "400"
    | .notRelay => "other"
  let proto := match out.http with
    | .switching v => hexOfBytes v.name
    | _ => "-"
  let framesS := if out.frames.isEmpty then "-" else ",".intercalate (out.frames.map frameStr)
  let seen := match out.shown with
    | some cr =>
      let tok := match cr.authToken with
        | some t => hexOfBytes t
        | none => "none"
      s!"{hexOfBytes cr.endpointId}:{versionName cr.version}:{tok}"
    | none => "-"
  let reg := match out.registered with
    | some r => s!"{hexOfBytes r.owner}:{versionName r.version}"
    | none => "-"
  some s!"http={http} proto={proto} | frames={framesS} | seen={seen} | reg={reg}"

end PipeDrv

def handleLine (payload : String) : String :=
  if payload.startsWith "pipe " then
    (PipeDrv.run ((payload.splitOn " ").filter (· ≠ ""))).getD "bad-input"
  else
  match payload.splitOn ";" with
  | [] => "bad-input"
  | order :: specs =>
    if order != "fwd" && order != "rev" then "bad-input" else
    match specs.mapM parseSpec with
    | none => "bad-input"
    | some specs =>
      let conns := build specs 0 []
      let heldL := conns.filter (·.held)
      let closeOrder := if order == "fwd" then heldL else heldL.reverse
      let views := closeViews closeOrder
      let conns := conns.map fun k =>
        match views.find? (·.1 == k.idx) with
        | some (_, v) => if k.cause == Cause.normalClose then { k with view := v } else k
        | none => k
      let inputs := conns.map fun k => baseInput k.sp k.cause k.view
      let log := serve inputs
      let per := log.filterMap fun e =>
        match e with
        | .onConnect id cid allow =>
          some s!"{if allow then "allow" else "deny"}:{disconnects id cid log}"
        | _ => none
      let perS := if per.isEmpty then "-" else " ".intercalate per
      let heldS := if heldL.isEmpty then "-" else ",".intercalate (heldL.map (toString ·.idx))
      s!"{perS} | held:{heldS}"

def main : IO Unit := Driver.run handleLine
