/-
C07 (extension) — the relay's accept pipeline: the GLUE between four separately verified cores.

```rust
// RelayServiceWithNotify::call                      (iroh-relay/src/server/http_server.rs)
if (req.method(), req.uri().path()) == (GET, RELAY_PATH) { handle_relay_ws_upgrade(req) } else { other handlers / 404 }

// handle_relay_ws_upgrade(req)                                                   -> 400 on every `?`
let upgrade_header = expect_header(&req, UPGRADE)?;            ensure!(upgrade_header == "websocket");
let key = expect_header(&req, SEC_WEBSOCKET_KEY)?;
let version = expect_header(&req, SEC_WEBSOCKET_VERSION)?;     ensure!(version.as_bytes() == b"13");
let protocol_version = …negotiation over expect_header(&req, SEC_WEBSOCKET_PROTOCOL)…      // C11.negotiate
spawn(async { upgraded = hyper::upgrade::on(req); relay_connection_handler(upgraded, parts, protocol_version) });
return 101 + Sec-WebSocket-Protocol: protocol_version

// relay_connection_handler: (io, read_buf) = downcast_upgrade(upgraded); read_buf non-empty => Err(BufferNotEmpty)
// Inner::accept(io, request_parts, protocol_version)
let client_auth_header = request_parts.headers.get(CLIENT_AUTH_HEADER).cloned();
let authentication = handshake::serverside(&mut io, client_auth_header).await?;           // C03.serverside
let request = ClientRequest::new(authentication.client_key, protocol_version, request_parts);  // fresh connection id
let guard = authentication.authorize_with(&request, &self.access, &mut io).await?;
//      on_connect(&request) -> Allow: guard{endpoint_id: request.endpoint_id(), connection_id}; write ServerConfirmsAuth
//                              Deny{reason}: write ServerDeniesAuth                          // C03.authorize
let cfg = Config::new(guard, io, protocol_version);
self.clients.register(cfg, ..);      // owner = cfg.guard.endpoint_id, version = cfg.protocol_version  (RelayRegistry.register)
```
and `ClientRequest::auth_token()` = C12 on the request's own `Authorization` headers and query.

This file composes the EXISTING models, unchanged: `C11.negotiate`, `C12.authTokenOfRequest`,
`C03.serverside` / `C03.authorize`, `RelayRegistry.register`.  Everything that flows from one
stage to the next is written out as the code passes it; the access policy is an arbitrary
function of the `ClientRequest` it is shown.  Core Lean only.
-/
import IrohModel.Generated.C07
import IrohModel.C11.Model
import IrohModel.C12.Model
import IrohModel.C03.Model
import IrohModel.Common.RelayRegistry

namespace IrohModel.C07.Pipeline
open IrohModel

abbrev Bytes := List UInt8

def asciiBytes (s : String) : Bytes := s.toList.map (fun c => UInt8.ofNat c.toNat)

/-- `WEBSOCKET_UPGRADE_PROTOCOL`, `SUPPORTED_WEBSOCKET_VERSION`, `RELAY_PATH` (regenerated from the source). -/
def websocketProtocol : Bytes := asciiBytes Generated.C07.wsUpgradeProtocol
@[inherit_doc websocketProtocol] def supportedWsVersion : Bytes := asciiBytes Generated.C07.supportedWsVersion
@[inherit_doc websocketProtocol] def relayPath : Bytes := asciiBytes Generated.C07.relayPath

/-- What the accept path reads from the HTTP request (`Option` = first value of that header,
`HeaderMap::get`; `authorizations` = all `Authorization` values in header-map order). -/
structure Request where
  isGet : Bool
  path : Bytes
  upgrade : Option Bytes
  wsKey : Option Bytes
  wsVersion : Option Bytes
  wsProtocol : Option Bytes
  /-- `x-iroh-relay-client-auth-v1` -/
  clientAuth : Option Bytes
  authorizations : List Bytes
  /-- raw query string of the request target (`none`: no `?`) -/
  query : Option Bytes
  /-- bytes the client sent behind the request head before the upgrade completed (hyper's `read_buf`) -/
  pipelined : Bytes
deriving DecidableEq, Repr

/-- `ClientRequest`: what `AccessControl::on_connect` is shown. -/
structure ClientRequest where
  endpointId : Bytes
  version : C11.Version
  connectionId : Nat
  /-- the request parts, handed over unchanged -/
  request : Request
deriving DecidableEq, Repr

/-- `ClientRequest::auth_token()`. -/
def ClientRequest.authToken (r : ClientRequest) : Option Bytes :=
  C12.authTokenOfRequest r.request.authorizations r.request.query

/-- The relay-protocol side of one connection: cryptographic facts, the server's challenge, the
frames the client sends, the behaviour of the sink. -/
structure Session where
  crypto : C03.Crypto
  chal : Bytes
  incoming : List C03.Incoming
  writeOk : C03.WriteOk

/-- Why the upgrade request is answered with 400. -/
inductive Reject where
  | missingUpgrade | badUpgrade | missingKey | missingWsVersion | badWsVersion
  /-- version negotiation failed (`C11.Upgrade` other than `switching`) -/
  | protocol (u : C11.Upgrade)
deriving DecidableEq, Repr

inductive HttpAnswer where
  /-- not `GET /relay`: handled by another route -/
  | notRelay
  | badRequest (why : Reject)
  /-- 101, `Sec-WebSocket-Protocol: v` -/
  | switching (v : C11.Version)
deriving DecidableEq, Repr

/-- `RelayServiceWithNotify::call` + `handle_relay_ws_upgrade`, checks in source order. -/
def upgrade (req : Request) : HttpAnswer :=
  if !(req.isGet && req.path == relayPath) then .notRelay else
  match req.upgrade with
  | none => .badRequest .missingUpgrade
  | some u =>
    if u != websocketProtocol then .badRequest .badUpgrade else
    match req.wsKey with
    | none => .badRequest .missingKey
    | some _ =>
      match req.wsVersion with
      | none => .badRequest .missingWsVersion
      | some v =>
        if v != supportedWsVersion then .badRequest .badWsVersion else
        match C11.negotiate req.wsProtocol with
        | .switching v => .switching v
        | u => .badRequest (.protocol u)

def HttpAnswer.status : HttpAnswer → Option Nat
  | .notRelay => none
  | .badRequest _ => some Generated.C07.statusBadRequest
  | .switching _ => some Generated.C07.statusSwitching

/-- Where a connection that was not registered ended. -/
inductive Stage where
  | http
  /-- `ConnectionHandlerError::BufferNotEmpty` -/
  | bufferNotEmpty
  /-- `handshake::serverside` returned `Err` -/
  | authentication (e : C03.Err)
  /-- the policy denied (or the verdict could not be written) -/
  | authorization (e : C03.Err)
  | registered
deriving DecidableEq, Repr

/-- The arguments `Clients::register` is called with. -/
structure Registration where
  owner : Bytes
  version : C11.Version
  connectionId : Nat
deriving DecidableEq, Repr

structure Outcome where
  http : HttpAnswer
  /-- relay frames written to the client, in order -/
  frames : List Bytes
  /-- the `ClientRequest` `on_connect` was called with (`none`: not called) -/
  shown : Option ClientRequest
  /-- the policy's answer -/
  decision : Option C03.Access
  registered : Option Registration
  stage : Stage
deriving Repr

/-- The whole accept path for one request. `cid` = the value `ConnectionId::next()` returns if
it is called. -/
def acceptPipeline (req : Request) (ss : Session) (policy : ClientRequest → C03.Access) (cid : Nat) : Outcome :=
  match upgrade req with
  | .switching v =>
    if !req.pipelined.isEmpty then
      { http := .switching v, frames := [], shown := none, decision := none, registered := none,
        stage := .bufferNotEmpty }
    else
      -- `serverside(&mut io, request_parts.headers.get(CLIENT_AUTH_HEADER))`
      match C03.serverside ss.crypto req.clientAuth ss.chal ss.incoming ss.writeOk with
      | (.error e, w) =>
        { http := .switching v, frames := w, shown := none, decision := none, registered := none,
          stage := .authentication e }
      | (.ok auth, w) =>
        -- `ClientRequest::new(authentication.client_key, protocol_version, request_parts)`
        let cr : ClientRequest := { endpointId := auth.key, version := v, connectionId := cid, request := req }
        let access := policy cr
        match C03.authorize auth access ss.writeOk w.length with
        | (.ok _, w') =>
          -- guard.endpoint_id = request.endpoint_id(); `Config::new(guard, io, protocol_version)`
          { http := .switching v, frames := w ++ w', shown := some cr, decision := some access,
            registered := some { owner := cr.endpointId, version := v, connectionId := cr.connectionId },
            stage := .registered }
        | (.error e, w') =>
          { http := .switching v, frames := w ++ w', shown := some cr, decision := some access,
            registered := none, stage := .authorization e }
  | a => { http := a, frames := [], shown := none, decision := none, registered := none, stage := .http }

/-- The step `Clients::register` performs for a registration, on the shared registry model
(`keyId` names endpoint keys by the registry's endpoint ids). -/
def registerStep {α : Type} (keyId : Bytes → Nat) (cfg : RelayRegistry.Cfg α) (s : RelayRegistry.State α)
    (reg : Registration) : RelayRegistry.State α :=
  RelayRegistry.register cfg s (keyId reg.owner) (reg.version == .v1)

end IrohModel.C07.Pipeline
