/-
C07 — access control sees exactly one disconnect per admitted relay connection.
Property theorems (all quantify over every input: every I/O fault script of any length, every
allow/deny decision, every ending and every registry branch).
-/
import IrohModel.C07.Lemmas

namespace IrohModel.C07

/-- The structural facts of the source the model relies on (regenerated on every run; the
extraction fails when the code no longer has this shape): the guard is created before the
confirmation is written, `Actor::run` hands its guard to `unregister` after the loop, and the
guard's `Drop` is what calls `on_disconnect`. -/
theorem source_shape :
    Generated.C07.guardBeforeConfirm = true ∧ Generated.C07.unregisterAfterRun = true ∧
    Generated.C07.dropCallsOnDisconnect = true ∧ writeOps = 2 ∧ readOps = 1 := ⟨rfl, rfl, rfl, rfl, rfl⟩

/-- EXACTLY ONCE, one connection: for every fault script, decision, ending and registry view,
the number of `on_disconnect(id, cid)` callbacks is 1 if `on_connect` admitted the connection and
0 otherwise; every callback in the log carries this connection's endpoint id and connection id;
and the disconnect comes after the admission (it is the last event, the admission the first). -/
theorem exactly_once (cid : Cid) (inp : Input) :
    let log := (accept cid inp).1
    disconnects inp.id cid log = (if Ev.onConnect inp.id cid true ∈ log then 1 else 0) ∧
    (∀ i c, Ev.onDisconnect i c ∈ log → i = inp.id ∧ c = cid) ∧
    (∀ i c a, Ev.onConnect i c a ∈ log → i = inp.id ∧ c = cid) ∧
    (Ev.onConnect inp.id cid true ∈ log →
      log.head? = some (.onConnect inp.id cid true) ∧ log.getLast? = some (.onDisconnect inp.id cid)) := by
  have hs := accept_shape cid inp
  generalize (accept cid inp).1 = log at hs
  cases hs with
  | silent => simp [disconnects]
  | denied => simp [disconnects]
  | admittedOnly =>
    refine ⟨by simp [disconnects], ?_, ?_, ?_⟩
    · intro i c h; simp at h; exact h
    · intro i c a h; simp at h; exact ⟨h.1, h.2.1⟩
    · intro _; simp
  | served tail ht =>
    refine ⟨?_, ?_, ?_, ?_⟩
    · have := ht.count inp.id cid
      simp [disconnects] at this ⊢
      exact this
    · intro i c h
      simp only [List.mem_cons] at h
      rcases h with h | h | h
      · cases h
      · cases h
      · obtain ⟨mid, rfl, hmid⟩ := ht
        rcases List.mem_append.mp h with h | h
        · have := hmid _ h; cases this
        · simp at h; exact h
    · intro i c a h
      simp only [List.mem_cons] at h
      rcases h with h | h | h
      · injection h with h1 h2 _; exact ⟨h1, h2⟩
      · cases h
      · exact absurd h (ht.no_connect i c a)
    · intro _
      obtain ⟨mid, rfl, _⟩ := ht
      refine ⟨rfl, ?_⟩
      rw [show Ev.onConnect inp.id cid true :: Ev.registered cid :: (mid ++ [Ev.onDisconnect inp.id cid]) =
        (Ev.onConnect inp.id cid true :: Ev.registered cid :: mid) ++ [Ev.onDisconnect inp.id cid] by simp]
      exact List.getLast?_concat ..

/-- Which connections are admitted: exactly those that authenticate, whose `on_connect` is not
abandoned, and that the policy allows. -/
theorem admitted_iff (cid : Cid) (inp : Input) :
    Ev.onConnect inp.id cid true ∈ (accept cid inp).1 ↔
      ((inp.keyMaterial = true ∨ ((ioSeq (writeOps + readOps) inp.io).isSome ∧ inp.sigOk = true)) ∧
        inp.connectAbort = false ∧ inp.allow = true) := by
  unfold accept
  cases hk : inp.keyMaterial <;> cases hs : inp.sigOk <;> cases ha : inp.connectAbort <;>
    cases hl : inp.allow <;> cases hi : ioSeq (writeOps + readOps) inp.io <;>
    simp <;> (try split) <;> simp

/-- A connection the policy denies is never registered and produces no disconnect callback;
more generally a registration happens only after this connection's admission. -/
theorem denied_never_registered (cid : Cid) (inp : Input) :
    let log := (accept cid inp).1
    (inp.allow = false → (∀ c, Ev.registered c ∉ log) ∧ (∀ i c, Ev.onDisconnect i c ∉ log)) ∧
    (∀ c, Ev.registered c ∈ log → c = cid ∧ Ev.onConnect inp.id cid true ∈ log) := by
  have hadm := admitted_iff cid inp
  have hs := accept_shape cid inp
  generalize (accept cid inp).1 = log at hs hadm
  cases hs with
  | silent => simp
  | denied => simp
  | admittedOnly =>
    refine ⟨fun hd => ?_, by simp⟩
    have := (hadm.mp (by simp)).2.2
    rw [hd] at this; cases this
  | served tail ht =>
    refine ⟨fun hd => ?_, ?_⟩
    · have := (hadm.mp (by simp)).2.2
      rw [hd] at this; cases this
    · intro c h
      simp only [List.mem_cons] at h
      rcases h with h | h | h
      · cases h
      · injection h with h; exact ⟨h, by simp⟩
      · exact absurd h (ht.no_registered c)

/-- Connection ids are never reused: the ids handed to `on_connect` over the life of the server
strictly increase (counter model of `ConnectionId::next`; single-location coherence of the
`AtomicU64` assumed), hence are pairwise distinct. -/
theorem cid_fresh (inps : List Input) : (connectCids (serve inps)).Pairwise (· < ·) := by
  unfold serve
  generalize Generated.C07.firstConnectionId = next
  induction inps generalizing next with
  | nil => simp [serveFrom, connectCids]
  | cons inp rest ih =>
    simp only [serveFrom]
    have happ := connectCids_append
    have hge := connectCids_ge
    rw [happ]
    have hs := accept_shape next inp
    have hused := accept_used_of_nonempty next inp
    generalize hacc : accept next inp = r at hs hused
    obtain ⟨log, used⟩ := r
    simp only at hs hused ⊢
    cases hs with
    | silent => simpa [connectCids] using ih _
    | denied =>
      have hu : used = true := hused (by simp)
      subst hu
      simp only [connectCids, if_true, List.singleton_append, List.pairwise_cons]
      exact ⟨fun c hc => hge (next + 1) _ (serveFrom_cid_ge _ _) c hc, ih _⟩
    | admittedOnly =>
      have hu : used = true := hused (by simp)
      subst hu
      simp only [connectCids, if_true, List.singleton_append, List.pairwise_cons]
      exact ⟨fun c hc => hge (next + 1) _ (serveFrom_cid_ge _ _) c hc, ih _⟩
    | served tail ht =>
      have hu : used = true := hused (by simp)
      subst hu
      have htail : connectCids tail = [] := connectCids_endsOnce ht
      simp only [connectCids, htail, if_true, List.singleton_append, List.pairwise_cons]
      exact ⟨fun c hc => hge (next + 1) _ (serveFrom_cid_ge _ _) c hc, ih _⟩

/-- Exactly once over the concatenated logs of any number of connections. -/
theorem exactly_once_serveFrom (next : Cid) (inps : List Input) (id : Id) (cid : Cid) :
    List.count (Ev.onDisconnect id cid) (serveFrom next inps) =
      (if Ev.onConnect id cid true ∈ serveFrom next inps then 1 else 0) := by
  induction inps generalizing next with
  | nil => simp [serveFrom]
  | cons inp rest ih =>
    simp only [serveFrom, List.count_append, List.mem_append]
    have h1 := exactly_once next inp
    have hcid := (accept_shape next inp).cid
    have hused := accept_used_of_nonempty next inp
    have hrest := ih (if (accept next inp).2 = true then next + 1 else next)
    generalize accept next inp = r at h1 hcid hused hrest
    obtain ⟨log, used⟩ := r
    simp only at h1 hcid hused hrest ⊢
    by_cases hlog : log = []
    · subst hlog; simpa using hrest
    · have hu : used = true := hused hlog
      subst hu
      simp only [if_true] at hrest ⊢
      have hge := serveFrom_cid_ge (next + 1) rest
      by_cases hc : cid = next
      · subst hc
        -- nothing of this connection id in the rest
        have hr0 : List.count (Ev.onDisconnect id cid) (serveFrom (cid + 1) rest) = 0 := by
          apply List.count_eq_zero.mpr
          intro hm
          have := hge _ hm
          simp only [Ev.cid] at this
          omega
        have hrn : Ev.onConnect id cid true ∉ serveFrom (cid + 1) rest := by
          intro hm
          have := hge _ hm
          simp only [Ev.cid] at this
          omega
        rw [hr0]
        by_cases hid : id = inp.id
        · subst hid
          have := h1.1
          simp only [disconnects] at this
          simp [this, hrn]
        · have h0 : List.count (Ev.onDisconnect id cid) log = 0 := by
            apply List.count_eq_zero.mpr
            intro hm
            exact hid (h1.2.1 _ _ hm).1
          have hn : Ev.onConnect id cid true ∉ log := fun hm => hid (h1.2.2.1 _ _ _ hm).1
          simp [h0, hn, hrn]
      · have h0 : List.count (Ev.onDisconnect id cid) log = 0 := by
          apply List.count_eq_zero.mpr
          intro hm
          exact hc (hcid _ hm)
        have hn : Ev.onConnect id cid true ∉ log := fun hm => hc (hcid _ hm)
        simp [h0, hn, hrest]

/-- EXACTLY ONCE, whole server: over any number of connections with arbitrary inputs, and for
ANY interleaving `l` of their callbacks (any permutation of the concatenated logs), the policy
hears `on_disconnect(id, cid)` exactly once if it admitted `(id, cid)` and never otherwise — in
particular never with an id it did not admit, and never for a denied connection. -/
theorem exactly_once_all (inps : List Input) (l : List Ev) (hl : l.Perm (serve inps)) (id : Id) (cid : Cid) :
    disconnects id cid l = (if Ev.onConnect id cid true ∈ l then 1 else 0) := by
  have hmem : Ev.onConnect id cid true ∈ l ↔ Ev.onConnect id cid true ∈ serve inps := hl.mem_iff
  unfold disconnects
  rw [hl.count_eq]
  simp only [hmem]
  exact exactly_once_serveFrom _ inps id cid

/-! ### non-vacuity -/

/-- An admitted connection whose confirmation flush fails: one disconnect. -/
example : (accept 5 {
    id := 9, keyMaterial := false, sigOk := true, connectAbort := false, allow := true,
    io := [.ok, .ok, .ok, .ok, .fail], cause := .normalClose, finalFlush := .ok, view := .activeAlone }).1 =
    [.onConnect 9 5 true, .onDisconnect 9 5] := by decide

/-- A served connection dropped in the middle of its 3rd actor I/O operation (task abort). -/
example : (accept 5 {
    id := 9, keyMaterial := true, sigOk := false, connectAbort := false, allow := true,
    io := [.ok, .ok, .ok, .ok, .abort], cause := .normalClose, finalFlush := .ok, view := .inactive }).1 =
    [.onConnect 9 5 true, .registered 5, .onDisconnect 9 5] := by decide

/-- A denied one. -/
example : (accept 5 {
    id := 9, keyMaterial := true, sigOk := false, connectAbort := false, allow := false,
    io := [], cause := .serverShutdown, finalFlush := .ok, view := .noEntry }).1 = [.onConnect 9 5 false] := by decide

/-- Several connections: ids 0,1,2 are handed out, the unauthenticated one consumes none. -/
example : connectCids (serve [
    { id := 1,
      keyMaterial := true, sigOk := true, connectAbort := false, allow := true, io := [], cause := .disconnectRequest, finalFlush := .fail, view := .activeAlone },
    { id := 2,
      keyMaterial := false, sigOk := false, connectAbort := false, allow := true, io := [], cause := .normalClose, finalFlush := .ok, view := .activeAlone },
    { id := 1,
      keyMaterial := true, sigOk := true, connectAbort := false, allow := false, io := [], cause := .normalClose, finalFlush := .ok, view := .activeAlone },
    { id := 3,
      keyMaterial := true, sigOk := true, connectAbort := false, allow := true, io := [.fail], cause := .normalClose, finalFlush := .ok, view := .activeAlone }]) = [0, 1, 2] := by
  decide

end IrohModel.C07
