/-
C07 — helper lemmas: shape of the logs of `unregister`, `runActor`, `accept`, and bounds on the
connection ids occurring in `serveFrom`.
-/
import IrohModel.C07.Model

namespace IrohModel.C07

/-- The connection id an event is about. -/
def Ev.cid : Ev → Cid
  | .onConnect _ c _ => c
  | .onDisconnect _ c => c
  | .registered c => c
  | .unregistered c => c

/-- A log tail that reports the end of the guarded connection exactly once, at its very end,
after registry events only. -/
def EndsOnce (g : Guard) (l : List Ev) : Prop :=
  ∃ mid, l = mid ++ [.onDisconnect g.id g.cid] ∧ ∀ e ∈ mid, e = .unregistered g.cid

theorem endsOnce_dropGuard (g : Guard) : EndsOnce g (dropGuard g) :=
  ⟨[], rfl, fun _ h => by simp at h⟩

theorem endsOnce_unregister (g : Guard) (v : RegView) : EndsOnce g (unregister g v) := by
  cases v <;> exact ⟨[.unregistered g.cid], rfl, fun e h => by simpa using h⟩

/-- Whatever the I/O script, the ending and the registry view: the actor's log ends the
connection exactly once (induction over the unbounded script). -/
theorem endsOnce_runActor (g : Guard) (cause : Cause) (ff : Io) (v : RegView) (io : List Io) :
    EndsOnce g (runActor g cause ff v io) := by
  induction io with
  | nil =>
    unfold runActor
    cases cause <;> simp only <;> first
      | exact endsOnce_unregister g v
      | exact endsOnce_dropGuard g
      | (cases ff <;> simp only <;> first | exact endsOnce_unregister g v | exact endsOnce_dropGuard g)
  | cons x rest ih =>
    cases x with
    | ok => simpa [runActor] using ih
    | fail => simpa [runActor] using endsOnce_unregister g v
    | abort => simpa [runActor] using endsOnce_dropGuard g

theorem EndsOnce.count {g : Guard} {l : List Ev} (h : EndsOnce g l) (id : Id) (cid : Cid) :
    l.count (.onDisconnect id cid) = if id = g.id ∧ cid = g.cid then 1 else 0 := by
  obtain ⟨mid, rfl, hmid⟩ := h
  have h0 : mid.count (.onDisconnect id cid) = 0 := by
    apply List.count_eq_zero.mpr
    intro hm
    have := hmid _ hm
    cases this
  rw [List.count_append, h0]
  by_cases hc : id = g.id ∧ cid = g.cid
  · obtain ⟨rfl, rfl⟩ := hc; simp
  · have : (Ev.onDisconnect g.id g.cid == Ev.onDisconnect id cid) = false := by
      apply beq_false_of_ne
      intro e; injection e with e1 e2; exact hc ⟨e1.symm, e2.symm⟩
    simp [List.count_cons, this, hc]

theorem EndsOnce.cid {g : Guard} {l : List Ev} (h : EndsOnce g l) : ∀ e ∈ l, e.cid = g.cid := by
  obtain ⟨mid, rfl, hmid⟩ := h
  intro e he
  rcases List.mem_append.mp he with he | he
  · rw [hmid e he]; rfl
  · simp at he; rw [he]; rfl

theorem EndsOnce.no_connect {g : Guard} {l : List Ev} (h : EndsOnce g l) (i : Id) (c : Cid) (a : Bool) :
    .onConnect i c a ∉ l := by
  obtain ⟨mid, rfl, hmid⟩ := h
  intro he
  rcases List.mem_append.mp he with he | he
  · have := hmid _ he; cases this
  · simp at he

theorem EndsOnce.no_registered {g : Guard} {l : List Ev} (h : EndsOnce g l) (c : Cid) :
    .registered c ∉ l := by
  obtain ⟨mid, rfl, hmid⟩ := h
  intro he
  rcases List.mem_append.mp he with he | he
  · have := hmid _ he; cases this
  · simp at he

/-- The complete shape of the log of one connection. -/
inductive Shape (id : Id) (cid : Cid) : List Ev → Prop where
  /-- never reached `on_connect`, or dropped while it was pending -/
  | silent : Shape id cid []
  | denied : Shape id cid [.onConnect id cid false]
  /-- admitted, setup failed before registration -/
  | admittedOnly : Shape id cid [.onConnect id cid true, .onDisconnect id cid]
  /-- admitted and registered, then ended once -/
  | served (tail : List Ev) : EndsOnce ⟨id, cid⟩ tail →
      Shape id cid (.onConnect id cid true :: .registered cid :: tail)

theorem accept_shape (cid : Cid) (inp : Input) : Shape inp.id cid (accept cid inp).1 := by
  unfold accept
  simp only
  split
  · exact .silent
  · next io1 _ =>
    by_cases h1 : inp.connectAbort = true
    · simp only [h1, if_true]; exact .silent
    · simp only [h1]
      by_cases h2 : inp.allow = true
      · simp only [h2, Bool.not_true]
        cases h3 : ioSeq writeOps io1 with
        | none => exact .admittedOnly
        | some io2 => exact .served _ (endsOnce_runActor _ _ _ _ _)
      · have : inp.allow = false := by simpa using h2
        simp only [this, Bool.not_false, if_true]
        exact .denied

/-- `ConnectionId::next` is called exactly when the log is non-empty or `on_connect` was pending. -/
theorem accept_used_of_nonempty (cid : Cid) (inp : Input) (h : (accept cid inp).1 ≠ []) :
    (accept cid inp).2 = true := by
  unfold accept at h ⊢
  simp only at h ⊢
  split
  · next hh => simp [hh] at h
  · split
    · rfl
    · split
      · rfl
      · split <;> rfl

theorem Shape.cid {id : Id} {cid : Cid} {l : List Ev} (h : Shape id cid l) : ∀ e ∈ l, e.cid = cid := by
  cases h with
  | silent => intro e he; simp at he
  | denied => intro e he; simp at he; rw [he]; rfl
  | admittedOnly => intro e he; simp at he; rcases he with rfl | rfl <;> rfl
  | served tail ht =>
    intro e he
    simp only [List.mem_cons] at he
    rcases he with rfl | rfl | he
    · rfl
    · rfl
    · exact ht.cid e he

/-- Every event of `serveFrom next …` is about a connection id ≥ `next`. -/
theorem serveFrom_cid_ge (next : Cid) (inps : List Input) : ∀ e ∈ serveFrom next inps, next ≤ e.cid := by
  induction inps generalizing next with
  | nil => intro e he; simp [serveFrom] at he
  | cons inp rest ih =>
    intro e he
    simp only [serveFrom] at he
    rcases List.mem_append.mp he with he | he
    · rw [(accept_shape next inp).cid e he]; exact Nat.le_refl _
    · have := ih _ e he
      split at this <;> omega

theorem connectCids_append (a b : List Ev) : connectCids (a ++ b) = connectCids a ++ connectCids b := by
  induction a with
  | nil => rfl
  | cons e a iha => cases e <;> simp [connectCids, iha]

theorem connectCids_ge (n : Cid) (l : List Ev) (h : ∀ e ∈ l, n ≤ e.cid) : ∀ c ∈ connectCids l, n ≤ c := by
  induction l with
  | nil => intro c hc; simp [connectCids] at hc
  | cons e l ihl =>
    intro c hc
    have hl := ihl (fun e' he' => h e' (List.mem_cons_of_mem _ he'))
    cases e with
    | onConnect i c' a =>
      simp only [connectCids, List.mem_cons] at hc
      rcases hc with rfl | hc
      · exact h _ (List.mem_cons_self ..)
      · exact hl c hc
    | onDisconnect _ _ => exact hl c (by simpa [connectCids] using hc)
    | registered _ => exact hl c (by simpa [connectCids] using hc)
    | unregistered _ => exact hl c (by simpa [connectCids] using hc)

theorem connectCids_endsOnce {g : Guard} {l : List Ev} (h : EndsOnce g l) : connectCids l = [] := by
  obtain ⟨mid, rfl, hmid⟩ := h
  rw [connectCids_append]
  have : connectCids mid = [] := by
    induction mid with
    | nil => rfl
    | cons e mid ihm =>
      have he := hmid e (List.mem_cons_self ..)
      subst he
      simpa [connectCids] using ihm (fun e' he' => hmid e' (List.mem_cons_of_mem _ he'))
  simp [this, connectCids]

end IrohModel.C07
