/-
C07 (extension) — theorems about the accept pipeline (`AcceptPipeline.lean`): the glue passes
the verified values along.  All statements quantify over every request (arbitrary header
bytes, query, pipelined bytes), every session (arbitrary frames, challenge, crypto facts, sink
behaviour), every access policy and every connection id.
-/
import IrohModel.C07.AcceptPipeline
import IrohModel.C03.Theorems
import IrohModel.Common.RelayRegistryLemmas

namespace IrohModel.C07.Pipeline
open IrohModel

/-- The structural facts of the glue, regenerated from the source on every run (the extraction
fails when the code no longer has this shape): which header feeds `serverside`, which key
`ClientRequest::new` gets, where the guard's endpoint id comes from, which owner `register`
uses and which version `Config::new` gets. -/
theorem glue_shape :
    Generated.C07.glueAuthHeader = true ∧ Generated.C07.glueRequestKey = true ∧
    Generated.C07.glueGuardFromRequest = true ∧ Generated.C07.glueRegisterOwner = true ∧
    Generated.C07.glueConfigVersion = true ∧ Generated.C07.glueRelayRoute = true :=
  ⟨rfl, rfl, rfl, rfl, rfl, rfl⟩

/-- Everything the pipeline does after a successful upgrade, as one case analysis. -/
private theorem unfold_switching (req : Request) (ss : Session) (policy : ClientRequest → C03.Access)
    (cid : Nat) (v : C11.Version) (hu : upgrade req = .switching v) :
    acceptPipeline req ss policy cid =
      if !req.pipelined.isEmpty then
        { http := .switching v, frames := [], shown := none, decision := none, registered := none,
          stage := .bufferNotEmpty }
      else
        match C03.serverside ss.crypto req.clientAuth ss.chal ss.incoming ss.writeOk with
        | (.error e, w) =>
          { http := .switching v, frames := w, shown := none, decision := none, registered := none,
            stage := .authentication e }
        | (.ok auth, w) =>
          let cr : ClientRequest := { endpointId := auth.key, version := v, connectionId := cid, request := req }
          let access := policy cr
          match C03.authorize auth access ss.writeOk w.length with
          | (.ok _, w') =>
            { http := .switching v, frames := w ++ w', shown := some cr, decision := some access,
              registered := some { owner := cr.endpointId, version := v, connectionId := cr.connectionId },
              stage := .registered }
          | (.error e, w') =>
            { http := .switching v, frames := w ++ w', shown := some cr, decision := some access,
              registered := none, stage := .authorization e } := by
  unfold acceptPipeline
  rw [hu]
  rfl

/-- If the upgrade is not `switching`, nothing relay-level happens. -/
private theorem unfold_not_switching (req : Request) (ss : Session) (policy : ClientRequest → C03.Access)
    (cid : Nat) (hu : ∀ v, upgrade req ≠ .switching v) :
    acceptPipeline req ss policy cid =
      { http := upgrade req, frames := [], shown := none, decision := none, registered := none, stage := .http } := by
  unfold acceptPipeline
  cases h : upgrade req with
  | switching v => exact absurd h (hu v)
  | notRelay => rfl
  | badRequest w => rfl

/-- A `switching` answer means: `GET /relay`, `Upgrade: websocket`, a websocket key, websocket
version 13, and C11's negotiation picked `v` for the request's `Sec-WebSocket-Protocol` header. -/
theorem upgrade_switching_iff (req : Request) (v : C11.Version) :
    upgrade req = .switching v ↔
      (req.isGet = true ∧ req.path = relayPath ∧ req.upgrade = some websocketProtocol ∧ req.wsKey.isSome = true ∧
        req.wsVersion = some supportedWsVersion ∧ C11.negotiate req.wsProtocol = .switching v) := by
  unfold upgrade
  by_cases hg : req.isGet = true <;> by_cases hp : req.path = relayPath <;> simp [hg, hp]
  cases hu : req.upgrade with
  | none => simp
  | some u =>
    by_cases hw : u = websocketProtocol
    · subst hw
      cases hk : req.wsKey with
      | none => simp
      | some k =>
        cases hv : req.wsVersion with
        | none => simp
        | some wv =>
          by_cases hs : wv = supportedWsVersion
          · subst hs
            cases hn : C11.negotiate req.wsProtocol <;> simp
          · simp [hs]
    · simp [hw]

/-- (3) POLICY SEES WHAT WAS VERIFIED.  Whatever the client sends — any headers, any frames —
if `on_connect` is called at all, then the `ClientRequest` it is shown carries exactly: the key
C03's `serverside` reported as authenticated for this connection's `x-iroh-relay-client-auth-v1`
header and frames; the version C11's negotiation picked for this request's
`Sec-WebSocket-Protocol` header; the fresh connection id; and the request itself, so its
`auth_token()` is exactly C12's token of this request's `Authorization` headers and query. -/
theorem policy_sees_what_was_verified (req : Request) (ss : Session) (policy : ClientRequest → C03.Access)
    (cid : Nat) (cr : ClientRequest) (h : (acceptPipeline req ss policy cid).shown = some cr) :
    (∃ mech w, C03.serverside ss.crypto req.clientAuth ss.chal ss.incoming ss.writeOk = (.ok ⟨cr.endpointId, mech⟩, w)) ∧
    C11.negotiate req.wsProtocol = .switching cr.version ∧
    cr.connectionId = cid ∧ cr.request = req ∧
    cr.authToken = C12.authTokenOfRequest req.authorizations req.query ∧
    (acceptPipeline req ss policy cid).decision = some (policy cr) ∧
    req.pipelined = [] := by
  by_cases hsw : ∃ v, upgrade req = .switching v
  · obtain ⟨v, hu⟩ := hsw
    rw [unfold_switching req ss policy cid v hu] at h ⊢
    by_cases hp : req.pipelined.isEmpty = true
    · simp only [hp, Bool.not_true, Bool.false_eq_true, if_false] at h ⊢
      cases hs : C03.serverside ss.crypto req.clientAuth ss.chal ss.incoming ss.writeOk with
      | mk r w =>
        cases r with
        | error e => simp [hs] at h
        | ok auth =>
          simp only [hs] at h ⊢
          have hcr : cr = { endpointId := auth.key, version := v, connectionId := cid, request := req } := by
            cases ha : C03.authorize auth (policy { endpointId := auth.key, version := v, connectionId := cid, request := req }) ss.writeOk w.length with
            | mk r' w' => cases r' <;> simp [ha] at h <;> exact h.symm
          subst hcr
          refine ⟨⟨auth.mech, w, rfl⟩, ((upgrade_switching_iff req v).mp hu).2.2.2.2.2, rfl, rfl, rfl, ?_,
            by simpa using hp⟩
          cases ha : C03.authorize auth (policy { endpointId := auth.key, version := v, connectionId := cid, request := req }) ss.writeOk w.length with
          | mk r' w' => cases r' <;> simp
    · simp [hp] at h
  · rw [unfold_not_switching req ss policy cid (fun v hv => hsw ⟨v, hv⟩)] at h
    simp at h

/-- (1) REGISTERED OWNER IS THE AUTHENTICATED KEY.  A connection is registered with owner `K`,
version `v` and connection id `c` only if: the request was an acceptable `GET /relay` upgrade for
which C11's negotiation picked `v`; C03's `serverside` reported `K` as authenticated (so
`C03.auth_sound` applies: see `registered_owner_proved_possession`); and the access policy
returned `allow` for the `ClientRequest` with endpoint id `K`, version `v`, connection id `c`
and this very request — whose token is C12's `authToken` of the request; and the confirmation
was written. -/
theorem registered_owner_is_authenticated_key (req : Request) (ss : Session)
    (policy : ClientRequest → C03.Access) (cid : Nat) (reg : Registration)
    (h : (acceptPipeline req ss policy cid).registered = some reg) :
    ∃ mech w cr,
      C03.serverside ss.crypto req.clientAuth ss.chal ss.incoming ss.writeOk = (.ok ⟨reg.owner, mech⟩, w) ∧
      upgrade req = .switching reg.version ∧ C11.negotiate req.wsProtocol = .switching reg.version ∧
      (acceptPipeline req ss policy cid).shown = some cr ∧
      cr = { endpointId := reg.owner, version := reg.version, connectionId := reg.connectionId, request := req } ∧
      reg.connectionId = cid ∧
      cr.authToken = C12.authTokenOfRequest req.authorizations req.query ∧
      policy cr = .allow ∧ ss.writeOk w.length = true ∧
      (acceptPipeline req ss policy cid).frames = w ++ [C03.confirmFrame] := by
  by_cases hsw : ∃ v, upgrade req = .switching v
  · obtain ⟨v, hu⟩ := hsw
    rw [unfold_switching req ss policy cid v hu] at h ⊢
    by_cases hp : req.pipelined.isEmpty = true
    · simp only [hp, Bool.not_true, Bool.false_eq_true, if_false] at h ⊢
      cases hs : C03.serverside ss.crypto req.clientAuth ss.chal ss.incoming ss.writeOk with
      | mk r w =>
        cases r with
        | error e => simp [hs] at h
        | ok auth =>
          simp only [hs] at h ⊢
          generalize hcr : ({ endpointId := auth.key, version := v, connectionId := cid, request := req } : ClientRequest) = cr0 at h ⊢
          cases hpol : policy cr0 with
          | deny r =>
            by_cases hw : ss.writeOk w.length = true <;> simp [hpol, C03.authorize, hw] at h
          | allow =>
            simp only [hpol, C03.authorize] at h ⊢
            by_cases hw : ss.writeOk w.length = true
            · simp only [hw, if_true] at h ⊢
              simp only [Option.some.injEq] at h
              subst h
              subst hcr
              exact ⟨auth.mech, w, _, rfl, hu, ((upgrade_switching_iff req v).mp hu).2.2.2.2.2, rfl, rfl, rfl, rfl,
                hpol, hw, rfl⟩
            · simp [hw] at h
    · simp [hp] at h
  · rw [unfold_not_switching req ss policy cid (fun v hv => hsw ⟨v, hv⟩)] at h
    simp at h

/-- …hence, by `C03.reported_only_with_valid_signature`/`auth_sound`, the registered owner is a
valid key for which the client presented a signature that verifies (over the server's own TLS
exporter output, or over this session's fresh challenge). -/
theorem registered_owner_proved_possession (req : Request) (ss : Session)
    (policy : ClientRequest → C03.Access) (cid : Nat) (reg : Registration)
    (h : (acceptPipeline req ss policy cid).registered = some reg) :
    ss.crypto.validPoint reg.owner = true ∧
    ((∃ hv a km, req.clientAuth = some hv ∧ C03.decodeHeader ss.crypto hv = some a ∧ a.pk = reg.owner ∧
        ss.crypto.exportKm reg.owner = some km ∧ km.drop 16 = a.suffix ∧
        ss.crypto.verify reg.owner (km.take 16) a.sig = true) ∨
     (∃ f body a, ss.incoming.head? = some (.data f) ∧ C03.readClientAuthFrame (some (.data f)) = .ok body ∧
        C03.parseClientAuth ss.crypto body = some a ∧ a.pk = reg.owner ∧
        ss.crypto.verify reg.owner (ss.crypto.deriveKey ss.chal) a.sig = true)) := by
  obtain ⟨mech, w, _, hs, _⟩ := registered_owner_is_authenticated_key req ss policy cid reg h
  rcases C03.auth_sound ss.crypto req.clientAuth ss.chal ss.incoming ss.writeOk reg.owner mech w hs with
    ⟨_, _, hv, a, km, h1, h2, h3, h4, h5, h6, h7⟩ | ⟨_, _, f, body, a, h1, h2, h3, h4, h5, h6⟩
  · exact ⟨h4, Or.inl ⟨hv, a, km, h1, h2, h3, h5, h6, h7⟩⟩
  · exact ⟨h5, Or.inr ⟨f, body, a, h1, h2, h3, h4, h6⟩⟩

/-- (2) DENIED OR FAILED ⇒ NEVER REGISTERED, with the response the client sees per stage.
`register` happens exactly when every stage succeeds; in every other case there is no
registration, and:
* a request that is not an acceptable upgrade gets its HTTP answer and nothing else — no frame,
  no `on_connect`;
* bytes pipelined behind the request: 101, then nothing — no frame, no `on_connect`;
* a failed authentication: exactly the frames C03's `serverside` wrote, no `on_connect`;
* a denial: `on_connect` was called once, the client gets C03's denial frame (if it can be
  written) and no confirmation. -/
theorem denied_or_failed_never_registered (req : Request) (ss : Session)
    (policy : ClientRequest → C03.Access) (cid : Nat) :
    let out := acceptPipeline req ss policy cid
    (out.registered.isSome = true ↔
      ∃ v auth w, upgrade req = .switching v ∧ req.pipelined = [] ∧
        C03.serverside ss.crypto req.clientAuth ss.chal ss.incoming ss.writeOk = (.ok auth, w) ∧
        policy { endpointId := auth.key, version := v, connectionId := cid, request := req } = .allow ∧
        ss.writeOk w.length = true) ∧
    (out.registered.isSome = true ↔ out.stage = .registered) ∧
    ((∀ v, upgrade req ≠ .switching v) →
      out.http = upgrade req ∧ out.frames = [] ∧ out.shown = none ∧ out.registered = none ∧ out.stage = .http) ∧
    (∀ v, upgrade req = .switching v → req.pipelined ≠ [] →
      out.http = .switching v ∧ out.frames = [] ∧ out.shown = none ∧ out.registered = none ∧
        out.stage = .bufferNotEmpty) ∧
    (∀ v e w, upgrade req = .switching v → req.pipelined = [] →
      C03.serverside ss.crypto req.clientAuth ss.chal ss.incoming ss.writeOk = (.error e, w) →
      out.frames = w ∧ out.shown = none ∧ out.registered = none ∧ out.stage = .authentication e) ∧
    (∀ v auth w r, upgrade req = .switching v → req.pipelined = [] →
      C03.serverside ss.crypto req.clientAuth ss.chal ss.incoming ss.writeOk = (.ok auth, w) →
      policy { endpointId := auth.key, version := v, connectionId := cid, request := req } = .deny r →
      out.registered = none ∧ C03.confirmFrame ∉ out.frames.drop w.length ∧
      out.frames = w ++ (if ss.writeOk w.length then [C03.denyFrame (r.getD C03.reasonNotAuthorized)] else []) ∧
      out.stage = .authorization (if ss.writeOk w.length then .serverDenied else .websocket)) := by
  dsimp only
  have hne : ∀ (l : Bytes), l ≠ [] → l.isEmpty = false := by intro l hl; cases l <;> simp at hl ⊢
  refine ⟨?_, ?_, ?_, ?_, ?_, ?_⟩
  · constructor
    · intro h
      obtain ⟨reg, hreg⟩ := Option.isSome_iff_exists.mp h
      obtain ⟨mech, w, cr, hs, hu, _, _, hcr, hc, _, hpol, hw, _⟩ :=
        registered_owner_is_authenticated_key req ss policy cid reg hreg
      subst hcr
      exact ⟨reg.version, ⟨reg.owner, mech⟩, w, hu,
        (policy_sees_what_was_verified req ss policy cid _ (by assumption)).2.2.2.2.2.2, hs, hc ▸ hpol, hw⟩
    · rintro ⟨v, auth, w, hu, hp, hs, hpol, hw⟩
      show (acceptPipeline req ss policy cid).registered.isSome = true
      rw [unfold_switching req ss policy cid v hu]
      simp [hp, hs, hpol, C03.authorize, hw]
  · show (acceptPipeline req ss policy cid).registered.isSome = true ↔ (acceptPipeline req ss policy cid).stage = .registered
    by_cases hsw : ∃ v, upgrade req = .switching v
    · obtain ⟨v, hu⟩ := hsw
      rw [unfold_switching req ss policy cid v hu]
      by_cases hp : req.pipelined.isEmpty = true
      · simp only [hp, Bool.not_true, Bool.false_eq_true, if_false]
        cases hs : C03.serverside ss.crypto req.clientAuth ss.chal ss.incoming ss.writeOk with
        | mk r w =>
          cases r with
          | error e => simp
          | ok auth =>
            simp only
            cases ha : C03.authorize auth (policy { endpointId := auth.key, version := v, connectionId := cid, request := req }) ss.writeOk w.length with
            | mk r' w' => cases r' <;> simp
      · simp [hp]
    · rw [unfold_not_switching req ss policy cid (fun v hv => hsw ⟨v, hv⟩)]
      simp
  · intro hu
    show (acceptPipeline req ss policy cid).http = _ ∧ _
    rw [unfold_not_switching req ss policy cid hu]
    exact ⟨rfl, rfl, rfl, rfl, rfl⟩
  · intro v hu hp
    show (acceptPipeline req ss policy cid).http = _ ∧ _
    rw [unfold_switching req ss policy cid v hu]
    simp [hne _ hp]
  · intro v e w hu hp hs
    show (acceptPipeline req ss policy cid).frames = _ ∧ _
    rw [unfold_switching req ss policy cid v hu]
    simp [hp, hs]
  · intro v auth w r hu hp hs hpol
    show (acceptPipeline req ss policy cid).registered = _ ∧ _
    rw [unfold_switching req ss policy cid v hu]
    by_cases hw : ss.writeOk w.length = true
    · simp [hp, hs, hpol, C03.authorize, hw, C03.confirmFrame, C03.denyFrame,
        C03.tagServerConfirmsAuth, C03.tagServerDeniesAuth, Generated.C03.tagServerConfirmsAuth,
        Generated.C03.tagServerDeniesAuth]
    · simp [hp, hs, hpol, C03.authorize, hw]

/-- The registry step: `Clients::register` creates the connection record with owner = the
registered (= authenticated) key and the negotiated version, under the next connection index —
this is the record the "true sender" theorems of C04–C06 speak about. -/
theorem register_step_owner {α : Type} (keyId : Bytes → Nat) (cfg : RelayRegistry.Cfg α)
    (s : RelayRegistry.State α) (reg : Registration) :
    ∃ x, (registerStep keyId cfg s reg).conns s.nextCid = some x ∧ x.owner = keyId reg.owner ∧
      x.v1 = (reg.version == .v1) := by
  unfold registerStep
  rw [RelayRegistry.register_eq]
  have hpre : (RelayRegistry.registerPre s (keyId reg.owner) (reg.version == .v1)).conns s.nextCid =
      some (RelayRegistry.newConn (keyId reg.owner) (reg.version == .v1)) := by
    simp [RelayRegistry.registerPre, RelayRegistry.emit]
  cases he : s.entries (keyId reg.owner) with
  | none =>
    exact ⟨RelayRegistry.newConn (keyId reg.owner) (reg.version == .v1),
      by rw [RelayRegistry.setEntry_conns]; exact hpre, rfl, rfl⟩
  | some e =>
    simp only
    have hsame := RelayRegistry.trySendHealth_sameReg cfg
      (RelayRegistry.registerPre s (keyId reg.owner) (reg.version == .v1)) e.active .sameIdConnected
    have ho := hsame.owner s.nextCid
    have hv := hsame.v1 s.nextCid
    rw [hpre] at ho hv
    cases hx : (RelayRegistry.trySendHealth cfg (RelayRegistry.registerPre s (keyId reg.owner) (reg.version == .v1))
        e.active .sameIdConnected).conns s.nextCid with
    | none => simp [hx] at ho
    | some x =>
      simp [hx, RelayRegistry.newConn] at ho hv
      exact ⟨x, by simpa using hx, ho, hv⟩

/-! ### non-vacuity -/

/-- A toy crypto in which a signature verifies iff it is the key reversed. -/
private def toyC : C03.Crypto :=
  ⟨fun pk => pk.length == 32, fun pk _ sig => sig == (pk ++ pk), fun c => c, fun _ => none⟩

private def toyKey : Bytes := List.replicate 32 7

private def toyReq : Request :=
  { isGet := true, path := relayPath, upgrade := some websocketProtocol, wsKey := some [1], wsVersion := some supportedWsVersion,
    wsProtocol := some C11.clientOffer, clientAuth := none,
    authorizations := [C12.bearer ++ [32, 116, 111, 107]], query := none, pipelined := [] }

private def toySession : Session :=
  { crypto := toyC, chal := List.replicate 16 3,
    incoming := [.data (UInt8.ofNat C03.tagClientAuth :: C03.encodeClientAuth toyKey (toyKey ++ toyKey))],
    writeOk := fun _ => true }

/-- The hypotheses of (1) and (3) are satisfiable: an honest request is registered under its
key with version 2, and the policy was shown the bearer token `tok`. -/
example :
    let out := acceptPipeline toyReq toySession (fun _ => .allow) 5
    out.registered = some { owner := toyKey, version := .v2, connectionId := 5 } ∧
    (out.shown.map (·.authToken)) = some (some [116, 111, 107]) ∧
    out.frames = [C03.challengeFrame (List.replicate 16 3), C03.confirmFrame] := by
  decide

/-- …and a denial / a bad upgrade header are not registered. -/
example :
    (acceptPipeline toyReq toySession (fun _ => .deny none) 5).registered = none ∧
    (acceptPipeline { toyReq with upgrade := some [87] } toySession (fun _ => .allow) 5).http = .badRequest .badUpgrade := by
  decide

end IrohModel.C07.Pipeline
