/-
C07 — access control sees exactly one disconnect per admitted relay connection.

Code modelled (iroh-relay `server/http_server.rs` `Inner::accept`, `protos/handshake.rs`
`serverside` / `authorize_with`, `server.rs` `ClientRequest::new` / `ConnectionId::next` /
`OnDisconnectGuard`, `server/clients.rs` `register` / `unregister`, `server/client.rs`
`Actor::run`), for ONE upgraded connection, as a straight-line program:

```rust
// serverside(io, header)
if key-material header verifies { .. } else {
    write_frame(io, challenge)            // I/O: send, flush
    read_frame(io, [ClientAuth])          // I/O: read
    if !verify { write_frame(io, denial)  // I/O: send, flush
                 return Err } }
let request = ClientRequest::new(..);     // connection id := ConnectionId::next()
// authorize_with
match access.on_connect(&request).await {                       // await point
    Allow => { let guard = OnDisconnectGuard::for_access_control(access, &request);
               write_frame(io, ServerConfirmsAuth).await?;       // I/O: send, flush (`?` drops guard)
               Ok(guard) }
    Deny  => Err(deny(io))                                       // I/O: send, flush
}
clients.register(Config::new(guard, io, ..))                    // guard moved into the actor task
// Actor::run
run_inner(done).await   // loop of reads / writes / flushes; ends by stream end, error frame, I/O
                        // error, ping timeout, or cancellation (+ final flush)
self.clients.unregister(self.guard, ..);   // 4 registry branches; `guard` dropped at its end
```

Ownership is modelled explicitly: the guard is a value that exists from the `Allow` branch on
and every path out of the program says what happens to it — `dropGuard` is the ONLY place that
emits `onDisconnect` (`impl Drop for OnDisconnectGuard`).  A task that is dropped while suspended
at an await point (`Io.abort`: runtime shutdown, `AbortOnDropHandle`) drops its live locals, i.e.
the guard if it exists, and does NOT run `unregister`.

Fault model: every read / write / flush consumes one entry of the script `io : List Io`
(`ok`, `fail`, `abort`; a missing entry is `ok`), in program order, for setup and for the
unbounded actor loop alike; when the script is used up the actor ends by `ending`.
The log holds the `AccessControl` callbacks plus registry events.  Core Lean only.
-/
import IrohModel.Generated.C07

namespace IrohModel.C07

/-- Endpoint ids and connection ids are natural numbers. -/
scoped notation "Id" => Nat
@[inherit_doc] scoped notation "Cid" => Nat

inductive Ev where
  /-- `AccessControl::on_connect(request)` returned `allow` for connection `cid` of `id` -/
  | onConnect (id : Id) (cid : Cid) (allow : Bool)
  /-- `AccessControl::on_disconnect(id, cid)` -/
  | onDisconnect (id : Id) (cid : Cid)
  /-- `Clients::register` inserted the connection -/
  | registered (cid : Cid)
  /-- `Clients::unregister` ran for the connection (whatever branch) -/
  | unregistered (cid : Cid)
deriving DecidableEq, Repr

/-- Result of one read / write / flush: it completes, it fails, or the task is dropped while
suspended in it. -/
inductive Io where
  | ok | fail | abort
deriving DecidableEq, Repr

/-- How the actor ends once the I/O script is used up. -/
inductive Cause where
  /-- the client closed the stream (`StreamTerminated`) -/
  | normalClose
  /-- a frame the decoder rejects / a receive error -/
  | errorFrame
  /-- no pong within the ping timeout -/
  | pingTimeout
  /-- `Clients::disconnect` cancelled the token -/
  | disconnectRequest
  /-- `Clients::shutdown` removed the entry, cancelled the token and awaits the task -/
  | serverShutdown
  /-- the actor task is dropped (runtime shutdown / `AbortOnDropHandle`) -/
  | taskAbort
deriving DecidableEq, Repr

/-- What `Clients::unregister` finds in the registry for this connection. -/
inductive RegView where
  /-- it is the active connection and there is no inactive one: the entry is removed -/
  | activeAlone
  /-- it is the active connection and an inactive one is promoted -/
  | activeWithInactive
  /-- it was displaced by a newer connection of the same endpoint: removed from `inactive` -/
  | inactive
  /-- no entry (removed by `Clients::shutdown`) -/
  | noEntry
deriving DecidableEq, Repr

structure Input where
  id : Id
  /-- the key-material header authenticated the client: no challenge round trip -/
  keyMaterial : Bool
  /-- the `ClientAuth` signature verifies -/
  sigOk : Bool
  /-- the task is dropped while `on_connect` is pending -/
  connectAbort : Bool
  /-- the policy's decision -/
  allow : Bool
  /-- results of the successive I/O operations -/
  io : List Io
  cause : Cause
  /-- result of the final flush after a cancellation -/
  finalFlush : Io
  view : RegView
deriving Repr

/-- `OnDisconnectGuard` (the `access` handle is the server's policy). -/
structure Guard where
  id : Id
  cid : Cid
deriving DecidableEq, Repr

/-- `impl Drop for OnDisconnectGuard`. -/
def dropGuard (g : Guard) : List Ev := [.onDisconnect g.id g.cid]

/-- `Clients::unregister(guard, ..)`: all four branches end with the guard going out of scope. -/
def unregister (g : Guard) : RegView → List Ev
  | .activeAlone => [.unregistered g.cid] ++ dropGuard g
  | .activeWithInactive => [.unregistered g.cid] ++ dropGuard g
  | .inactive => [.unregistered g.cid] ++ dropGuard g
  | .noEntry => [.unregistered g.cid] ++ dropGuard g

/-- Number of I/O operations of the authentication exchange (constants regenerated from the
source: a frame write is `send` + `flush`). -/
abbrev writeOps : Nat := Generated.C07.writeFrameOps
abbrev readOps : Nat := Generated.C07.readFrameOps

/-- Performs `n` I/O operations: `some rest` if all complete (a missing script entry is `ok`),
`none` if one fails or the task is dropped in one. -/
def ioSeq : Nat → List Io → Option (List Io)
  | 0, io => some io
  | n + 1, [] => ioSeq n []
  | n + 1, .ok :: rest => ioSeq n rest
  | _ + 1, _ :: _ => none

/-- `Actor::run`: the loop performs I/O until an operation fails (→ `unregister`), the task is
dropped (→ locals dropped), or the script is used up and the actor ends by `cause`. -/
def runActor (g : Guard) (cause : Cause) (finalFlush : Io) (view : RegView) : List Io → List Ev
  | .ok :: rest => runActor g cause finalFlush view rest
  | .fail :: _ => unregister g view
  | .abort :: _ => dropGuard g
  | [] =>
    match cause with
    | .taskAbort => dropGuard g
    | .disconnectRequest | .serverShutdown =>
      -- `self.stream.flush().await` in the cancellation branch
      match finalFlush with
      | .abort => dropGuard g
      | _ => unregister g view
    | _ => unregister g view

/-- The accept path for one upgraded connection whose `ClientRequest` would get connection id
`cid`.  Returns the log and whether `ConnectionId::next` was called. -/
def accept (cid : Cid) (inp : Input) : List Ev × Bool :=
  -- `serverside`
  let authenticated : Option (List Io) :=
    if inp.keyMaterial then some inp.io
    else
      match ioSeq (writeOps + readOps) inp.io with
      | none => none
      | some io1 => if inp.sigOk then some io1 else none   -- denial written, `Err`
  match authenticated with
  | none => ([], false)
  | some io1 =>
    -- `ClientRequest::new`, then `on_connect(..).await`
    if inp.connectAbort then ([], true)
    else if !inp.allow then
      -- `deny`: the denial is written (its I/O results do not matter), `Err` returned, no guard
      ([.onConnect inp.id cid false], true)
    else
      let g : Guard := { id := inp.id, cid := cid }
      match ioSeq writeOps io1 with
      | none =>
        -- `self.accept(io).await?` returned early or the task was dropped: `guard` goes out of scope
        ([.onConnect inp.id cid true] ++ dropGuard g, true)
      | some io2 =>
        ([.onConnect inp.id cid true, .registered cid] ++
          runActor g inp.cause inp.finalFlush inp.view io2, true)

/-- The server: connections are accepted with the connection id counter threaded through
(`static NEXT: AtomicU64`, `fetch_add(1)`).  The per-connection logs are concatenated; the real
server interleaves them, which no statement below depends on (they are about counts and
membership, invariant under permutation). -/
def serveFrom : Cid → List Input → List Ev
  | _, [] => []
  | next, inp :: rest =>
    let (log, used) := accept next inp
    log ++ serveFrom (if used then next + 1 else next) rest

def serve (inps : List Input) : List Ev := serveFrom Generated.C07.firstConnectionId inps

/-- Number of `on_disconnect(id, cid)` callbacks in a log. -/
def disconnects (id : Id) (cid : Cid) (log : List Ev) : Nat := log.count (.onDisconnect id cid)

/-- The connection ids handed to `on_connect`, in order. -/
def connectCids : List Ev → List Cid
  | [] => []
  | .onConnect _ c _ :: rest => c :: connectCids rest
  | _ :: rest => connectCids rest

end IrohModel.C07
