/-
C27 — the producers of QAD probe reports.  Model of `run_probe_v4` / `run_probe_v6`
(iroh/src/net_report.rs): a QAD connection yields a stream of observed addresses (what the relay
reports as our address, QUIC OBSERVED_ADDRESS).  The first observation becomes the probe's
report; the connection is kept and a watcher loop turns **every later observation** into
`observer.set(Some(QadProbeReport { relay, addr: <that observation, canonicalised>, latency:
<current rtt> }))`.  `QadConns::current_v4/current_v6` read the observer (refreshing the
latency) to seed the next incremental report, and `watch_v4/watch_v6` feed updates that arrive
during a report into `Report::update`.  Import-free apart from the C27 model; executable.
-/
import IrohModel.C27.Model

namespace IrohModel.C27

/-- `SocketAddr::new(addr.ip().to_canonical(), addr.port())`: an IPv4-mapped IPv6 address
(`::ffff:a.b.c.d`) is the IPv4 address. -/
def Addr.canon : Addr → Addr
  | .v6 ip port => if ip / 2 ^ 32 = 0xffff then .v4 (ip % 2 ^ 32) port else .v6 ip port
  | .v4 ip port => .v4 ip port

inductive Family where
  | v4 | v6
deriving DecidableEq, Repr

/-- One item of `conn.observed_external_addr()`: the observed address and the connection's RTT
estimate at the moment the item is processed. -/
structure Observation where
  addr : Addr
  rtt : Nat
deriving DecidableEq, Repr

/-- The report built for an observation: `QadProbeReport { relay, addr: canonical, latency: rtt }`
wrapped as `ProbeReport::QadIpv4` / `QadIpv6`. -/
def qadReport (f : Family) (relay : Url) (o : Observation) : ProbeReport :=
  match f with
  | .v4 => .qad4 relay o.rtt o.addr.canon
  | .v6 => .qad6 relay o.rtt o.addr.canon

/-- A kept QAD connection (`QadConn`): the observations its watcher has consumed so far. -/
structure QadConn where
  family : Family
  relay : Url
  /-- `watcher.next()` before the loop: the probe's own result. -/
  first : Observation
  /-- The items the watcher loop has processed, oldest first. -/
  later : List Observation
deriving Repr

/-- The report `run_probe_v4/v6` returns. -/
def QadConn.firstReport (c : QadConn) : ProbeReport := qadReport c.family c.relay c.first

/-- The reports the watcher loop has published through `observer.set`, oldest first. -/
def QadConn.published (c : QadConn) : List ProbeReport := c.later.map (qadReport c.family c.relay)

/-- `observer.get()`: `None` until the first update, then the latest published report. -/
def QadConn.observer (c : QadConn) : Option ProbeReport := c.published.getLast?

/-- One iteration of `while let Some(val) = watcher.next().await { … }`. -/
def QadConn.observe (c : QadConn) (o : Observation) : QadConn := { c with later := c.later ++ [o] }

def ProbeReport.withLatency (l : Nat) : ProbeReport → ProbeReport
  | .https u _ => .https u l
  | .qad4 u _ a => .qad4 u l a
  | .qad6 u _ a => .qad6 u l a

/-- `QadConns::current_v4()/current_v6()`: the observer's report, with the latency replaced by
the connection's current RTT if it has one. -/
def QadConn.current (c : QadConn) (rttNow : Option Nat) : Option ProbeReport :=
  match c.observer, rttNow with
  | some r, some l => some (r.withLatency l)
  | some r, none => some r
  | none, _ => none

/-! ### The end-to-end scenario of the harness (`Q` payloads)

One relay, one client, IPv4 only, no HTTPS probes.  The client's socket has an index; the relay
observes the address of the socket the client currently sends from. -/

structure QadWorld where
  /-- index of the current local socket -/
  sock : Nat := 0
  /-- `qad_conns.v4` -/
  conn : Option QadConn := none
  /-- `reports.next_full` -/
  nextFull : Bool := true
deriving Repr

def sockAddr (i : Nat) : Addr := .v4 i 0

def newConn (w : QadWorld) : QadConn :=
  { family := .v4, relay := 0, first := ⟨sockAddr w.sock, 0⟩, later := [] }

/-- `get_report`: the QAD probe reports handed to `Report::update` and the new world.
Full report: connections are cleared and a new probe runs.  Incremental report: seeded from
`current_v4()` if the kept connection's observer has a value, otherwise a new probe runs (its
connection is closed again because one is already kept). -/
def QadWorld.report (w : QadWorld) (isMajor : Bool) : QadWorld × Report :=
  if isMajor || w.nextFull then
    let c := newConn w
    ({ w with conn := some c, nextFull := false }, Report.run [c.firstReport])
  else
    match w.conn with
    | none =>
      let c := newConn w
      ({ w with conn := some c }, Report.run [c.firstReport])
    | some c =>
      match c.current none with
      | some r => (w, Report.run [r])
      | none => (w, Report.run [(newConn w).firstReport])

/-- The socket is replaced; the relay observes the new address on the kept connection. -/
def QadWorld.rebind (w : QadWorld) : QadWorld × Option ProbeReport :=
  let s := w.sock + 1
  match w.conn with
  | none => ({ w with sock := s }, none)
  | some c =>
    let c' := c.observe ⟨sockAddr s, 0⟩
    ({ w with sock := s, conn := some c' }, c'.observer)

end IrohModel.C27
