/-
C27 — helper lemmas: sorted association lists (`Table`), `minOpt`, `minList`, and the
invariants of the `Report::update` fold.
-/
import IrohModel.C27.Spec

namespace IrohModel.C27

/-! ### `minOpt` -/

theorem minOpt_none_left (a : Option Nat) : minOpt none a = a := by
  cases a <;> rfl

theorem minOpt_none_right (a : Option Nat) : minOpt a none = a := by
  cases a <;> rfl

theorem minOpt_comm (a b : Option Nat) : minOpt a b = minOpt b a := by
  cases a <;> cases b <;> simp [minOpt, Nat.min_comm]

theorem minOpt_assoc (a b c : Option Nat) : minOpt (minOpt a b) c = minOpt a (minOpt b c) := by
  cases a <;> cases b <;> cases c <;> simp [minOpt, Nat.min_assoc]

theorem minOpt_self (a : Option Nat) : minOpt a a = a := by
  cases a <;> simp [minOpt]

theorem minOpt_eq_none {a b : Option Nat} : minOpt a b = none ↔ a = none ∧ b = none := by
  cases a <;> cases b <;> simp [minOpt]

/-- Characterisation: `minOpt a b = some m` iff `m` is one of the present values and is below
every present value. -/
theorem minOpt_eq_some {a b : Option Nat} {m : Nat} :
    minOpt a b = some m ↔
      (a = some m ∨ b = some m) ∧ (∀ x, a = some x → m ≤ x) ∧ (∀ x, b = some x → m ≤ x) := by
  cases a <;> cases b <;> simp [minOpt] <;> omega

/-- Minimum of a list of latencies (`none` for the empty list). -/
def minList : List Nat → Option Nat
  | [] => none
  | a :: t => minOpt (some a) (minList t)

theorem minList_append (xs ys : List Nat) :
    minList (xs ++ ys) = minOpt (minList xs) (minList ys) := by
  induction xs with
  | nil => simp [minList, minOpt_none_left]
  | cons a t ih => simp [minList, ih, minOpt_assoc]

theorem minList_eq_none {xs : List Nat} : minList xs = none ↔ xs = [] := by
  cases xs with
  | nil => simp [minList]
  | cons a t => cases h : minList t <;> simp [minList, minOpt, h]

/-- `minList` is *the* minimum: a member below every member. -/
theorem minList_eq_some {xs : List Nat} {m : Nat} :
    minList xs = some m ↔ m ∈ xs ∧ ∀ x ∈ xs, m ≤ x := by
  induction xs generalizing m with
  | nil => simp [minList]
  | cons a t ih =>
    cases h : minList t with
    | none =>
      have : t = [] := minList_eq_none.mp h
      subst this
      simp [minList, minOpt]
      constructor
      · rintro rfl; simp
      · rintro ⟨h, _⟩; exact h.symm
    | some n =>
      have ihn := (ih (m := n)).mp h
      simp only [minList, h, minOpt, Option.some.injEq, List.mem_cons, forall_eq_or_imp]
      constructor
      · intro hm
        subst hm
        refine ⟨?_, Nat.min_le_left _ _, ?_⟩
        · rcases Nat.le_total a n with h' | h'
          · left; exact Nat.min_eq_left h'
          · right; rw [Nat.min_eq_right h']; exact ihn.1
        · intro x hx
          exact Nat.le_trans (Nat.min_le_right _ _) (ihn.2 x hx)
      · rintro ⟨hmem, hma, hall⟩
        rcases hmem with rfl | hmem
        · exact Nat.min_eq_left (hall n ihn.1)
        · have h1 : n ≤ m := ihn.2 m hmem
          have h2 : m ≤ n := hall n ihn.1
          have : m = n := Nat.le_antisymm h2 h1
          subst this
          exact Nat.min_eq_right hma

/-! ### Sorted tables -/

theorem sorted_nil : Sorted [] := List.Pairwise.nil

theorem sorted_cons {k v : Nat} {t : Table} :
    Sorted ((k, v) :: t) ↔ (∀ e ∈ t, k < e.1) ∧ Sorted t := by
  simp [Sorted, List.pairwise_cons]

/-- A key below every key of the table is absent. -/
theorem get_none_of_lt {t : Table} {u : Url} (h : ∀ e ∈ t, u < e.1) : t.get u = none := by
  induction t with
  | nil => rfl
  | cons e t ih =>
    obtain ⟨k, v⟩ := e
    have hk : u < k := by simpa using h (k, v) (by simp)
    have : ¬ k = u := Nat.ne_of_gt hk
    simp only [Table.get, this, if_false]
    exact ih (fun e he => h e (by simp [he]))

theorem mem_update {t : Table} {u l : Nat} {e : Url × Nat} (he : e ∈ t.update u l) :
    e.1 = u ∨ e ∈ t := by
  induction t with
  | nil => simp [Table.update] at he; left; rw [he]
  | cons hd t ih =>
    obtain ⟨k, v⟩ := hd
    by_cases h1 : u < k
    · simp only [Table.update, h1, if_true, List.mem_cons] at he
      rcases he with rfl | rfl | he
      · left; rfl
      · right; simp
      · right; simp [he]
    · by_cases h2 : u = k
      · subst h2
        simp only [Table.update, Nat.lt_irrefl, if_true, if_false, List.mem_cons] at he
        rcases he with rfl | he
        · left; rfl
        · right; simp [he]
      · simp only [Table.update, h1, h2, if_false, List.mem_cons] at he
        rcases he with rfl | he
        · right; simp
        · rcases ih he with h | h
          · left; exact h
          · right; simp [h]

/-- `update` preserves the `BTreeMap` invariant. -/
theorem sorted_update {t : Table} (u l : Nat) (h : Sorted t) : Sorted (t.update u l) := by
  induction t with
  | nil => simp [Table.update, Sorted]
  | cons hd t ih =>
    obtain ⟨k, v⟩ := hd
    obtain ⟨hk, ht⟩ := sorted_cons.mp h
    by_cases h1 : u < k
    · simp only [Table.update, h1, if_true]
      refine sorted_cons.mpr ⟨?_, h⟩
      intro e he
      simp only [List.mem_cons] at he
      rcases he with rfl | he
      · exact h1
      · exact Nat.lt_trans h1 (hk e he)
    · by_cases h2 : u = k
      · subst h2
        simp only [Table.update, Nat.lt_irrefl, if_true, if_false]
        exact sorted_cons.mpr ⟨hk, ht⟩
      · simp only [Table.update, h1, h2, if_false]
        refine sorted_cons.mpr ⟨?_, ih ht⟩
        intro e he
        rcases mem_update he with h | h
        · rw [h]; omega
        · exact hk e h

/-- What `update` does to lookups: the updated key holds the minimum of the old value (if any)
and the new latency, every other key is untouched. -/
theorem get_update {t : Table} (h : Sorted t) (u l u' : Nat) :
    (t.update u l).get u' = if u' = u then minOpt (t.get u) (some l) else t.get u' := by
  induction t with
  | nil =>
    by_cases hu : u' = u
    · subst hu; simp [Table.update, Table.get, minOpt]
    · have : ¬ u = u' := fun h => hu h.symm
      simp [Table.update, Table.get, hu, this]
  | cons hd t ih =>
    obtain ⟨k, v⟩ := hd
    obtain ⟨hk, ht⟩ := sorted_cons.mp h
    by_cases h1 : u < k
    · simp only [Table.update, h1, if_true]
      have hnone : Table.get ((k, v) :: t) u = none :=
        get_none_of_lt (by
          intro e he
          simp only [List.mem_cons] at he
          rcases he with rfl | he
          · exact h1
          · exact Nat.lt_trans h1 (hk e he))
      by_cases hu : u' = u
      · subst hu; rw [hnone]; simp [Table.get, minOpt]
      · have : ¬ u = u' := fun h => hu h.symm
        rw [if_neg hu]
        simp [Table.get, this]
    · by_cases h2 : u = k
      · subst h2
        simp only [Table.update, Nat.lt_irrefl, if_true, if_false]
        by_cases hu : u' = u
        · subst hu
          simp only [Table.get, if_true, minOpt]
          congr 1
          by_cases hlv : l < v
          · rw [if_pos hlv]; omega
          · rw [if_neg hlv]; omega
        · have : ¬ u = u' := fun h => hu h.symm
          simp [Table.get, hu, this]
      · simp only [Table.update, h1, h2, if_false]
        have hku : ¬ k = u := fun h => h2 h.symm
        by_cases hu : u' = u
        · subst hu
          simp [Table.get, hku, ih ht]
        · by_cases hk' : k = u'
          · simp [Table.get, hk', hu]
          · simp [Table.get, hk', hu, ih ht]

/-- The entries of `es` whose key is `u`. -/
def valuesAt (es : Table) (u : Url) : List Nat :=
  es.filterMap (fun e => if e.1 = u then some e.2 else none)

/-- Folding `update` over arbitrary entries: invariant kept, lookups are minima. -/
theorem foldl_update {es : Table} {t : Table} (h : Sorted t) :
    Sorted (es.foldl (fun acc e => acc.update e.1 e.2) t) ∧
    ∀ u, (es.foldl (fun acc e => acc.update e.1 e.2) t).get u =
      minOpt (t.get u) (minList (valuesAt es u)) := by
  induction es generalizing t with
  | nil => simp [valuesAt, minList, minOpt_none_right, h]
  | cons e es ih =>
    obtain ⟨k, v⟩ := e
    have := ih (sorted_update k v h)
    refine ⟨this.1, ?_⟩
    intro u
    simp only [List.foldl_cons]
    rw [this.2 u, get_update h]
    by_cases hu : u = k
    · subst hu
      simp [valuesAt, minList, minOpt_assoc]
    · have : ¬ k = u := fun h => hu h.symm
      simp [valuesAt, hu, this]

/-- In a sorted table a key occurs at most once, so the values at `u` are `get u`. -/
theorem minList_valuesAt {es : Table} (h : Sorted es) (u : Url) :
    minList (valuesAt es u) = es.get u := by
  induction es with
  | nil => rfl
  | cons e es ih =>
    obtain ⟨k, v⟩ := e
    obtain ⟨hk, ht⟩ := sorted_cons.mp h
    by_cases hu : k = u
    · subst hu
      have hnone : Table.get es k = none := get_none_of_lt hk
      have := ih ht
      simp only [valuesAt] at this
      simp [valuesAt, Table.get, minList, this, hnone, minOpt]
    · have := ih ht
      simp only [valuesAt] at this
      simp [valuesAt, Table.get, hu, this]

theorem sorted_mergeFrom {t o : Table} (h : Sorted t) : Sorted (t.mergeFrom o) :=
  (foldl_update (es := o) h).1

/-- One table of a merge holds, per key, the minimum of the two inputs. -/
theorem get_mergeFrom {t o : Table} (h : Sorted t) (ho : Sorted o) (u : Url) :
    (t.mergeFrom o).get u = minOpt (t.get u) (o.get u) := by
  unfold Table.mergeFrom
  rw [(foldl_update (es := o) h).2 u, minList_valuesAt ho]

/-- Extensionality of sorted tables: same lookups, same table (what `BTreeMap: Eq` compares). -/
theorem sorted_ext {a b : Table} (ha : Sorted a) (hb : Sorted b)
    (h : ∀ u, a.get u = b.get u) : a = b := by
  induction a generalizing b with
  | nil =>
    cases b with
    | nil => rfl
    | cons e b =>
      obtain ⟨k, v⟩ := e
      have := h k
      simp [Table.get] at this
  | cons e a ih =>
    obtain ⟨k, v⟩ := e
    obtain ⟨hk, hta⟩ := sorted_cons.mp ha
    cases b with
    | nil =>
      have := h k
      simp [Table.get] at this
    | cons e' b =>
      obtain ⟨k', v'⟩ := e'
      obtain ⟨hk', htb⟩ := sorted_cons.mp hb
      have hkk : k = k' := by
        rcases Nat.lt_trichotomy k k' with hlt | heq | hgt
        · have h1 := h k
          have : Table.get ((k', v') :: b) k = none :=
            get_none_of_lt (by
              intro e he
              simp only [List.mem_cons] at he
              rcases he with rfl | he
              · exact hlt
              · exact Nat.lt_trans hlt (hk' e he))
          rw [this] at h1
          simp [Table.get] at h1
        · exact heq
        · have h1 := h k'
          have : Table.get ((k, v) :: a) k' = none :=
            get_none_of_lt (by
              intro e he
              simp only [List.mem_cons] at he
              rcases he with rfl | he
              · exact hgt
              · exact Nat.lt_trans hgt (hk e he))
          rw [this] at h1
          simp [Table.get] at h1
      subst hkk
      have hv : v = v' := by
        have := h k
        simpa [Table.get] using this
      subst hv
      have : a = b := by
        apply ih hta htb
        intro u
        by_cases hu : k = u
        · subst hu
          rw [get_none_of_lt hk, get_none_of_lt hk']
        · have := h u
          simpa [Table.get, hu] using this
      rw [this]

/-! ### Invariants of the fold (proof machinery for the theorems below) -/

/-- What mapping-varies must be after the observations `obs`. -/
def variesSpec : List (Nat × Nat) → Option Bool
  | [] => none
  | [_] => none
  | a :: b :: rest => some ((b :: rest).any (fun x => x != a))

theorem variesSpec_none {obs : List (Nat × Nat)} : variesSpec obs = none ↔ obs.length < 2 := by
  match obs with
  | [] => simp [variesSpec]
  | [_] => simp [variesSpec]
  | _ :: _ :: _ => simp [variesSpec]

theorem variesSpec_true {obs : List (Nat × Nat)} :
    variesSpec obs = some true ↔ ∃ a ∈ obs, ∃ b ∈ obs, a ≠ b := by
  match obs with
  | [] => simp [variesSpec]
  | [x] => simp [variesSpec]
  | a :: b :: rest =>
    simp only [variesSpec, Option.some.injEq, List.any_eq_true, bne_iff_ne, ne_eq]
    constructor
    · rintro ⟨x, hx, hne⟩
      exact ⟨x, List.mem_cons_of_mem _ hx, a, List.mem_cons_self, hne⟩
    · rintro ⟨x, hx, y, hy, hne⟩
      by_cases hxa : x = a
      · by_cases hya : y = a
        · exact absurd (hxa.trans hya.symm) hne
        · refine ⟨y, ?_, hya⟩
          rcases List.mem_cons.mp hy with h | h
          · exact absurd h hya
          · exact h
      · refine ⟨x, ?_, hxa⟩
        rcases List.mem_cons.mp hx with h | h
        · exact absurd h hxa
        · exact h

theorem variesSpec_false {obs : List (Nat × Nat)} :
    variesSpec obs = some false ↔ 2 ≤ obs.length ∧ ∀ a ∈ obs, ∀ b ∈ obs, a = b := by
  constructor
  · intro h
    refine ⟨?_, ?_⟩
    · have : ¬ obs.length < 2 := fun hl => by simp [variesSpec_none.mpr hl] at h
      omega
    · intro a ha b hb
      apply Classical.byContradiction
      intro hne
      have := variesSpec_true.mpr ⟨a, ha, b, hb, hne⟩
      simp [this] at h
  · rintro ⟨hl, hall⟩
    cases hv : variesSpec obs with
    | none => have := variesSpec_none.mp hv; omega
    | some b =>
      cases b with
      | false => rfl
      | true =>
        obtain ⟨x, hx, y, hy, hne⟩ := variesSpec_true.mp hv
        exact absurd (hall x hx y hy) hne

/-- One observation through the shared QAD body keeps "global = first, varies = spec". -/
theorem observe_spec (obs : List (Nat × Nat)) (x : Nat × Nat) :
    observe obs.head? (variesSpec obs) x = ((obs ++ [x]).head?, variesSpec (obs ++ [x])) := by
  match obs with
  | [] => simp [observe, variesSpec]
  | [a] =>
    by_cases h : a = x
    · subst h; simp [observe, variesSpec]
    · have : ¬ x = a := fun h' => h h'.symm
      simp [observe, variesSpec, h, this]
  | a :: b :: rest =>
    by_cases h : a = x
    · subst h; simp [observe, variesSpec]
    · have : ¬ x = a := fun h' => h h'.symm
      simp [observe, variesSpec, h, this]

/-- Address-field invariant of one family. -/
def AddrInv (g : Option (Nat × Nat)) (mv : Option Bool) (udp : Bool) (obs : List (Nat × Nat)) :
    Prop :=
  g = obs.head? ∧ mv = variesSpec obs ∧ udp = !obs.isEmpty

theorem update_addr (r : Report) (p : ProbeReport) (o4 o6 : List (Nat × Nat))
    (h4 : AddrInv r.g4 r.mv4 r.udpV4 o4) (h6 : AddrInv r.g6 r.mv6 r.udpV6 o6) :
    AddrInv (r.update p).g4 (r.update p).mv4 (r.update p).udpV4 (o4 ++ obs4 [p]) ∧
    AddrInv (r.update p).g6 (r.update p).mv6 (r.update p).udpV6 (o6 ++ obs6 [p]) := by
  obtain ⟨h41, h42, h43⟩ := h4
  obtain ⟨h61, h62, h63⟩ := h6
  cases p with
  | https u l => simp [Report.update, obs4, obs6, AddrInv, *]
  | qad4 u l a =>
    cases a with
    | v6 ip port => simp [Report.update, obs4, obs6, AddrInv, *]
    | v4 ip port =>
      have := observe_spec o4 (ip, port)
      simp [Report.update, obs4, obs6, AddrInv, h41, h42, this, h61, h62, h63]
  | qad6 u l a =>
    cases a with
    | v4 ip port => simp [Report.update, obs4, obs6, AddrInv, *]
    | v6 ip port =>
      have := observe_spec o6 (ip, port)
      simp [Report.update, obs4, obs6, AddrInv, h61, h62, this, h41, h42, h43]

theorem foldl_addr (ps : List ProbeReport) (r : Report) (o4 o6 : List (Nat × Nat))
    (h4 : AddrInv r.g4 r.mv4 r.udpV4 o4) (h6 : AddrInv r.g6 r.mv6 r.udpV6 o6) :
    AddrInv (ps.foldl Report.update r).g4 (ps.foldl Report.update r).mv4
      (ps.foldl Report.update r).udpV4 (o4 ++ obs4 ps) ∧
    AddrInv (ps.foldl Report.update r).g6 (ps.foldl Report.update r).mv6
      (ps.foldl Report.update r).udpV6 (o6 ++ obs6 ps) := by
  induction ps generalizing r o4 o6 with
  | nil => simpa [obs4, obs6] using And.intro h4 h6
  | cons p ps ih =>
    have hp := update_addr r p o4 o6 h4 h6
    have := ih (r.update p) _ _ hp.1 hp.2
    have e4 : obs4 (p :: ps) = obs4 [p] ++ obs4 ps := by
      unfold obs4; rw [← List.filterMap_append]; rfl
    have e6 : obs6 (p :: ps) = obs6 [p] ++ obs6 ps := by
      unfold obs6; rw [← List.filterMap_append]; rfl
    simpa [e4, e6, List.append_assoc] using this

theorem run_addr (ps : List ProbeReport) :
    AddrInv (Report.run ps).g4 (Report.run ps).mv4 (Report.run ps).udpV4 (obs4 ps) ∧
    AddrInv (Report.run ps).g6 (Report.run ps).mv6 (Report.run ps).udpV6 (obs6 ps) := by
  have := foldl_addr ps {} [] [] (by simp [AddrInv, variesSpec]) (by simp [AddrInv, variesSpec])
  simpa [Report.run] using this

/-- `update` changes the latencies by exactly one `update_relay` — for every probe report,
also one whose address has the wrong family. -/
theorem update_lat (r : Report) (p : ProbeReport) :
    (r.update p).lat = r.lat.updateRelay p.relay p.latency p.kind := by
  cases p with
  | https u l => rfl
  | qad4 u l a => cases a <;> rfl
  | qad6 u l a => cases a <;> rfl

theorem wf_updateRelay {l : Latencies} (h : WF l) (u lat : Nat) (k : Probe) :
    WF (l.updateRelay u lat k) := by
  obtain ⟨h1, h2, h3⟩ := h
  cases k
  · exact ⟨sorted_update u lat h1, h2, h3⟩
  · exact ⟨h1, sorted_update u lat h2, h3⟩
  · exact ⟨h1, h2, sorted_update u lat h3⟩

theorem table_updateRelay {l : Latencies} (h : WF l) (u lat : Nat) (k k' : Probe) (u' : Url) :
    ((l.updateRelay u lat k).table k').get u' =
      if k' = k ∧ u' = u then minOpt ((l.table k).get u) (some lat) else (l.table k').get u' := by
  obtain ⟨h1, h2, h3⟩ := h
  cases k <;> cases k' <;>
    simp [Latencies.updateRelay, Latencies.table, get_update, h1, h2, h3]

/-- Latency invariant: tables sorted, every entry the minimum of what was reported so far. -/
def LatInv (l : Latencies) (pre : List ProbeReport) : Prop :=
  WF l ∧ ∀ k u, (l.table k).get u = minList (latsOf k u pre)

theorem foldl_lat (ps : List ProbeReport) (r : Report) (pre : List ProbeReport)
    (h : LatInv r.lat pre) : LatInv (ps.foldl Report.update r).lat (pre ++ ps) := by
  induction ps generalizing r pre with
  | nil => simpa using h
  | cons p ps ih =>
    have step : LatInv (r.update p).lat (pre ++ [p]) := by
      obtain ⟨hwf, hget⟩ := h
      rw [update_lat]
      refine ⟨wf_updateRelay hwf _ _ _, ?_⟩
      intro k u
      rw [table_updateRelay hwf, hget, hget]
      simp only [latsOf]
      rw [List.filterMap_append, minList_append]
      by_cases hc : k = p.kind ∧ u = p.relay
      · obtain ⟨rfl, rfl⟩ := hc
        simp [minList, minOpt_none_right]
      · have hc' : ¬ (p.kind = k ∧ p.relay = u) := fun ⟨a, b⟩ => hc ⟨a.symm, b.symm⟩
        simp [hc, hc', minList, minOpt_none_right]
    have := ih (r.update p) (pre ++ [p]) step
    simpa [List.append_assoc] using this

theorem run_lat (ps : List ProbeReport) : LatInv (Report.run ps).lat ps := by
  have := foldl_lat ps {} [] ⟨⟨sorted_nil, sorted_nil, sorted_nil⟩, by
    intro k u; cases k <;> simp [Latencies.table, Table.get, latsOf, minList]⟩
  simpa [Report.run] using this

end IrohModel.C27
