/-
C27 — net report aggregation.  Model of `Report::update` and
`RelayLatencies::{update_relay, merge, get, iter, is_empty}`
(iroh/src/net_report/report.rs).  Import-free, executable.

Representation choices (all stated so that they can be challenged):
* A relay URL is a `Nat` key.  `BTreeMap<RelayUrl, Duration>` only uses the total order of its
  keys; any finite set of URLs embeds order-preservingly into `Nat` (the harness uses
  `https://rNNN.iroh.test/`, whose `Ord` is the order of `NNN`, and asserts that).
* A `Duration` is its number of nanoseconds (`Nat`).
* A `BTreeMap` is a key-sorted association list (`Table`); `update` is an ordered insert, so a
  table built from the empty one by `update`s is strictly sorted (`Lemmas.sorted_update`).
* A socket address is `(ip, port)`; `SocketAddrV6`'s flowinfo/scope are always 0 in the harness.
-/
namespace IrohModel.C27

abbrev Url := Nat

/-- `BTreeMap<RelayUrl, Duration>`: association list, strictly sorted by key. -/
abbrev Table := List (Url × Nat)

/-- `BTreeMap::get`. -/
def Table.get : Table → Url → Option Nat
  | [], _ => none
  | (k, v) :: t, u => if k = u then some v else Table.get t u

/-- `let old = list.entry(url).or_insert(latency); if latency < *old { *old = latency }`
on a key-sorted list. -/
def Table.update : Table → Url → Nat → Table
  | [], u, l => [(u, l)]
  | (k, v) :: t, u, l =>
    if u < k then (u, l) :: (k, v) :: t
    else if u = k then (k, if l < v then l else v) :: t
    else (k, v) :: Table.update t u l

/-- One `for (url, latency) in other.<table>.iter() { self.update_relay(url, latency, <kind>) }`
loop of `merge`: every iteration touches only the table of that kind. -/
def Table.mergeFrom (t other : Table) : Table :=
  other.foldl (fun acc e => acc.update e.1 e.2) t

/-- `Probe`, in its declaration (= `Ord`) order. -/
inductive Probe where
  | https | v4 | v6
deriving DecidableEq, Repr

/-- `RelayLatencies`. -/
structure Latencies where
  ipv4 : Table := []
  ipv6 : Table := []
  https : Table := []
deriving DecidableEq, Repr

def Latencies.table (l : Latencies) : Probe → Table
  | .https => l.https
  | .v4 => l.ipv4
  | .v6 => l.ipv6

/-- `RelayLatencies::update_relay`. -/
def Latencies.updateRelay (l : Latencies) (u : Url) (lat : Nat) : Probe → Latencies
  | .https => { l with https := l.https.update u lat }
  | .v4 => { l with ipv4 := l.ipv4.update u lat }
  | .v6 => { l with ipv6 := l.ipv6.update u lat }

/-- `RelayLatencies::merge` (https loop, then ipv4, then ipv6). -/
def Latencies.merge (l other : Latencies) : Latencies :=
  { https := l.https.mergeFrom other.https
    ipv4 := l.ipv4.mergeFrom other.ipv4
    ipv6 := l.ipv6.mergeFrom other.ipv6 }

/-- Minimum of two optional values, absent values ignored. -/
def minOpt : Option Nat → Option Nat → Option Nat
  | none, b => b
  | a, none => a
  | some a, some b => some (min a b)

/-- `RelayLatencies::get`: push the value of each table that has the url, `into_iter().min()`. -/
def Latencies.get (l : Latencies) (u : Url) : Option Nat :=
  minOpt (minOpt (l.https.get u) (l.ipv4.get u)) (l.ipv6.get u)

/-- `RelayLatencies::iter`: https entries, then ipv4, then ipv6, each in key order. -/
def Latencies.iter (l : Latencies) : List (Probe × Url × Nat) :=
  l.https.map (fun e => (Probe.https, e.1, e.2)) ++
  l.ipv4.map (fun e => (Probe.v4, e.1, e.2)) ++
  l.ipv6.map (fun e => (Probe.v6, e.1, e.2))

/-- `RelayLatencies::is_empty`. -/
def Latencies.isEmpty (l : Latencies) : Bool :=
  l.https.isEmpty && l.ipv4.isEmpty && l.ipv6.isEmpty

/-- `SocketAddr`: family and `(ip, port)`. -/
inductive Addr where
  | v4 (ip port : Nat)
  | v6 (ip port : Nat)
deriving DecidableEq, Repr

/-- `ProbeReport`. -/
inductive ProbeReport where
  | https (relay lat : Nat)
  | qad4 (relay lat : Nat) (addr : Addr)
  | qad6 (relay lat : Nat) (addr : Addr)
deriving DecidableEq, Repr

/-- `Report` (all fields). -/
structure Report where
  udpV4 : Bool := false
  udpV6 : Bool := false
  mv4 : Option Bool := none
  mv6 : Option Bool := none
  preferred : Option Url := none
  lat : Latencies := {}
  g4 : Option (Nat × Nat) := none
  g6 : Option (Nat × Nat) := none
  captive : Option Bool := none
deriving DecidableEq, Repr

/-- The body shared by the two QAD arms once the address has the right family:
```
if let Some(global) = self.global { if global == ipp { if mv.is_none() { mv = Some(false) } }
                                    else { mv = Some(true) } }
else { self.global = Some(ipp) }
``` -/
def observe (g : Option (Nat × Nat)) (mv : Option Bool) (ipp : Nat × Nat) :
    Option (Nat × Nat) × Option Bool :=
  match g with
  | some global =>
    if global = ipp then (g, if mv.isNone then some false else mv) else (g, some true)
  | none => (some ipp, mv)

/-- `Report::update`. -/
def Report.update (r : Report) : ProbeReport → Report
  | .https u l => { r with lat := r.lat.updateRelay u l .https }
  | .qad4 u l a =>
    let r := { r with lat := r.lat.updateRelay u l .v4 }
    match a with
    | .v6 _ _ => r        -- `let SocketAddr::V4(ipp) = report.addr else { return }`
    | .v4 ip port =>
      let (g, mv) := observe r.g4 r.mv4 (ip, port)
      { r with udpV4 := true, g4 := g, mv4 := mv }
  | .qad6 u l a =>
    let r := { r with lat := r.lat.updateRelay u l .v6 }
    match a with
    | .v4 _ _ => r
    | .v6 ip port =>
      let (g, mv) := observe r.g6 r.mv6 (ip, port)
      { r with udpV6 := true, g6 := g, mv6 := mv }

/-- A whole report: `Report::default()` updated with every probe report in arrival order. -/
def Report.run (ps : List ProbeReport) : Report := ps.foldl Report.update {}

/-- Build a `RelayLatencies` from `update_relay` calls. -/
def Latencies.build (us : List (Probe × Url × Nat)) : Latencies :=
  us.foldl (fun l e => l.updateRelay e.2.1 e.2.2 e.1) {}

end IrohModel.C27
