/-
C27 — the producers of QAD probe reports: every observation on a kept QAD connection is
published with **that** address, and what this means, through `global_is_first` and
`varies_iff_v4/v6`, for the reports built from them.
-/
import IrohModel.C27.Theorems
import IrohModel.C27.ProducerModel

namespace IrohModel.C27

/-- **reports_carry_latest_observation.**  The watcher loop publishes one report per observation,
in order, each carrying the canonical form of that observation's address and the RTT at that
moment; the observer holds the report of the latest observation. -/
theorem reports_carry_latest_observation (c : QadConn) :
    c.published.length = c.later.length ∧
    (∀ (i : Nat) o, c.later[i]? = some o →
      c.published[i]? = some (qadReport c.family c.relay o)) ∧
    (∀ o, (c.observe o).observer = some (qadReport c.family c.relay o)) ∧
    (c.later = [] → c.observer = none) := by
  refine ⟨by simp [QadConn.published], ?_, ?_, ?_⟩
  · intro i o h
    simp [QadConn.published, List.getElem?_map, h]
  · intro o
    simp [QadConn.observer, QadConn.published, QadConn.observe, List.map_append]
  · intro h
    simp [QadConn.observer, QadConn.published, h]

/-- The address a report carries. -/
def ProbeReport.addr? : ProbeReport → Option Addr
  | .https _ _ => none
  | .qad4 _ _ a => some a
  | .qad6 _ _ a => some a

theorem qadReport_addr (f : Family) (relay : Url) (o : Observation) :
    (qadReport f relay o).addr? = some o.addr.canon := by
  cases f <;> rfl

theorem withLatency_addr (l : Nat) (r : ProbeReport) : (r.withLatency l).addr? = r.addr? := by
  cases r <;> rfl

/-- `current_v4()/current_v6()` after an observation: a report for the latest observed address
(only its latency is refreshed). -/
theorem current_carries_latest (c : QadConn) (o : Observation) (rttNow : Option Nat) :
    ∃ r, (c.observe o).current rttNow = some r ∧ r.addr? = some o.addr.canon ∧
      r.kind = (qadReport c.family c.relay o).kind ∧ r.relay = c.relay := by
  have h := (reports_carry_latest_observation c).2.2.1 o
  unfold QadConn.current
  rw [h]
  cases rttNow with
  | none =>
    exact ⟨_, rfl, qadReport_addr _ _ _, rfl, by cases c.family <;> rfl⟩
  | some l =>
    refine ⟨_, rfl, by rw [withLatency_addr, qadReport_addr], ?_, ?_⟩
    · cases c.family <;> rfl
    · cases c.family <;> rfl

/-- **The next incremental report's global address is the latest observation (IPv4).**  An
incremental report starts from `current_v4()`; if the latest address the relay observed on the
kept connection is (canonically) the IPv4 address `(ip, port)`, the report's `global_v4` is that
address — whatever else arrives afterwards, in whatever order. -/
theorem next_incremental_global_is_latest_v4 (c : QadConn) (hf : c.family = .v4) (o : Observation)
    (ip port : Nat) (ha : o.addr.canon = .v4 ip port) (rttNow : Option Nat)
    (rest : List ProbeReport) :
    ∃ seed, (c.observe o).current rttNow = some seed ∧
      (Report.run (seed :: rest)).g4 = some (ip, port) ∧ (Report.run (seed :: rest)).udpV4 = true := by
  have h := (reports_carry_latest_observation c).2.2.1 o
  have hseed : ∃ l, (c.observe o).current rttNow = some (.qad4 c.relay l (.v4 ip port)) := by
    unfold QadConn.current
    rw [h, hf]
    cases rttNow <;> simp [qadReport, ProbeReport.withLatency, ha]
  obtain ⟨l, hl⟩ := hseed
  refine ⟨_, hl, ?_, ?_⟩
  · rw [(global_is_first _).1]; simp [obs4]
  · rw [(udp_iff_observed _).1]; simp [obs4]

/-- The IPv6 counterpart. -/
theorem next_incremental_global_is_latest_v6 (c : QadConn) (hf : c.family = .v6) (o : Observation)
    (ip port : Nat) (ha : o.addr.canon = .v6 ip port) (rttNow : Option Nat)
    (rest : List ProbeReport) :
    ∃ seed, (c.observe o).current rttNow = some seed ∧
      (Report.run (seed :: rest)).g6 = some (ip, port) ∧ (Report.run (seed :: rest)).udpV6 = true := by
  have h := (reports_carry_latest_observation c).2.2.1 o
  have hseed : ∃ l, (c.observe o).current rttNow = some (.qad6 c.relay l (.v6 ip port)) := by
    unfold QadConn.current
    rw [h, hf]
    cases rttNow <;> simp [qadReport, ProbeReport.withLatency, ha]
  obtain ⟨l, hl⟩ := hseed
  refine ⟨_, hl, ?_, ?_⟩
  · rw [(global_is_first _).2]; simp [obs6]
  · rw [(udp_iff_observed _).2]; simp [obs6]

/-- **A changed observation within one report sets mapping-varies (IPv4).**  If the probe
reports folded into one report contain the reports of two observations whose canonical
addresses are different IPv4 addresses — e.g. the seed from `current_v4()` and an update the
watcher publishes during the report, or two relays observing different addresses —
`mapping_varies_by_dest_ipv4` is `Some(true)`. -/
theorem changed_observation_sets_varies_v4 (ps : List ProbeReport) (relay relay' : Url)
    (o o' : Observation) (a b a' b' : Nat)
    (h1 : qadReport .v4 relay o ∈ ps) (h2 : qadReport .v4 relay' o' ∈ ps)
    (ha : o.addr.canon = .v4 a b) (ha' : o'.addr.canon = .v4 a' b') (hne : (a, b) ≠ (a', b')) :
    (Report.run ps).mv4 = some true := by
  rw [(varies_iff_v4 ps).2.1]
  refine ⟨(a, b), ?_, (a', b'), ?_, hne⟩
  · unfold obs4
    rw [List.mem_filterMap]
    exact ⟨_, h1, by simp [qadReport, ha]⟩
  · unfold obs4
    rw [List.mem_filterMap]
    exact ⟨_, h2, by simp [qadReport, ha']⟩

/-- The IPv6 counterpart. -/
theorem changed_observation_sets_varies_v6 (ps : List ProbeReport) (relay relay' : Url)
    (o o' : Observation) (a b a' b' : Nat)
    (h1 : qadReport .v6 relay o ∈ ps) (h2 : qadReport .v6 relay' o' ∈ ps)
    (ha : o.addr.canon = .v6 a b) (ha' : o'.addr.canon = .v6 a' b') (hne : (a, b) ≠ (a', b')) :
    (Report.run ps).mv6 = some true := by
  rw [(varies_iff_v6 ps).2.1]
  refine ⟨(a, b), ?_, (a', b'), ?_, hne⟩
  · unfold obs6
    rw [List.mem_filterMap]
    exact ⟨_, h1, by simp [qadReport, ha]⟩
  · unfold obs6
    rw [List.mem_filterMap]
    exact ⟨_, h2, by simp [qadReport, ha']⟩

/-- The case the statement names: an incremental report seeded from the kept connection, during
which the relay observes a new, different IPv4 address on that connection: the report flags
the change and keeps the seed's address as global address. -/
theorem mid_report_change_is_flagged (c : QadConn) (hf : c.family = .v4) (o o' : Observation)
    (a b a' b' : Nat) (ha : o.addr.canon = .v4 a b) (ha' : o'.addr.canon = .v4 a' b')
    (hne : (a, b) ≠ (a', b')) (rttNow : Option Nat) (before after : List ProbeReport) :
    ∃ seed, (c.observe o).current rttNow = some seed ∧
      (Report.run (seed :: before ++ qadReport .v4 c.relay o' :: after)).mv4 = some true ∧
      (Report.run (seed :: before ++ qadReport .v4 c.relay o' :: after)).g4 = some (a, b) := by
  obtain ⟨seed, hs, hg, _⟩ :=
    next_incremental_global_is_latest_v4 c hf o a b ha rttNow
      (before ++ qadReport .v4 c.relay o' :: after)
  refine ⟨seed, hs, ?_, hg⟩
  -- the seed is a v4 report for observation `o` (with a refreshed latency)
  have h := (reports_carry_latest_observation c).2.2.1 o
  have hseed : ∃ l, seed = qadReport .v4 c.relay ⟨o.addr, l⟩ := by
    unfold QadConn.current at hs
    rw [h, hf] at hs
    cases rttNow with
    | none => simp at hs; exact ⟨o.rtt, hs.symm⟩
    | some l => simp [qadReport, ProbeReport.withLatency] at hs; exact ⟨l, by simp [qadReport, hs]⟩
  obtain ⟨l, rfl⟩ := hseed
  exact changed_observation_sets_varies_v4 _ c.relay c.relay ⟨o.addr, l⟩ o' a b a' b'
    (by simp) (by simp) ha ha' hne

/-! ### Non-vacuity -/

-- an IPv4-mapped IPv6 observation is reported as the IPv4 address
example : (Addr.v6 (0xffff * 2 ^ 32 + 0x7f000001) 99).canon = .v4 0x7f000001 99 := by decide
-- rebind scenario of the harness: report, address change, incremental report
example :
    let w0 : QadWorld := {}
    let (w1, r1) := w0.report false
    let (w2, p) := w1.rebind
    let (_, r2) := w2.report false
    r1.g4 = some (0, 0) ∧ p = some (.qad4 0 0 (.v4 1 0)) ∧ r2.g4 = some (1, 0) ∧ r2.mv4 = none := by
  decide

end IrohModel.C27
