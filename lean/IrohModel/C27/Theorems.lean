/-
C27 — property theorems (only).  Statement of the property:

  In a network report the global address per family is the first one observed,
  mapping-varies is set exactly when at least two observations were made and true exactly
  when two of them differ, and each relay latency is the minimum observed for that probe
  kind.  Merging latency tables is commutative and keeps minima.

Quantifier: all sequences of probe reports (kinds, relays, latencies, observed addresses,
wrong-family addresses).  Every theorem below is for an arbitrary list `ps`; the proofs are
inductions with an invariant (`Lemmas`/`run_*` below), never an enumeration.
-/
import IrohModel.C27.Lemmas

namespace IrohModel.C27

/-! ### The property -/

/-- **Global address = first observation**, per family, for every probe sequence. -/
theorem global_is_first (ps : List ProbeReport) :
    (Report.run ps).g4 = (obs4 ps).head? ∧ (Report.run ps).g6 = (obs6 ps).head? :=
  ⟨(run_addr ps).1.1, (run_addr ps).2.1⟩

/-- The UDP flags say whether the family has been observed at all. -/
theorem udp_iff_observed (ps : List ProbeReport) :
    ((Report.run ps).udpV4 = true ↔ obs4 ps ≠ []) ∧
    ((Report.run ps).udpV6 = true ↔ obs6 ps ≠ []) := by
  have h := run_addr ps
  rw [h.1.2.2, h.2.2.2]
  simp

/-- **Mapping-varies (IPv4)**: unset iff fewer than two observations; `true` iff two
observations differ; `false` iff at least two observations and all equal. -/
theorem varies_iff_v4 (ps : List ProbeReport) :
    ((Report.run ps).mv4 = none ↔ (obs4 ps).length < 2) ∧
    ((Report.run ps).mv4 = some true ↔ ∃ a ∈ obs4 ps, ∃ b ∈ obs4 ps, a ≠ b) ∧
    ((Report.run ps).mv4 = some false ↔
      2 ≤ (obs4 ps).length ∧ ∀ a ∈ obs4 ps, ∀ b ∈ obs4 ps, a = b) := by
  rw [(run_addr ps).1.2.1]
  exact ⟨variesSpec_none, variesSpec_true, variesSpec_false⟩

/-- **Mapping-varies (IPv6)**. -/
theorem varies_iff_v6 (ps : List ProbeReport) :
    ((Report.run ps).mv6 = none ↔ (obs6 ps).length < 2) ∧
    ((Report.run ps).mv6 = some true ↔ ∃ a ∈ obs6 ps, ∃ b ∈ obs6 ps, a ≠ b) ∧
    ((Report.run ps).mv6 = some false ↔
      2 ≤ (obs6 ps).length ∧ ∀ a ∈ obs6 ps, ∀ b ∈ obs6 ps, a = b) := by
  rw [(run_addr ps).2.2.1]
  exact ⟨variesSpec_none, variesSpec_true, variesSpec_false⟩

/-- **Each relay latency is the minimum observed for that probe kind**: the table of kind `k`
has an entry for `u` iff some probe of kind `k` reported for `u`, and the entry is a reported
latency below every reported latency.  Wrong-family reports count (`latsOf` ignores addresses). -/
theorem latency_is_min (ps : List ProbeReport) (k : Probe) (u : Url) :
    (((Report.run ps).lat.table k).get u = none ↔ latsOf k u ps = []) ∧
    ∀ m, ((Report.run ps).lat.table k).get u = some m ↔
      m ∈ latsOf k u ps ∧ ∀ x ∈ latsOf k u ps, m ≤ x := by
  rw [(run_lat ps).2 k u]
  exact ⟨minList_eq_none, fun _ => minList_eq_some⟩

/-- The tables of every report satisfy the `BTreeMap` invariant (needed to apply the merge
theorems to the latencies of reports). -/
theorem run_wf (ps : List ProbeReport) : WF (Report.run ps).lat := (run_lat ps).1

/-- `RelayLatencies::get` is the minimum over all probe kinds. -/
theorem get_is_min (ps : List ProbeReport) (u : Url) :
    ((Report.run ps).lat.get u = none ↔ latsAny u ps = []) ∧
    ∀ m, (Report.run ps).lat.get u = some m ↔
      m ∈ latsAny u ps ∧ ∀ x ∈ latsAny u ps, m ≤ x := by
  have key : (Report.run ps).lat.get u = minList (latsAny u ps) := by
    have h := (run_lat ps).2
    unfold Latencies.get
    have e1 := h .https u
    have e2 := h .v4 u
    have e3 := h .v6 u
    simp only [Latencies.table] at e1 e2 e3
    rw [e1, e2, e3]
    clear h e1 e2 e3
    induction ps with
    | nil => rfl
    | cons p ps ih =>
      have c : ∀ k, latsOf k u (p :: ps) =
          (if p.kind = k ∧ p.relay = u then [p.latency] else []) ++ latsOf k u ps := by
        intro k
        by_cases hc : p.kind = k ∧ p.relay = u <;> simp [latsOf, hc]
      have d : latsAny u (p :: ps) =
          (if p.relay = u then [p.latency] else []) ++ latsAny u ps := by
        by_cases hc : p.relay = u <;> simp [latsAny, hc]
      rw [c, c, c, d]
      simp only [minList_append, ← ih]
      by_cases hu : p.relay = u
      · cases hk : p.kind <;> simp [hu, minList, minOpt_none_left, minOpt_none_right] <;>
          generalize minList (latsOf Probe.https u ps) = a <;>
          generalize minList (latsOf Probe.v4 u ps) = b <;>
          generalize minList (latsOf Probe.v6 u ps) = c <;>
          cases a <;> cases b <;> cases c <;> simp [minOpt] <;> omega
      · simp [hu, minList, minOpt_none_left]
  rw [key]
  exact ⟨minList_eq_none, fun _ => minList_eq_some⟩

/-- **Merging keeps minima**, table by table: an entry of the merge is the minimum of the two
inputs' entries (absent entries ignored). -/
theorem merge_min (a b : Latencies) (ha : WF a) (hb : WF b) (k : Probe) (u : Url) :
    ((a.merge b).table k).get u = minOpt ((a.table k).get u) ((b.table k).get u) := by
  obtain ⟨a1, a2, a3⟩ := ha
  obtain ⟨b1, b2, b3⟩ := hb
  cases k <;> simp [Latencies.merge, Latencies.table, get_mergeFrom, *]

/-- ... spelled out: the merged entry is one of the inputs' entries and below both. -/
theorem merge_min_spec (a b : Latencies) (ha : WF a) (hb : WF b) (k : Probe) (u : Url) (m : Nat) :
    ((a.merge b).table k).get u = some m ↔
      ((a.table k).get u = some m ∨ (b.table k).get u = some m) ∧
      (∀ x, (a.table k).get u = some x → m ≤ x) ∧ (∀ x, (b.table k).get u = some x → m ≤ x) := by
  rw [merge_min a b ha hb]
  exact minOpt_eq_some

theorem merge_wf (a b : Latencies) (ha : WF a) : WF (a.merge b) :=
  ⟨sorted_mergeFrom ha.1, sorted_mergeFrom ha.2.1, sorted_mergeFrom ha.2.2⟩

/-- `get` of a merge is the minimum of the two `get`s. -/
theorem merge_get (a b : Latencies) (ha : WF a) (hb : WF b) (u : Url) :
    (a.merge b).get u = minOpt (a.get u) (b.get u) := by
  have h1 := merge_min a b ha hb .https u
  have h2 := merge_min a b ha hb .v4 u
  have h3 := merge_min a b ha hb .v6 u
  simp only [Latencies.table] at h1 h2 h3
  unfold Latencies.get
  rw [h1, h2, h3]
  generalize a.https.get u = x1
  generalize a.ipv4.get u = x2
  generalize a.ipv6.get u = x3
  generalize b.https.get u = y1
  generalize b.ipv4.get u = y2
  generalize b.ipv6.get u = y3
  cases x1 <;> cases x2 <;> cases x3 <;> cases y1 <;> cases y2 <;> cases y3 <;>
    simp [minOpt] <;> omega

/-- **Merging is commutative**, extensionally on each table and on `get`. -/
theorem merge_comm_ext (a b : Latencies) (ha : WF a) (hb : WF b) :
    (∀ k u, ((a.merge b).table k).get u = ((b.merge a).table k).get u) ∧
    (∀ u, (a.merge b).get u = (b.merge a).get u) := by
  refine ⟨fun k u => ?_, fun u => ?_⟩
  · rw [merge_min a b ha hb, merge_min b a hb ha, minOpt_comm]
  · rw [merge_get a b ha hb, merge_get b a hb ha, minOpt_comm]

/-- **Merging is commutative**, as an equality of `RelayLatencies` values (what the derived
`PartialEq` of the three `BTreeMap`s compares). -/
theorem merge_comm (a b : Latencies) (ha : WF a) (hb : WF b) : a.merge b = b.merge a := by
  have hab := merge_wf a b ha
  have hba := merge_wf b a hb
  have h := (merge_comm_ext a b ha hb).1
  have e1 := sorted_ext hab.1 hba.1 (h .https)
  have e2 := sorted_ext hab.2.1 hba.2.1 (h .v4)
  have e3 := sorted_ext hab.2.2 hba.2.2 (h .v6)
  cases hx : a.merge b
  cases hy : b.merge a
  simp only [hx, hy] at e1 e2 e3
  simp [e1, e2, e3]

/-- **Wrong-family addresses**: a QAD probe whose address has the other family changes no
address field, but its latency is recorded like any other. -/
theorem wrong_family (ps qs : List ProbeReport) (u l ip port : Nat) :
    let with4 := Report.run (ps ++ [.qad4 u l (.v6 ip port)] ++ qs)
    let with6 := Report.run (ps ++ [.qad6 u l (.v4 ip port)] ++ qs)
    let without := Report.run (ps ++ qs)
    (with4.g4 = without.g4 ∧ with4.g6 = without.g6 ∧ with4.mv4 = without.mv4 ∧
      with4.mv6 = without.mv6 ∧ with4.udpV4 = without.udpV4 ∧ with4.udpV6 = without.udpV6) ∧
    (with6.g4 = without.g4 ∧ with6.g6 = without.g6 ∧ with6.mv4 = without.mv4 ∧
      with6.mv6 = without.mv6 ∧ with6.udpV4 = without.udpV4 ∧ with6.udpV6 = without.udpV6) ∧
    l ∈ latsOf .v4 u (ps ++ [.qad4 u l (.v6 ip port)] ++ qs) ∧
    l ∈ latsOf .v6 u (ps ++ [.qad6 u l (.v4 ip port)] ++ qs) := by
  intro with4 with6 without
  have a := run_addr (ps ++ [.qad4 u l (.v6 ip port)] ++ qs)
  have b := run_addr (ps ++ [.qad6 u l (.v4 ip port)] ++ qs)
  have c := run_addr (ps ++ qs)
  have e44 : obs4 (ps ++ [.qad4 u l (.v6 ip port)] ++ qs) = obs4 (ps ++ qs) := by simp [obs4]
  have e46 : obs6 (ps ++ [.qad4 u l (.v6 ip port)] ++ qs) = obs6 (ps ++ qs) := by simp [obs6]
  have e64 : obs4 (ps ++ [.qad6 u l (.v4 ip port)] ++ qs) = obs4 (ps ++ qs) := by simp [obs4]
  have e66 : obs6 (ps ++ [.qad6 u l (.v4 ip port)] ++ qs) = obs6 (ps ++ qs) := by simp [obs6]
  rw [e44, e46] at a
  rw [e64, e66] at b
  obtain ⟨⟨a1, a2, a3⟩, a4, a5, a6⟩ := a
  obtain ⟨⟨b1, b2, b3⟩, b4, b5, b6⟩ := b
  obtain ⟨⟨c1, c2, c3⟩, c4, c5, c6⟩ := c
  refine ⟨⟨?_, ?_, ?_, ?_, ?_, ?_⟩, ⟨?_, ?_, ?_, ?_, ?_, ?_⟩, ?_, ?_⟩
  all_goals first
    | simp only [with4, with6, without, a1, a2, a3, a4, a5, a6, b1, b2, b3, b4, b5, b6,
        c1, c2, c3, c4, c5, c6]
    | simp [latsOf, ProbeReport.kind, ProbeReport.relay, ProbeReport.latency]

/-! ### Non-vacuity -/

-- two equal observations then a different one: unset → false → true; global stays the first
example : (Report.run [.qad4 1 10 (.v4 7 1)]).mv4 = none := by decide
example : (Report.run [.qad4 1 10 (.v4 7 1), .qad4 2 5 (.v4 7 1)]).mv4 = some false := by decide
example : (Report.run [.qad4 1 10 (.v4 7 1), .qad4 2 5 (.v4 7 1), .qad4 1 3 (.v4 7 2)]).mv4
    = some true := by decide
example : (Report.run [.qad4 1 10 (.v4 7 1), .qad4 2 5 (.v4 8 1)]).g4 = some (7, 1) := by decide
-- the hypotheses of the merge theorems are satisfiable by non-trivial tables
example : WF (Latencies.build [(.https, 3, 5), (.v4, 3, 9), (.https, 1, 2)]) := by
  simp [WF, Latencies.build, Latencies.updateRelay, Table.update, Sorted]
example : ((Latencies.build [(.https, 3, 5)]).merge (Latencies.build [(.https, 3, 4)])).get 3
    = some 4 := by decide
-- a wrong-family report leaves the address fields alone but records the latency
example : (Report.run [.qad4 1 10 (.v6 7 1)]).g4 = none ∧
    ((Report.run [.qad4 1 10 (.v6 7 1)]).lat.table .v4).get 1 = some 10 := by decide

end IrohModel.C27
