/-
C27 — the property's vocabulary: what "observation", "reported latency" and the `BTreeMap`
invariant mean.  Written independently of the model's `update` (only the data types are shared).
-/
import IrohModel.C27.Model

namespace IrohModel.C27

/-- Strictly increasing keys: the `BTreeMap` invariant. -/
def Sorted (t : Table) : Prop := t.Pairwise (fun a b => a.1 < b.1)

/-- IPv4 observations: addresses reported by QAD-IPv4 probes *whose address is IPv4*, in
arrival order.  (A QAD-IPv4 probe that reports an IPv6 address is a wrong-family report.) -/
def obs4 (ps : List ProbeReport) : List (Nat × Nat) :=
  ps.filterMap fun p => match p with
    | .qad4 _ _ (.v4 ip port) => some (ip, port)
    | _ => none

/-- IPv6 observations. -/
def obs6 (ps : List ProbeReport) : List (Nat × Nat) :=
  ps.filterMap fun p => match p with
    | .qad6 _ _ (.v6 ip port) => some (ip, port)
    | _ => none

def ProbeReport.kind : ProbeReport → Probe
  | .https _ _ => .https
  | .qad4 _ _ _ => .v4
  | .qad6 _ _ _ => .v6

def ProbeReport.relay : ProbeReport → Url
  | .https u _ => u
  | .qad4 u _ _ => u
  | .qad6 u _ _ => u

def ProbeReport.latency : ProbeReport → Nat
  | .https _ l => l
  | .qad4 _ l _ => l
  | .qad6 _ l _ => l

/-- All latencies reported for relay `u` by probes of kind `k` — whatever address they carry. -/
def latsOf (k : Probe) (u : Url) (ps : List ProbeReport) : List Nat :=
  ps.filterMap fun p => if p.kind = k ∧ p.relay = u then some p.latency else none

/-- All latencies reported for relay `u` by any probe. -/
def latsAny (u : Url) (ps : List ProbeReport) : List Nat :=
  ps.filterMap fun p => if p.relay = u then some p.latency else none

/-- The `BTreeMap` invariant of all three tables. -/
def WF (l : Latencies) : Prop := Sorted l.https ∧ Sorted l.ipv4 ∧ Sorted l.ipv6

end IrohModel.C27
