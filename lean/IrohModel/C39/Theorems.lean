/-
C39 — property theorems (only).  Statement of the property: after a crash at
any point, the reopened store holds, for each key, a packet that was published
for it (every packet whose batch committed, or a newer one), every stored
packet reads back byte-for-byte, and its expiry index is consistent with the
stored packets.  Eviction eventually removes every packet older than the
retention period and never a newer one.

Crash points are the `crash` events of an arbitrary event sequence (messages
applied to the open transaction, `commit`, `crash` = lose the open transaction
and reopen).  `WellTimed`: every `CheckExpired` carries a `time` below the
cut-off at the moment it is handled (it was taken from `range(..expired)` of
an earlier scan and `Timestamp::now` is strictly monotonic).
-/
import IrohModel.C39.Lemmas

namespace IrohModel.C39
open IrohModel.Pkarr

def WellTimed (ret : Nat) (evs : List Ev) : Prop :=
  ∀ now time k, Ev.msg (.checkExpired now time k) ∈ evs → time < cutoff now ret

theorem inv_runDb (ret : Nat) (evs : List Ev) (hw : WellTimed ret evs) (db : Db)
    (hc : Inv db.committed) (hp : Inv db.pending) :
    Inv (runDb ret db evs).committed ∧ Inv (runDb ret db evs).pending := by
  induction evs generalizing db with
  | nil => exact ⟨hc, hp⟩
  | cons e es ih =>
    have hw' : WellTimed ret es := fun now time k hm => hw now time k (List.mem_cons_of_mem _ hm)
    simp only [runDb, List.foldl_cons]
    cases e with
    | msg m =>
      cases m with
      | upsert p => exact ih hw' _ hc (inv_upsert hp p)
      | checkExpired now time k =>
        exact ih hw' _ hc (inv_checkExpired hp k (hw now time k (List.mem_cons_self ..)))
    | commit => exact ih hw' _ hp hp
    | crash => exact ih hw' _ hc hc

/-- Index consistency, for the committed tables and the open transaction, after every event
sequence from the empty database (any crash points). -/
theorem inv_committed (ret : Nat) (evs : List Ev) (hw : WellTimed ret evs) :
    Inv (runDb ret Db.empty evs).committed ∧ Inv (runDb ret Db.empty evs).pending :=
  inv_runDb ret evs hw Db.empty inv_empty inv_empty

theorem runDb_append (ret : Nat) (db : Db) (a b : List Ev) :
    runDb ret db (a ++ b) = runDb ret (runDb ret db a) b := by
  simp [runDb, List.foldl_append]

/-- The committed tables change only at `commit` events. -/
theorem committed_unchanged (ret : Nat) (db : Db) (evs : List Ev) (h : ∀ e ∈ evs, e ≠ .commit) :
    (runDb ret db evs).committed = db.committed := by
  induction evs generalizing db with
  | nil => rfl
  | cons e es ih =>
    simp only [runDb, List.foldl_cons]
    have hes : ∀ e ∈ es, e ≠ .commit := fun e he => h e (List.mem_cons_of_mem _ he)
    have := ih (stepDb ret db e) hes
    simp only [runDb] at this
    rw [this]
    cases e with
    | msg m => rfl
    | commit => exact absurd rfl (h .commit (List.mem_cons_self ..))
    | crash => rfl

/-- Crash consistency: a crash anywhere after the last commit reopens exactly the tables of
that commit (the batch in progress is lost as a whole), and they satisfy the invariant. -/
theorem crash_consistent (ret : Nat) (a b : List Ev) (hb : ∀ e ∈ b, e ≠ .commit)
    (hw : WellTimed ret (a ++ [.commit] ++ b ++ [.crash])) :
    let after := runDb ret Db.empty (a ++ [.commit] ++ b ++ [.crash])
    after.committed = (runDb ret Db.empty (a ++ [.commit])).committed ∧
    after.pending = after.committed ∧ Inv after.committed := by
  have h1 : (runDb ret Db.empty (a ++ [.commit] ++ b ++ [.crash])).committed =
      (runDb ret Db.empty (a ++ [.commit])).committed := by
    rw [runDb_append, runDb_append ret Db.empty (a ++ [Ev.commit]) b]
    simp only [runDb, List.foldl_cons, List.foldl_nil, stepDb]
    exact committed_unchanged ret _ b hb
  refine ⟨h1, ?_, (inv_committed ret _ hw).1⟩
  rw [runDb_append]
  simp [runDb, stepDb]

/-- Every stored packet (committed or in the open transaction) was published for its key in
the history. -/
theorem stored_was_published (ret : Nat) (evs : List Ev) :
    ∀ k p, ((runDb ret Db.empty evs).committed.packets k = some p ∨
            (runDb ret Db.empty evs).pending.packets k = some p) →
      p.key = k ∧ Ev.msg (.upsert p) ∈ evs := by
  suffices h : ∀ (seen : List Ev) (db : Db),
      (∀ k p, (db.committed.packets k = some p ∨ db.pending.packets k = some p) →
        p.key = k ∧ Ev.msg (.upsert p) ∈ seen) →
      ∀ k p, ((runDb ret db evs).committed.packets k = some p ∨
              (runDb ret db evs).pending.packets k = some p) →
        p.key = k ∧ Ev.msg (.upsert p) ∈ seen ++ evs by
    have := h [] Db.empty (by intro k p hp; simp [Db.empty, Tables.empty] at hp)
    simpa using this
  induction evs with
  | nil => intro seen db h k p hp; simpa [runDb] using h k p hp
  | cons e es ih =>
    intro seen db h
    have hstep : ∀ k p, ((stepDb ret db e).committed.packets k = some p ∨
        (stepDb ret db e).pending.packets k = some p) →
        p.key = k ∧ Ev.msg (.upsert p) ∈ seen ++ [e] := by
      intro k p hp
      have hmono : ∀ {k p}, (db.committed.packets k = some p ∨ db.pending.packets k = some p) →
          p.key = k ∧ Ev.msg (.upsert p) ∈ seen ++ [e] := fun hx =>
        ⟨(h _ _ hx).1, List.mem_append_left _ (h _ _ hx).2⟩
      cases e with
      | commit =>
        simp only [stepDb] at hp
        exact hmono (Or.inr (hp.elim id id))
      | crash =>
        simp only [stepDb] at hp
        exact hmono (Or.inl (hp.elim id id))
      | msg m =>
        simp only [stepDb] at hp
        rcases hp with hp | hp
        · exact hmono (Or.inl hp)
        · cases m with
          | upsert q =>
            simp only [applyMsg] at hp
            rcases upsert_packets db.pending q k with hu | ⟨hk, hu⟩
            · rw [hu] at hp; exact hmono (Or.inr hp)
            · rw [hu] at hp; cases hp
              exact ⟨hk.symm, by simp⟩
          | checkExpired now time k0 =>
            simp only [applyMsg] at hp
            rcases checkExpired_packets ret now db.pending time k0 k with hu | ⟨_, hu, _⟩
            · rw [hu] at hp; exact hmono (Or.inr hp)
            · rw [hu] at hp; cases hp
    have := ih (seen ++ [e]) (stepDb ret db e) hstep
    intro k p hp
    have := this k p (by simpa [runDb] using hp)
    simpa [List.append_assoc] using this

/-- `p` is still represented: the table holds for its key a packet at least as recent. -/
def Holds (T : Tables) (p : Packet) : Prop := ∃ q, T.packets p.key = some q ∧ NotOlder q p

theorem holds_applyMsg {ret : Nat} {T : Tables} {p : Packet} (h : Holds T p) (m : Msg) :
    Holds (applyMsg ret T m) p ∨ ∃ now time k, m = .checkExpired now time k ∧ p.ts < cutoff now ret := by
  obtain ⟨q, hq, hqp⟩ := h
  cases m with
  | upsert x =>
    left
    simp only [applyMsg]
    by_cases hk : x.key = p.key
    · unfold Holds
      rw [← hk] at hq ⊢
      exact upsert_notOlder hq hqp
    · rcases upsert_packets T x p.key with hu | ⟨hk', _⟩
      · exact ⟨q, by rw [hu]; exact hq, hqp⟩
      · exact absurd hk'.symm hk
  | checkExpired now time k =>
    simp only [applyMsg]
    rcases checkExpired_packets ret now T time k p.key with hu | ⟨hk, _, q', hq', hexp⟩
    · left; exact ⟨q, by rw [hu]; exact hq, hqp⟩
    · right
      rw [← hk, hq] at hq'; cases hq'
      exact ⟨now, time, k, rfl, by have := notOlder_ts hqp; omega⟩

/-- Durability: if `p` was published and the batch it belongs to committed (no crash between
the publish and that commit), then after any further events — publishes, evictions,
commits, crashes — the committed tables hold for `p`'s key a packet at least as recent as
`p`, unless an eviction ran at a time when `p` itself was older than the retention period. -/
theorem committed_or_newer (ret : Nat) (pre mid post : List Ev) (p : Packet)
    (hmid : ∀ e ∈ mid, e ≠ .crash) :
    let evs := pre ++ [.msg (.upsert p)] ++ mid ++ [.commit] ++ post
    Holds (runDb ret Db.empty evs).committed p ∨
    ∃ now time k, Ev.msg (.checkExpired now time k) ∈ evs ∧ p.ts < cutoff now ret := by
  intro evs
  -- E: an eviction ran while p was expired
  let E : List Ev → Prop := fun l => ∃ now time k, Ev.msg (.checkExpired now time k) ∈ l ∧
    p.ts < cutoff now ret
  have hEmono : ∀ {l l' : List Ev}, (∀ e ∈ l, e ∈ l') → E l → E l' := by
    rintro l l' hsub ⟨now, time, k, hm, hlt⟩; exact ⟨now, time, k, hsub _ hm, hlt⟩
  -- phase 1: through `mid` (no crash) the open transaction keeps `p` represented
  have phase1 : ∀ (l : List Ev) (db : Db), (∀ e ∈ l, e ≠ .crash) → Holds db.pending p →
      Holds (runDb ret db l).pending p ∨ E l := by
    intro l
    induction l with
    | nil => intro db _ h; left; simpa [runDb] using h
    | cons e es ih =>
      intro db hnc h
      have hes : ∀ e ∈ es, e ≠ .crash := fun e he => hnc e (List.mem_cons_of_mem _ he)
      simp only [runDb, List.foldl_cons]
      have hstep : Holds (stepDb ret db e).pending p ∨ E [e] := by
        cases e with
        | msg m =>
          rcases holds_applyMsg (ret := ret) h m with h' | ⟨now, time, k, rfl, hlt⟩
          · left; exact h'
          · right; exact ⟨now, time, k, by simp, hlt⟩
        | commit => left; exact h
        | crash => exact absurd rfl (hnc .crash (List.mem_cons_self ..))
      rcases hstep with h' | hE
      · rcases ih (stepDb ret db e) hes h' with h'' | hE
        · left; simpa [runDb] using h''
        · right; exact hEmono (fun e he => List.mem_cons_of_mem _ he) hE
      · right; exact hEmono (fun e he => by simp at he; subst he; exact List.mem_cons_self ..) hE
  -- phase 2: afterwards both tables keep `p` represented
  have phase2 : ∀ (l : List Ev) (db : Db), Holds db.committed p → Holds db.pending p →
      (Holds (runDb ret db l).committed p ∧ Holds (runDb ret db l).pending p) ∨ E l := by
    intro l
    induction l with
    | nil => intro db hc hp; left; simpa [runDb] using ⟨hc, hp⟩
    | cons e es ih =>
      intro db hc hp
      simp only [runDb, List.foldl_cons]
      have hstep : (Holds (stepDb ret db e).committed p ∧ Holds (stepDb ret db e).pending p) ∨
          E [e] := by
        cases e with
        | msg m =>
          rcases holds_applyMsg (ret := ret) hp m with h' | ⟨now, time, k, rfl, hlt⟩
          · left; exact ⟨hc, h'⟩
          · right; exact ⟨now, time, k, by simp, hlt⟩
        | commit => left; exact ⟨hp, hp⟩
        | crash => left; exact ⟨hc, hc⟩
      rcases hstep with ⟨hc', hp'⟩ | hE
      · rcases ih (stepDb ret db e) hc' hp' with h'' | hE
        · left; simpa [runDb] using h''
        · right; exact hEmono (fun e he => List.mem_cons_of_mem _ he) hE
      · right; exact hEmono (fun e he => by simp at he; subst he; exact List.mem_cons_self ..) hE
  -- assemble
  have hsplit : runDb ret Db.empty evs =
      runDb ret (stepDb ret (runDb ret (stepDb ret (runDb ret Db.empty pre) (.msg (.upsert p))) mid)
        .commit) post := by
    simp only [evs, runDb, List.foldl_append, List.foldl_cons, List.foldl_nil]
  rw [hsplit]
  have h0 : Holds (stepDb ret (runDb ret Db.empty pre) (.msg (.upsert p))).pending p := by
    simp only [stepDb, applyMsg]
    exact upsert_stores_ge _ p
  rcases phase1 mid _ hmid h0 with h1 | hE
  · have hc : Holds (stepDb ret (runDb ret (stepDb ret (runDb ret Db.empty pre)
        (.msg (.upsert p))) mid) .commit).committed p := by simpa [stepDb] using h1
    have hp : Holds (stepDb ret (runDb ret (stepDb ret (runDb ret Db.empty pre)
        (.msg (.upsert p))) mid) .commit).pending p := by simpa [stepDb] using h1
    rcases phase2 post _ hc hp with ⟨h2, _⟩ | hE
    · left; exact h2
    · right; exact hEmono (fun e he => by simp [evs]; right; right; right; right; exact he) hE
  · right; exact hEmono (fun e he => by simp [evs]; right; right; left; exact he) hE

/-- Eviction never removes a packet that is not older than the retention period, and touches
no other key. -/
theorem never_evicts_newer (ret now : Nat) (T : Tables) (time k k' : Nat) (p : Packet)
    (hp : T.packets k' = some p) (hnew : ¬ p.ts < cutoff now ret) :
    (checkExpired ret now T time k).packets k' = some p := by
  rcases checkExpired_packets ret now T time k k' with hu | ⟨hk, _, q, hq, hlt⟩
  · rw [hu]; exact hp
  · rw [hk] at hp; rw [hp] at hq; cases hq; exact absurd hlt hnew

/-- Processing the messages of a scan. -/
def processScan (ret now : Nat) (T : Tables) (msgs : List (Nat × Nat)) : Tables :=
  msgs.foldl (fun T m => checkExpired ret now T m.1 m.2) T

theorem processScan_sub (ret now : Nat) (msgs : List (Nat × Nat)) (T : Tables) (k : Nat) (p : Packet)
    (h : (processScan ret now T msgs).packets k = some p) : T.packets k = some p := by
  induction msgs generalizing T with
  | nil => exact h
  | cons m ms ih =>
    have := ih (checkExpired ret now T m.1 m.2) (by simpa [processScan] using h)
    rcases checkExpired_packets ret now T m.1 m.2 k with hu | ⟨_, hn, _⟩
    · rw [hu] at this; exact this
    · rw [hn] at this; cases this

theorem processScan_removes (ret now : Nat) (msgs : List (Nat × Nat)) (T : Tables) (t k : Nat)
    (hm : (t, k) ∈ msgs) (hexp : ∀ q, T.packets k = some q → q.ts < cutoff now ret) :
    (processScan ret now T msgs).packets k = none := by
  induction msgs generalizing T with
  | nil => cases hm
  | cons m ms ih =>
    cases hres : (processScan ret now T (m :: ms)).packets k with
    | none => rfl
    | some p =>
      exfalso
      have hp0 := processScan_sub ret now (m :: ms) T k p hres
      rcases List.mem_cons.mp hm with heq | hin
      · -- this message removes it
        have hrm : (checkExpired ret now T m.1 m.2).packets k = none := by
          subst heq
          simp only [checkExpired, hp0]
          have := (isExpired_iff p.ts (cutoff now ret)).mpr (hexp p hp0)
          simp [this]
        have := processScan_sub ret now ms (checkExpired ret now T m.1 m.2) k p
          (by simpa [processScan] using hres)
        rw [hrm] at this; cases this
      · have hexp' : ∀ q, (checkExpired ret now T m.1 m.2).packets k = some q →
            q.ts < cutoff now ret := by
          intro q hq
          rcases checkExpired_packets ret now T m.1 m.2 k with hu | ⟨_, hn, _⟩
          · rw [hu] at hq; exact hexp q hq
          · rw [hn] at hq; cases hq
        have := ih (checkExpired ret now T m.1 m.2) hin hexp'
        have hres' : (processScan ret now (checkExpired ret now T m.1 m.2) ms).packets k = some p := by
          simpa [processScan] using hres
        rw [this] at hres'; cases hres'

/-- One complete eviction round removes every packet older than the retention period: scan
the index at clock `now`, handle the resulting `CheckExpired` messages at a later clock
`now' ≥ now`; no stored packet with a timestamp below the scan's cut-off is left.  (`cands`
lists the index entries of the snapshot.) -/
theorem evicts_all_older (ret now now' : Nat) (hnow : now ≤ now') (T : Tables) (hinv : Inv T)
    (cands : List (Nat × Nat)) (hc : ∀ ts k, T.index ts k = true → (ts, k) ∈ cands) :
    ∀ k p, (processScan ret now' T (scan ret now T cands)).packets k = some p →
      ¬ p.ts < cutoff now ret := by
  intro k p hres hlt
  have hp0 := processScan_sub ret now' _ T k p hres
  obtain ⟨_, hidx⟩ := hinv k p hp0
  have hmem : (p.ts, k) ∈ scan ret now T cands := by
    unfold scan
    rw [List.mem_filter]
    exact ⟨hc _ _ hidx, by simp [hidx, hlt]⟩
  have hcut : cutoff now ret ≤ cutoff now' ret := by unfold cutoff; omega
  have := processScan_removes ret now' _ T p.ts k hmem (by
    intro q hq; rw [hp0] at hq; cases hq; omega)
  rw [this] at hres; cases hres

/-! ### Eviction as snapshot + `CheckExpired` steps with publishes in between -/

theorem cutoff_mono {a b : Nat} (ret : Nat) (h : a ≤ b) : cutoff a ret ≤ cutoff b ret := by
  unfold cutoff; omega

/-- One step of the interleaved system never loses a packet that is not older than the
retention period at that moment: whatever step is taken — in particular a `CheckExpired`
whose `(time, key)` was read from a snapshot taken *before* the key was re-published — the
key still holds a packet at least as recent. -/
theorem never_evicts_newer_step (ret : Nat) {s s' : EState} {l : ELabel}
    (hs : estep ret s l = some s') (p : Packet) (hp : Holds s.tables p)
    (hnew : ¬ p.ts < cutoff s.clock ret) : Holds s'.tables p := by
  cases l with
  | tick d => simp only [estep, Option.some.injEq] at hs; subst hs; exact hp
  | snapshot cands => simp only [estep, Option.some.injEq] at hs; subst hs; exact hp
  | publish x =>
    simp only [estep, Option.some.injEq] at hs; subst hs
    rcases holds_applyMsg (ret := ret) hp (.upsert x) with h | ⟨_, _, _, hm, _⟩
    · exact h
    · cases hm
  | check =>
    simp only [estep] at hs
    cases hq : s.queue with
    | nil => rw [hq] at hs; cases hs
    | cons m q =>
      obtain ⟨t, k⟩ := m
      rw [hq] at hs; simp only [Option.some.injEq] at hs; subst hs
      rcases holds_applyMsg (ret := ret) hp (.checkExpired s.clock t k) with h | ⟨now, _, _, hm, hlt⟩
      · exact h
      · cases hm; exact absurd hlt hnew

theorem clock_mono_step (ret : Nat) {s s' : EState} {l : ELabel} (hs : estep ret s l = some s') :
    s.clock ≤ s'.clock := by
  cases l with
  | tick d => simp only [estep, Option.some.injEq] at hs; subst hs; simp
  | snapshot cands => simp only [estep, Option.some.injEq] at hs; subst hs; exact Nat.le_refl _
  | publish x => simp only [estep, Option.some.injEq] at hs; subst hs; exact Nat.le_refl _
  | check =>
    simp only [estep] at hs
    cases hq : s.queue with
    | nil => rw [hq] at hs; cases hs
    | cons m q =>
      obtain ⟨t, k⟩ := m
      rw [hq] at hs; simp only [Option.some.injEq] at hs; subst hs; exact Nat.le_refl _

/-- Over every interleaving of clock ticks, eviction snapshots, `CheckExpired` handling and
publishes (any number of each, in any order): a packet that is stored — or represented by a
more recent one — at some point and is not older than the retention period at the end is
still represented at the end.  In particular a key re-published between the snapshot and the
handling of its `CheckExpired` keeps the fresh packet. -/
theorem never_evicts_newer_interleaved (ret : Nat) (T : Tables) (clock : Nat) {s s' : EState}
    (hsteps : LTS.Steps (esys ret T clock) s s') (p : Packet) (hp : Holds s.tables p)
    (hnew : ¬ p.ts < cutoff s'.clock ret) : Holds s'.tables p := by
  induction hsteps with
  | refl => exact hp
  | tail _ hstep ih =>
    have hmono := clock_mono_step ret hstep
    have hc := cutoff_mono ret hmono
    exact never_evicts_newer_step ret hstep p (ih (by omega)) (by omega)

/-- What is true of every reachable state of the interleaved system started from tables that
satisfy the index invariant: the invariant, and every queued `CheckExpired` carries a `time`
below the current cut-off (so `WellTimed` is a consequence of the monotonic clock, not an
extra assumption). -/
def EInv (ret : Nat) (s : EState) : Prop :=
  Inv s.tables ∧ ∀ t k, (t, k) ∈ s.queue → t < cutoff s.clock ret

theorem einv_step (ret : Nat) {s s' : EState} {l : ELabel} (h : EInv ret s)
    (hs : estep ret s l = some s') : EInv ret s' := by
  obtain ⟨hinv, hq⟩ := h
  cases l with
  | tick d =>
    simp only [estep, Option.some.injEq] at hs; subst hs
    refine ⟨hinv, fun t k hm => ?_⟩
    have h1 := hq t k hm
    have h2 := cutoff_mono ret (Nat.le_add_right s.clock d)
    show t < cutoff (s.clock + d) ret
    omega
  | snapshot cands =>
    simp only [estep, Option.some.injEq] at hs; subst hs
    refine ⟨hinv, fun t k hm => ?_⟩
    rcases List.mem_append.mp hm with hm | hm
    · exact hq t k hm
    · unfold scan at hm
      rw [List.mem_filter] at hm
      have h2 := hm.2
      simp only [Bool.and_eq_true, decide_eq_true_eq] at h2
      exact h2.2
  | publish x =>
    simp only [estep, Option.some.injEq] at hs; subst hs
    exact ⟨inv_upsert hinv x, hq⟩
  | check =>
    simp only [estep] at hs
    cases hqq : s.queue with
    | nil => rw [hqq] at hs; cases hs
    | cons m q =>
      obtain ⟨t, k⟩ := m
      rw [hqq] at hs; simp only [Option.some.injEq] at hs; subst hs
      refine ⟨inv_checkExpired hinv k (hq t k (by rw [hqq]; simp)), fun t' k' hm => ?_⟩
      exact hq t' k' (by rw [hqq]; exact List.mem_cons_of_mem _ hm)

/-- Index consistency in every reachable state of the interleaved system. -/
theorem evict_interleaved_index_consistent (ret : Nat) (T : Tables) (clock : Nat) (hT : Inv T)
    {s : EState} (h : LTS.Reachable (esys ret T clock) s) : EInv ret s :=
  LTS.invariant_of_inductive (esys ret T clock) (EInv ret)
    ⟨hT, fun _ _ hm => by simp [esys] at hm⟩ (fun _ _ _ hi hs => einv_step ret hi hs) s h

/-- The history of the seeded change: old packet stored and indexed, snapshot, fresh
re-publish, then the `CheckExpired` for the old entry — the fresh packet stays and is indexed. -/
theorem republish_between_snapshot_and_check (ret now : Nat) (T : Tables) (hT : Inv T)
    (old fresh : Packet) (hk : fresh.key = old.key) (hold : T.packets old.key = some old)
    (hexp : old.ts < cutoff now ret) (hfresh : ¬ fresh.ts < cutoff now ret) :
    let T' := checkExpired ret now (upsert T fresh).1 old.ts old.key
    T'.packets old.key = some fresh ∧ T'.index fresh.ts old.key = true := by
  intro T'
  have hmr : moreRecentThan old fresh = false := by
    unfold moreRecentThan
    have : ¬ old.ts = fresh.ts := by omega
    simp only [this, if_false, decide_eq_false_iff_not]; omega
  have hup : (upsert T fresh).1.packets old.key = some fresh := by
    rw [upsert_def, hk, hold]; simp [hmr]
  have hinv : Inv T' := inv_checkExpired (inv_upsert hT fresh) old.key hexp
  have hkeep : T'.packets old.key = some fresh :=
    never_evicts_newer ret now (upsert T fresh).1 old.ts old.key old.key fresh hup hfresh
  exact ⟨hkeep, (hinv _ _ hkeep).2⟩

/-! ### Read-back -/

/-- A packet written by `serialize` (any 8-byte prefix) reads back byte for byte. -/
theorem readback_exact (keyOk dnsOk : Bytes → Bool) (lastSeen packet : Bytes)
    (hl : lastSeen.length = 8) (hv : parseUnchecked keyOk dnsOk packet = some packet) :
    deserialize keyOk dnsOk (serialize lastSeen packet) = some packet := by
  unfold deserialize serialize
  have hlen : (lastSeen ++ packet).length ≥ Generated.C39.lastSeenPrefixLen := by
    simp [Generated.C39.lastSeenPrefixLen, hl]
  have hdrop : (lastSeen ++ packet).drop Generated.C39.lastSeenPrefixLen = packet := by
    simp [Generated.C39.lastSeenPrefixLen, ← hl]
  simp only [hlen, if_true, hdrop, hv]

/-- `serialize` writes the prefix length that `deserialize` skips. -/
theorem prefix_lengths_agree : Generated.C39.serializePrefixLen = Generated.C39.lastSeenPrefixLen := rfl

/-- A row in the old format (raw packet bytes) reads back byte for byte, provided the bytes
after the first eight do not themselves pass `from_bytes_unchecked`. -/
theorem readback_legacy (keyOk dnsOk : Bytes → Bool) (packet : Bytes)
    (hv : parseUnchecked keyOk dnsOk packet = some packet)
    (hshift : parseUnchecked keyOk dnsOk (packet.drop 8) = none) :
    deserialize keyOk dnsOk packet = some packet := by
  unfold deserialize
  simp only [Generated.C39.lastSeenPrefixLen, hshift, hv]
  split <;> rfl

/-- Whatever `deserialize` returns passes the unchecked-parse conditions (length bounds, key,
DNS) and is a suffix of the row. -/
theorem deserialize_sound (keyOk dnsOk : Bytes → Bool) (data p : Bytes)
    (h : deserialize keyOk dnsOk data = some p) :
    parseUnchecked keyOk dnsOk p = some p ∧ (p = data ∨ p = data.drop 8) := by
  have hpu : ∀ bs q, parseUnchecked keyOk dnsOk bs = some q → q = bs := by
    intro bs q hq
    unfold parseUnchecked at hq
    repeat (split at hq; · cases hq)
    simpa using hq.symm
  unfold deserialize at h
  split at h
  · cases hd : parseUnchecked keyOk dnsOk (data.drop Generated.C39.lastSeenPrefixLen) with
    | some q =>
      rw [hd] at h; simp only [Option.some.injEq] at h; subst h
      have := hpu _ _ hd; subst this
      exact ⟨hd, Or.inr rfl⟩
    | none =>
      rw [hd] at h
      have := hpu _ _ h; subst this
      exact ⟨h, Or.inl rfl⟩
  · have := hpu _ _ h; subst this
    exact ⟨h, Or.inl rfl⟩

-- Non-vacuity.
private def p1 : Packet := ⟨1, 0, 10, [1]⟩
private def p2 : Packet := ⟨1, 0, 20, [2]⟩
private def evs1 : List Ev := [.msg (.upsert p1), .commit, .msg (.upsert p2), .crash]
example : WellTimed 5 (evs1 ++ [.msg (.checkExpired 100 10 1)]) := by
  intro now time k h
  simp [evs1] at h
  obtain ⟨rfl, rfl, rfl⟩ := h
  decide
example : (runDb 5 Db.empty evs1).committed.packets 1 = some p1 := by decide
example : (runDb 5 Db.empty (evs1 ++ [.msg (.checkExpired 100 10 1), .commit])).committed.packets 1 =
    none := by decide
example : (runDb 5 Db.empty (evs1 ++ [.msg (.checkExpired 14 10 1), .commit])).committed.packets 1 =
    some p1 := by decide
example : scan 5 100 (runDb 5 Db.empty evs1).committed [(10, 1), (20, 1)] = [(10, 1)] := by decide
example : parseUnchecked (fun _ => true) (fun _ => true) (List.replicate 104 7) =
    some (List.replicate 104 7) := by decide

end IrohModel.C39
