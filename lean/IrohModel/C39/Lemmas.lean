/-
C39 — helper lemmas: table updates, the index invariant, monotonicity of stored packets.
-/
import IrohModel.C39.Model

namespace IrohModel.C39
open IrohModel.Pkarr

theorem moreRecent_eq : moreRecent = moreRecentThan := by
  funext a b
  simp only [moreRecent, Generated.C39.tsOp, Generated.C39.tieOp, moreRecentBy_gt_gt]

theorem isExpired_iff (ts cut : Nat) : isExpired ts cut = true ↔ ts < cut := by
  simp [isExpired, cmpBy, Generated.C39.expiredOp]

abbrev NotOlder (v x : Packet) : Prop := moreRecentThan x v = false

/-- Index invariant: every stored packet sits under its own key and has an update-time entry
at its timestamp (so the eviction scan will find it). -/
def Inv (T : Tables) : Prop := ∀ k p, T.packets k = some p → p.key = k ∧ T.index p.ts k = true

@[simp] theorem setPacket_packets (T : Tables) (k : Nat) (v : Option Packet) (k' : Nat) :
    (setPacket T k v).packets k' = if k' = k then v else T.packets k' := rfl
@[simp] theorem setPacket_index (T : Tables) (k : Nat) (v : Option Packet) :
    (setPacket T k v).index = T.index := rfl
@[simp] theorem setIndex_packets (T : Tables) (ts k : Nat) (b : Bool) :
    (setIndex T ts k b).packets = T.packets := rfl
@[simp] theorem setIndex_index (T : Tables) (ts k : Nat) (b : Bool) (ts' k' : Nat) :
    (setIndex T ts k b).index ts' k' = if ts' = ts ∧ k' = k then b else T.index ts' k' := rfl

theorem upsert_def (T : Tables) (p : Packet) :
    upsert T p = match T.packets p.key with
      | some e =>
        if moreRecentThan e p then (T, false)
        else (setIndex (setPacket (setIndex T e.ts p.key false) p.key (some p)) p.ts p.key true, true)
      | none => (setIndex (setPacket T p.key (some p)) p.ts p.key true, true) := by
  unfold upsert; cases T.packets p.key <;> simp [moreRecent_eq]

/-- What an upsert does to the packets table. -/
theorem upsert_packets (T : Tables) (p : Packet) (k : Nat) :
    (upsert T p).1.packets k = T.packets k ∨ (k = p.key ∧ (upsert T p).1.packets k = some p) := by
  rw [upsert_def]
  cases hs : T.packets p.key with
  | none =>
    by_cases hk : k = p.key
    · right; exact ⟨hk, by simp [hk]⟩
    · left; simp [hk]
  | some e =>
    by_cases hm : moreRecentThan e p = true
    · left; simp [hm]
    · by_cases hk : k = p.key
      · right; exact ⟨hk, by simp [hm, hk]⟩
      · left; simp [hm, hk]

theorem inv_empty : Inv Tables.empty := by
  intro k p h; simp [Tables.empty] at h

theorem inv_upsert {T : Tables} (h : Inv T) (p : Packet) : Inv (upsert T p).1 := by
  intro k q hq
  rw [upsert_def] at hq ⊢
  cases hs : T.packets p.key with
  | none =>
    rw [hs] at hq; simp only [setIndex_packets, setPacket_packets] at hq ⊢
    by_cases hk : k = p.key
    · simp only [hk, if_true, Option.some.injEq] at hq; subst hq
      exact ⟨hk.symm, by simp [hk]⟩
    · simp only [hk, if_false] at hq
      obtain ⟨h1, h2⟩ := h k q hq
      exact ⟨h1, by simp [hk, h2]⟩
  | some e =>
    rw [hs] at hq
    by_cases hm : moreRecentThan e p = true
    · simp only [hm, if_true] at hq ⊢; exact h k q hq
    · simp only [hm, Bool.false_eq_true, if_false, setIndex_packets, setPacket_packets] at hq ⊢
      by_cases hk : k = p.key
      · simp only [hk, if_true, Option.some.injEq] at hq; subst hq
        exact ⟨hk.symm, by simp [hk]⟩
      · simp only [hk, if_false] at hq
        obtain ⟨h1, h2⟩ := h k q hq
        exact ⟨h1, by simp [hk, h2]⟩

/-- `CheckExpired` keeps the invariant when its `time` is below the cut-off at handling time
(it comes from a scan `range(..expired)` taken earlier with a monotonic clock). -/
theorem inv_checkExpired {T : Tables} (h : Inv T) {ret now time : Nat} (k : Nat)
    (ht : time < cutoff now ret) : Inv (checkExpired ret now T time k) := by
  intro k' q hq
  unfold checkExpired at hq ⊢
  cases hs : T.packets k with
  | none =>
    rw [hs] at hq; simp only [setIndex_packets] at hq ⊢
    obtain ⟨h1, h2⟩ := h k' q hq
    refine ⟨h1, ?_⟩
    simp only [setIndex_index]
    by_cases hc : q.ts = time ∧ k' = k
    · rw [hc.2, hs] at hq; cases hq
    · simp [hc, h2]
  | some p =>
    rw [hs] at hq
    by_cases hex : isExpired p.ts (cutoff now ret) = true
    · simp only [hex, if_true, setPacket_packets, setIndex_packets] at hq ⊢
      by_cases hk : k' = k
      · simp [hk] at hq
      · simp only [hk, if_false] at hq
        obtain ⟨h1, h2⟩ := h k' q hq
        exact ⟨h1, by simp [hk, h2]⟩
    · simp only [hex, Bool.false_eq_true, if_false, setIndex_packets] at hq ⊢
      obtain ⟨h1, h2⟩ := h k' q hq
      refine ⟨h1, ?_⟩
      simp only [setIndex_index]
      by_cases hc : q.ts = time ∧ k' = k
      · exfalso
        rw [hc.2, hs] at hq; cases hq
        rw [isExpired_iff] at hex
        omega
      · simp [hc, h2]

/-- What `CheckExpired` does to the packets table: at most it removes the entry of `k`, and
only if the stored packet is older than the cut-off. -/
theorem checkExpired_packets (ret now : Nat) (T : Tables) (time k k' : Nat) :
    (checkExpired ret now T time k).packets k' = T.packets k' ∨
    (k' = k ∧ (checkExpired ret now T time k).packets k' = none ∧
      ∃ p, T.packets k = some p ∧ p.ts < cutoff now ret) := by
  unfold checkExpired
  cases hs : T.packets k with
  | none => left; rfl
  | some p =>
    by_cases hex : isExpired p.ts (cutoff now ret) = true
    · by_cases hk : k' = k
      · right
        refine ⟨hk, by simp [hex, hk], p, rfl, (isExpired_iff _ _).mp hex⟩
      · left; simp [hex, hk]
    · left; simp [hex]

theorem upsert_notOlder {T : Tables} {p x v : Packet} (hv : T.packets p.key = some v)
    (hx : NotOlder v x) : ∃ v', (upsert T p).1.packets p.key = some v' ∧ NotOlder v' x := by
  rw [upsert_def, hv]
  by_cases h : moreRecentThan v p = true
  · exact ⟨v, by simp [h, hv], hx⟩
  · have h' : moreRecentThan v p = false := by
      cases h'' : moreRecentThan v p <;> simp_all
    exact ⟨p, by simp [h'], mr_neg_trans hx h'⟩

/-- After `upsert p` the table holds for `p.key` a packet at least as recent as `p`. -/
theorem upsert_stores_ge (T : Tables) (p : Packet) :
    ∃ q, (upsert T p).1.packets p.key = some q ∧ NotOlder q p := by
  rw [upsert_def]
  cases hs : T.packets p.key with
  | none => exact ⟨p, by simp, mr_irrefl p⟩
  | some e =>
    by_cases h : moreRecentThan e p = true
    · exact ⟨e, by simp [h, hs], mr_asymm h⟩
    · exact ⟨p, by simp [h], mr_irrefl p⟩

theorem notOlder_ts {q p : Packet} (h : NotOlder q p) : p.ts ≤ q.ts := by
  unfold NotOlder moreRecentThan at h
  by_cases ht : p.ts = q.ts
  · omega
  · simp only [ht, if_false, decide_eq_false_iff_not] at h; omega

end IrohModel.C39
