/-
C39 — the packet store survives crashes consistently and evicts only expired packets.

Model of iroh-dns-server/src/store/signed_packets.rs:

* tables: `signed-packets-1` (key → stored packet) and the multimap `update-time-1`
  ((timestamp, key) entries);
* the actor applies messages inside a write transaction (`pending`) and commits the batch
  (`commit` copies `pending` to `committed`); a crash loses `pending`; reopening starts
  from `committed`.  redb's atomic, durable commit is the assumption that makes this model
  adequate — the harness checks it by replaying every prefix of the logged storage writes;
* `Message::Upsert`, `Message::CheckExpired { time, key }` with the clock value `now` read
  when the message is handled, the eviction scan `range(..expired)` over a snapshot;
* byte level: `serialize` / `deserialize` (with the fallback for rows written without the
  8-byte prefix) over `SignedPacket::from_bytes_unchecked`, whose key / DNS checks are the
  abstract predicates `keyOk` / `dnsOk`.

Core Lean only, executable.
-/
import IrohModel.Generated.C39
import IrohModel.Common.Pkarr
import IrohModel.Common.LTS

namespace IrohModel.C39
open IrohModel.Pkarr

structure Tables where
  /-- packets table: key → stored packet -/
  packets : Nat → Option Packet
  /-- update-time multimap: is `(timestamp, key)` present -/
  index : Nat → Nat → Bool

def Tables.empty : Tables := ⟨fun _ => none, fun _ _ => false⟩

def setPacket (T : Tables) (k : Nat) (v : Option Packet) : Tables :=
  { T with packets := fun k' => if k' = k then v else T.packets k' }

def setIndex (T : Tables) (ts k : Nat) (b : Bool) : Tables :=
  { T with index := fun ts' k' => if ts' = ts ∧ k' = k then b else T.index ts' k' }

def moreRecent (a b : Packet) : Bool := moreRecentBy Generated.C39.tsOp Generated.C39.tieOp a b

/-- `Message::Upsert`: new tables and the flag sent back. -/
def upsert (T : Tables) (p : Packet) : Tables × Bool :=
  match T.packets p.key with
  | some e =>
    if moreRecent e p then (T, false)
    else (setIndex (setPacket (setIndex T e.ts p.key false) p.key (some p)) p.ts p.key true, true)
  | none => (setIndex (setPacket T p.key (some p)) p.ts p.key true, true)

/-- The eviction cut-off for clock value `now` (µs) and retention `ret` (µs):
`now.saturating_sub(ret)`. -/
def cutoff (now ret : Nat) : Nat := now - ret

/-- `packet.timestamp() < expired` with the operator of the source. -/
def isExpired (ts cut : Nat) : Bool :=
  cmpBy Generated.C39.expiredOp (decide (ts < cut)) (decide (cut < ts))

/-- `Message::CheckExpired { time, key }` handled when the clock reads `now`. -/
def checkExpired (ret now : Nat) (T : Tables) (time k : Nat) : Tables :=
  match T.packets k with
  | some p =>
    if isExpired p.ts (cutoff now ret) then setPacket (setIndex T time k false) k none
    else setIndex T time k false
  | none => setIndex T time k false

inductive Msg where
  | upsert (p : Packet)
  | checkExpired (now time key : Nat)
deriving Repr

def applyMsg (ret : Nat) (T : Tables) : Msg → Tables
  | .upsert p => (upsert T p).1
  | .checkExpired now time k => checkExpired ret now T time k

structure Db where
  committed : Tables
  pending : Tables

inductive Ev where
  | msg (m : Msg)
  | commit
  /-- crash followed by reopening the database -/
  | crash
deriving Repr

def Db.empty : Db := ⟨Tables.empty, Tables.empty⟩

def stepDb (ret : Nat) (db : Db) : Ev → Db
  | .msg m => { db with pending := applyMsg ret db.pending m }
  | .commit => { committed := db.pending, pending := db.pending }
  | .crash => { committed := db.committed, pending := db.committed }

def runDb (ret : Nat) (db : Db) (evs : List Ev) : Db := evs.foldl (stepDb ret) db

/-- The `CheckExpired` messages one eviction scan sends: the index entries below the cut-off
(`range(..expired)`), here restricted to the candidate entries `cands` (the finite content
of the snapshot's index). -/
def scan (ret now : Nat) (T : Tables) (cands : List (Nat × Nat)) : List (Nat × Nat) :=
  cands.filter fun (ts, k) => T.index ts k && decide (ts < cutoff now ret)

/-! ### The eviction pass as separate steps, interleaved with publishes

`evict_task_inner` takes a `Snapshot` of the update-time index, reads the entries below the
cut-off and sends one `CheckExpired { time, key }` per entry; the actor handles each of them
later, with the clock value and the *stored packet* of that later moment, and publishes for
the same key can be handled in between.  (A snapshot sees committed data only; this LTS is
over one table state, i.e. snapshots are taken when no batch is open.) -/

structure EState where
  tables : Tables
  /-- `CheckExpired` messages sent by eviction passes and not yet handled -/
  queue : List (Nat × Nat)
  /-- the clock (µs); it never goes back -/
  clock : Nat

inductive ELabel where
  /-- time passes -/
  | tick (d : Nat)
  /-- an eviction pass reads a snapshot (whose index entries are `cands`) and enqueues its messages -/
  | snapshot (cands : List (Nat × Nat))
  /-- the actor handles the oldest queued `CheckExpired` -/
  | check
  /-- the actor handles an upsert -/
  | publish (p : Packet)

def estep (ret : Nat) (s : EState) : ELabel → Option EState
  | .tick d => some { s with clock := s.clock + d }
  | .snapshot cands => some { s with queue := s.queue ++ scan ret s.clock s.tables cands }
  | .check =>
    match s.queue with
    | [] => none
    | (t, k) :: q => some { s with tables := checkExpired ret s.clock s.tables t k, queue := q }
  | .publish p => some { s with tables := (upsert s.tables p).1 }

def esys (ret : Nat) (T : Tables) (clock : Nat) : LTS.System EState ELabel :=
  { init := ⟨T, [], clock⟩, step := estep ret }

/-! ### Byte level -/

abbrev Bytes := List UInt8

/-- `SignedPacket::from_bytes_unchecked`: length bounds, key check, DNS parse. -/
def parseUnchecked (keyOk dnsOk : Bytes → Bool) (bs : Bytes) : Option Bytes :=
  if bs.length < Generated.C39.headerSize then none
  else if bs.length > Generated.C39.headerSize + Generated.C39.maxDnsPacketSize then none
  else if !keyOk (bs.take 32) then none
  else if !dnsOk (bs.drop Generated.C39.headerSize) then none
  else some bs

/-- `serialize`: `<8 bytes last_seen><packet bytes>`. -/
def serialize (lastSeen : Bytes) (packet : Bytes) : Bytes := lastSeen ++ packet

/-- `deserialize`: the prefixed format first, then the raw packet (rows of older versions). -/
def deserialize (keyOk dnsOk : Bytes → Bool) (data : Bytes) : Option Bytes :=
  if data.length ≥ Generated.C39.lastSeenPrefixLen then
    match parseUnchecked keyOk dnsOk (data.drop Generated.C39.lastSeenPrefixLen) with
    | some p => some p
    | none => parseUnchecked keyOk dnsOk data
  else parseUnchecked keyOk dnsOk data

end IrohModel.C39
