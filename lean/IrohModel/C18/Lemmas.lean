import IrohModel.C18.Model

namespace IrohModel.C18

theorem findAddr_cons (key : Nat) (a : Octets) (as : List (Nat × Octets)) (l : List (Octets × Nat))
    (l' : List (Octets × Nat)) (key' : Nat) :
    findAddr ⟨(key, a) :: as, l'⟩ key' = if key = key' then some a else findAddr ⟨as, l⟩ key' := by
  unfold findAddr
  by_cases h : key = key'
  · simp [h]
  · have : (key == key') = false := by simpa using h
    simp [this, h]

theorem findKey_cons (a : Octets) (key : Nat) (as as' : List (Nat × Octets)) (l : List (Octets × Nat))
    (a' : Octets) :
    findKey ⟨as', (a, key) :: l⟩ a' = if a = a' then some key else findKey ⟨as, l⟩ a' := by
  unfold findKey
  by_cases h : a = a'
  · simp [h]
  · have : (a == a') = false := by simpa using h
    simp [this, h]

/-- The two tables are mutually inverse partial functions. -/
def Bij (m : AddrMap) : Prop :=
  ∀ key a, findAddr m key = some a ↔ findKey m a = some key

/-- Every stored address lies in the reserved range of the map's kind. -/
def AllKind (k : Kind) (m : AddrMap) : Prop :=
  ∀ key a, findAddr m key = some a → isKind k a = true

theorem firstFresh_spec (m : AddrMap) (k : Kind) (cs : List Nat) (n : Nat) (a : Octets) (n' : Nat)
    (h : firstFresh m k cs n = some (a, n')) :
    findKey m a = none ∧ ∃ hb, hb ∈ cs ∧ a = generate k hb := by
  induction cs generalizing n with
  | nil => simp [firstFresh] at h
  | cons c cs ih =>
    simp only [firstFresh] at h
    split at h
    · rename_i hf
      simp only [Option.some.injEq, Prod.mk.injEq] at h
      obtain ⟨rfl, _⟩ := h
      exact ⟨by simpa using hf, c, by simp, rfl⟩
    · obtain ⟨h1, hb, h2, h3⟩ := ih _ h
      exact ⟨h1, hb, by simp [h2], h3⟩

/-- What `get` does, as a specification. -/
theorem get_spec (m m' : AddrMap) (k : Kind) (key : Nat) (cs : List Nat) (a : Octets) (n : Nat)
    (h : get m k key cs = some (m', a, n)) :
    (findAddr m key = some a ∧ m' = m ∧ n = 0) ∨
    (findAddr m key = none ∧ findKey m a = none ∧ (∃ hb, hb ∈ cs ∧ a = generate k hb) ∧
      m' = ⟨(key, a) :: m.addrs, (a, key) :: m.lookup⟩) := by
  unfold get at h
  split at h
  · rename_i a0 h0
    simp only [Option.some.injEq, Prod.mk.injEq] at h
    obtain ⟨rfl, rfl, rfl⟩ := h
    exact Or.inl ⟨h0, rfl, rfl⟩
  · rename_i h0
    split at h
    · simp at h
    · rename_i a1 n1 h1
      simp only [Option.some.injEq, Prod.mk.injEq] at h
      obtain ⟨rfl, rfl, rfl⟩ := h
      obtain ⟨hf, hg⟩ := firstFresh_spec _ _ _ _ _ _ h1
      exact Or.inr ⟨h0, hf, hg, rfl⟩

theorem bij_insert (m : AddrMap) (key : Nat) (a : Octets) (hb : Bij m)
    (h1 : findAddr m key = none) (h2 : findKey m a = none) :
    Bij ⟨(key, a) :: m.addrs, (a, key) :: m.lookup⟩ := by
  intro key' a'
  rw [findAddr_cons key a m.addrs m.lookup, findKey_cons a key m.addrs _ m.lookup]
  have hm : (⟨m.addrs, m.lookup⟩ : AddrMap) = m := rfl
  rw [hm]
  by_cases hk : key = key'
  · subst hk
    by_cases ha : a = a'
    · subst ha; simp
    · simp only [if_true, if_neg ha, Option.some.injEq]
      constructor
      · intro h; exact absurd h ha
      · intro h; have := (hb key a').2 h; rw [h1] at this; cases this
  · by_cases ha : a = a'
    · subst ha
      simp only [if_neg hk, if_true, Option.some.injEq]
      constructor
      · intro h; have := (hb key' a).1 h; rw [h2] at this; cases this
      · intro h; exact absurd h hk
    · simp only [if_neg hk, if_neg ha]
      exact hb key' a'

theorem isKind_generate (k : Kind) (hk : k ≠ .ip) (h : Nat) : isKind k (generate k h) = true := by
  cases k <;> first | exact absurd rfl hk | (simp [isKind, generate, prefixOf, ulaPrefix, subnetOf, be8])

end IrohModel.C18
