/-
C18 — mapped addresses.  Model of `iroh/src/socket/mapped_addrs.rs`:
`AddrMap::{get, lookup}` (two hash maps under ONE mutex: every operation is
atomic, so an interleaving of concurrent calls is a sequence of operations) and
`MultipathMappedAddr::from` (classification by ULA prefix + subnet).

The random source of `generate()` is an *input*: each `get` receives the stream
of host-bit candidates the generator would produce.
-/
import IrohModel.Generated.C18

namespace IrohModel.C18
open IrohModel.Generated.C18

/-- An IPv6 address as its 16 octets (any list; classification looks at the first 8). -/
abbrev Octets := List UInt8

inductive Kind where
  | mixed | relay | custom | ip
deriving DecidableEq, Repr

/-- `[ADDR_PREFIXL] ++ ADDR_GLOBAL_ID` -/
def ulaPrefix : List UInt8 :=
  [UInt8.ofNat addrPrefixL, UInt8.ofNat globalId0, UInt8.ofNat globalId1, UInt8.ofNat globalId2,
   UInt8.ofNat globalId3, UInt8.ofNat globalId4]

def subnetOf : Kind → List UInt8
  | .mixed => [UInt8.ofNat endpointSubnet0, UInt8.ofNat endpointSubnet1]
  | .relay => [UInt8.ofNat relaySubnet0, UInt8.ofNat relaySubnet1]
  | .custom => [UInt8.ofNat customSubnet0, UInt8.ofNat customSubnet1]
  | .ip => []

/-- The reserved /64 prefix of a mapped kind. -/
def prefixOf (k : Kind) : List UInt8 := ulaPrefix ++ subnetOf k

/-- `TryFrom<Ipv6Addr>` of the three mapped address types:
`octets[0] == PREFIXL && octets[1..6] == GLOBAL_ID && octets[6..8] == SUBNET`. -/
def isKind (k : Kind) (a : Octets) : Bool :=
  k != .ip && a.length == 16 && a.take 8 == prefixOf k

/-- `MultipathMappedAddr::from` for an IPv6 socket address (order of tests as in the code). -/
def classifyV6 (a : Octets) : Kind :=
  if isKind .mixed a then .mixed
  else if isKind .relay a then .relay
  else if isKind .custom a then .custom
  else .ip

/-- `MultipathMappedAddr::from`: IPv4 is always `Ip`. -/
def classify (isV4 : Bool) (a : Octets) : Kind :=
  if isV4 then .ip else classifyV6 a

/-- Big-endian 8 octets of a 64-bit value (`u64::to_be_bytes`). -/
def be8 (h : Nat) : List UInt8 :=
  [UInt8.ofNat (h / 2^56), UInt8.ofNat (h / 2^48), UInt8.ofNat (h / 2^40), UInt8.ofNat (h / 2^32),
   UInt8.ofNat (h / 2^24), UInt8.ofNat (h / 2^16), UInt8.ofNat (h / 2^8), UInt8.ofNat h]

/-- `generate()` with host bits `h`. -/
def generate (k : Kind) (h : Nat) : Octets := prefixOf k ++ be8 h

/-- `AddrMapInner`: the forward and the reverse table, as association lists
(newest first; keys are never overwritten). -/
structure AddrMap where
  addrs : List (Nat × Octets)
  lookup : List (Octets × Nat)
deriving Repr

def AddrMap.empty : AddrMap := ⟨[], []⟩

def findAddr (m : AddrMap) (key : Nat) : Option Octets :=
  (m.addrs.find? (·.1 == key)).map (·.2)

def findKey (m : AddrMap) (a : Octets) : Option Nat :=
  (m.lookup.find? (·.1 == a)).map (·.2)

/-- The `loop { candidate = generate(); if !lookup.contains_key(candidate) break }`:
first candidate not in the reverse table, with the number of candidates consumed.
`none` = the given (finite) stream had no fresh candidate. -/
def firstFresh (m : AddrMap) (k : Kind) : List Nat → Nat → Option (Octets × Nat)
  | [], _ => none
  | h :: hs, n =>
    let c := generate k h
    if (findKey m c).isNone then some (c, n + 1) else firstFresh m k hs (n + 1)

/-- `AddrMap::get`.  Returns the new state, the address, and how many candidates were drawn. -/
def get (m : AddrMap) (k : Kind) (key : Nat) (cands : List Nat) : Option (AddrMap × Octets × Nat) :=
  match findAddr m key with
  | some a => some (m, a, 0)
  | none =>
    match firstFresh m k cands 0 with
    | none => none
    | some (a, n) => some (⟨(key, a) :: m.addrs, (a, key) :: m.lookup⟩, a, n)

/-- `AddrMap::lookup` behind the `TryFrom<Ipv6Addr>` of the map's address type. -/
def lookupAddr (m : AddrMap) (k : Kind) (a : Octets) : Option (Option Nat) :=
  if isKind k a then some (findKey m a) else none

end IrohModel.C18

namespace IrohModel.C18

/-- What `to_transport_addr` (socket/remote_map.rs) yields. -/
inductive Transport where
  | ip
  | relay (key : Nat)
  | custom (key : Nat)
deriving DecidableEq, Repr

/-- `to_transport_addr(addr, relay_addrs, custom_addrs)`: classify the socket address, then
translate a relay / custom mapped address back through the corresponding table; a mixed
(endpoint-id) mapped address has no transport address; an unknown mapped address gives `none`. -/
def toTransport (relay custom : AddrMap) (isV4 : Bool) (a : Octets) : Option Transport :=
  match classify isV4 a with
  | .mixed => none
  | .relay => (findKey relay a).map .relay
  | .custom => (findKey custom a).map .custom
  | .ip => some .ip

end IrohModel.C18
