/-
C18 — property theorems.

"Each key gets exactly one synthetic address, which never changes and is never
shared with another key, whatever the order and concurrency of lookups.
Translating a synthetic address back yields exactly its key, and every
synthetic address is recognised as the right kind while no ordinary address is
mistaken for one unless it lies in iroh's reserved range."

Concurrency: every `AddrMap` operation runs entirely under the map's single
mutex, so an execution of concurrent calls is some sequence of atomic
operations; the theorems quantify over ALL sequences (any length, any keys, any
candidate streams produced by the random generator).
-/
import IrohModel.C18.Lemmas

namespace IrohModel.C18

/-- An operation on one map: `get key` with the candidate stream the generator yields. -/
abbrev GetOp := Nat × List Nat

/-- Run a sequence of `get`s.  A `get` whose (finite) candidate stream contains no
fresh address does not return in the real code (it keeps drawing); it contributes no
completed operation and leaves the state unchanged. -/
def runGets (k : Kind) : AddrMap → List GetOp → AddrMap
  | m, [] => m
  | m, (key, cs) :: ops =>
    match get m k key cs with
    | some (m', _, _) => runGets k m' ops
    | none => runGets k m ops

/-- One `get` preserves the bijection and the kind invariant. -/
theorem get_preserves (m m' : AddrMap) (k : Kind) (hk : k ≠ .ip) (key : Nat) (cs : List Nat) (a : Octets)
    (n : Nat) (h : get m k key cs = some (m', a, n)) (hb : Bij m) (hall : AllKind k m) :
    Bij m' ∧ AllKind k m' ∧ findAddr m' key = some a := by
  rcases get_spec _ _ _ _ _ _ _ h with ⟨h0, rfl, _⟩ | ⟨h0, h1, ⟨hbits, _, rfl⟩, rfl⟩
  · exact ⟨hb, hall, h0⟩
  · refine ⟨bij_insert m key _ hb h0 h1, ?_, ?_⟩
    · intro key' a' hf
      rw [findAddr_cons key _ m.addrs m.lookup] at hf
      by_cases hkk : key = key'
      · simp only [hkk, if_true, Option.some.injEq] at hf
        subst hf; exact isKind_generate k hk hbits
      · simp only [if_neg hkk] at hf
        exact hall key' a' hf
    · rw [findAddr_cons key _ m.addrs m.lookup]; simp

/-- **bijection_inv** — in every reachable state the forward and reverse tables are
mutually inverse partial functions, and all stored addresses are of the map's kind. -/
theorem bijection_inv (k : Kind) (hk : k ≠ .ip) (ops : List GetOp) :
    Bij (runGets k AddrMap.empty ops) ∧ AllKind k (runGets k AddrMap.empty ops) := by
  suffices H : ∀ m, Bij m → AllKind k m → Bij (runGets k m ops) ∧ AllKind k (runGets k m ops) by
    apply H
    · intro key a; simp [findAddr, findKey, AddrMap.empty]
    · intro key a; simp [findAddr, AddrMap.empty]
  induction ops with
  | nil => intro m hb ha; exact ⟨hb, ha⟩
  | cons op ops ih =>
    intro m hb ha
    obtain ⟨key, cs⟩ := op
    simp only [runGets]
    split
    · rename_i m' a n hg
      obtain ⟨hb', ha', _⟩ := get_preserves m m' k hk key cs a n hg hb ha
      exact ih m' hb' ha'
    · exact ih m hb ha

/-- A mapping, once present, is present in every later state (entries are never
removed or overwritten). -/
theorem mapping_persists (k : Kind) (m : AddrMap) (ops : List GetOp) (key : Nat) (a : Octets)
    (h : findAddr m key = some a) : findAddr (runGets k m ops) key = some a := by
  induction ops generalizing m with
  | nil => exact h
  | cons op ops ih =>
    obtain ⟨key', cs⟩ := op
    simp only [runGets]
    split
    · rename_i m' a' n hg
      apply ih
      rcases get_spec _ _ _ _ _ _ _ hg with ⟨_, rfl, _⟩ | ⟨h0, _, _, rfl⟩
      · exact h
      · rw [findAddr_cons key' _ m.addrs m.lookup]
        by_cases hkk : key' = key
        · subst hkk; rw [h] at h0; cases h0
        · simp only [if_neg hkk]; exact h
    · exact ih m h

/-- **stable** — whatever happens in between (any operations on any keys with any
candidate streams), a later `get` of the same key returns the same address. -/
theorem stable (k : Kind) (m m1 : AddrMap) (key : Nat) (cs cs' : List Nat) (a : Octets) (n : Nat)
    (ops : List GetOp) (h : get m k key cs = some (m1, a, n)) :
    get (runGets k m1 ops) k key cs' = some (runGets k m1 ops, a, 0) := by
  have h1 : findAddr m1 key = some a := by
    rcases get_spec _ _ _ _ _ _ _ h with ⟨h0, rfl, _⟩ | ⟨_, _, _, rfl⟩
    · exact h0
    · rw [findAddr_cons key _ m.addrs m.lookup]; simp
  have h2 := mapping_persists k m1 ops key a h1
  simp [get, h2]

/-- **unique** — in every reachable state two different keys never share an address. -/
theorem unique (k : Kind) (hk : k ≠ .ip) (ops : List GetOp) (key1 key2 : Nat) (a : Octets)
    (h1 : findAddr (runGets k AddrMap.empty ops) key1 = some a)
    (h2 : findAddr (runGets k AddrMap.empty ops) key2 = some a) : key1 = key2 := by
  have hb := (bijection_inv k hk ops).1
  have e1 := (hb key1 a).1 h1
  have e2 := (hb key2 a).1 h2
  rw [e1] at e2; exact Option.some.inj e2

/-- **lookup_get** — translating the address returned by `get` back yields exactly its key,
in the state right after the call and in every later state. -/
theorem lookup_get (k : Kind) (hk : k ≠ .ip) (ops ops' : List GetOp) (key : Nat) (cs : List Nat)
    (m1 : AddrMap) (a : Octets) (n : Nat)
    (h : get (runGets k AddrMap.empty ops) k key cs = some (m1, a, n)) :
    lookupAddr (runGets k m1 ops') k a = some (some key) := by
  obtain ⟨hb0, ha0⟩ := bijection_inv k hk ops
  obtain ⟨_, _, hf⟩ := get_preserves _ m1 k hk key cs a n h hb0 ha0
  have hreach : runGets k m1 ops' = runGets k AddrMap.empty (ops ++ (key, cs) :: ops') := by
    have gen : ∀ (m : AddrMap) (xs ys : List GetOp), runGets k m (xs ++ ys) = runGets k (runGets k m xs) ys := by
      intro m xs ys
      induction xs generalizing m with
      | nil => rfl
      | cons x xs ih => obtain ⟨kx, cx⟩ := x; simp only [List.cons_append, runGets]; split <;> exact ih _
    rw [gen]; simp only [runGets, h]
  have hp := mapping_persists k m1 ops' key a hf
  rw [hreach] at hp ⊢
  obtain ⟨hb, ha⟩ := bijection_inv k hk (ops ++ (key, cs) :: ops')
  simp [lookupAddr, ha key a hp, (hb key a).1 hp]

/-- Reverse direction: a successful reverse lookup names the key whose `get` returns that address. -/
theorem get_lookup (k : Kind) (hk : k ≠ .ip) (ops : List GetOp) (a : Octets) (key : Nat)
    (h : lookupAddr (runGets k AddrMap.empty ops) k a = some (some key)) :
    findAddr (runGets k AddrMap.empty ops) key = some a := by
  unfold lookupAddr at h
  split at h
  · exact ((bijection_inv k hk ops).1 key a).2 (Option.some.inj h)
  · cases h

/-- **prefixes_disjoint** — the three reserved prefixes are pairwise different. -/
theorem prefixes_disjoint :
    prefixOf .mixed ≠ prefixOf .relay ∧ prefixOf .mixed ≠ prefixOf .custom ∧
    prefixOf .relay ≠ prefixOf .custom := by decide

theorem isKind_iff (k : Kind) (hk : k ≠ .ip) (a : Octets) :
    isKind k a = true ↔ (a.length = 16 ∧ a.take 8 = prefixOf k) := by
  cases k <;> first | exact absurd rfl hk | simp [isKind]

/-- **classify_iff_prefix** — an IPv6 address is taken for a mapped kind exactly when its first
eight octets are that kind's reserved prefix; everything else is an ordinary IP address. -/
theorem classify_iff_prefix (a : Octets) (k : Kind) (hk : k ≠ .ip) :
    classify false a = k ↔ (a.length = 16 ∧ a.take 8 = prefixOf k) := by
  obtain ⟨d1, d2, d3⟩ := prefixes_disjoint
  have im := isKind_iff .mixed (by decide) a
  have ir := isKind_iff .relay (by decide) a
  have ic := isKind_iff .custom (by decide) a
  simp only [classify, classifyV6, Bool.false_eq_true, if_false]
  by_cases hm : isKind .mixed a = true
  · have hm' := im.1 hm
    cases k <;> first | exact absurd rfl hk | skip
    · simp [hm, hm']
    · simp only [hm, if_true]; constructor
      · intro h; cases h
      · intro ⟨_, h⟩; rw [hm'.2] at h; exact absurd h d1
    · simp only [hm, if_true]; constructor
      · intro h; cases h
      · intro ⟨_, h⟩; rw [hm'.2] at h; exact absurd h d2
  · have hm' : ¬ (a.length = 16 ∧ a.take 8 = prefixOf .mixed) := fun h => hm (im.2 h)
    simp only [hm, Bool.false_eq_true, if_false]
    by_cases hr : isKind .relay a = true
    · have hr' := ir.1 hr
      cases k <;> first | exact absurd rfl hk | skip
      · simp only [hr, if_true]; constructor
        · intro h; cases h
        · intro h; exact absurd h hm'
      · simp [hr, hr']
      · simp only [hr, if_true]; constructor
        · intro h; cases h
        · intro ⟨_, h⟩; rw [hr'.2] at h; exact absurd h d3
    · have hr' : ¬ (a.length = 16 ∧ a.take 8 = prefixOf .relay) := fun h => hr (ir.2 h)
      simp only [hr, Bool.false_eq_true, if_false]
      by_cases hc : isKind .custom a = true
      · have hc' := ic.1 hc
        cases k <;> first | exact absurd rfl hk | skip
        · simp only [hc, if_true]; constructor
          · intro h; cases h
          · intro h; exact absurd h hm'
        · simp only [hc, if_true]; constructor
          · intro h; cases h
          · intro h; exact absurd h hr'
        · simp [hc, hc']
      · have hc' : ¬ (a.length = 16 ∧ a.take 8 = prefixOf .custom) := fun h => hc (ic.2 h)
        simp only [hc, Bool.false_eq_true, if_false]
        cases k <;> first | exact absurd rfl hk | skip
        · constructor
          · intro h; cases h
          · intro h; exact absurd h hm'
        · constructor
          · intro h; cases h
          · intro h; exact absurd h hr'
        · constructor
          · intro h; cases h
          · intro h; exact absurd h hc'

/-- An IPv6 address outside the three reserved prefixes is an ordinary IP address. -/
theorem classify_ip_iff (a : Octets) :
    classify false a = .ip ↔ ∀ k, k ≠ .ip → ¬ (a.length = 16 ∧ a.take 8 = prefixOf k) := by
  constructor
  · intro h k hk hp
    have := (classify_iff_prefix a k hk).2 hp
    rw [h] at this; exact hk this.symm
  · intro h
    cases hc : classify false a with
    | ip => rfl
    | mixed => exact absurd ((classify_iff_prefix a .mixed (by decide)).1 hc) (h _ (by decide))
    | relay => exact absurd ((classify_iff_prefix a .relay (by decide)).1 hc) (h _ (by decide))
    | custom => exact absurd ((classify_iff_prefix a .custom (by decide)).1 hc) (h _ (by decide))

/-- **classify_generated** — every synthetic address is recognised as its own kind. -/
theorem classify_generated (k : Kind) (hk : k ≠ .ip) (h : Nat) : classify false (generate k h) = k := by
  rw [classify_iff_prefix _ _ hk]
  cases k <;> first | exact absurd rfl hk | simp [generate, prefixOf, ulaPrefix, subnetOf, be8]

/-- **v4_is_ip** — an IPv4 socket address is never mistaken for a mapped address. -/
theorem v4_is_ip (a : Octets) : classify true a = .ip := rfl

/-- The reserved prefixes are the documented ones: fd15:070a:510b:{0000,0001,0003}::/64. -/
theorem prefix_values :
    prefixOf .mixed = [0xfd, 0x15, 0x07, 0x0a, 0x51, 0x0b, 0x00, 0x00] ∧
    prefixOf .relay = [0xfd, 0x15, 0x07, 0x0a, 0x51, 0x0b, 0x00, 0x01] ∧
    prefixOf .custom = [0xfd, 0x15, 0x07, 0x0a, 0x51, 0x0b, 0x00, 0x03] := by decide


/-! ### translation back to transport addresses (`to_transport_addr`) -/

theorem classify_of_isKind (k : Kind) (hk : k ≠ .ip) (a : Octets) (h : isKind k a = true) :
    classify false a = k :=
  (classify_iff_prefix a k hk).2 ((isKind_iff k hk a).1 h)

/-- **to_transport_relay** — the address `get` handed out for relay key `key` translates back to
exactly that key, in the state right after the call and after any further operations on either
table. -/
theorem to_transport_relay (ops ops' : List GetOp) (custom : AddrMap) (key : Nat) (cs : List Nat)
    (m1 : AddrMap) (a : Octets) (n : Nat)
    (h : get (runGets .relay AddrMap.empty ops) .relay key cs = some (m1, a, n)) :
    toTransport (runGets .relay m1 ops') custom false a = some (.relay key) := by
  have hl := lookup_get .relay (by decide) ops ops' key cs m1 a n h
  unfold lookupAddr at hl
  split at hl
  · rename_i hk
    simp only [Option.some.injEq] at hl
    simp [toTransport, classify_of_isKind .relay (by decide) a hk, hl]
  · cases hl

/-- The same for custom-transport keys. -/
theorem to_transport_custom (ops ops' : List GetOp) (relay : AddrMap) (key : Nat) (cs : List Nat)
    (m1 : AddrMap) (a : Octets) (n : Nat)
    (h : get (runGets .custom AddrMap.empty ops) .custom key cs = some (m1, a, n)) :
    toTransport relay (runGets .custom m1 ops') false a = some (.custom key) := by
  have hl := lookup_get .custom (by decide) ops ops' key cs m1 a n h
  unfold lookupAddr at hl
  split at hl
  · rename_i hk
    simp only [Option.some.injEq] at hl
    simp [toTransport, classify_of_isKind .custom (by decide) a hk, hl]
  · cases hl

/-- **to_transport_sound** — a relay translation names a key whose own address it is (never
another key's), in every reachable state of the relay table. -/
theorem to_transport_sound (ops : List GetOp) (custom : AddrMap) (isV4 : Bool) (a : Octets) (key : Nat)
    (h : toTransport (runGets .relay AddrMap.empty ops) custom isV4 a = some (.relay key)) :
    findAddr (runGets .relay AddrMap.empty ops) key = some a := by
  unfold toTransport at h
  split at h
  · cases h
  · cases hf : findKey (runGets .relay AddrMap.empty ops) a with
    | none => simp [hf] at h
    | some k =>
      simp only [hf, Option.map_some, Option.some.injEq, Transport.relay.injEq] at h
      subst h
      exact ((bijection_inv .relay (by decide) ops).1 k a).2 hf
  · cases hf : findKey custom a <;> simp [hf] at h
  · cases h

/-- **to_transport_ip** — an address outside the reserved prefixes (and every IPv4 address) is
passed through as an IP transport address; an endpoint-id mapped address has none. -/
theorem to_transport_ip (relay custom : AddrMap) (isV4 : Bool) (a : Octets) :
    (classify isV4 a = .ip → toTransport relay custom isV4 a = some .ip) ∧
    (classify isV4 a = .mixed → toTransport relay custom isV4 a = none) := by
  constructor <;> intro h <;> simp [toTransport, h]

/-- **to_transport_unknown** — a relay / custom mapped address nobody was given yields nothing. -/
theorem to_transport_unknown (relay custom : AddrMap) (a : Octets) :
    (classify false a = .relay → findKey relay a = none → toTransport relay custom false a = none) ∧
    (classify false a = .custom → findKey custom a = none → toTransport relay custom false a = none) := by
  constructor <;> intro h hf <;> simp [toTransport, h, hf]

example : toTransport (runGets .relay AddrMap.empty [(4, [9])]) AddrMap.empty false (generate .relay 9)
    = some (.relay 4) := by decide
example : toTransport AddrMap.empty AddrMap.empty false (generate .relay 9) = none := by decide

-- Non-vacuity: a run with a forced collision (key 2's first candidates collide with key 1's address).
example :
    let m := runGets .mixed AddrMap.empty [(1, [5]), (2, [5, 5, 6])]
    findAddr m 1 = some (generate .mixed 5) ∧ findAddr m 2 = some (generate .mixed 6) ∧
    lookupAddr m .mixed (generate .mixed 6) = some (some 2) := by decide
example : (get AddrMap.empty .relay 7 [9]).map (fun r => (r.2.1, r.2.2)) = some (generate .relay 9, 1) := by
  decide

end IrohModel.C18
