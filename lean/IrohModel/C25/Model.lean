/-
C25 — `DirectAddrUpdateState` (iroh/src/socket.rs): scheduling of net-report runs.

```rust
fn schedule_run(&mut self, why, if_state) {                     -- actor: a trigger (timer, link change, …)
    match self.net_reporter.clone().try_lock_owned() {          --   step `reqTry`
        Ok(guard) => self.run(why, if_state, guard),            --     (start, same step)
        Err(_)    => { let _ = self.want_update.insert(why); }  --   step `reqDefer`
    }
}
fn try_run(&mut self, if_state) {                               -- actor: reaction to one done signal
    match self.net_reporter.clone().try_lock_owned() {          --   step `onDone` (pops the signal)
        Ok(guard) => if let Some(why) = self.want_update.take() { self.run(why, if_state, guard) }
        Err(_)    => {}                                         --     nothing
    }
}
fn run(&mut self, why, if_state, mut net_reporter: OwnedMutexGuard<..>) {
    if shutdown || relay_map.is_empty() { …; return }           -- mode `skip`: guard dropped at once
    task::spawn(async move {                                    -- mode `run`: the task owns the guard
        … net_reporter.get_report(..) …; sock.net_report.set(..)   -- step `report`
        drop(net_reporter);                                     -- step `release`
        run_done.send(()).await.ok();                           -- step `signal` (bounded channel)
    });
}
```
`Actor::run` (one task) calls `re_stun → schedule_run` on its triggers and `try_run` for every
message on `direct_addr_done_rx`.

Before the repair of defect D9 (commit `fix: release the net reporter before signalling …`) the
task sent the done signal first and dropped the guard when it ended.  The model is parametrised by
`rf : Bool` ("release first"); `rf = true` is the code as it is (the generated constant
`Generated.C25.releaseFirst` is re-read from the source on every run), `rf = false` the unrepaired
order on which the counterexample is proved.

Model: a labelled transition system.  The actor is one sequential thread (its `schedule_run` is
split at the only point where the run task can interleave: between the failed `try_lock` and the
write of `want_update`); run tasks are counted per phase (they are indistinguishable): `nStarted`
(lock held, report not stored), `nReported` (report stored, lock held), `nReleased` (lock dropped,
signal not sent — repaired order), `nSignalled` (signal sent, lock still held — unrepaired order).
`lock` is the `AsyncMutex` around the net-report client (trusted: `try_lock` succeeds iff free),
`doneQ` the number of done signals in the bounded channel (`send` waits while it is full).
Atomicity: each label is one step; `try_lock`+start, `try_lock`+`take`+start are sync code of the
single actor thread in which only the lock acquisition touches shared state.  The environment
chooses at each start whether `run` spawns a report task (`Mode.run`) or returns early
(`Mode.skip`: relay map empty / shutting down).

`log` (newest first) records the decisions exactly as the hook trace of the real code does.
Executable, core Lean only.
-/
import IrohModel.Generated.C25

namespace IrohModel.C25

/-- `UpdateReason` (without the never-requested `None`). -/
inductive Why where
  | periodic | portmapUpdated | linkChangeMajor | linkChangeMinor | relayMapChange
deriving DecidableEq, Repr

/-- Whether `run` spawns a report task or returns early. -/
inductive Mode where
  | run | skip
deriving DecidableEq, Repr

inductive ActorPC where
  | idle
  /-- `schedule_run why`: `try_lock` failed, `want_update` not yet written -/
  | deferring (w : Why)
deriving DecidableEq, Repr

inductive Event where
  | reqStarted (w : Why) | reqDeferred (w : Why)
  | doneStarted (w : Why) | doneIdle | doneLocked
  | spawn | skip | reported | releasing | signalled
deriving DecidableEq, Repr

inductive Label where
  | reqTry (w : Why) (m : Mode)
  | reqDefer
  | onDone (m : Mode)
  | report
  | release
  | signal
deriving DecidableEq, Repr

structure State where
  want : Option Why
  lock : Bool
  nStarted : Nat
  nReported : Nat
  nSignalled : Nat
  nReleased : Nat
  doneQ : Nat
  actor : ActorPC
  /-- newest event first -/
  log : List Event

def init : State := ⟨none, false, 0, 0, 0, 0, 0, .idle, []⟩

/-- Capacity of the done channel (`mpsc::channel(8)`), regenerated from the source. -/
abbrev doneCap : Nat := Generated.C25.doneCap

/-- `run(why, …, guard)` with the lock just acquired; `ev` is the decision that led to it. -/
def start (s : State) (m : Mode) (ev : Event) : State :=
  match m with
  | .run => { s with lock := true, nStarted := s.nStarted + 1, log := .spawn :: ev :: s.log }
  | .skip => { s with log := .skip :: ev :: s.log }

/-- One atomic step; `none` when the label is not enabled.  `rf`: the run task releases the lock
before it signals. -/
def step (rf : Bool) (s : State) : Label → Option State
  | .reqTry w m =>
    match s.actor with
    | .idle => if s.lock then some { s with actor := .deferring w } else some (start s m (.reqStarted w))
    | _ => none
  | .reqDefer =>
    match s.actor with
    | .deferring w => some { s with want := some w, actor := .idle, log := .reqDeferred w :: s.log }
    | _ => none
  | .onDone m =>
    match s.actor with
    | .idle =>
      if s.doneQ = 0 then none
      else if s.lock then some { s with doneQ := s.doneQ - 1, log := .doneLocked :: s.log }
      else match s.want with
        | some w => some (start { s with doneQ := s.doneQ - 1, want := none } m (.doneStarted w))
        | none => some { s with doneQ := s.doneQ - 1, log := .doneIdle :: s.log }
    | _ => none
  | .report =>
    if s.nStarted = 0 then none
    else some { s with nStarted := s.nStarted - 1, nReported := s.nReported + 1, log := .reported :: s.log }
  | .release =>
    if rf then
      if s.nReported = 0 then none
      else some { s with nReported := s.nReported - 1, nReleased := s.nReleased + 1, lock := false,
                         log := .releasing :: s.log }
    else
      if s.nSignalled = 0 then none
      else some { s with nSignalled := s.nSignalled - 1, lock := false, log := .releasing :: s.log }
  | .signal =>
    if doneCap ≤ s.doneQ then none
    else if rf then
      if s.nReleased = 0 then none
      else some { s with nReleased := s.nReleased - 1, doneQ := s.doneQ + 1, log := .signalled :: s.log }
    else
      if s.nReported = 0 then none
      else some { s with nReported := s.nReported - 1, nSignalled := s.nSignalled + 1,
                         doneQ := s.doneQ + 1, log := .signalled :: s.log }

/-- States reachable from `init` by any interleaving of triggers, actor reactions and task steps. -/
inductive Reachable (rf : Bool) : State → Prop where
  | init : Reachable rf init
  | step {s s' : State} (l : Label) : Reachable rf s → step rf s l = some s' → Reachable rf s'

/-- Chronological history (oldest event first). -/
def State.history (s : State) : List Event := s.log.reverse

/-- Number of run tasks that hold the net reporter. -/
def State.running (s : State) : Nat := s.nStarted + s.nReported + s.nSignalled

/-- Runs started minus runs that released the reporter, in a newest-first log. -/
def inFlight : List Event → Int
  | [] => 0
  | .spawn :: l => inFlight l + 1
  | .releasing :: l => inFlight l - 1
  | _ :: l => inFlight l

/-- Nothing in flight: no run task alive, no done signal pending, the actor between two messages. -/
def State.quiescent (s : State) : Prop :=
  s.lock = false ∧ s.running = 0 ∧ s.nReleased = 0 ∧ s.doneQ = 0 ∧ s.actor = .idle

/-- Labels that are not new update requests. -/
def Label.internal : Label → Bool
  | .reqTry _ _ => false
  | _ => true

/-- Termination measure of the internal steps. -/
def State.measure (s : State) : Nat :=
  4 * s.nStarted + 3 * s.nReported + 2 * s.nReleased + 2 * s.nSignalled + s.doneQ +
    (if s.want.isSome then 4 else 0) + (match s.actor with | .idle => 0 | .deferring _ => 5)

/-- What the code does now (re-read from the source). -/
def codeRf : Bool := Generated.C25.releaseFirst

/-! ### Replay of an observed schedule (correspondence driver) -/

def Why.render : Why → String
  | .periodic => "Periodic" | .portmapUpdated => "PortmapUpdated"
  | .linkChangeMajor => "LinkChangeMajor" | .linkChangeMinor => "LinkChangeMinor"
  | .relayMapChange => "RelayMapChange"

def Why.parse? : String → Option Why
  | "Periodic" => some .periodic | "PortmapUpdated" => some .portmapUpdated
  | "LinkChangeMajor" => some .linkChangeMajor | "LinkChangeMinor" => some .linkChangeMinor
  | "RelayMapChange" => some .relayMapChange | _ => none

def Event.render : Event → String
  | .reqStarted w => s!"req {w.render} started" | .reqDeferred w => s!"req {w.render} deferred"
  | .doneStarted w => s!"done {w.render} started" | .doneIdle => "done idle" | .doneLocked => "done locked"
  | .spawn => "spawn" | .skip => "skip empty-map" | .reported => "reported"
  | .releasing => "releasing" | .signalled => "signalled"

/-- One observed action: a trigger handled by the actor (`reqTry`, and `reqDefer` when the lock was
held), or a single label. -/
inductive Obs where
  | req (w : Why) (m : Mode)
  | lab (l : Label)
  | timeout

/-- Replays the observations; stops at the first one the model cannot take. -/
def replay (rf : Bool) : State → List Obs → State × Option String
  | s, [] => (s, none)
  | s, .timeout :: _ => (s, some "timeout")
  | s, .req w m :: rest =>
    match step rf s (.reqTry w m) with
    | none => (s, some "impossible")
    | some s1 =>
      match s1.actor with
      | .idle => replay rf s1 rest
      | .deferring _ =>
        match step rf s1 .reqDefer with
        | none => (s1, some "impossible")
        | some s2 => replay rf s2 rest
  | s, .lab l :: rest =>
    match step rf s l with
    | none => (s, some "impossible")
    | some s1 => replay rf s1 rest

def renderRun (rf : Bool) (obs : List Obs) : String :=
  let (s, extra) := replay rf init obs
  let evs := s.history.map Event.render ++ (match extra with | some e => [e] | none => [])
  if evs.isEmpty then "-" else ";".intercalate evs

end IrohModel.C25
