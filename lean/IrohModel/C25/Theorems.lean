/-
C25 — property theorems (only).

Statement: at most one network report runs at a time, and an update requested while one is running
is started as soon as that run finishes, whatever the thread interleaving of the finishing run and
the scheduler.

The theorems quantify over every state `s` reachable in the LTS of `Model.lean` with the code's
current order of lock release and done signal (`codeRf`, recomputed from the source on every run):
any number of update requests with any reasons at any time, any interleaving of the actor's steps
(`schedule_run` split at its `try_lock`, `try_run` per done signal) with the steps of the run tasks
(report stored, lock released, done signal sent), runs that spawn a task or return early.
-/
import IrohModel.C25.Lemmas

namespace IrohModel.C25

theorem codeRf_eq : codeRf = true := rfl

/-- At most one report runs at a time: in every reachable state at most one run task holds the net
reporter, the lock is held exactly when there is one, and the number of runs started minus runs
that released the reporter in the history equals that number (so between a `spawn` and its
`releasing` there is no other `spawn`, in every history). -/
theorem at_most_one_running {s : State} (h : Reachable codeRf s) :
    s.running ≤ 1 ∧ (s.lock = true ↔ s.running = 1) ∧ inFlight s.history.reverse = (s.running : Int) := by
  have hi := inv_of_reachable (codeRf_eq ▸ h)
  have h1 := hi.run_lock
  rw [State.history, List.reverse_reverse]
  refine ⟨?_, ?_, hi.flight⟩
  · unfold State.running; split at h1 <;> omega
  · unfold State.running
    cases hl : s.lock <;> simp [hl] at h1 ⊢ <;> omega

/-- A wanted update is never stranded: whenever `want_update` is set (or about to be set by a
`schedule_run` whose `try_lock` just failed) there is a run in flight, a finished run that is about
to signal, or a done signal the actor has not handled yet — and each of those ends in `try_run`
with the lock free (see `done_starts_wanted`, `internal_step_decreases`, `terminal_is_quiescent`). -/
theorem no_lost_update {s : State} (h : Reachable codeRf s)
    (hw : s.want.isSome ∨ s.actor ≠ .idle) : s.lock = true ∨ s.nReleased > 0 ∨ s.doneQ > 0 :=
  (inv_of_reachable (codeRf_eq ▸ h)).pending hw

/-- The statement in the form of the design: a wanted update with no run in flight and no done
signal pending does not exist. -/
theorem quiescent_no_want {s : State} (h : Reachable codeRf s) (hq : s.quiescent) : s.want = none := by
  obtain ⟨hl, _, hr, hd, _⟩ := hq
  cases hw : s.want with
  | none => rfl
  | some w =>
    rcases no_lost_update h (Or.inl (by simp [hw])) with h' | h' | h'
    · simp [hl] at h'
    · omega
    · omega

/-- "Started as soon as that run finishes": when the actor handles a done signal with the lock free
and an update wanted, that very step starts the run (and clears the request). -/
theorem done_starts_wanted (rf : Bool) (s : State) (w : Why) (m : Mode) (ha : s.actor = .idle)
    (hd : s.doneQ > 0) (hl : s.lock = false) (hw : s.want = some w) :
    ∃ s', step rf s (.onDone m) = some s' ∧ s'.want = none ∧
      s'.log = (match m with | .run => [.spawn] | .skip => [.skip]) ++ .doneStarted w :: s.log ∧
      (m = .run → s'.lock = true ∧ s'.nStarted = s.nStarted + 1) := by
  have hd' : s.doneQ ≠ 0 := by omega
  cases m <;> simp [step, ha, hd', hl, hw, start]

/-- The request is cleared by nothing but the start of its run. -/
theorem want_cleared_only_by_start (rf : Bool) {s s' : State} {l : Label}
    (h : step rf s l = some s') (hw : s.want.isSome) (hn : s'.want = none) :
    ∃ m w, l = .onDone m ∧ s.want = some w ∧ Event.doneStarted w ∈ s'.log := by
  cases l with
  | reqTry w m =>
    simp only [step] at h
    split at h
    · split at h
      · simp only [Option.some.injEq] at h; subst h; exact absurd hw (by simp [show s.want = none from hn])
      · simp only [Option.some.injEq] at h; subst h
        cases m <;> simp [start] at hn <;> simp [hn] at hw
    · simp at h
  | reqDefer =>
    simp only [step] at h
    split at h
    · simp only [Option.some.injEq] at h; subst h; simp at hn
    · simp at h
  | onDone m =>
    simp only [step] at h
    split at h
    · split at h
      · simp at h
      · split at h
        · simp only [Option.some.injEq] at h; subst h; exact absurd hw (by simp [show s.want = none from hn])
        · split at h
          · rename_i w hw'
            simp only [Option.some.injEq] at h; subst h
            exact ⟨m, w, rfl, hw', by cases m <;> simp [start]⟩
          · simp only [Option.some.injEq] at h; subst h; exact absurd hw (by simp [show s.want = none from hn])
    · simp at h
  | report =>
    simp only [step] at h
    split at h
    · simp at h
    · simp only [Option.some.injEq] at h; subst h; exact absurd hw (by simp [show s.want = none from hn])
  | release =>
    simp only [step] at h
    (repeat' split at h) <;> first | (simp at h; done) | (simp only [Option.some.injEq] at h; subst h; exact absurd hw (by simp [show s.want = none from hn]))
  | signal =>
    simp only [step] at h
    (repeat' split at h) <;> first | (simp at h; done) | (simp only [Option.some.injEq] at h; subst h; exact absurd hw (by simp [show s.want = none from hn]))

/-- Without new requests the system comes to rest: every step other than a new request strictly
decreases `State.measure`, so from `s` at most `s.measure` such steps are possible. -/
theorem internal_step_decreases {s s' : State} {l : Label} (hl : l.internal = true)
    (h : step codeRf s l = some s') : s'.measure < s.measure := by
  rw [codeRf_eq] at h
  cases l with
  | reqTry w m => simp [Label.internal] at hl
  | reqDefer =>
    simp only [step] at h
    split at h
    · rename_i w ha
      simp only [Option.some.injEq] at h; subst h
      simp only [State.measure, ha, Option.isSome_some, if_true]
      split <;> omega
    · simp at h
  | onDone m =>
    simp only [step] at h
    split at h
    · rename_i ha
      split at h
      · simp at h
      · split at h
        · simp only [Option.some.injEq] at h; subst h
          simp only [State.measure]; omega
        · split at h
          · rename_i w hw
            simp only [Option.some.injEq] at h; subst h
            cases m <;> simp [State.measure, start, hw, ha] <;> omega
          · simp only [Option.some.injEq] at h; subst h
            simp only [State.measure]; omega
    · simp at h
  | report =>
    simp only [step] at h
    split at h
    · simp at h
    · simp only [Option.some.injEq] at h; subst h
      simp only [State.measure]; omega
  | release =>
    simp only [step, if_true] at h
    split at h
    · simp at h
    · simp only [Option.some.injEq] at h; subst h
      simp only [State.measure]; omega
  | signal =>
    simp only [step, if_true] at h
    split at h
    · simp at h
    · split at h
      · simp at h
      · simp only [Option.some.injEq] at h; subst h
        simp only [State.measure]; omega

/-- … and where it rests nothing is wanted: a reachable state in which no step other than a new
request is enabled is quiescent and has no pending request.  Together with
`internal_step_decreases` and `want_cleared_only_by_start`: an update requested while a report runs
is started after finitely many steps of the finishing run and the actor, in every interleaving. -/
theorem terminal_is_quiescent {s : State} (h : Reachable codeRf s)
    (hterm : ∀ l : Label, l.internal = true → step codeRf s l = none) :
    s.quiescent ∧ s.want = none := by
  have hi := inv_of_reachable (codeRf_eq ▸ h)
  rw [codeRf_eq] at hterm
  have hrep := hterm .report rfl
  have hrel := hterm .release rfl
  have hdef := hterm .reqDefer rfl
  have hdone := hterm (.onDone .run) rfl
  have hsig := hterm .signal rfl
  have h0 : s.nStarted = 0 := by
    simp only [step] at hrep; split at hrep <;> simp_all
  have h1 : s.nReported = 0 := by
    simp only [step, if_true] at hrel; split at hrel <;> simp_all
  have ha : s.actor = .idle := by
    simp only [step] at hdef
    split at hdef
    · simp at hdef
    · cases hact : s.actor with
      | idle => rfl
      | deferring w => rename_i hne; exact absurd hact (hne w)
  have hq : s.doneQ = 0 := by
    simp only [step, ha] at hdone
    split at hdone
    · assumption
    · split at hdone
      · simp at hdone
      · split at hdone <;> simp at hdone
  have hr : s.nReleased = 0 := by
    simp only [step, if_true, hq] at hsig
    split at hsig
    · rename_i hc; simp [doneCap] at hc
    · split at hsig
      · assumption
      · simp at hsig
  have hl : s.lock = false := by
    have := hi.run_lock
    cases hlk : s.lock with
    | false => rfl
    | true => simp [hlk, h0, h1, hi.no_sig] at this
  have hquiet : s.quiescent := ⟨hl, by simp [State.running, h0, h1, hi.no_sig], hr, hq, ha⟩
  exact ⟨hquiet, quiescent_no_want h hquiet⟩

/-! ### The unrepaired code (defect D9, `rf = false`)

The run task signalled before it released the lock: the actor's `try_run` can then find the lock
still held and do nothing; nothing re-triggers the wanted update.  Replayed on the real code before
the repair (see `known_findings.json`, fixed). -/

def d9Schedule : List Label :=
  [.reqTry .relayMapChange .run,            -- a run starts
   .reqTry .linkChangeMajor .run, .reqDefer, -- a second update is requested meanwhile: deferred
   .report, .signal,                         -- the run finishes and signals …
   .onDone .run,                             -- … the actor reacts: lock still held → nothing
   .release]                                 -- the lock is released: nobody is told

/-- With the unrepaired order a quiescent state with a pending request is reachable. -/
theorem C25_counterexample_unrepaired :
    ∃ s, Reachable false s ∧ s.quiescent ∧ s.want = some .linkChangeMajor := by
  cases hs : runLabels false init d9Schedule with
  | none => exact absurd hs (by decide)
  | some s =>
    have hw : (runLabels false init d9Schedule).map
        (fun s => (s.want, s.lock, s.running, s.nReleased, s.doneQ, s.actor)) =
        some (some .linkChangeMajor, false, 0, 0, 0, .idle) := by decide
    rw [hs] at hw
    simp only [Option.map_some, Option.some.injEq, Prod.mk.injEq] at hw
    exact ⟨s, reachable_of_runLabels .init _ hs, ⟨hw.2.1, hw.2.2.1, hw.2.2.2.1, hw.2.2.2.2.1, hw.2.2.2.2.2⟩, hw.1⟩

/-- The same requests on the repaired code: the actor's reaction finds the lock free and starts the
wanted run. -/
def d9Repaired : List Label :=
  [.reqTry .relayMapChange .run, .reqTry .linkChangeMajor .run, .reqDefer,
   .report, .release, .signal, .onDone .run]

/-! ### Non-vacuity -/

example : (runLabels codeRf init d9Repaired).map (fun s => (s.want, s.lock, s.running, s.history)) =
    some (none, true, 1,
      [.reqStarted .relayMapChange, .spawn, .reqDeferred .linkChangeMajor, .reported, .releasing,
       .signalled, .doneStarted .linkChangeMajor, .spawn]) := by decide

/-- A reachable state satisfying the hypotheses of `no_lost_update` and of `done_starts_wanted`
(request pending, lock free, done signal pending). -/
example : ∃ s, Reachable codeRf s ∧ s.want = some .linkChangeMajor ∧ s.actor = .idle ∧
    s.doneQ > 0 ∧ s.lock = false := by
  cases hs : runLabels codeRf init (d9Repaired.take 6) with
  | none => exact absurd hs (by decide)
  | some s =>
    have hw : (runLabels codeRf init (d9Repaired.take 6)).map
        (fun s => (s.want, s.actor, s.doneQ, s.lock)) =
        some (some .linkChangeMajor, .idle, 1, false) := by decide
    rw [hs] at hw
    simp only [Option.map_some, Option.some.injEq, Prod.mk.injEq] at hw
    exact ⟨s, reachable_of_runLabels .init _ hs, hw.1, hw.2.1, by omega, hw.2.2.2⟩

/-- `terminal_is_quiescent` is not vacuous: the initial state is terminal. -/
example : ∀ l : Label, l.internal = true → step codeRf init l = none := by
  intro l hl
  cases l <;> first | (simp [Label.internal] at hl; done) | rfl | (rename_i m; cases m <;> rfl)

end IrohModel.C25
