/-
C25 — the inductive invariant of the repaired scheduling LTS (`rf = true`) and helper lemmas.
-/
import IrohModel.C25.Model

namespace IrohModel.C25

/-- The invariant of the repaired code. -/
structure Inv (s : State) : Prop where
  /-- exactly the lock holder is a running task -/
  run_lock : s.nStarted + s.nReported + s.nSignalled = (if s.lock then 1 else 0)
  no_sig : s.nSignalled = 0
  cap : s.doneQ ≤ doneCap
  flight : inFlight s.log = (s.running : Int)
  /-- a wanted (or about to be recorded) update always has something that will trigger `try_run`
  with the lock free: a run in flight, a released run about to signal, or a pending signal -/
  pending : (s.want.isSome ∨ s.actor ≠ .idle) → s.lock = true ∨ s.nReleased > 0 ∨ s.doneQ > 0

theorem inv_init : Inv init := by
  constructor <;> simp [init, inFlight, State.running]

theorem inv_step {s s' : State} {l : Label} (hs : Inv s) (h : step true s l = some s') : Inv s' := by
  obtain ⟨h1, h2, h3, h4, h5⟩ := hs
  cases l with
  | reqTry w m =>
    simp only [step] at h
    split at h
    · split at h
      · rename_i hl
        simp only [Option.some.injEq] at h; subst h
        exact ⟨h1, h2, h3, h4, fun _ => Or.inl hl⟩
      · rename_i ha hl
        simp only [Option.some.injEq] at h; subst h
        cases m with
        | run =>
          simp only [Bool.not_eq_true] at hl
          refine ⟨?_, h2, h3, ?_, fun _ => Or.inl rfl⟩
          · simp only [start, hl] at h1 ⊢; simp at h1 ⊢; omega
          · simp only [start, inFlight, State.running] at h4 ⊢; omega
        | skip =>
          refine ⟨h1, h2, h3, ?_, ?_⟩
          · simpa [start, inFlight, State.running] using h4
          · intro hw
            simp only [start] at hw ⊢
            exact h5 (hw.elim Or.inl (fun hne => absurd ha hne))
    · simp at h
  | reqDefer =>
    simp only [step] at h
    split at h
    · rename_i w ha
      simp only [Option.some.injEq] at h; subst h
      refine ⟨h1, h2, h3, ?_, fun _ => h5 (Or.inr (by simp [ha]))⟩
      simpa [inFlight, State.running] using h4
    · simp at h
  | onDone m =>
    simp only [step] at h
    split at h
    · rename_i ha
      split at h
      · simp at h
      · rename_i hq
        split at h
        · rename_i hl
          simp only [Option.some.injEq] at h; subst h
          refine ⟨h1, h2, by simp only []; omega, ?_, fun _ => Or.inl hl⟩
          simpa [inFlight, State.running] using h4
        · rename_i hl
          simp only [Bool.not_eq_true] at hl
          split at h
          · rename_i w hw
            simp only [Option.some.injEq] at h; subst h
            cases m with
            | run =>
              refine ⟨?_, h2, by simp only [start]; omega, ?_, fun _ => Or.inl rfl⟩
              · simp only [start, hl] at h1 ⊢; simp at h1 ⊢; omega
              · simp only [start, inFlight, State.running] at h4 ⊢; omega
            | skip =>
              refine ⟨h1, h2, by simp only [start]; omega, ?_, ?_⟩
              · simpa [start, inFlight, State.running] using h4
              · intro hw'
                simp only [start] at hw'
                rcases hw' with hw' | hw'
                · simp at hw'
                · exact absurd ha hw'
          · rename_i hw
            simp only [Option.some.injEq] at h; subst h
            refine ⟨h1, h2, by simp only []; omega, ?_, ?_⟩
            · simpa [inFlight, State.running] using h4
            · intro hw'
              rcases hw' with hw' | hw'
              · simp [hw] at hw'
              · exact absurd ha hw'
    · simp at h
  | report =>
    simp only [step] at h
    split at h
    · simp at h
    · rename_i hn
      simp only [Option.some.injEq] at h; subst h
      refine ⟨by simp only []; omega, h2, h3, ?_, h5⟩
      simp only [inFlight, State.running] at h4 ⊢; omega
  | release =>
    simp only [step, if_true] at h
    split at h
    · simp at h
    · rename_i hn
      simp only [Option.some.injEq] at h; subst h
      have hl : s.lock = true := by
        cases hlk : s.lock with
        | true => rfl
        | false => simp [hlk] at h1; omega
      refine ⟨?_, h2, h3, ?_, fun _ => Or.inr (Or.inl (by simp only []; omega))⟩
      · simp only [hl] at h1; simp at h1 ⊢; omega
      · simp only [inFlight, State.running] at h4 ⊢; omega
  | signal =>
    simp only [step, if_true] at h
    split at h
    · simp at h
    · rename_i hc
      split at h
      · simp at h
      · rename_i hn
        simp only [Option.some.injEq] at h; subst h
        refine ⟨h1, h2, by simp only []; omega, ?_, fun _ => Or.inr (Or.inr (by simp only []; omega))⟩
        simpa [inFlight, State.running] using h4

theorem inv_of_reachable {s : State} (h : Reachable true s) : Inv s := by
  induction h with
  | init => exact inv_init
  | step l _ hst ih => exact inv_step ih hst

/-- Run a list of labels. -/
def runLabels (rf : Bool) (s : State) : List Label → Option State
  | [] => some s
  | l :: ls => (step rf s l).bind (runLabels rf · ls)

theorem reachable_of_runLabels {rf : Bool} {s s' : State} (hs : Reachable rf s) (ls : List Label)
    (h : runLabels rf s ls = some s') : Reachable rf s' := by
  induction ls generalizing s with
  | nil => simp [runLabels] at h; exact h ▸ hs
  | cons l ls ih =>
    simp only [runLabels] at h
    cases hst : step rf s l with
    | none => simp [hst] at h
    | some s1 => rw [hst] at h; exact ih (Reachable.step l hs hst) h

end IrohModel.C25
