/-
C17 — specification vocabulary (what "the datagrams of a batch / of a receive
slot" are) and the helper lemmas for the property theorems.
-/
import IrohModel.C17.Model

namespace IrohModel.C17

/-! ### Chunking (`slice::chunks`) -/

/-- Consecutive chunks of `s` elements, the last one possibly shorter (`s = 0` never occurs). -/
def chunks (s : Nat) (l : List α) : List (List α) :=
  match l with
  | [] => []
  | a :: t => if s = 0 then [a :: t] else (a :: t).take s :: chunks s ((a :: t).drop s)
termination_by l.length
decreasing_by simp only [List.length_drop, List.length_cons]; omega

@[simp] theorem chunks_nil (s : Nat) : chunks s ([] : List α) = [] := by
  rw [chunks]

theorem chunks_of_ne (s : Nat) (hs : 0 < s) (l : List α) (hl : l ≠ []) :
    chunks s l = l.take s :: chunks s (l.drop s) := by
  cases l with
  | nil => exact absurd rfl hl
  | cons a t => rw [chunks]; simp [Nat.ne_of_gt hs]

theorem chunks_single (s : Nat) (hs : 0 < s) (l : List α) (hl : l ≠ []) (hle : l.length ≤ s) :
    chunks s l = [l] := by
  rw [chunks_of_ne s hs l hl, List.take_of_length_le hle, List.drop_of_length_le hle, chunks_nil]

theorem chunks_append_aligned (s : Nat) (hs : 0 < s) (n : Nat) :
    ∀ (l1 l2 : List α), l1.length = n * s → chunks s (l1 ++ l2) = chunks s l1 ++ chunks s l2 := by
  induction n with
  | zero =>
    intro l1 l2 h
    have : l1 = [] := List.eq_nil_of_length_eq_zero (by simpa using h)
    subst this; simp
  | succ n ih =>
    intro l1 l2 h
    have hlen : s ≤ l1.length := by rw [h, Nat.succ_mul]; omega
    have hne : l1 ≠ [] := by intro h0; subst h0; simp at hlen; omega
    have hne2 : l1 ++ l2 ≠ [] := by simp [hne]
    rw [chunks_of_ne s hs _ hne2, chunks_of_ne s hs _ hne, List.take_append_of_le_length hlen,
      List.drop_append_of_le_length hlen, ih (l1.drop s) l2 (by rw [List.length_drop, h, Nat.succ_mul]; omega)]
    simp

theorem chunks_len_le (s : Nat) (hs : 0 < s) (l : List α) : ∀ c ∈ chunks s l, c.length ≤ s := by
  induction h : l.length using Nat.strongRecOn generalizing l with
  | _ k ih =>
    intro c hc
    by_cases hl : l = []
    · subst hl; simp at hc
    · rw [chunks_of_ne s hs l hl] at hc
      rcases List.mem_cons.mp hc with rfl | hc
      · simp [List.length_take]; omega
      · have hpos : 0 < l.length := List.length_pos_iff.mpr hl
        exact ih (l.drop s).length (by rw [List.length_drop]; omega) (l.drop s) rfl c hc

theorem chunks_ne_nil (s : Nat) (hs : 0 < s) (l : List α) (hl : l ≠ []) : chunks s l ≠ [] := by
  rw [chunks_of_ne s hs l hl]; simp

/-! ### Specification vocabulary -/

/-- A datagram as QUIC sees it: who sent it, and its bytes. -/
abbrev Dgram := Nat × Bytes

/-- The datagrams a batch consists of: empty contents or no segment size = one datagram,
otherwise consecutive segments of `seg` bytes (the last may be shorter). -/
def datagramsOf (b : Batch) : List Dgram :=
  (if b.contents = [] then [[]] else if b.seg = 0 then [b.contents] else chunks b.seg b.contents).map
    (fun d => (b.src, d))

/-- The datagrams QUIC reads out of a filled slot (`Socket::process_datagrams`, noq:
`stride = 0` is one empty datagram, otherwise `ceil (len / stride)` pieces). -/
def slotDatagrams (s : Slot) : List Dgram :=
  (if s.stride = 0 then [[]] else chunks s.stride s.contents).map (fun d => (s.src, d))

def evDatagrams : Ev → List Dgram
  | .slot s _ => slotDatagrams s
  | .drop src d _ => [(src, d)]

/-- Datagrams handed to QUIC by an event. -/
def evDelivered : Ev → List Dgram
  | .slot s _ => slotDatagrams s
  | .drop .. => []

/-- Datagrams discarded by an event. -/
def evDropped : Ev → List Dgram
  | .slot .. => []
  | .drop src d _ => [(src, d)]

/-- All datagrams still queued in a state (pending item first), in arrival order. -/
def pendingD (st : St) : List Dgram := (backlog st).flatMap datagramsOf

/-- State invariant: a retained `pending_item` is never empty. -/
def Inv (st : St) : Prop := ∀ b, st.pending = some b → b.contents ≠ []

theorem inv_init (cap : Nat) : Inv (init cap) := by
  intro b h; simp [init] at h

/-! ### `take_segments` on the content list -/

section take
variable (s n : Nat) (c : Bytes)

theorem take_chunks_split (hs : 0 < s) :
    chunks s c = chunks s (c.take (min (n * s) c.length)) ++ chunks s (c.drop (min (n * s) c.length)) := by
  by_cases h : n * s ≤ c.length
  · rw [Nat.min_eq_left h]
    have := chunks_append_aligned s hs n (c.take (n * s)) (c.drop (n * s)) (by simp [List.length_take]; omega)
    rwa [List.take_append_drop] at this
  · rw [Nat.min_eq_right (by omega)]
    simp

theorem stride_chunks (hs : 0 < s) (t : Bytes) (ht : t ≠ []) (htl : t.length ≤ n * s) :
    chunks (if (decide (1 < n) && decide (s < t.length)) = true then s else t.length) t = chunks s t := by
  have hpos : 0 < t.length := List.length_pos_iff.mpr ht
  split
  · rfl
  · rename_i hc
    simp only [Bool.and_eq_true, decide_eq_true_eq] at hc
    have hle : t.length ≤ s := by
      by_cases h1 : 1 < n
      · have : ¬ s < t.length := fun h2 => hc ⟨h1, h2⟩
        omega
      · have : n * s ≤ 1 * s := Nat.mul_le_mul_right s (by omega)
        omega
    rw [chunks_single _ hpos t ht (Nat.le_refl _), chunks_single s hs t ht hle]

end take

/-! ### One loop iteration -/

/-- What one processed item does, in terms of datagrams. -/
def IterSpec (before : List Dgram) (st : St) (B : Nat) : Iter → Prop
  | .deliver slot st' =>
    slotDatagrams slot ++ pendingD st' = before ∧ (∀ d ∈ slotDatagrams slot, d.2.length ≤ B) ∧
      slotDatagrams slot ≠ [] ∧ Inv st' ∧ st'.closed = st.closed ∧ st'.cap = st.cap
  | .drop src d st' =>
    (src, d) :: pendingD st' = before ∧ B < d.length ∧ Inv st' ∧ st'.closed = st.closed ∧ st'.cap = st.cap
  | .chPending => before = [] ∧ st.closed = false
  | .chClosed => before = [] ∧ st.closed = true

theorem minSegments_pos : 1 ≤ Generated.C17.minSegments := by decide

theorem numSegments_mul_le (b : Batch) (B : Nat) (hs : b.seg ≠ 0) (h1 : 1 < numSegments b B) :
    numSegments b B * b.seg ≤ B := by
  unfold numSegments at h1 ⊢
  simp only [hs, if_false] at h1 ⊢
  have hm : Generated.C17.minSegments = 1 := rfl
  rw [hm] at h1 ⊢
  have : max 1 (B / b.seg) = B / b.seg := by omega
  rw [this]
  exact Nat.div_mul_le_self B b.seg

theorem numSegments_pos (b : Batch) (B : Nat) : 1 ≤ numSegments b B := by
  unfold numSegments
  split
  · exact Nat.le_refl 1
  · have := minSegments_pos; omega

theorem numSegments_one_of_lt (b : Batch) (B : Nat) (hs : b.seg ≠ 0) (h : B < numSegments b B * b.seg) :
    numSegments b B = 1 := by
  have hp := numSegments_pos b B
  by_cases h1 : 1 < numSegments b B
  · have := numSegments_mul_le b B hs h1; omega
  · omega

theorem pendingD_mk (q : List Batch) (p : Option Batch) (c : Bool) (cap : Nat) :
    pendingD ⟨q, p, c, cap⟩ = p.toList.flatMap datagramsOf ++ q.flatMap datagramsOf := by
  simp [pendingD, backlog]

/-- The remainder left by `take_segments` stands for exactly the not yet taken segments. -/
theorem rest_datagrams (src s : Nat) (hs : 0 < s) (r : Bytes) (hr : r ≠ []) :
    datagramsOf ⟨src, if r.length ≤ s then 0 else s, r⟩ = (chunks s r).map (fun d => (src, d)) := by
  unfold datagramsOf
  simp only [hr, if_false]
  split
  · rename_i hle
    simp [chunks_single s hs r hr hle]
  · rename_i hle
    have : s ≠ 0 := by omega
    simp [this]

theorem process_spec (b : Batch) (q : List Batch) (st : St) (B : Nat) :
    IterSpec (datagramsOf b ++ q.flatMap datagramsOf) st B (process b q st B) := by
  obtain ⟨src, s, c⟩ := b
  by_cases hs0 : s = 0
  · -- no segment size: the whole contents are one datagram
    subst hs0
    unfold process takeSegments
    simp only [if_true, List.isEmpty_nil]
    split
    · rename_i hlt
      have hc : c ≠ [] := by intro h; subst h; simp at hlt
      refine ⟨?_, hlt, ?_, rfl, rfl⟩
      · simp [pendingD_mk, datagramsOf, hc]
      · intro b hb; simp at hb
    · rename_i hlt
      refine ⟨?_, ?_, ?_, ?_, rfl, rfl⟩
      · by_cases hc : c = []
        · subst hc; simp [pendingD_mk, datagramsOf, slotDatagrams]
        · have hpos : 0 < c.length := List.length_pos_iff.mpr hc
          have hne : c.length ≠ 0 := by omega
          simp [pendingD_mk, datagramsOf, slotDatagrams, hc, hne, chunks_single c.length hpos c hc (Nat.le_refl _)]
      · intro d hd
        by_cases hc : c = []
        · subst hc; simp [slotDatagrams] at hd; subst hd; simp
        · have hpos : 0 < c.length := List.length_pos_iff.mpr hc
          have hne : c.length ≠ 0 := by omega
          simp [slotDatagrams, hne, chunks_single c.length hpos c hc (Nat.le_refl _)] at hd
          subst hd; simp only; omega
      · by_cases hc : c = []
        · subst hc; simp [slotDatagrams]
        · have hpos : 0 < c.length := List.length_pos_iff.mpr hc
          have hne : c.length ≠ 0 := by omega
          simp [slotDatagrams, hne, chunks_single c.length hpos c hc (Nat.le_refl _)]
      · intro b hb; simp at hb
  · have hs : 0 < s := Nat.pos_of_ne_zero hs0
    by_cases hc : c = []
    · -- a segment size but no contents: one empty datagram
      subst hc
      unfold process takeSegments
      simp only [hs0, if_false, List.length_nil, Nat.min_zero, List.take_nil, List.drop_nil,
        List.isEmpty_nil, if_true, Nat.not_lt_zero, decide_false, Bool.and_false, Bool.false_eq_true]
      refine ⟨?_, ?_, ?_, ?_, rfl, rfl⟩
      · simp [pendingD_mk, datagramsOf, slotDatagrams]
      · intro d hd; simp [slotDatagrams] at hd; subst hd; simp
      · simp [slotDatagrams]
      · intro b hb; simp at hb
    · -- the general case: `n ≥ 1` segments are taken
      generalize hn : numSegments ⟨src, s, c⟩ B = n
      have hnpos : 1 ≤ n := hn ▸ numSegments_pos _ B
      have hsplit := take_chunks_split s n c hs
      have hcpos : 0 < c.length := List.length_pos_iff.mpr hc
      have hmpos : 0 < min (n * s) c.length := by
        have : 1 * s ≤ n * s := Nat.mul_le_mul_right s hnpos
        omega
      have ht : c.take (min (n * s) c.length) ≠ [] := by
        intro h
        rcases List.take_eq_nil_iff.mp h with h | h
        · omega
        · exact hc h
      have htl : (c.take (min (n * s) c.length)).length ≤ n * s := by
        simp [List.length_take]; omega
      have htl1 : n = 1 → (c.take (min (n * s) c.length)).length ≤ s := by
        intro h1
        have h2 : n * s = s := by rw [h1]; simp
        omega
      have hbefore : datagramsOf ⟨src, s, c⟩ = (chunks s c).map (fun d => (src, d)) := by
        simp [datagramsOf, hc, hs0]
      -- the state after: remaining segments (if any) stay pending
      have hrest : ∀ (cl : Bool) (cap : Nat),
          pendingD ⟨q, if (c.drop (min (n * s) c.length)).isEmpty then none
              else some ⟨src, if (c.drop (min (n * s) c.length)).length ≤ s then 0 else s,
                c.drop (min (n * s) c.length)⟩, cl, cap⟩
            = (chunks s (c.drop (min (n * s) c.length))).map (fun d => (src, d)) ++ q.flatMap datagramsOf := by
        intro cl cap
        rw [pendingD_mk]
        by_cases hr : c.drop (min (n * s) c.length) = []
        · simp [hr]
        · have : (c.drop (min (n * s) c.length)).isEmpty = false := by simpa using hr
          simp only [this, Bool.false_eq_true, if_false, Option.toList_some, List.flatMap_cons,
            List.flatMap_nil, List.append_nil]
          rw [rest_datagrams src s hs _ hr]
      have hinv : ∀ (cl : Bool) (cap : Nat),
          Inv ⟨q, if (c.drop (min (n * s) c.length)).isEmpty then none
              else some ⟨src, if (c.drop (min (n * s) c.length)).length ≤ s then 0 else s,
                c.drop (min (n * s) c.length)⟩, cl, cap⟩ := by
        intro cl cap b hb
        by_cases hr : c.drop (min (n * s) c.length) = []
        · simp [hr] at hb
        · have : (c.drop (min (n * s) c.length)).isEmpty = false := by simpa using hr
          simp only [this, Bool.false_eq_true, if_false, Option.some.injEq] at hb
          subst hb; exact hr
      unfold process
      rw [hn]
      unfold takeSegments
      simp only [hs0, if_false]
      split
      · -- dropped: the buffer is smaller than one segment, exactly one segment was taken
        rename_i hlt
        have hn1 : n = 1 := by
          rw [← hn]
          apply numSegments_one_of_lt _ B hs0
          rw [hn]; simp only; omega
        refine ⟨?_, hlt, hinv _ _, rfl, rfl⟩
        rw [hrest, hbefore, hsplit, List.map_append]
        have : chunks s (c.take (min (n * s) c.length)) = [c.take (min (n * s) c.length)] :=
          chunks_single s hs _ ht (htl1 hn1)
        rw [this]; simp
      · rename_i hlt
        have hfit : (c.take (min (n * s) c.length)).length ≤ B := Nat.le_of_not_lt hlt
        have hslot : slotDatagrams ⟨src,
            if (if (decide (1 < n) && decide (s < (c.take (min (n * s) c.length)).length)) = true then s else 0) = 0
            then (c.take (min (n * s) c.length)).length
            else (if (decide (1 < n) && decide (s < (c.take (min (n * s) c.length)).length)) = true then s else 0),
            c.take (min (n * s) c.length)⟩
            = (chunks s (c.take (min (n * s) c.length))).map (fun d => (src, d)) := by
          have hst := stride_chunks s n hs _ ht htl
          have htpos : 0 < (c.take (min (n * s) c.length)).length := List.length_pos_iff.mpr ht
          unfold slotDatagrams
          by_cases hb : (decide (1 < n) && decide (s < (c.take (min (n * s) c.length)).length)) = true
          · simp only [hb, if_true, hs0, if_false]
          · have hb' : (decide (1 < n) && decide (s < (c.take (min (n * s) c.length)).length)) = false := by
              simpa using hb
            rw [hb'] at hst ⊢
            have : (c.take (min (n * s) c.length)).length ≠ 0 := by omega
            simp only [Bool.false_eq_true, if_false, if_true, this] at hst ⊢
            rw [hst]
        refine ⟨?_, ?_, ?_, hinv _ _, rfl, rfl⟩
        · rw [hslot, hrest, hbefore, hsplit, List.map_append, List.append_assoc]
        · rw [hslot]
          intro d hd
          obtain ⟨ch, hch, rfl⟩ := List.mem_map.mp hd
          simp only
          by_cases hn1 : 1 < n
          · have := chunks_len_le s hs _ ch hch
            have hle := numSegments_mul_le ⟨src, s, c⟩ B hs0 (by rw [hn]; exact hn1)
            rw [hn] at hle
            simp only at hle
            have : 1 * s ≤ n * s := Nat.mul_le_mul_right s hnpos
            omega
          · have hn1' : n = 1 := by omega
            have : chunks s (c.take (min (n * s) c.length)) = [c.take (min (n * s) c.length)] :=
              chunks_single s hs _ ht (htl1 hn1')
            rw [this] at hch
            simp at hch; subst hch; exact hfit
        · rw [hslot]
          simpa using chunks_ne_nil s hs _ ht

theorem iter_spec (st : St) (B : Nat) : IterSpec (pendingD st) st B (iter st B) := by
  obtain ⟨q, p, cl, cap⟩ := st
  unfold iter
  cases p with
  | some b => simpa [pendingD_mk] using process_spec b q ⟨q, some b, cl, cap⟩ B
  | none =>
    cases q with
    | nil =>
      cases cl <;> simp [IterSpec, pendingD_mk]
    | cons b q' =>
      simpa [pendingD_mk] using process_spec b q' ⟨b :: q', none, cl, cap⟩ B

/-! ### The whole loop -/

theorem datagramsOf_ne_nil (b : Batch) : datagramsOf b ≠ [] := by
  unfold datagramsOf
  by_cases hc : b.contents = []
  · simp [hc]
  · by_cases hs : b.seg = 0
    · simp [hc, hs]
    · simpa [hc, hs] using chunks_ne_nil b.seg (Nat.pos_of_ne_zero hs) _ hc

theorem backlog_nil_of_pendingD (st : St) (h : pendingD st = []) : backlog st = [] := by
  unfold pendingD at h
  cases hb : backlog st with
  | nil => rfl
  | cons b bs =>
    rw [hb] at h
    simp only [List.flatMap_cons, List.append_eq_nil_iff] at h
    exact absurd h.1 (datagramsOf_ne_nil b)

/-- An event is consistent with the buffers of the poll it happened in: a filled slot
only holds datagrams that fit its buffer, a dropped datagram did not fit the current buffer. -/
def EvOk (bufs : List Nat) : Ev → Prop
  | .slot s B => B ∈ bufs ∧ slotDatagrams s ≠ [] ∧ ∀ d ∈ slotDatagrams s, d.2.length ≤ B
  | .drop _ d B => B ∈ bufs ∧ B < d.length

theorem EvOk.mono {bufs bufs' : List Nat} (hsub : ∀ x ∈ bufs, x ∈ bufs') {e : Ev} (h : EvOk bufs e) :
    EvOk bufs' e := by
  cases e with
  | slot s B => exact ⟨hsub _ h.1, h.2⟩
  | drop src d B => exact ⟨hsub _ h.1, h.2⟩

structure LoopSpec (st : St) (bufs : List Nat) (r : LoopOut) : Prop where
  acct : r.evs.flatMap evDatagrams ++ pendingD r.st = pendingD st
  closed : r.st.closed = st.closed
  cap : r.st.cap = st.cap
  evOk : ∀ e ∈ r.evs, EvOk bufs e
  exitP : r.exit = .chPending → backlog r.st = [] ∧ r.st.closed = false
  exitC : r.exit = .chClosed → backlog r.st = [] ∧ r.st.closed = true
  exitF : r.exit = .full → (slotsOf r.evs).length = bufs.length
  slotsLe : (slotsOf r.evs).length ≤ bufs.length
  progress : bufs ≠ [] → backlog st ≠ [] → r.evs ≠ []

theorem loop_spec (st : St) (bufs : List Nat) : LoopSpec st bufs (loop st bufs) := by
  fun_induction loop st bufs with
  | case1 st =>
    exact ⟨by simp, rfl, rfl, by simp, by simp, by simp, by simp [slotsOf], by simp [slotsOf], by simp⟩
  | case2 st B rest slot st' h r ih =>
    have hi := iter_spec st B
    rw [h] at hi
    obtain ⟨hacct, hfit, hne, _, hcl, hcap⟩ := hi
    refine ⟨?_, ?_, ?_, ?_, ?_, ?_, ?_, ?_, ?_⟩
    · simp only [List.flatMap_cons, evDatagrams, List.append_assoc]
      rw [ih.acct]; exact hacct
    · exact ih.closed.trans hcl
    · exact ih.cap.trans hcap
    · intro e he
      rcases List.mem_cons.mp he with rfl | he
      · exact ⟨by simp, hne, hfit⟩
      · exact (ih.evOk e he).mono (by intro x hx; simp [hx])
    · exact ih.exitP
    · exact ih.exitC
    · intro hx; simpa [slotsOf] using ih.exitF hx
    · simpa [slotsOf] using ih.slotsLe
    · intro _ _; simp
  | case3 st B rest src d st' h r ih =>
    have hi := iter_spec st B
    rw [h] at hi
    obtain ⟨hacct, hlt, _, hcl, hcap⟩ := hi
    refine ⟨?_, ?_, ?_, ?_, ?_, ?_, ?_, ?_, ?_⟩
    · simp only [List.flatMap_cons, evDatagrams, List.append_assoc]
      rw [ih.acct]; exact hacct
    · exact ih.closed.trans hcl
    · exact ih.cap.trans hcap
    · intro e he
      rcases List.mem_cons.mp he with rfl | he
      · exact ⟨by simp, hlt⟩
      · exact ih.evOk e he
    · exact ih.exitP
    · exact ih.exitC
    · intro hx; simpa [slotsOf] using ih.exitF hx
    · simpa [slotsOf] using ih.slotsLe
    · intro _ _; simp
  | case4 st B rest h =>
    have hi := iter_spec st B
    rw [h] at hi
    obtain ⟨hnil, hcl⟩ := hi
    have hb := backlog_nil_of_pendingD st hnil
    exact ⟨by simp, rfl, rfl, by simp, fun _ => ⟨hb, hcl⟩, by simp, by simp, by simp [slotsOf],
      fun _ hne => absurd hb hne⟩
  | case5 st B rest h =>
    have hi := iter_spec st B
    rw [h] at hi
    obtain ⟨hnil, hcl⟩ := hi
    have hb := backlog_nil_of_pendingD st hnil
    exact ⟨by simp, rfl, rfl, by simp, by simp, fun _ => ⟨hb, hcl⟩, by simp, by simp [slotsOf],
      fun _ hne => absurd hb hne⟩

/-! ### One `poll_recv` -/

theorem pollRecv_st (st : St) (bufs : List Nat) : (pollRecv st bufs).st = (loop st bufs).st := by
  unfold pollRecv; simp only; split
  · split <;> rfl
  · rfl

theorem pollRecv_evs (st : St) (bufs : List Nat) : (pollRecv st bufs).evs = (loop st bufs).evs := by
  unfold pollRecv; simp only; split
  · split <;> rfl
  · rfl

theorem pollRecv_res (st : St) (bufs : List Nat) :
    (pollRecv st bufs).res =
      if (slotsOf (loop st bufs).evs).isEmpty = true then
        (match (loop st bufs).exit with
          | .chPending => PollRes.pending true
          | .chClosed => PollRes.errClosed
          | .full => PollRes.pending false)
      else PollRes.ready (slotsOf (loop st bufs).evs) := by
  unfold pollRecv; simp only; split
  · cases (loop st bufs).exit <;> rfl
  · rfl

theorem slotsOf_mem {evs : List Ev} {s : Slot} (h : s ∈ slotsOf evs) : ∃ B, Ev.slot s B ∈ evs := by
  induction evs with
  | nil => simp [slotsOf] at h
  | cons e es ih =>
    cases e with
    | slot s' B =>
      simp only [slotsOf, List.mem_cons] at h
      rcases h with rfl | h
      · exact ⟨B, by simp⟩
      · obtain ⟨B', hB⟩ := ih h; exact ⟨B', by simp [hB]⟩
    | drop src d B =>
      simp only [slotsOf] at h
      obtain ⟨B', hB⟩ := ih h; exact ⟨B', by simp [hB]⟩

/-! ### Traces of whole runs -/

def evsOf : StepOut → List Ev
  | .polled _ evs => evs
  | _ => []

/-- All receive events of a run, in order. -/
def allEvs (outs : List StepOut) : List Ev := outs.flatMap evsOf

/-- Every datagram handed to QUIC or discarded during the run, in that order. -/
def handled (outs : List StepOut) : List Dgram := (allEvs outs).flatMap evDatagrams
/-- Every datagram handed to QUIC during the run, in order. -/
def delivered (outs : List StepOut) : List Dgram := (allEvs outs).flatMap evDelivered
/-- Every datagram discarded during the run, in order. -/
def dropped (outs : List StepOut) : List Dgram := (allEvs outs).flatMap evDropped

/-- The datagrams of all batches the queue accepted during `ops` (started in `st`), in order. -/
def acceptedD (st : St) : List Op → List Dgram
  | [] => []
  | op :: ops =>
    (match op with
      | .arrive b => if (arrive st b).2 = .ok then datagramsOf b else []
      | _ => []) ++ acceptedD (step st op).1 ops

def numPolls : List Op → Nat
  | [] => 0
  | .poll _ :: ops => numPolls ops + 1
  | _ :: ops => numPolls ops

theorem pendingD_arrive (st : St) (b : Batch) :
    pendingD (arrive st b).1 = pendingD st ++ (if (arrive st b).2 = .ok then datagramsOf b else []) := by
  unfold arrive
  split
  · simp
  · split
    · simp
    · simp [pendingD, backlog]

theorem pendingD_close (st : St) : pendingD { st with closed := true } = pendingD st := rfl

theorem run_cons (st : St) (op : Op) (ops : List Op) :
    run st (op :: ops) = ((run (step st op).1 ops).1, (step st op).2 :: (run (step st op).1 ops).2) := rfl

theorem handled_cons (o : StepOut) (outs : List StepOut) :
    handled (o :: outs) = (evsOf o).flatMap evDatagrams ++ handled outs := by
  simp [handled, allEvs]

/-- Step-wise accounting: what a step hands out plus what is queued afterwards is what was
queued before plus what the step accepted. -/
theorem step_acct (st : St) (op : Op) :
    (evsOf (step st op).2).flatMap evDatagrams ++ pendingD (step st op).1
      = pendingD st ++ (match op with
          | .arrive b => if (arrive st b).2 = .ok then datagramsOf b else []
          | _ => []) := by
  cases op with
  | arrive b => simp [step, evsOf, pendingD_arrive]
  | poll bufs =>
    simp only [step, evsOf, List.append_nil]
    rw [pollRecv_st, pollRecv_evs]
    exact (loop_spec st bufs).acct
  | close => simp [step, evsOf, pendingD_close]

theorem accounting_from (st : St) (ops : List Op) :
    handled (run st ops).2 ++ pendingD (run st ops).1 = pendingD st ++ acceptedD st ops := by
  induction ops generalizing st with
  | nil => simp [run, handled, allEvs, acceptedD]
  | cons op ops ih =>
    rw [run_cons, handled_cons]
    simp only [acceptedD]
    rw [List.append_assoc, ih, ← List.append_assoc, step_acct, List.append_assoc]

/-! ### Events along a run; fitting / non-fitting split -/

theorem run_evs_ok (st : St) (ops : List Op) :
    ∀ e ∈ allEvs (run st ops).2, ∃ bufs, Op.poll bufs ∈ ops ∧ EvOk bufs e := by
  induction ops generalizing st with
  | nil => intro e he; simp [run, allEvs] at he
  | cons op ops ih =>
    intro e he
    rw [run_cons] at he
    simp only [allEvs, List.flatMap_cons, List.mem_append] at he
    rcases he with he | he
    · cases op with
      | arrive b => simp [step, evsOf] at he
      | close => simp [step, evsOf] at he
      | poll bufs =>
        simp only [step, evsOf] at he
        rw [pollRecv_evs] at he
        exact ⟨bufs, by simp, (loop_spec st bufs).evOk e he⟩
    · obtain ⟨bufs, hb, hok⟩ := ih _ e he
      exact ⟨bufs, by simp [hb], hok⟩

/-- `d` fits a receive buffer of `B` bytes. -/
def fits (B : Nat) (d : Dgram) : Bool := decide (d.2.length ≤ B)

/-- An event is consistent with ONE buffer size `B`. -/
def EvFit (B : Nat) : Ev → Prop
  | .slot s _ => ∀ d ∈ slotDatagrams s, d.2.length ≤ B
  | .drop _ d _ => B < d.length

/-- All receive buffers offered in `ops` have length `B`. -/
def Uniform (B : Nat) (ops : List Op) : Prop := ∀ bufs, Op.poll bufs ∈ ops → ∀ x ∈ bufs, x = B

theorem evFit_of_ok {B : Nat} {bufs : List Nat} (hu : ∀ x ∈ bufs, x = B) {e : Ev} (h : EvOk bufs e) :
    EvFit B e := by
  cases e with
  | slot s B' =>
    have := hu _ h.1; subst this; exact h.2.2
  | drop src d B' =>
    have := hu _ h.1; subst this; exact h.2

theorem filter_fits_evs (B : Nat) (evs : List Ev) (h : ∀ e ∈ evs, EvFit B e) :
    (evs.flatMap evDatagrams).filter (fits B) = evs.flatMap evDelivered ∧
    (evs.flatMap evDatagrams).filter (fun d => !fits B d) = evs.flatMap evDropped := by
  induction evs with
  | nil => simp
  | cons e es ih =>
    have ihh := ih (fun e he => h e (by simp [he]))
    have he := h e (by simp)
    simp only [List.flatMap_cons, List.filter_append, ihh.1, ihh.2]
    cases e with
    | slot s B' =>
      simp only [evDatagrams, evDelivered, evDropped, EvFit] at he ⊢
      constructor
      · congr 1
        apply List.filter_eq_self.mpr
        intro d hd; simp [fits, he d hd]
      · congr 1
        apply List.filter_eq_nil_iff.mpr
        intro d hd; simp [fits, he d hd]
    | drop src d B' =>
      simp only [evDatagrams, evDelivered, evDropped, EvFit] at he ⊢
      constructor
      · congr 1
        simp [fits]; omega
      · congr 1
        simp [fits]; omega

theorem evDatagrams_ne_nil {bufs : List Nat} {e : Ev} (h : EvOk bufs e) : evDatagrams e ≠ [] := by
  cases e with
  | slot s B => exact h.2.1
  | drop src d B => simp [evDatagrams]

theorem flatMap_length_pos {evs : List Ev} {bufs : List Nat} (hok : ∀ e ∈ evs, EvOk bufs e) (hne : evs ≠ []) :
    1 ≤ (evs.flatMap evDatagrams).length := by
  cases evs with
  | nil => exact absurd rfl hne
  | cons e es =>
    have := evDatagrams_ne_nil (hok e (by simp))
    have hp : 0 < (evDatagrams e).length := List.length_pos_iff.mpr this
    simp only [List.flatMap_cons, List.length_append]
    omega

end IrohModel.C17
