/-
C17 — property theorems.

"For any sequence of datagram batches arriving from relays (any segment size a
remote sender chooses) and any receive buffer size, the endpoint hands QUIC
every datagram that fits its buffer, in arrival order, each exactly once, and
discards only datagrams that do not fit.  Every receive poll either makes
progress on queued input or returns pending with a wake-up registered, so later
datagrams are never starved."

Quantification: `ops : List Op` is ANY interleaving of arrivals (any sender,
segment size, contents), polls (any number of slots, any buffer lengths) and
the closing of the queue; the theorems hold from EVERY state `st` (in
particular from `init cap`, for every queue capacity), by induction — no bound
on lengths, sizes or the number of steps.

Vocabulary (Lemmas.lean): `datagramsOf b` = the datagrams a batch consists of;
`slotDatagrams s` = the datagrams QUIC reads out of a filled slot; `handled` /
`delivered` / `dropped` = the datagrams handed out / handed to QUIC / discarded
during a run, in order; `pendingD st` = the datagrams still queued;
`acceptedD st ops` = the datagrams of the batches the queue accepted.
-/
import IrohModel.C17.Lemmas

namespace IrohModel.C17

/-- **accounting** — nothing is invented, duplicated, reordered or lost: at every point of
every run, the datagrams handed out so far (to QUIC or discarded) followed by the ones still
queued are exactly the datagrams that were queued at the start followed by the accepted
arrivals, in arrival order. -/
theorem accounting (st : St) (ops : List Op) :
    handled (run st ops).2 ++ pendingD (run st ops).1 = pendingD st ++ acceptedD st ops :=
  accounting_from st ops

/-- **delivers_fitting_in_order_once** — with receive buffers of `B` bytes, the datagrams
handed to QUIC so far, followed by the fitting ones still queued, are exactly the fitting
datagrams that arrived, in arrival order, each exactly once. -/
theorem delivers_fitting_in_order_once (st : St) (B : Nat) (ops : List Op) (hB : Uniform B ops) :
    delivered (run st ops).2 ++ (pendingD (run st ops).1).filter (fits B)
      = (pendingD st ++ acceptedD st ops).filter (fits B) := by
  have hfit : ∀ e ∈ allEvs (run st ops).2, EvFit B e := by
    intro e he
    obtain ⟨bufs, hb, hok⟩ := run_evs_ok st ops e he
    exact evFit_of_ok (hB bufs hb) hok
  have h := congrArg (List.filter (fits B)) (accounting st ops)
  rw [List.filter_append] at h
  unfold handled at h
  rw [(filter_fits_evs B _ hfit).1] at h
  exact h

/-- Every datagram handed to QUIC fits the buffer of the slot it was put in (any mix of
buffer lengths), and no slot is handed over empty-handed. -/
theorem delivered_fit_their_slot (st : St) (ops : List Op) (s : Slot) (B : Nat)
    (h : Ev.slot s B ∈ allEvs (run st ops).2) :
    (∃ bufs, Op.poll bufs ∈ ops ∧ B ∈ bufs) ∧ slotDatagrams s ≠ [] ∧
      ∀ d ∈ slotDatagrams s, d.2.length ≤ B := by
  obtain ⟨bufs, hb, hok⟩ := run_evs_ok st ops _ h
  exact ⟨⟨bufs, hb, hok.1⟩, hok.2⟩

/-- **drops_only_nonfitting** — a datagram is discarded only if it is larger than the
receive buffer it was about to be copied into (any mix of buffer lengths). -/
theorem drops_only_nonfitting (st : St) (ops : List Op) (src : Nat) (d : Bytes) (B : Nat)
    (h : Ev.drop src d B ∈ allEvs (run st ops).2) :
    B < d.length ∧ ∃ bufs, Op.poll bufs ∈ ops ∧ B ∈ bufs := by
  obtain ⟨bufs, hb, hok⟩ := run_evs_ok st ops _ h
  exact ⟨hok.2, bufs, hb, hok.1⟩

/-- With receive buffers of `B` bytes the discarded datagrams are exactly the non-fitting
ones, in order. -/
theorem dropped_exactly_nonfitting (st : St) (B : Nat) (ops : List Op) (hB : Uniform B ops) :
    dropped (run st ops).2 ++ (pendingD (run st ops).1).filter (fun d => !fits B d)
      = (pendingD st ++ acceptedD st ops).filter (fun d => !fits B d) := by
  have hfit : ∀ e ∈ allEvs (run st ops).2, EvFit B e := by
    intro e he
    obtain ⟨bufs, hb, hok⟩ := run_evs_ok st ops e he
    exact evFit_of_ok (hB bufs hb) hok
  have h := congrArg (List.filter (fun d => !fits B d)) (accounting st ops)
  rw [List.filter_append] at h
  unfold handled at h
  rw [(filter_fits_evs B _ hfit).2] at h
  exact h

/-- **progress_or_waker** — every `poll_recv` that offers at least one buffer, in any state:
* `Pending` ⇒ the task's waker is registered with the queue, and the queue is empty, open,
  and no pending item is retained;
* `Ready` ⇒ between 1 and `bufs.length` slots, none of them without a datagram;
* an error ⇒ the queue is closed and completely drained;
and whenever anything was queued, the poll handled at least one queued datagram. -/
theorem progress_or_waker (st : St) (bufs : List Nat) (hb : bufs ≠ []) :
    (match (pollRecv st bufs).res with
      | .pending w => w = true ∧ backlog (pollRecv st bufs).st = [] ∧ (pollRecv st bufs).st.closed = false
      | .ready slots => slots ≠ [] ∧ slots.length ≤ bufs.length ∧ ∀ s ∈ slots, slotDatagrams s ≠ []
      | .errClosed => backlog (pollRecv st bufs).st = [] ∧ (pollRecv st bufs).st.closed = true)
    ∧ (backlog st ≠ [] → 1 ≤ ((pollRecv st bufs).evs.flatMap evDatagrams).length) := by
  have hl := loop_spec st bufs
  constructor
  · rw [pollRecv_st, pollRecv_res]
    by_cases hempty : (slotsOf (loop st bufs).evs).isEmpty = true
    · rw [if_pos hempty]
      cases hex : (loop st bufs).exit with
      | chPending => exact ⟨rfl, hl.exitP hex⟩
      | chClosed => exact hl.exitC hex
      | full =>
        have := hl.exitF hex
        simp only [List.isEmpty_iff] at hempty
        rw [hempty] at this
        have : bufs = [] := List.eq_nil_of_length_eq_zero this.symm
        exact absurd this hb
    · rw [if_neg hempty]
      refine ⟨by simpa using hempty, hl.slotsLe, ?_⟩
      intro s hs
      obtain ⟨B, hB⟩ := slotsOf_mem hs
      exact (hl.evOk _ hB).2.1
  · intro hq
    rw [pollRecv_evs]
    exact flatMap_length_pos hl.evOk (hl.progress hb hq)

/-- Each poll offers at least one receive buffer. -/
def PollsNonempty (ops : List Op) : Prop := ∀ bufs, Op.poll bufs ∈ ops → bufs ≠ []

theorem handled_count (st : St) (ops : List Op) (hp : PollsNonempty ops) :
    min (numPolls ops) (pendingD st).length ≤ (handled (run st ops).2).length := by
  induction ops generalizing st with
  | nil => simp [numPolls]
  | cons op ops ih =>
    have hp' : PollsNonempty ops := fun bufs hb => hp bufs (by simp [hb])
    have ih' := ih (step st op).1 hp'
    have hacct := congrArg List.length (step_acct st op)
    rw [run_cons, handled_cons]
    simp only [List.length_append] at hacct ⊢
    cases op with
    | arrive b =>
      simp only [numPolls] at ih' ⊢
      simp only [step, evsOf, List.flatMap_nil, List.length_nil] at hacct ih' ⊢
      omega
    | close =>
      simp only [numPolls] at ih' ⊢
      simp only [step, evsOf, List.flatMap_nil, List.length_nil] at hacct ih' ⊢
      omega
    | poll bufs =>
      simp only [numPolls] at ih' ⊢
      have hprog := (progress_or_waker st bufs (hp bufs (by simp))).2
      simp only [step, evsOf, List.length_nil, Nat.add_zero] at hacct ih' hprog ⊢
      by_cases hq : backlog st = []
      · have : pendingD st = [] := by simp [pendingD, hq]
        simp [this]
      · have := hprog hq
        omega

/-- **no_starvation** — in any state, whatever arrives later and however arrivals interleave
with polls: after `k` polls (each offering at least one buffer) the first `min k n` of the `n`
datagrams queued now have been handed out (delivered, or discarded as not fitting), in order,
ahead of everything that arrived later.  So nothing queued waits for more than `n` polls. -/
theorem no_starvation (st : St) (ops : List Op) (hp : PollsNonempty ops) :
    ∃ later, handled (run st ops).2
      = (pendingD st).take (min (numPolls ops) (pendingD st).length) ++ later := by
  have hcount := handled_count st ops hp
  have hacct := accounting st ops
  refine ⟨(handled (run st ops).2).drop (min (numPolls ops) (pendingD st).length), ?_⟩
  have h1 : (handled (run st ops).2).take (min (numPolls ops) (pendingD st).length)
      = (pendingD st).take (min (numPolls ops) (pendingD st).length) := by
    have := congrArg (List.take (min (numPolls ops) (pendingD st).length)) hacct
    rw [List.take_append_of_le_length hcount, List.take_append_of_le_length (Nat.min_le_right _ _)] at this
    exact this
  rw [← h1, List.take_append_drop]

/-- Corollary: once as many polls have happened as datagrams were queued, all of them have
been handed out. -/
theorem drained (st : St) (ops : List Op) (hp : PollsNonempty ops)
    (hk : (pendingD st).length ≤ numPolls ops) :
    ∃ later, handled (run st ops).2 = pendingD st ++ later := by
  obtain ⟨later, h⟩ := no_starvation st ops hp
  rw [Nat.min_eq_right hk, List.take_length] at h
  exact ⟨later, h⟩

/-! ### Non-vacuity -/

/-- A batch of 7 bytes with segment size 3 → datagrams of 3, 3, 1 bytes. -/
example : datagramsOf ⟨5, 3, [1, 2, 3, 4, 5, 6, 7]⟩ = [(5, [1, 2, 3]), (5, [4, 5, 6]), (5, [7])] := by
  simp [datagramsOf, chunks_of_ne]

/-- `Uniform` / `PollsNonempty` are satisfiable by runs that really deliver and drop. -/
example : Uniform 2 [.arrive ⟨0, 0, [1, 2, 3]⟩, .arrive ⟨1, 0, [9]⟩, .poll [2, 2]] ∧
    PollsNonempty [.arrive ⟨0, 0, [1, 2, 3]⟩, .arrive ⟨1, 0, [9]⟩, .poll [2, 2]] := by
  constructor
  · intro bufs h x hx; simp at h; subst h; simp at hx; rcases hx with rfl | rfl <;> rfl
  · intro bufs h; simp at h; subst h; simp

/-- D6(a) scaled down: segment size 5 > buffer 3, contents 7 > segment size.  The first segment
is dropped (does not fit), the last one (2 bytes) and the batch behind it are delivered. -/
example : (pollRecv ⟨[⟨0, 5, [1, 2, 3, 4, 5, 6, 7]⟩, ⟨1, 0, [9]⟩], none, false, 8⟩ [3, 3]).res
    = .ready [⟨0, 2, [6, 7]⟩, ⟨1, 1, [9]⟩] := by
  simp [pollRecv, loop, iter, process, takeSegments, numSegments, slotsOf, Generated.C17.minSegments]

/-- D6(b) scaled down: a lone datagram larger than the buffer is dropped and the poll returns
`Pending` WITH the waker registered. -/
example : (pollRecv ⟨[⟨0, 0, [1, 2, 3, 4]⟩], none, false, 8⟩ [3, 3]).res = .pending true := by
  simp [pollRecv, loop, iter, process, takeSegments, numSegments, slotsOf]

/-- Re-batching: 7 datagrams of 1 byte, buffers of 3 → slots of 3, 3 and the rest stays pending. -/
example : (pollRecv ⟨[⟨2, 1, [1, 2, 3, 4, 5, 6, 7]⟩], none, false, 8⟩ [3, 3]).res
    = .ready [⟨2, 1, [1, 2, 3]⟩, ⟨2, 1, [4, 5, 6]⟩] ∧
    (pollRecv ⟨[⟨2, 1, [1, 2, 3, 4, 5, 6, 7]⟩], none, false, 8⟩ [3, 3]).st.pending = some ⟨2, 0, [7]⟩ := by
  simp [pollRecv, loop, iter, process, takeSegments, numSegments, slotsOf, Generated.C17.minSegments]

end IrohModel.C17
