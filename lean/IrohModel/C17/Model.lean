/-
C17 — relay receive path.  Model of `RelayTransport::poll_recv` /
`poll_recv_queue` (iroh/src/socket/transports/relay.rs, after the `fix:` commit
"take at least one segment / continue past dropped datagrams") together with
`Datagrams::take_segments` (iroh-relay/src/protos/relay.rs).

State = the bounded tokio mpsc receive queue (FIFO list of batches, `closed` =
all senders gone, `cap` = channel capacity) + `pending_item`.
`segment_size : Option<NonZeroU16>` is a `Nat` with `0` = `None` (its niche).

One `poll_recv` call = `loop`: slots are filled front to back; one iteration
(`iter`) either fills the current slot, drops one datagram that does not fit the
current buffer (and stays on the same slot), or stops because the queue is
empty (tokio registers the waker) or closed.
-/
import IrohModel.Common.Hex
import IrohModel.Generated.C17

namespace IrohModel.C17

/-- `RelayRecvDatagram`: sender tag (stands for `(url, src)`), segment size (`0` = `None`), contents. -/
structure Batch where
  src : Nat
  seg : Nat
  contents : Bytes
deriving Repr, DecidableEq

structure St where
  /-- `relay_datagram_recv_queue` (head = oldest). -/
  queue : List Batch
  /-- `pending_item`. -/
  pending : Option Batch
  /-- every `Sender` of the queue has been dropped. -/
  closed : Bool
  /-- channel capacity. -/
  cap : Nat
deriving Repr

def init (cap : Nat) : St := ⟨[], none, false, cap⟩

/-- One filled receive slot: `RecvInfo` sender, `meta.stride`, `buf[..meta.len]`. -/
structure Slot where
  src : Nat
  stride : Nat
  contents : Bytes
deriving Repr, DecidableEq

/-- `Datagrams::take_segments(n)`: (returned batch, what is left in `self`). -/
def takeSegments (b : Batch) (n : Nat) : Batch × Batch :=
  if b.seg = 0 then (b, { b with contents := [] })
  else
    let m := min (n * b.seg) b.contents.length
    let taken := b.contents.take m
    let rest := b.contents.drop m
    let isBatch := decide (1 < n) && decide (b.seg < taken.length)
    ({ b with seg := if isBatch then b.seg else 0, contents := taken },
     { b with seg := if rest.length ≤ b.seg then 0 else b.seg, contents := rest })

/-- `segment_size.map_or(1, |ss| max(1, buf_len / ss))` (the `1` is read from the source). -/
def numSegments (b : Batch) (bufLen : Nat) : Nat :=
  if b.seg = 0 then 1 else max Generated.C17.minSegments (bufLen / b.seg)

inductive Iter where
  /-- slot filled -/
  | deliver (slot : Slot) (st : St)
  /-- "dropping received datagram: noq buffer too small", `continue` -/
  | drop (src : Nat) (d : Bytes) (st : St)
  /-- queue empty: `Poll::Pending` from the channel, waker registered -/
  | chPending
  /-- queue empty and closed: `Poll::Ready(None)` -/
  | chClosed
deriving Repr

/-- Loop body once `poll_recv_queue` produced the item `b` (`q` = queue behind it). -/
def process (b : Batch) (q : List Batch) (st : St) (bufLen : Nat) : Iter :=
  let tr := takeSegments b (numSegments b bufLen)
  let st' : St := { st with queue := q, pending := if tr.2.contents.isEmpty then none else some tr.2 }
  if bufLen < tr.1.contents.length then .drop tr.1.src tr.1.contents st'
  else .deliver ⟨tr.1.src, if tr.1.seg = 0 then tr.1.contents.length else tr.1.seg, tr.1.contents⟩ st'

/-- One loop iteration for a slot whose buffer has length `bufLen`. -/
def iter (st : St) (bufLen : Nat) : Iter :=
  match st.pending with
  | some b => process b st.queue st bufLen
  | none =>
    match st.queue with
    | b :: q => process b q st bufLen
    | [] => if st.closed then .chClosed else .chPending

/-- Everything still to be handed out: pending item first, then the queue. -/
def backlog (st : St) : List Batch := st.pending.toList ++ st.queue

def muList : List Batch → Nat
  | [] => 0
  | b :: bs => b.contents.length + 1 + muList bs

/-- Termination / progress measure: queued bytes + number of queued batches. -/
def mu (st : St) : Nat := muList (backlog st)

theorem muList_append (a b : List Batch) : muList (a ++ b) = muList a + muList b := by
  induction a with
  | nil => simp [muList]
  | cons x xs ih => simp [muList, ih]; omega

theorem process_drop_mu (b : Batch) (q : List Batch) (st st' : St) (B src : Nat) (d : Bytes)
    (h : process b q st B = .drop src d st') : mu st' < muList (b :: q) := by
  unfold process at h
  simp only at h
  split at h
  · rename_i hlt
    injection h with _ _ hst
    subst hst
    simp only [mu, backlog, muList]
    unfold takeSegments at hlt ⊢
    split
    · rename_i hs
      simp [hs] at hlt ⊢
    · rename_i hs
      simp only [hs, if_false] at hlt ⊢
      simp only [List.length_take, List.isEmpty_iff] at hlt ⊢
      split
      · simp
      · simp only [Option.toList_some, List.cons_append, List.nil_append, muList, List.length_drop]
        omega
  · cases h

theorem iter_drop_mu (st st' : St) (B src : Nat) (d : Bytes)
    (h : iter st B = .drop src d st') : mu st' < mu st := by
  unfold iter at h
  split at h
  · rename_i b hp
    have := process_drop_mu _ _ _ _ _ _ _ h
    simpa [mu, backlog, hp] using this
  · rename_i hp
    split at h
    · rename_i b q hq
      have := process_drop_mu _ _ _ _ _ _ _ h
      simpa [mu, backlog, hp, hq] using this
    · split at h <;> cases h

/-- What happened, in order, during one `poll_recv`. -/
inductive Ev where
  /-- a slot with buffer length `bufLen` was filled -/
  | slot (s : Slot) (bufLen : Nat)
  /-- one datagram from `src` was dropped while the current buffer had length `bufLen` -/
  | drop (src : Nat) (d : Bytes) (bufLen : Nat)
deriving Repr

inductive Exit where
  /-- all slots filled (`num_msgs == bufs.len()`) -/
  | full
  /-- `break` on `Poll::Pending` of the channel -/
  | chPending
  /-- `Poll::Ready(None)` of the channel -/
  | chClosed
deriving Repr, DecidableEq

structure LoopOut where
  evs : List Ev
  st : St
  exit : Exit

/-- The `while num_msgs < bufs.len()` loop; `bufs` = lengths of the slots not yet filled. -/
def loop (st : St) (bufs : List Nat) : LoopOut :=
  match bufs with
  | [] => ⟨[], st, .full⟩
  | B :: rest =>
    match h : iter st B with
    | .deliver slot st' =>
      let r := loop st' rest
      { r with evs := .slot slot B :: r.evs }
    | .drop src d st' =>
      let r := loop st' (B :: rest)
      { r with evs := .drop src d B :: r.evs }
    | .chPending => ⟨[], st, .chPending⟩
    | .chClosed => ⟨[], st, .chClosed⟩
termination_by (bufs.length, mu st)
decreasing_by
  · exact Prod.Lex.left _ _ (by simp)
  · exact Prod.Lex.right _ (iter_drop_mu _ _ _ _ _ h)

def slotsOf : List Ev → List Slot
  | [] => []
  | .slot s _ :: es => s :: slotsOf es
  | .drop .. :: es => slotsOf es

inductive PollRes where
  /-- `Poll::Ready(Ok(slots.len()))` -/
  | ready (slots : List Slot)
  /-- `Poll::Pending`; `waker` = the channel was polled and registered the task's waker -/
  | pending (waker : Bool)
  /-- `Poll::Ready(Err(NotConnected))` -/
  | errClosed
deriving Repr, DecidableEq

structure PollOut where
  res : PollRes
  st : St
  evs : List Ev

/-- `RelayTransport::poll_recv` with receive buffers of lengths `bufs`. -/
def pollRecv (st : St) (bufs : List Nat) : PollOut :=
  let r := loop st bufs
  let slots := slotsOf r.evs
  if slots.isEmpty then
    match r.exit with
    | .chPending => ⟨.pending true, r.st, r.evs⟩
    | .chClosed => ⟨.errClosed, r.st, r.evs⟩
    | .full => ⟨.pending false, r.st, r.evs⟩
  else ⟨.ready slots, r.st, r.evs⟩

inductive ArriveRes where
  | ok | full | closed
deriving Repr, DecidableEq

/-- `Sender::try_send` by the relay actor. -/
def arrive (st : St) (b : Batch) : St × ArriveRes :=
  if st.closed then (st, .closed)
  else if st.cap ≤ st.queue.length then (st, .full)
  else ({ st with queue := st.queue ++ [b] }, .ok)

inductive Op where
  | arrive (b : Batch)
  | poll (bufs : List Nat)
  | close
deriving Repr

inductive StepOut where
  | arrived (r : ArriveRes)
  | polled (res : PollRes) (evs : List Ev)
  | closed
deriving Repr

def step (st : St) : Op → St × StepOut
  | .arrive b => let r := arrive st b; (r.1, .arrived r.2)
  | .poll bufs => let r := pollRecv st bufs; (r.st, .polled r.res r.evs)
  | .close => ({ st with closed := true }, .closed)

/-- Any interleaving of arrivals, polls and the close is an op list. -/
def run (st : St) : List Op → St × List StepOut
  | [] => (st, [])
  | op :: ops =>
    let r := step st op
    let rr := run r.1 ops
    (rr.1, r.2 :: rr.2)

end IrohModel.C17
