import IrohModel.C03.Model
import IrohModel.Common.BaseNLemmas

namespace IrohModel.C03
open IrohModel

theorem takeN_spec {n : Nat} {bs a r : Bytes} (h : takeN n bs = some (a, r)) :
    bs = a ++ r ∧ a.length = n := by
  unfold takeN at h
  split at h
  · cases h
  · simp only [Option.some.injEq, Prod.mk.injEq] at h
    obtain ⟨rfl, rfl⟩ := h
    exact ⟨(List.take_append_drop n bs).symm, by simp; omega⟩

theorem takeN_append {n : Nat} (a r : Bytes) (h : a.length = n) : takeN n (a ++ r) = some (a, r) := by
  unfold takeN
  have : ¬ (a ++ r).length < n := by simp; omega
  simp [this, ← h]

theorem takePk_spec (C : Crypto) {bs pk r : Bytes} (h : takePk C bs = some (pk, r)) :
    C.validPoint pk = true ∧ pk.length = 32 := by
  unfold takePk at h
  split at h
  · rename_i pk' r' ht
    split at h
    · rename_i hv
      simp only [Option.some.injEq, Prod.mk.injEq] at h
      obtain ⟨rfl, rfl⟩ := h
      exact ⟨hv, (takeN_spec ht).2⟩
    · cases h
  · cases h

theorem verifyKm_spec (C : Crypto) (a : KmAuth) (h : verifyKm C a = true) :
    ∃ km, C.exportKm a.pk = some km ∧ km.drop 16 = a.suffix ∧ C.verify a.pk (km.take 16) a.sig = true := by
  unfold verifyKm at h
  split at h
  · cases h
  · rename_i km hk
    simp only [Bool.and_eq_true, beq_iff_eq] at h
    exact ⟨km, hk, h.1, h.2⟩

theorem parseKmAuth_validPoint (C : Crypto) (bs : Bytes) (a : KmAuth) (h : parseKmAuth C bs = some a) :
    C.validPoint a.pk = true := by
  unfold parseKmAuth at h
  split at h
  · cases h
  · rename_i pk r1 hp
    split at h
    · cases h
    · split at h
      · cases h
      · simp only [Option.some.injEq] at h
        subst h
        exact (takePk_spec C hp).1

theorem decodeHeader_validPoint (C : Crypto) (hv : Bytes) (a : KmAuth) (h : decodeHeader C hv = some a) :
    C.validPoint a.pk = true := by
  unfold decodeHeader at h
  split at h
  · cases h
  · exact parseKmAuth_validPoint C _ a h

theorem parseClientAuth_validPoint (C : Crypto) (bs : Bytes) (a : ClientAuth)
    (h : parseClientAuth C bs = some a) : C.validPoint a.pk = true := by
  unfold parseClientAuth at h
  split at h
  · cases h
  · rename_i pk r1 hp
    split at h
    · cases h
    · simp only [Option.some.injEq] at h
      subst h
      exact (takePk_spec C hp).1

theorem readClientAuthFrame_ok {next : Option Incoming} {body : Bytes}
    (h : readClientAuthFrame next = .ok body) : ∃ f, next = some (.data f) := by
  unfold readClientAuthFrame at h
  split at h
  · cases h
  · cases h
  · exact ⟨_, rfl⟩

theorem challengePath_sound (C : Crypto) (chal : Bytes) (inc : List Incoming) (wo : WriteOk)
    (K : Bytes) (mech : Mech) (w : List Bytes)
    (h : challengePath C chal inc wo = (.ok ⟨K, mech⟩, w)) :
    mech = .challenge ∧ w = [challengeFrame chal] ∧
      ∃ f body a, inc.head? = some (.data f) ∧ readClientAuthFrame (some (.data f)) = .ok body ∧
        parseClientAuth C body = some a ∧ a.pk = K ∧ C.validPoint K = true ∧
        C.verify K (C.deriveKey chal) a.sig = true := by
  unfold challengePath at h
  split at h
  · simp at h
  · simp only at h
    split at h
    · simp at h
    · rename_i body hr
      split at h
      · simp at h
      · rename_i a hp
        split at h
        · rename_i hv
          simp only [Prod.mk.injEq, Except.ok.injEq, Authenticated.mk.injEq] at h
          obtain ⟨⟨rfl, rfl⟩, rfl⟩ := h
          obtain ⟨f, hf⟩ := readClientAuthFrame_ok hr
          refine ⟨rfl, rfl, f, body, a, hf, ?_, hp, rfl, parseClientAuth_validPoint C _ a hp, hv⟩
          rw [← hf]; exact hr
        · split at h <;> simp at h

/-! ### honest client encodings decode -/

theorem leb_64 (rest : Bytes) : leb (lebEncode 64 ++ rest) = some (64, rest) := by
  have : lebEncode 64 = [64] := by decide
  rw [this]; simp [leb, lebAux]

theorem takeSig_encode (sig rest : Bytes) (h : sig.length = 64) :
    takeSig (lebEncode sig.length ++ sig ++ rest) = some (sig, rest) := by
  unfold takeSig
  rw [h, List.append_assoc, leb_64]
  simp [takeN_append sig rest h]

theorem takePk_append (C : Crypto) (pk rest : Bytes) (h : pk.length = 32) (hv : C.validPoint pk = true) :
    takePk C (pk ++ rest) = some (pk, rest) := by
  unfold takePk; rw [takeN_append pk rest h]; simp [hv]

theorem parseClientAuth_encode (C : Crypto) (pk sig : Bytes) (hpk : pk.length = 32)
    (hv : C.validPoint pk = true) (hs : sig.length = 64) :
    parseClientAuth C (encodeClientAuth pk sig) = some ⟨pk, sig⟩ := by
  unfold parseClientAuth encodeClientAuth
  rw [takePk_append C pk _ hpk hv]
  have := takeSig_encode sig [] hs
  simp only [List.append_nil] at this
  simp [this]

theorem parseKmAuth_encode (C : Crypto) (pk sig suffix : Bytes) (hpk : pk.length = 32)
    (hv : C.validPoint pk = true) (hs : sig.length = 64) (hx : suffix.length = 16) :
    parseKmAuth C (encodeKmAuth pk sig suffix) = some ⟨pk, sig, suffix⟩ := by
  unfold parseKmAuth encodeKmAuth
  rw [List.append_assoc, takePk_append C pk _ hpk hv]
  simp only
  rw [takeSig_encode sig suffix hs]
  simp only
  have := takeN_append suffix [] hx
  simp only [List.append_nil] at this
  simp [this]

theorem base64Url_ascii : base64Url.Ascii := by
  intro c hc
  revert c; decide

theorem honest_header_decodes (S : SigScheme) (C : Crypto) (sk kc : Bytes)
    (hpk : (S.pub sk).length = 32) (hv : C.validPoint (S.pub sk) = true)
    (hs : ∀ m, (S.sign sk m).length = 64) (hk : kc.length = 32) :
    decodeHeader C (base64Url.encodeBytes (encodeKmAuth (S.pub sk) (S.sign sk (kc.take 16)) (kc.drop 16)))
      = some ⟨S.pub sk, S.sign sk (kc.take 16), kc.drop 16⟩ := by
  unfold decodeHeader
  rw [BaseN.decodeBytes_encodeBytes _ base64Url_ascii]
  simp only
  exact parseKmAuth_encode C _ _ _ hpk hv (hs _) (by simp; omega)

theorem honest_challengePath (S : SigScheme) (C : Crypto) (sk chal : Bytes) (wo : WriteOk)
    (hw : wo 0 = true) (law : ∀ m, C.verify (S.pub sk) m (S.sign sk m) = true)
    (hpk : (S.pub sk).length = 32) (hv : C.validPoint (S.pub sk) = true)
    (hs : ∀ m, (S.sign sk m).length = 64) :
    challengePath C chal (honestIncoming S C sk chal) wo =
      (.ok ⟨S.pub sk, .challenge⟩, [challengeFrame chal]) := by
  have hr : readClientAuthFrame (honestIncoming S C sk chal).head? =
      .ok (encodeClientAuth (S.pub sk) (S.sign sk (C.deriveKey chal))) := by
    simp [honestIncoming, honestAuthFrame, readClientAuthFrame, quicVarint, tagClientAuth, maxTag]
  unfold challengePath
  simp only [hw, Bool.not_true, Bool.false_eq_true, if_false, hr,
    parseClientAuth_encode C _ _ hpk hv (hs _), law, if_true]

end IrohModel.C03
