/-
C03 — relay handshake.  Model of `iroh-relay/src/protos/handshake.rs`
(`serverside`, `SuccessfulAuthentication::authorize_if`, the honest
`clientside`), frame layer = one websocket message per frame:
`QUIC-varint tag ++ postcard body`.

Cryptography is a parameter (`Crypto`): the model contains the *decision logic
around* signatures, not Ed25519 / blake3 / the TLS exporter.  The server's
random challenge is an input.
-/
import IrohModel.Common.BaseN
import IrohModel.Generated.C03

namespace IrohModel.C03
open IrohModel

abbrev Bytes := List UInt8

/-- Cryptographic primitives the handshake calls. -/
structure Crypto where
  /-- `PublicKey::try_from(&[u8;32])` succeeds (valid curve point). -/
  validPoint : Bytes → Bool
  /-- `PublicKey::verify(msg, sig)` succeeds (`pk msg sig`). -/
  verify : Bytes → Bytes → Bytes → Bool
  /-- `blake3::derive_key(DOMAIN_SEP_CHALLENGE, challenge)` -/
  deriveKey : Bytes → Bytes
  /-- The server's TLS exporter output (32 bytes) for context = the claimed public key;
  `none` when the stream cannot export keying material. -/
  exportKm : Bytes → Option Bytes

/-! ### wire helpers -/

/-- QUIC varint decode (`noq_proto::VarInt::decode`): returns value and rest. -/
def quicVarint : Bytes → Option (Nat × Bytes)
  | [] => none
  | b :: rest =>
    let tag := b.toNat / 64
    let first := b.toNat % 64
    let n := if tag = 0 then 0 else if tag = 1 then 1 else if tag = 2 then 3 else 7
    if rest.length < n then none
    else some ((rest.take n).foldl (fun acc x => acc * 256 + x.toNat) first, rest.drop n)

/-- postcard `usize` varint (LEB128, at most 10 bytes, last byte ≤ 1). -/
def lebAux : Nat → Nat → Nat → Bytes → Option (Nat × Bytes)
  | 0, _, _, _ => none
  | _ + 1, _, _, [] => none
  | fuel + 1, i, acc, b :: rest =>
    let acc' := acc + (b.toNat % 128) * 2 ^ (7 * i)
    if b.toNat < 128 then
      if i = 9 ∧ b.toNat > 1 then none else some (acc', rest)
    else lebAux fuel (i + 1) acc' rest

def leb (bs : Bytes) : Option (Nat × Bytes) := lebAux 10 0 0 bs

/-- postcard LEB128 encoding of a length (canonical); 10 groups cover every `usize`. -/
def lebEncodeAux : Nat → Nat → Bytes
  | 0, n => [UInt8.ofNat n]
  | fuel + 1, n =>
    if n < 128 then [UInt8.ofNat n] else UInt8.ofNat (n % 128 + 128) :: lebEncodeAux fuel (n / 128)

def lebEncode (n : Nat) : Bytes := lebEncodeAux 10 n

/-- Frame type tags (from `FrameType`). -/
def tagServerChallenge : Nat := Generated.C03.tagServerChallenge
def tagClientAuth : Nat := Generated.C03.tagClientAuth
def tagServerConfirmsAuth : Nat := Generated.C03.tagServerConfirmsAuth
def tagServerDeniesAuth : Nat := Generated.C03.tagServerDeniesAuth
/-- Largest known frame-type discriminant (`FrameType::from_repr` range is `0..=maxTag`). -/
def maxTag : Nat := Generated.C03.maxFrameTag

/-- Take exactly `n` bytes. -/
def takeN (n : Nat) (bs : Bytes) : Option (Bytes × Bytes) :=
  if bs.length < n then none else some (bs.take n, bs.drop n)

/-- `KeyMaterialClientAuth` as decoded. -/
structure KmAuth where
  pk : Bytes
  sig : Bytes
  suffix : Bytes
deriving DecidableEq, Repr

/-- `ClientAuth` as decoded. -/
structure ClientAuth where
  pk : Bytes
  sig : Bytes
deriving DecidableEq, Repr

/-- postcard: `PublicKey` = 32 raw bytes that must be a valid point. -/
def takePk (C : Crypto) (bs : Bytes) : Option (Bytes × Bytes) :=
  match takeN 32 bs with
  | some (pk, rest) => if C.validPoint pk then some (pk, rest) else none
  | none => none

/-- postcard: `#[serde(with = "serde_bytes")] [u8; 64]` = LEB128 length (must be 64) + bytes. -/
def takeSig (bs : Bytes) : Option (Bytes × Bytes) :=
  match leb bs with
  | some (n, rest) => if n = 64 then takeN 64 rest else none
  | none => none

/-- `postcard::from_bytes::<KeyMaterialClientAuth>` (trailing bytes are ignored). -/
def parseKmAuth (C : Crypto) (bs : Bytes) : Option KmAuth :=
  match takePk C bs with
  | none => none
  | some (pk, r1) =>
    match takeSig r1 with
    | none => none
    | some (sig, r2) =>
      match takeN 16 r2 with
      | none => none
      | some (suffix, _) => some ⟨pk, sig, suffix⟩

/-- `postcard::from_bytes::<ClientAuth>` (trailing bytes are ignored). -/
def parseClientAuth (C : Crypto) (bs : Bytes) : Option ClientAuth :=
  match takePk C bs with
  | none => none
  | some (pk, r1) =>
    match takeSig r1 with
    | none => none
    | some (sig, _) => some ⟨pk, sig⟩

/-- Header value → `KeyMaterialClientAuth` (`BASE64URL_NOPAD.decode` then postcard). -/
def decodeHeader (C : Crypto) (h : Bytes) : Option KmAuth :=
  match base64Url.decodeBytes h with
  | none => none
  | some raw => parseKmAuth C raw

/-- `KeyMaterialClientAuth::verify`. -/
def verifyKm (C : Crypto) (a : KmAuth) : Bool :=
  match C.exportKm a.pk with
  | none => false
  | some km => km.drop 16 == a.suffix && C.verify a.pk (km.take 16) a.sig

/-! ### server side -/

inductive Mech where
  | challenge | keyMaterial
deriving DecidableEq, Repr

inductive Err where
  | websocket | unexpectedEnd | frameType | serverDenied | unexpectedFrameType
  | deserialization | headerInvalid
deriving DecidableEq, Repr

/-- What the stream yields on a read. -/
inductive Incoming where
  | data (bs : Bytes)
  | ioError
deriving DecidableEq, Repr

structure Authenticated where
  key : Bytes
  mech : Mech
deriving DecidableEq, Repr

def challengeFrame (chal : Bytes) : Bytes := UInt8.ofNat tagServerChallenge :: chal
def confirmFrame : Bytes := [UInt8.ofNat tagServerConfirmsAuth]
def denyFrame (reason : Bytes) : Bytes :=
  UInt8.ofNat tagServerDeniesAuth :: (lebEncode reason.length ++ reason)

/-- "signature invalid" -/
def reasonSignatureInvalid : Bytes :=
  [115, 105, 103, 110, 97, 116, 117, 114, 101, 32, 105, 110, 118, 97, 108, 105, 100]
/-- "not authorized" -/
def reasonNotAuthorized : Bytes :=
  [110, 111, 116, 32, 97, 117, 116, 104, 111, 114, 105, 122, 101, 100]

/-- Sink behaviour: `writeOk k` says whether the k-th write (send+flush) of the session succeeds. -/
abbrev WriteOk := Nat → Bool

/-- `read_frame(io, &[ClientAuth::TAG])` on the next incoming item. -/
def readClientAuthFrame (next : Option Incoming) : Except Err Bytes :=
  match next with
  | none => .error .unexpectedEnd
  | some .ioError => .error .websocket
  | some (.data bs) =>
    match quicVarint bs with
    | none => .error .frameType
    | some (tag, body) =>
      if tag ≥ 2 ^ 32 ∨ tag > maxTag then .error .frameType
      else if tag ≠ tagClientAuth then .error .unexpectedFrameType
      else .ok body

/-- The challenge round trip of `serverside`: write the challenge, read one frame, which must
be a `ClientAuth` whose signature verifies over `deriveKey chal`; a failing signature is answered
with a denial frame. -/
def challengePath (C : Crypto) (chal : Bytes) (incoming : List Incoming) (writeOk : WriteOk) :
    Except Err Authenticated × List Bytes :=
  if !writeOk 0 then (.error .websocket, []) else
  let w := [challengeFrame chal]
  match readClientAuthFrame incoming.head? with
  | .error e => (.error e, w)
  | .ok body =>
    match parseClientAuth C body with
    | none => (.error .deserialization, w)
    | some a =>
      if C.verify a.pk (C.deriveKey chal) a.sig then (.ok ⟨a.pk, .challenge⟩, w)
      else if !writeOk 1 then (.error .websocket, w)
      else (.error .serverDenied, w ++ [denyFrame reasonSignatureInvalid])

/-- `serverside`: result and the frames written to the client.
`chal` is the 16-byte challenge this session draws from the RNG.  A header that does not decode
is an error (no fallback); a header that decodes but does not verify falls back to the challenge. -/
def serverside (C : Crypto) (hdr : Option Bytes) (chal : Bytes) (incoming : List Incoming)
    (writeOk : WriteOk) : Except Err Authenticated × List Bytes :=
  match hdr with
  | none => challengePath C chal incoming writeOk
  | some h =>
    match decodeHeader C h with
    | none => (.error .headerInvalid, [])
    | some a =>
      if verifyKm C a then (.ok ⟨a.pk, .keyMaterial⟩, []) else challengePath C chal incoming writeOk

/-- The access decision handed to `authorize_if`. -/
inductive Access where
  | allow
  | deny (reason : Option Bytes)
deriving DecidableEq, Repr

/-- `SuccessfulAuthentication::authorize_if`; `k` = number of writes already done. -/
def authorize (auth : Authenticated) (access : Access) (writeOk : WriteOk) (k : Nat) :
    Except Err Bytes × List Bytes :=
  match access with
  | .allow => if writeOk k then (.ok auth.key, [confirmFrame]) else (.error .websocket, [])
  | .deny r =>
    if writeOk k then (.error .serverDenied, [denyFrame (r.getD reasonNotAuthorized)])
    else (.error .websocket, [])

/-- Whole server session: authenticate, then (if authenticated) apply the access decision.
`admitted = some K` iff the relay goes on to serve the connection as endpoint `K`. -/
def session (C : Crypto) (hdr : Option Bytes) (chal : Bytes) (incoming : List Incoming)
    (access : Access) (writeOk : WriteOk) : Except Err Bytes × List Bytes :=
  match serverside C hdr chal incoming writeOk with
  | (.error e, w) => (.error e, w)
  | (.ok auth, w) =>
    let (r, w') := authorize auth access writeOk w.length
    (r, w ++ w')

/-! ### honest client -/

/-- A signature scheme: what the honest client can do with its secret key. -/
structure SigScheme where
  pub : Bytes → Bytes
  sign : Bytes → Bytes → Bytes

/-- postcard encoding of `ClientAuth`. -/
def encodeClientAuth (pk sig : Bytes) : Bytes := pk ++ (lebEncode sig.length ++ sig)
/-- postcard encoding of `KeyMaterialClientAuth`. -/
def encodeKmAuth (pk sig suffix : Bytes) : Bytes := pk ++ (lebEncode sig.length ++ sig) ++ suffix

/-- The frame an honest client holding `sk` sends in answer to challenge `chal`. -/
def honestAuthFrame (S : SigScheme) (C : Crypto) (sk chal : Bytes) : Bytes :=
  UInt8.ofNat tagClientAuth :: encodeClientAuth (S.pub sk) (S.sign sk (C.deriveKey chal))

/-- The auth header an honest client sends when its own exporter yields `kmClient`. -/
def honestHeader (S : SigScheme) (sk : Bytes) (kmClient : Option Bytes) : Option Bytes :=
  kmClient.map fun km =>
    base64Url.encodeBytes (encodeKmAuth (S.pub sk) (S.sign sk (km.take 16)) (km.drop 16))

/-- What the honest client answers to the frames the server wrote before reading. -/
def honestIncoming (S : SigScheme) (C : Crypto) (sk chal : Bytes) : List Incoming :=
  [.data (honestAuthFrame S C sk chal)]

end IrohModel.C03
