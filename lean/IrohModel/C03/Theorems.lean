/-
C03 — property theorems.

"The relay server reports a client as authenticated with endpoint id K only if
that client signed either the fresh server challenge or the TLS keying material
bound to K with K's secret key, for any sequence of frames and headers an
adversarial client sends.  An honest client holding K is always authenticated
as K, by the key-material path when both ends export the same material and by
the challenge path otherwise.  An authorization denial is reported to the
client and never yields an admitted connection."

"Signed with K's secret key" is rendered as "presented a signature that
`verify` accepts under K for the session-bound message" (unforgeability of the
signature scheme is assumed, not proved — see DESIGN §4).
-/
import IrohModel.C03.Lemmas

namespace IrohModel.C03

/-- **auth_sound** — for every header, every challenge drawn, every incoming frame
sequence and every sink behaviour: if the server reports `K` as authenticated then either
(key-material path) the header decodes to a `KeyMaterialClientAuth` for `K` whose suffix equals
the server's own exporter output for context `K` and whose signature verifies under `K` over the
first 16 exported bytes; or (challenge path) the server wrote exactly its fresh challenge and the
first frame the client sent afterwards is a `ClientAuth` for `K` whose signature verifies under
`K` over `deriveKey chal`.  In both cases `K` is a valid key. -/
theorem auth_sound (C : Crypto) (hdr : Option Bytes) (chal : Bytes) (inc : List Incoming)
    (wo : WriteOk) (K : Bytes) (mech : Mech) (w : List Bytes)
    (h : serverside C hdr chal inc wo = (.ok ⟨K, mech⟩, w)) :
    (mech = .keyMaterial ∧ w = [] ∧
      ∃ hv a km, hdr = some hv ∧ decodeHeader C hv = some a ∧ a.pk = K ∧ C.validPoint K = true ∧
        C.exportKm K = some km ∧ km.drop 16 = a.suffix ∧ C.verify K (km.take 16) a.sig = true) ∨
    (mech = .challenge ∧ w = [challengeFrame chal] ∧
      ∃ f body a, inc.head? = some (.data f) ∧ readClientAuthFrame (some (.data f)) = .ok body ∧
        parseClientAuth C body = some a ∧ a.pk = K ∧ C.validPoint K = true ∧
        C.verify K (C.deriveKey chal) a.sig = true) := by
  have hcp := challengePath_sound C chal inc wo K mech w
  unfold serverside at h
  cases hdr with
  | none => exact Or.inr (hcp h)
  | some hv =>
    simp only at h
    cases hd : decodeHeader C hv with
    | none => simp [hd] at h
    | some a =>
      simp only [hd] at h
      by_cases hk : verifyKm C a = true
      · simp only [hk, if_true, Prod.mk.injEq, Except.ok.injEq, Authenticated.mk.injEq] at h
        obtain ⟨⟨rfl, rfl⟩, rfl⟩ := h
        obtain ⟨km, h1, h2, h3⟩ := verifyKm_spec C a hk
        exact Or.inl ⟨rfl, rfl, hv, a, km, rfl, hd, rfl, decodeHeader_validPoint C hv a hd, h1, h2, h3⟩
      · simp only [hk, Bool.false_eq_true, if_false] at h
        exact Or.inr (hcp h)

/-- No identity is ever reported when reading failed, the tag was wrong, the body was malformed
or the signature did not verify: a reported identity always carries a verifying signature
(restatement of `auth_sound` as a single implication about `verify`). -/
theorem reported_only_with_valid_signature (C : Crypto) (hdr : Option Bytes) (chal : Bytes)
    (inc : List Incoming) (wo : WriteOk) (K : Bytes) (mech : Mech) (w : List Bytes)
    (h : serverside C hdr chal inc wo = (.ok ⟨K, mech⟩, w)) :
    ∃ msg sig, C.verify K msg sig = true ∧
      ((mech = .challenge ∧ msg = C.deriveKey chal) ∨
       (mech = .keyMaterial ∧ ∃ km, C.exportKm K = some km ∧ msg = km.take 16)) := by
  rcases auth_sound C hdr chal inc wo K mech w h with
    ⟨hm, _, _, a, km, _, _, _, _, h1, _, h3⟩ | ⟨hm, _, _, _, a, _, _, _, _, _, h3⟩
  · exact ⟨km.take 16, a.sig, h3, Or.inr ⟨hm, km, h1, rfl⟩⟩
  · exact ⟨C.deriveKey chal, a.sig, h3, Or.inl ⟨hm, rfl⟩⟩

/-- Hypotheses describing an honest client that holds `sk` (and what the verifier does with its
signatures): the scheme law, key/signature sizes as in Ed25519, exporter output of 32 bytes. -/
structure Honest (S : SigScheme) (C : Crypto) (sk : Bytes) (kmClient : Option Bytes) : Prop where
  law : ∀ m, C.verify (S.pub sk) m (S.sign sk m) = true
  pubLen : (S.pub sk).length = 32
  pubValid : C.validPoint (S.pub sk) = true
  sigLen : ∀ m, (S.sign sk m).length = 64
  kmLen : ∀ km, kmClient = some km → km.length = 32

/-- **honest_complete** — an honest client holding `sk` is always authenticated as `pub sk`
(whatever the challenge and whatever either exporter yields), by the key-material path when both
ends export the same material, and by the challenge path when the client sent no header, the
server cannot export, or the exported suffixes differ. -/
theorem honest_complete (S : SigScheme) (C : Crypto) (sk chal : Bytes) (kmClient : Option Bytes)
    (wo : WriteOk) (hw : wo 0 = true) (H : Honest S C sk kmClient) :
    ∃ mech w, serverside C (honestHeader S sk kmClient) chal (honestIncoming S C sk chal) wo =
        (.ok ⟨S.pub sk, mech⟩, w) ∧
      (kmClient.isSome = true → C.exportKm (S.pub sk) = kmClient → mech = .keyMaterial ∧ w = []) ∧
      ((kmClient = none ∨ C.exportKm (S.pub sk) = none ∨
          (∃ kc ks, kmClient = some kc ∧ C.exportKm (S.pub sk) = some ks ∧ ks.drop 16 ≠ kc.drop 16)) →
        mech = .challenge ∧ w = [challengeFrame chal]) := by
  have hch := honest_challengePath S C sk chal wo hw H.law H.pubLen H.pubValid H.sigLen
  cases kmClient with
  | none =>
    refine ⟨.challenge, [challengeFrame chal], ?_, by simp, fun _ => ⟨rfl, rfl⟩⟩
    simpa [honestHeader, serverside] using hch
  | some kc =>
    have hkl := H.kmLen kc rfl
    have hdec := honest_header_decodes S C sk kc H.pubLen H.pubValid H.sigLen hkl
    by_cases hv : verifyKm C ⟨S.pub sk, S.sign sk (kc.take 16), kc.drop 16⟩ = true
    · refine ⟨.keyMaterial, [], ?_, fun _ _ => ⟨rfl, rfl⟩, ?_⟩
      · simp [honestHeader, serverside, hdec, hv]
      · intro hcase
        obtain ⟨km, h1, h2, _⟩ := verifyKm_spec C _ hv
        rcases hcase with h | h | ⟨kc', ks, h1', h2', h3'⟩
        · cases h
        · simp only at h1; rw [h] at h1; cases h1
        · simp only at h1 h2
          cases h1'
          rw [h2'] at h1; cases h1
          exact absurd h2 h3'
    · refine ⟨.challenge, [challengeFrame chal], ?_, ?_, fun _ => ⟨rfl, rfl⟩⟩
      · have hv' : verifyKm C ⟨S.pub sk, S.sign sk (kc.take 16), kc.drop 16⟩ = false := by simpa using hv
        simpa [honestHeader, serverside, hdec, hv'] using hch
      · intro _ hsame
        exfalso; apply hv
        simp [verifyKm, hsame, H.law]

/-- **deny_never_admits** — with a deny decision no frame sequence, header or sink behaviour
yields an admitted connection. -/
theorem deny_never_admits (C : Crypto) (hdr : Option Bytes) (chal : Bytes) (inc : List Incoming)
    (r : Option Bytes) (wo : WriteOk) (K : Bytes) :
    (session C hdr chal inc (.deny r) wo).1 ≠ .ok K := by
  unfold session
  split
  · simp
  · simp only [authorize]; split <;> simp

/-- **deny_reported** — if the client authenticated and the sink accepts the write, the denial
(with the given reason, or "not authorized") is the last frame written and the result is the
`ServerDeniedAuth` error. -/
theorem deny_reported (C : Crypto) (hdr : Option Bytes) (chal : Bytes) (inc : List Incoming)
    (r : Option Bytes) (wo : WriteOk) (auth : Authenticated) (w : List Bytes)
    (h : serverside C hdr chal inc wo = (.ok auth, w)) (hw : wo w.length = true) :
    session C hdr chal inc (.deny r) wo =
      (.error .serverDenied, w ++ [denyFrame (r.getD reasonNotAuthorized)]) := by
  simp [session, h, authorize, hw]

/-- **admitted_sound** — a connection is admitted as `K` only after `serverside` authenticated
`K`, the decision was `allow`, and the confirmation frame was written last. -/
theorem admitted_sound (C : Crypto) (hdr : Option Bytes) (chal : Bytes) (inc : List Incoming)
    (access : Access) (wo : WriteOk) (K : Bytes) (w : List Bytes)
    (h : session C hdr chal inc access wo = (.ok K, w)) :
    access = .allow ∧ ∃ mech w0, serverside C hdr chal inc wo = (.ok ⟨K, mech⟩, w0) ∧
      w = w0 ++ [confirmFrame] := by
  unfold session at h
  split at h
  · simp at h
  · rename_i auth w0 hs
    cases access with
    | deny r => simp only [authorize] at h; split at h <;> simp at h
    | allow =>
      simp only [authorize] at h
      split at h
      · simp only [Prod.mk.injEq, Except.ok.injEq] at h
        obtain ⟨rfl, rfl⟩ := h
        exact ⟨rfl, auth.mech, w0, by simpa using hs, rfl⟩
      · simp at h

-- Non-vacuity: a toy scheme (sign sk m = sk ++ m padded to 64, verify = equality) satisfies
-- `Honest`, and both paths are reachable.
section NonVacuity
def toyS : SigScheme := ⟨fun sk => sk, fun sk m => ((sk ++ m) ++ List.replicate 64 0).take 64⟩
def toyC (km : Option Bytes) : Crypto :=
  ⟨fun pk => pk.length == 32, fun pk m sig => sig == ((pk ++ m) ++ List.replicate 64 0).take 64,
   fun c => c ++ c, fun _ => km⟩
def toySk : Bytes := List.replicate 32 7
def toyKm : Bytes := List.replicate 32 9

def okOf (r : Except Err Authenticated) : Option (Bytes × Mech) :=
  match r with
  | .ok a => some (a.key, a.mech)
  | .error _ => none
def errOf (r : Except Err Authenticated) : Option Err :=
  match r with
  | .ok _ => none
  | .error e => some e

example : Honest toyS (toyC (some toyKm)) toySk (some toyKm) :=
  ⟨by intro m; simp [toyS, toyC], by decide, by decide, by intro m; simp [toyS]; omega, by
    intro km h; cases h; decide⟩
example : okOf (serverside (toyC (some toyKm)) (honestHeader toyS toySk (some toyKm)) [1, 2, 3]
    (honestIncoming toyS (toyC (some toyKm)) toySk [1, 2, 3]) (fun _ => true)).1
    = some (toySk, .keyMaterial) := by decide +kernel
example : okOf (serverside (toyC none) (honestHeader toyS toySk (some toyKm)) [1, 2, 3]
    (honestIncoming toyS (toyC none) toySk [1, 2, 3]) (fun _ => true)).1
    = some (toySk, .challenge) := by decide +kernel
-- an adversarial frame with a non-verifying signature is denied and told so
example :
    let r := serverside (toyC none) none [1, 2, 3]
      [.data (1 :: encodeClientAuth toySk (List.replicate 64 0))] (fun _ => true)
    errOf r.1 = some .serverDenied ∧
      r.2 = [challengeFrame [1, 2, 3], denyFrame reasonSignatureInvalid] := by decide
end NonVacuity

end IrohModel.C03
