/-
C31 — endpoint info ⇄ TXT attributes ⇄ TXT strings / signed packet
(iroh-dns/src/endpoint_info.rs, attrs.rs, pkarr.rs), modelled after the `fix:`
commit that parses `key=value` with `split_once('=')`.

What is concrete here: the attribute keys and their kebab-case names, building
the `key=value` strings in `BTreeMap` order, splitting them again, bucket
order, first-value-wins and the length check for user data, address
de-duplication, the DNS-name check `_iroh.<z-base-32 id>.…` (z-base-32 from
`Common.BaseN`), the size rules for a signed packet (each TXT string ≤ 255
bytes, encoded DNS packet ≤ `MAX_DNS_PACKET_SIZE`).

What is abstract (`Codecs`): the text parsers of the three address kinds
(`url::Url::parse`, `SocketAddr::from_str`, `CustomAddr::from_str`) and
ed25519 point validity.  An address value is represented by its canonical
text (the `Display` output of the Rust value), `parse… s = some s'` means
"`s` parses and the parsed value displays as `s'`".  In the correspondence
run the verdicts of the real parsers are inputs.  DNS wire encoding of TXT
records (simple-dns) is not modelled beyond its size: a packet is its signer
key and its list of TXT strings.

Strings are `List Char`; byte lengths are UTF-8 lengths.  Core Lean only.
-/
import IrohModel.Generated.C31
import IrohModel.Common.Hex
import IrohModel.Common.BaseN

namespace IrohModel.C31

abbrev Str := List Char

/-- `str::len()` (UTF-8 bytes). -/
def utf8Len (s : Str) : Nat := (s.map Char.utf8Size).sum

/-- `str::split_once(c)`. -/
def splitOnce (c : Char) : Str → Option (Str × Str)
  | [] => none
  | x :: xs => if x = c then some ([], xs) else (splitOnce c xs).map (fun kv => (x :: kv.1, kv.2))

/-- `str::split(c)` (always at least one piece). -/
def splitAll (c : Char) : Str → List Str
  | [] => [[]]
  | x :: xs =>
    if x = c then [] :: splitAll c xs
    else match splitAll c xs with
      | [] => [[x]]
      | h :: t => (x :: h) :: t

/-! ### attribute keys (`IrohAttr`, strum kebab-case; `Ord` = declaration order) -/

inductive Attr where
  | relay | addr | userData
deriving DecidableEq, Repr

def Attr.name : Attr → Str
  | .relay => "relay".toList
  | .addr => "addr".toList
  | .userData => "user-data".toList

/-- `IrohAttr::from_str` (exact, case-sensitive). -/
def Attr.ofName? (s : Str) : Option Attr :=
  if s = Attr.relay.name then some .relay
  else if s = Attr.addr.name then some .addr
  else if s = Attr.userData.name then some .userData
  else none

/-! ### values -/

/-- A transport address, identified by its canonical text. -/
inductive Addr where
  | relay (url : Str)
  | ip (sock : Str)
  | custom (text : Str)
deriving DecidableEq, Repr

structure Info where
  /-- endpoint id: the 32 key bytes -/
  id : Bytes
  /-- `EndpointData.addrs` (the public constructors keep it duplicate-free) -/
  addrs : List Addr
  userData : Option Str
deriving DecidableEq, Repr

/-- `TxtAttrs<IrohAttr>`: a `BTreeMap<IrohAttr, Vec<String>>`; an absent key is an empty bucket. -/
structure Attrs where
  id : Bytes
  relay : List Str
  addr : List Str
  userData : List Str
deriving DecidableEq, Repr

structure Codecs where
  parseUrl : Str → Option Str
  parseIp : Str → Option Str
  parseCustom : Str → Option Str
  /-- the 32 bytes are a valid ed25519 public key -/
  validKey : Bytes → Bool

/-- `UserData::MAX_LENGTH` -/
abbrev userDataMax : Nat := Generated.C31.userDataMaxLength

/-! ### info → attributes → strings -/

/-- value pushed under `relay` -/
def Addr.relayText? : Addr → Option Str
  | .relay u => some u
  | _ => none

/-- value pushed under `addr` (`SocketAddr` and `CustomAddr` share the key) -/
def Addr.addrText? : Addr → Option Str
  | .ip s => some s
  | .custom s => some s
  | .relay _ => none

/-- `endpoint_info_to_attrs` + `TxtAttrs::from_parts` (push per key, order kept). -/
def toAttrs (i : Info) : Attrs where
  id := i.id
  relay := i.addrs.filterMap Addr.relayText?
  addr := i.addrs.filterMap Addr.addrText?
  userData := i.userData.toList

def kv (a : Attr) (v : Str) : Str := a.name ++ '=' :: v

/-- `TxtAttrs::to_txt_strings`: map order (relay, addr, user-data), `format!("{k}={v}")`. -/
def toTxtStrings (a : Attrs) : List Str :=
  a.relay.map (kv .relay) ++ a.addr.map (kv .addr) ++ a.userData.map (kv .userData)

/-! ### strings → attributes → info -/

inductive ParseErr where
  | unexpectedFormat | attrFromString | numLabels | notAnIrohRecord | decodingError
deriving DecidableEq, Repr

def Attrs.push (a : Attrs) : Attr → Str → Attrs
  | .relay, v => { a with relay := a.relay ++ [v] }
  | .addr, v => { a with addr := a.addr ++ [v] }
  | .userData, v => { a with userData := a.userData ++ [v] }

def fromStringsGo (acc : Attrs) : List Str → Except ParseErr Attrs
  | [] => .ok acc
  | s :: rest =>
    match splitOnce '=' s with
    | none => .error .unexpectedFormat
    | some (k, v) =>
      match Attr.ofName? k with
      | none => .error .attrFromString
      | some a => fromStringsGo (acc.push a v) rest

/-- `TxtAttrs::from_strings`: first offending string decides the error. -/
def fromStrings (id : Bytes) (strings : List Str) : Except ParseErr Attrs :=
  fromStringsGo ⟨id, [], [], []⟩ strings

/-- `HashSet`-based order-preserving de-duplication (`add_addrs` on an empty `EndpointData`). -/
def dedupAux (seen : List Addr) : List Addr → List Addr
  | [] => []
  | x :: xs => if x ∈ seen then dedupAux seen xs else x :: dedupAux (x :: seen) xs

def dedup (l : List Addr) : List Addr := dedupAux [] l

def parseAddrValue (C : Codecs) (s : Str) : Option Addr :=
  match C.parseIp s with
  | some x => some (.ip x)
  | none => (C.parseCustom s).map .custom

/-- `endpoint_info_from_attrs`. -/
def fromAttrs (C : Codecs) (a : Attrs) : Info where
  id := a.id
  addrs := dedup ((a.relay.filterMap C.parseUrl).map .relay ++ a.addr.filterMap (parseAddrValue C))
  userData := a.userData.head?.bind fun s => if utf8Len s ≤ userDataMax then some s else none

/-- `IROH_TXT_NAME` -/
def irohTxtName : Str := Generated.C31.irohTxtName.toList

/-- `endpoint_id_from_txt_name`: at least two labels, first `_iroh`, second the z-base-32 id. -/
def endpointIdFromTxtName (C : Codecs) (name : Str) : Except ParseErr Bytes :=
  match splitAll '.' name with
  | l0 :: l1 :: _ =>
    if l0 ≠ irohTxtName then .error .notAnIrohRecord
    else match zbase32.decode l1 with
      | none => .error .decodingError
      | some bs => if bs.length = 32 ∧ C.validKey bs then .ok bs else .error .decodingError
  | _ => .error .numLabels

/-- `EndpointInfo::from_txt_lookup(name, strings)`. -/
def fromTxtLookup (C : Codecs) (name : Str) (strings : List Str) : Except ParseErr Info :=
  match endpointIdFromTxtName C name with
  | .error e => .error e
  | .ok id =>
    match fromStrings id strings with
    | .error e => .error e
    | .ok a => .ok (fromAttrs C a)

/-- The DNS name under which the TXT records of `id` are published below `origin`. -/
def txtName (id : Bytes) (origin : Str) : Str :=
  irohTxtName ++ '.' :: (zbase32.encode id ++ '.' :: origin)

/-! ### signed packet (signer key + TXT strings; sizes as in `from_txt_strings`) -/

structure Pkt where
  key : Bytes
  txts : List Str
deriving DecidableEq, Repr

inductive BuildErr where
  | dnsError | packetTooLarge
deriving DecidableEq, Repr

/-- `MAX_DNS_PACKET_SIZE` -/
abbrev maxDns : Nat := Generated.C31.maxDnsPacketSize

/-- Size of the compressed DNS reply: 12 header bytes; per record name + type/class/ttl/rdlength
(10) + one character-string (1 + len).  The first name is written out
(`_iroh` label, 52-character id label, root), later ones are 2-byte pointers. -/
def dnsSize (keyLen : Nat) : List Str → Nat
  | [] => 12
  | s :: rest =>
    12 + ((1 + irohTxtName.length) + (1 + zbase32.encodeLen keyLen) + 1 + 11 + utf8Len s) +
      (rest.map fun r => 2 + 11 + utf8Len r).sum

/-- `SignedPacket::from_txt_strings(sk, "_iroh", strings, ttl)` as far as C31 needs it. -/
def toPacket (signer : Bytes) (txts : List Str) : Except BuildErr Pkt :=
  if txts.any (fun s => decide (255 < utf8Len s)) then .error .dnsError
  else if maxDns < dnsSize signer.length txts then .error .packetTooLarge
  else .ok ⟨signer, txts⟩

/-- `EndpointInfo::to_pkarr_signed_packet(secret_key, ttl)`; `signer` = public key of the secret key. -/
def toSignedPacket (signer : Bytes) (i : Info) : Except BuildErr Pkt :=
  toPacket signer (toTxtStrings (toAttrs i))

/-- `EndpointInfo::from_pkarr_signed_packet`: id = the packet's key, strings = its `_iroh` TXT records. -/
def fromSignedPacket (C : Codecs) (p : Pkt) : Except ParseErr Info :=
  match fromStrings p.key p.txts with
  | .error e => .error e
  | .ok a => .ok (fromAttrs C a)

/-- `UserData::try_from(String)`. -/
def mkUserData (s : Str) : Option Str := if utf8Len s ≤ userDataMax then some s else none

end IrohModel.C31
