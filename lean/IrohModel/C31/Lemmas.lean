/-
C31 — helper lemmas: `split_once` undoes `format!("{k}={v}")`, bucket order,
de-duplication of duplicate-free lists, splitting the DNS name.
-/
import IrohModel.C31.Model
import IrohModel.Common.BaseNLemmas

namespace IrohModel.C31

/-! ### `key=value` -/

theorem splitOnce_append {c : Char} {k : Str} (v : Str) (h : c ∉ k) :
    splitOnce c (k ++ c :: v) = some (k, v) := by
  induction k with
  | nil => simp [splitOnce]
  | cons x k ih =>
    have hx : x ≠ c := fun e => h (by simp [e])
    have hk : c ∉ k := fun e => h (by simp [e])
    simp [splitOnce, hx, ih hk]

theorem eq_not_mem_name (a : Attr) : '=' ∉ a.name := by cases a <;> decide

theorem ofName?_name (a : Attr) : Attr.ofName? a.name = some a := by cases a <;> decide

theorem splitOnce_kv (a : Attr) (v : Str) : splitOnce '=' (kv a v) = some (a.name, v) :=
  splitOnce_append v (eq_not_mem_name a)

/-- Pushing a whole list of values under one key. -/
def Attrs.pushAll (acc : Attrs) (a : Attr) : List Str → Attrs
  | [] => acc
  | v :: vs => (acc.push a v).pushAll a vs

theorem fromStringsGo_map_kv (acc : Attrs) (a : Attr) (vs rest : List Str) :
    fromStringsGo acc (vs.map (kv a) ++ rest) = fromStringsGo (acc.pushAll a vs) rest := by
  induction vs generalizing acc with
  | nil => rfl
  | cons v vs ih =>
    simp only [List.map_cons, List.cons_append, fromStringsGo, splitOnce_kv, ofName?_name]
    exact ih _

theorem pushAll_relay (acc : Attrs) (vs : List Str) :
    acc.pushAll .relay vs = { acc with relay := acc.relay ++ vs } := by
  induction vs generalizing acc with
  | nil => simp [Attrs.pushAll]
  | cons v vs ih => simp [Attrs.pushAll, ih, Attrs.push]

theorem pushAll_addr (acc : Attrs) (vs : List Str) :
    acc.pushAll .addr vs = { acc with addr := acc.addr ++ vs } := by
  induction vs generalizing acc with
  | nil => simp [Attrs.pushAll]
  | cons v vs ih => simp [Attrs.pushAll, ih, Attrs.push]

theorem pushAll_userData (acc : Attrs) (vs : List Str) :
    acc.pushAll .userData vs = { acc with userData := acc.userData ++ vs } := by
  induction vs generalizing acc with
  | nil => simp [Attrs.pushAll]
  | cons v vs ih => simp [Attrs.pushAll, ih, Attrs.push]

/-! ### de-duplication -/

theorem dedupAux_of_nodup (seen l : List Addr) (hd : ∀ x ∈ l, x ∉ seen) (hn : l.Nodup) :
    dedupAux seen l = l := by
  induction l generalizing seen with
  | nil => rfl
  | cons x xs ih =>
    have hx : x ∉ seen := hd x (by simp)
    rw [List.nodup_cons] at hn
    simp only [dedupAux, hx, if_false]
    congr 1
    apply ih _ _ hn.2
    intro y hy
    simp only [List.mem_cons, not_or]
    exact ⟨fun e => hn.1 (e ▸ hy), hd y (by simp [hy])⟩

theorem dedup_of_nodup (l : List Addr) (hn : l.Nodup) : dedup l = l :=
  dedupAux_of_nodup [] l (by simp) hn

/-! ### splitting a DNS name -/

theorem splitAll_ne_nil (c : Char) (s : Str) : splitAll c s ≠ [] := by
  induction s with
  | nil => simp [splitAll]
  | cons x xs ih =>
    simp only [splitAll]
    split
    · simp
    · split <;> simp

theorem splitAll_append {c : Char} {p : Str} (rest : Str) (h : c ∉ p) :
    splitAll c (p ++ c :: rest) = p :: splitAll c rest := by
  induction p with
  | nil => simp [splitAll]
  | cons x p ih =>
    have hx : x ≠ c := fun e => h (by simp [e])
    have hp : c ∉ p := fun e => h (by simp [e])
    simp [splitAll, hx, ih hp]

theorem dot_not_mem_z32 (bs : Bytes) : '.' ∉ zbase32.encode bs := by
  intro h
  have := BaseN.encode_subset_alphabet zbase32 bs '.' h
  revert this
  decide

theorem dot_not_mem_irohTxtName : '.' ∉ irohTxtName := by decide

end IrohModel.C31
