/-
C31 (extension) — the custom-address text codec is no longer an assumption.

C31's round-trip theorems take the text parsers as an abstract `Codecs` and
require every address to be canonical (`Canon`): for a custom address `s`,
`parseIp s = none ∧ parseCustom s = some s`.  C02 models `CustomAddr`'s
`Display` / `FromStr` concretely (`{id:x}_{lower-case hex of data}`) and proves
`custom_str_rt`.  Here the C02 codec is plugged into C31:

* `c02ParseCustom` — `CustomAddr::from_str` followed by `Display`, on `List Char`
  (a string with a non-ASCII character is rejected, as the real parser rejects
  its UTF-8 bytes: they are neither hex digits nor `_`; for ASCII strings the
  UTF-8 bytes are the character codes);
* `canon_custom` — for EVERY well-formed `CustomAddr` value its text is canonical
  for any `Codecs` whose custom parser is the C02 one and whose socket-address
  parser rejects strings containing `_` (no `SocketAddr` text contains `_`);
* `rt_txt_custom`, `rt_packet_custom` — C31's theorems with the custom-address
  hypothesis discharged: custom addresses are given as C02 values.

The C31 driver additionally checks `c02ParseCustom` against the real
`CustomAddr::from_str` verdict of every value string of every case.
-/
import IrohModel.C31.Theorems
import IrohModel.C02.Theorems

namespace IrohModel.C31

/-- `Display` of a custom address as text. -/
def customText (a : C02.CustomAddr) : Option Str :=
  match a.display with
  | .ok d => some (d.map charOfByte)
  | _ => none

/-- `CustomAddr::from_str(s).ok().map(|a| a.to_string())` -/
def c02ParseCustom (s : Str) : Option Str :=
  if s.all (fun c => decide (c.toNat < 128)) then
    match C02.CustomAddr.fromStr (s.map byteOfChar) with
    | .ok a => customText a
    | _ => none
  else none

theorem hexDigitByte_lt {d : Nat} (h : d < 16) : (C02.hexDigitByte d).toNat < 128 := by
  unfold C02.hexDigitByte
  split <;> rw [UInt8.toNat_ofNat'] <;> omega

/-- The display bytes of a well-formed custom address: all ASCII, contain `_`, parse back. -/
theorem display_spec (a : C02.CustomAddr) (h : a.WF) :
    ∃ d, a.display = .ok d ∧ C02.CustomAddr.fromStr d = .ok a ∧ (95 : UInt8) ∈ d ∧
      ∀ x ∈ d, x.toNat < 128 := by
  obtain ⟨d, hd, hp⟩ := C02.custom_str_rt a h
  obtain ⟨bs, _, _, _, hdisp, _⟩ := C02.accessors_total a h
  rw [hdisp] at hd
  cases hd
  refine ⟨_, hdisp, hp, by simp, ?_⟩
  intro x hx
  simp only [List.mem_append, List.mem_singleton] at hx
  rcases hx with (hx | rfl) | hx
  · obtain ⟨n, hn, rfl⟩ := C02.mem_fmtHexU64 hx
    exact hexDigitByte_lt hn
  · decide
  · simp only [BaseN.encodeBytes, List.mem_map] at hx
    obtain ⟨c, hc, rfl⟩ := hx
    have := hexLower_ascii c (BaseN.encode_subset_alphabet hexLower bs c hc)
    unfold byteOfChar
    rw [UInt8.toNat_ofNat']; omega

/-- The text of every well-formed custom address is a fixed point of the C02 parser and
contains `_`. -/
theorem c02ParseCustom_text (a : C02.CustomAddr) (h : a.WF) :
    ∃ s, customText a = some s ∧ c02ParseCustom s = some s ∧ '_' ∈ s := by
  obtain ⟨d, hdisp, hparse, h95, hascii⟩ := display_spec a h
  refine ⟨d.map charOfByte, by simp [customText, hdisp], ?_, ?_⟩
  · have hall : (d.map charOfByte).all (fun c => decide (c.toNat < 128)) = true := by
      simp only [List.all_map, List.all_eq_true, Function.comp, decide_eq_true_eq]
      intro x hx
      unfold charOfByte
      rw [toNat_charOfNat_small _ (by have := x.toNat_lt; omega)]
      exact hascii x hx
    have hback : (d.map charOfByte).map byteOfChar = d := by
      rw [List.map_map]
      conv => rhs; rw [← List.map_id d]
      apply List.map_congr_left
      intro x _; simp
    simp [c02ParseCustom, hall, hback, hparse, customText, hdisp]
  · have : charOfByte 95 = '_' := by decide
    rw [← this]
    exact List.mem_map_of_mem h95

/-- **The C31 hypothesis for custom addresses holds for the C02 codec.** -/
theorem canon_custom (C : Codecs) (hC : C.parseCustom = c02ParseCustom)
    (hip : ∀ s, '_' ∈ s → C.parseIp s = none) (a : C02.CustomAddr) (h : a.WF) :
    ∃ s, customText a = some s ∧ Canon C (.custom s) := by
  obtain ⟨s, ht, hp, hu⟩ := c02ParseCustom_text a h
  exact ⟨s, ht, hip s hu, by rw [hC]; exact hp⟩

/-- Whatever the C02 parser returns is the text of a well-formed value, hence canonical:
resolving never produces a custom address that would not survive another round trip. -/
theorem c02ParseCustom_canonical {s s' : Str} (h : c02ParseCustom s = some s') :
    c02ParseCustom s' = some s' := by
  unfold c02ParseCustom at h
  split at h
  · split at h
    · rename_i a ha
      have hwf := ((C02.custom_parse_total (s.map byteOfChar)).1.2) a ha
      obtain ⟨t, ht, hp, _⟩ := c02ParseCustom_text a hwf
      rw [ht] at h; cases h; exact hp
    · cases h
  · cases h

/-- Well-formedness with custom addresses given as C02 values instead of a `Canon` hypothesis. -/
structure WFc (C : Codecs) (i : Info) : Prop where
  nodup : i.addrs.Nodup
  canonRelayIp : ∀ a ∈ i.addrs, (∃ s, a = .custom s) ∨ Canon C a
  custom : ∀ s, Addr.custom s ∈ i.addrs → ∃ a : C02.CustomAddr, a.WF ∧ customText a = some s
  userData : ∀ u, i.userData = some u → utf8Len u ≤ 245
  idLen : i.id.length = 32
  idValid : C.validKey i.id = true

theorem wf_of_wfc (C : Codecs) (hC : C.parseCustom = c02ParseCustom)
    (hip : ∀ s, '_' ∈ s → C.parseIp s = none) (i : Info) (h : WFc C i) : WF C i := by
  refine ⟨h.nodup, ?_, h.userData, h.idLen, h.idValid⟩
  intro a ha
  rcases h.canonRelayIp a ha with ⟨s, rfl⟩ | hc
  · obtain ⟨c, hwf, ht⟩ := h.custom s ha
    obtain ⟨s', ht', hcan⟩ := canon_custom C hC hip c hwf
    rw [ht] at ht'; cases ht'; exact hcan
  · exact hc

/-- `rt_txt` with no assumption about custom addresses. -/
theorem rt_txt_custom (C : Codecs) (hC : C.parseCustom = c02ParseCustom)
    (hip : ∀ s, '_' ∈ s → C.parseIp s = none) (i : Info) (origin : Str) (h : WFc C i) :
    ∃ i', fromTxtLookup C (txtName i.id origin) (toTxtStrings (toAttrs i)) = .ok i' ∧
      i'.id = i.id ∧ i'.addrs.Perm i.addrs ∧ i'.userData = i.userData :=
  rt_txt C i origin (wf_of_wfc C hC hip i h)

/-- `rt_packet` with no assumption about custom addresses. -/
theorem rt_packet_custom (C : Codecs) (hC : C.parseCustom = c02ParseCustom)
    (hip : ∀ s, '_' ∈ s → C.parseIp s = none) (i : Info) (signer : Bytes) (p : Pkt) (h : WFc C i)
    (hown : signer = i.id) (henc : toSignedPacket signer i = .ok p) :
    ∃ i', fromSignedPacket C p = .ok i' ∧
      i'.id = i.id ∧ i'.addrs.Perm i.addrs ∧ i'.userData = i.userData :=
  rt_packet C i signer p (wf_of_wfc C hC hip i h) hown henc

/-! ### Non-vacuity -/

/-- The toy codecs of `Theorems.lean` with the real (C02) custom-address parser. -/
def toyC02 : Codecs := { toyC with parseCustom := c02ParseCustom }

theorem toyC02_ip (s : Str) (h : '_' ∈ s) : toyC02.parseIp s = none := by
  simp [toyC02, toyC, h]

/-- `CustomAddr::from_parts(1, &[0xa1, 0xb2])` -/
def demoCustom : C02.CustomAddr :=
  ⟨1, .inline 2 ([0xa1, 0xb2] ++ List.replicate 28 0)⟩

example : customText demoCustom = some "1_a1b2".toList := by decide
example : c02ParseCustom "1_a1b2".toList = some "1_a1b2".toList := by decide
example : c02ParseCustom "1_A1B2".toList = none := by decide
example : c02ParseCustom "1.2.3.4:5".toList = none := by decide

def demoInfoC : Info where
  id := List.replicate 32 7
  addrs := [.custom "1_a1b2".toList, .relay "https://r.example/".toList]
  userData := none

example : ∃ i', fromTxtLookup toyC02 (txtName demoInfoC.id "o.".toList)
      (toTxtStrings (toAttrs demoInfoC)) = .ok i' ∧
    i'.id = demoInfoC.id ∧ i'.addrs.Perm demoInfoC.addrs ∧ i'.userData = demoInfoC.userData := by
  apply rt_txt_custom toyC02 rfl toyC02_ip
  refine ⟨by decide, ?_, ?_, by simp [demoInfoC], by decide, rfl⟩
  · intro a ha
    simp only [demoInfoC, List.mem_cons, List.not_mem_nil, or_false] at ha
    rcases ha with rfl | rfl
    · exact Or.inl ⟨_, rfl⟩
    · exact Or.inr (by simp [Canon, toyC02, toyC])
  · intro s hs
    simp only [demoInfoC, List.mem_cons, Addr.custom.injEq, List.not_mem_nil, or_false] at hs
    rcases hs with rfl | hs
    · exact ⟨demoCustom, (C02.wf_iff_built _).mpr ⟨[0xa1, 0xb2], by decide⟩, by decide⟩
    · cases hs

end IrohModel.C31
