/-
C31 — property theorems (only).

Statement: endpoint information published as a signed packet or as TXT records
and then resolved yields the same endpoint id, the same set of addresses and the
same user data, for every value that encodes successfully.

`C : Codecs` are the abstract text parsers.  An info is well-formed (`WF`) when
it is a value the Rust types can hold: duplicate-free address list
(`EndpointData` invariant), user data within `UserData::MAX_LENGTH`, a 32-byte
valid key as id, and every address is given by its canonical text, i.e.
parsing that text gives the same value back (`Canon`: the assumed
display/parse stability of `url::Url`, `SocketAddr` — flow info and scope aside —
and `CustomAddr`, whose text never parses as a socket address).
-/
import IrohModel.C31.Lemmas

namespace IrohModel.C31

/-- The address is the canonical text of a value of its kind. -/
def Canon (C : Codecs) : Addr → Prop
  | .relay u => C.parseUrl u = some u
  | .ip s => C.parseIp s = some s
  | .custom s => C.parseIp s = none ∧ C.parseCustom s = some s

structure WF (C : Codecs) (i : Info) : Prop where
  nodup : i.addrs.Nodup
  canon : ∀ a ∈ i.addrs, Canon C a
  userData : ∀ u, i.userData = some u → utf8Len u ≤ 245
  idLen : i.id.length = 32
  idValid : C.validKey i.id = true

def Addr.isRelay : Addr → Bool
  | .relay _ => true
  | _ => false

/-- String level (D13): for ANY attribute values — `=` included — parsing the produced
`key=value` strings gives the attributes back, bucket by bucket and in order. -/
theorem fromStrings_toTxtStrings (a : Attrs) : fromStrings a.id (toTxtStrings a) = .ok a := by
  unfold fromStrings toTxtStrings
  rw [List.append_assoc, fromStringsGo_map_kv, fromStringsGo_map_kv]
  have := fromStringsGo_map_kv (((⟨a.id, [], [], []⟩ : Attrs).pushAll .relay a.relay).pushAll .addr a.addr)
    .userData a.userData []
  rw [List.append_nil] at this
  rw [this, pushAll_relay, pushAll_addr, pushAll_userData]
  simp [fromStringsGo]

set_option linter.unusedSimpArgs false in
/-- Value level: decoding the attributes of a well-formed info gives the same id, the same
addresses (relay URLs first, each group in the original order) and the same user data. -/
theorem fromAttrs_toAttrs (C : Codecs) (i : Info) (h : WF C i) :
    fromAttrs C (toAttrs i) =
      ⟨i.id, i.addrs.filter Addr.isRelay ++ i.addrs.filter (fun a => !a.isRelay), i.userData⟩ := by
  have hrel : ∀ l : List Addr, (∀ a ∈ l, Canon C a) →
      ((l.filterMap Addr.relayText?).filterMap C.parseUrl).map Addr.relay = l.filter Addr.isRelay := by
    intro l hl
    induction l with
    | nil => rfl
    | cons a l ih =>
      have ih' := ih (fun b hb => hl b (by simp [hb]))
      have ha := hl a (by simp)
      cases a with
      | relay u =>
        simp only [Canon] at ha
        simp [List.filterMap_cons, List.filter_cons, Addr.relayText?, ha, Addr.isRelay, ih']
      | ip s => simpa [List.filterMap_cons, List.filter_cons, Addr.relayText?, Addr.isRelay] using ih'
      | custom s => simpa [List.filterMap_cons, List.filter_cons, Addr.relayText?, Addr.isRelay] using ih'
  have hoth : ∀ l : List Addr, (∀ a ∈ l, Canon C a) →
      (l.filterMap Addr.addrText?).filterMap (parseAddrValue C) = l.filter (fun a => !a.isRelay) := by
    intro l hl
    induction l with
    | nil => rfl
    | cons a l ih =>
      have ih' := ih (fun b hb => hl b (by simp [hb]))
      have ha := hl a (by simp)
      cases a with
      | relay u => simpa [List.filterMap_cons, List.filter_cons, Addr.addrText?, Addr.isRelay] using ih'
      | ip s =>
        simp only [Canon] at ha
        simp [List.filterMap_cons, List.filter_cons, Addr.addrText?, parseAddrValue, ha, Addr.isRelay, ih']
      | custom s =>
        simp only [Canon] at ha
        simp [List.filterMap_cons, List.filter_cons, Addr.addrText?, parseAddrValue, ha.1, ha.2,
          Addr.isRelay, ih']
  have hperm : (i.addrs.filter Addr.isRelay ++ i.addrs.filter (fun a => !a.isRelay)).Perm i.addrs :=
    List.filter_append_perm _ _
  have hnd : (i.addrs.filter Addr.isRelay ++ i.addrs.filter (fun a => !a.isRelay)).Nodup :=
    hperm.nodup_iff.mpr h.nodup
  have hud : (i.userData.toList.head?.bind fun s => if utf8Len s ≤ userDataMax then some s else none) =
      i.userData := by
    cases hu : i.userData with
    | none => rfl
    | some u =>
      have := h.userData u hu
      simp [userDataMax, Generated.C31.userDataMaxLength, this]
  simp only [fromAttrs, toAttrs]
  rw [hrel _ h.canon, hoth _ h.canon, dedup_of_nodup _ hnd, hud]

/-- The queried DNS name `_iroh.<z-base-32 id>.<origin>` yields the id (any origin). -/
theorem id_of_txtName (C : Codecs) (id : Bytes) (origin : Str)
    (hlen : id.length = 32) (hv : C.validKey id = true) :
    endpointIdFromTxtName C (txtName id origin) = .ok id := by
  unfold endpointIdFromTxtName txtName
  rw [splitAll_append _ dot_not_mem_irohTxtName, splitAll_append _ (dot_not_mem_z32 id)]
  rcases hs : splitAll '.' origin with _ | ⟨l, ls⟩
  · exact absurd hs (splitAll_ne_nil _ _)
  · simp [BaseN.decode_encode, hlen, hv]

/-- **TXT path.**  Publishing a well-formed info as TXT strings and resolving them under its DNS
name (below any origin) succeeds and yields the same id, the same address set (as a permutation of
a duplicate-free list) and the same user data. -/
theorem rt_txt (C : Codecs) (i : Info) (origin : Str) (h : WF C i) :
    ∃ i', fromTxtLookup C (txtName i.id origin) (toTxtStrings (toAttrs i)) = .ok i' ∧
      i'.id = i.id ∧ i'.addrs.Perm i.addrs ∧ i'.userData = i.userData := by
  refine ⟨⟨i.id, i.addrs.filter Addr.isRelay ++ i.addrs.filter (fun a => !a.isRelay), i.userData⟩, ?_, rfl, List.filter_append_perm _ _, rfl⟩
  unfold fromTxtLookup
  rw [id_of_txtName C i.id origin h.idLen h.idValid]
  have := fromStrings_toTxtStrings (toAttrs i)
  simp only [toAttrs] at this ⊢
  rw [this]
  exact congrArg Except.ok (fromAttrs_toAttrs C i h)

/-- When the packet builder accepts: every TXT string fits a DNS character-string and the
encoded DNS packet fits `MAX_DNS_PACKET_SIZE`. -/
theorem encodes_iff (signer : Bytes) (i : Info) (p : Pkt) :
    toSignedPacket signer i = .ok p ↔
      ((∀ s ∈ toTxtStrings (toAttrs i), utf8Len s ≤ 255) ∧
        dnsSize signer.length (toTxtStrings (toAttrs i)) ≤ 1000) ∧
      p = ⟨signer, toTxtStrings (toAttrs i)⟩ := by
  unfold toSignedPacket toPacket
  simp only [maxDns, Generated.C31.maxDnsPacketSize]
  by_cases h1 : (toTxtStrings (toAttrs i)).any (fun s => decide (255 < utf8Len s)) = true
  · simp only [h1, if_true]
    constructor
    · intro h; cases h
    · rintro ⟨⟨hall, _⟩, _⟩
      rw [List.any_eq_true] at h1
      obtain ⟨s, hs, hlt⟩ := h1
      have := hall s hs
      simp at hlt; omega
  · have hall : ∀ s ∈ toTxtStrings (toAttrs i), utf8Len s ≤ 255 := by
      intro s hs
      rw [List.any_eq_true] at h1
      apply Nat.le_of_not_lt
      intro hlt
      exact h1 ⟨s, hs, by simpa using hlt⟩
    simp only [h1]
    by_cases h2 : 1000 < dnsSize signer.length (toTxtStrings (toAttrs i))
    · simp only [h2, if_true]
      constructor
      · intro h; cases h
      · rintro ⟨⟨_, hle⟩, _⟩; omega
    · simp only [h2, if_false]
      constructor
      · intro h; cases h; exact ⟨⟨hall, by omega⟩, rfl⟩
      · rintro ⟨_, rfl⟩; rfl

/-- **Packet path.**  If a well-formed info encodes into a packet signed by its own key
(`signer = i.id`: an endpoint publishes its own info), resolving the packet succeeds and yields the
same id, the same address set and the same user data. -/
theorem rt_packet (C : Codecs) (i : Info) (signer : Bytes) (p : Pkt) (h : WF C i)
    (hown : signer = i.id) (henc : toSignedPacket signer i = .ok p) :
    ∃ i', fromSignedPacket C p = .ok i' ∧
      i'.id = i.id ∧ i'.addrs.Perm i.addrs ∧ i'.userData = i.userData := by
  obtain ⟨_, rfl⟩ := (encodes_iff signer i p).mp henc
  refine ⟨⟨i.id, i.addrs.filter Addr.isRelay ++ i.addrs.filter (fun a => !a.isRelay), i.userData⟩, ?_, rfl, List.filter_append_perm _ _, rfl⟩
  unfold fromSignedPacket
  have := fromStrings_toTxtStrings (toAttrs i)
  simp only [toAttrs] at this ⊢
  rw [hown, this]
  exact congrArg Except.ok (fromAttrs_toAttrs C i h)

/-! ### Non-vacuity -/

/-- A toy environment: URLs start with `h`, socket addresses with a digit, custom addresses
contain `_`; every 32-byte string is a valid key. -/
def toyC : Codecs where
  parseUrl s := if s.head? = some 'h' then some s else none
  parseIp s := if s.head?.any Char.isDigit ∧ '_' ∉ s then some s else none
  parseCustom s := if '_' ∈ s then some s else none
  validKey _ := true

def toyInfo : Info where
  id := List.replicate 32 7
  addrs := [.ip "1.2.3.4:5".toList, .relay "https://r.example/?a=b=c".toList, .custom "1_ab".toList]
  userData := some "k=v=w".toList

theorem toyInfo_wf : WF toyC toyInfo := by
  refine ⟨by decide, ?_, ?_, by decide, rfl⟩
  · intro a ha
    simp only [toyInfo, List.mem_cons, List.not_mem_nil, or_false] at ha
    rcases ha with rfl | rfl | rfl <;> simp [Canon, toyC] <;> decide
  · intro u hu
    simp only [toyInfo, Option.some.injEq] at hu
    subst hu; decide

/-- The well-formed toy info, with `=` inside a URL and inside the user data, round-trips. -/
example : ∃ i', fromTxtLookup toyC (txtName toyInfo.id "dns.iroh.link.".toList)
      (toTxtStrings (toAttrs toyInfo)) = .ok i' ∧
    i'.id = toyInfo.id ∧ i'.addrs.Perm toyInfo.addrs ∧ i'.userData = toyInfo.userData :=
  rt_txt toyC toyInfo _ toyInfo_wf

example : toTxtStrings (toAttrs toyInfo) =
    ["relay=https://r.example/?a=b=c".toList, "addr=1.2.3.4:5".toList, "addr=1_ab".toList,
     "user-data=k=v=w".toList] := by decide

/-- … and it does encode into a packet (hypothesis of `rt_packet` is satisfiable). -/
example : (toSignedPacket toyInfo.id toyInfo).toOption.isSome = true := by decide

end IrohModel.C31
