/-
C13 — property theorems (only).  Statement of the property:
the endpoint answers 204 and echoes `response <challenge>` exactly when the
challenge is 1..63 characters from letters, digits, '.', '-', '_'; any other
challenge produces no response header.
-/
import IrohModel.C13.Model

namespace IrohModel.C13

/-- The property's own notion of a well-formed challenge, written independently of
the model's `check` (character classes spelled as in the statement). -/
def WellFormed (c : List UInt8) : Prop :=
  1 ≤ c.length ∧ c.length ≤ 63 ∧
  ∀ b ∈ c, (97 ≤ b.toNat ∧ b.toNat ≤ 122) ∨ (65 ≤ b.toNat ∧ b.toNat ≤ 90) ∨
           (48 ≤ b.toNat ∧ b.toNat ≤ 57) ∨ b.toNat = 46 ∨ b.toNat = 45 ∨ b.toNat = 95

/-- The numerals in `WellFormed` are the ASCII codes of `a z A Z 0 9 . - _`. -/
theorem wellFormed_codes :
    'a'.toNat = 97 ∧ 'z'.toNat = 122 ∧ 'A'.toNat = 65 ∧ 'Z'.toNat = 90 ∧ '0'.toNat = 48 ∧
    '9'.toNat = 57 ∧ '.'.toNat = 46 ∧ '-'.toNat = 45 ∧ '_'.toNat = 95 := by decide

theorem isChallengeByte_iff (b : UInt8) :
    isChallengeByte b = true ↔
      (97 ≤ b.toNat ∧ b.toNat ≤ 122) ∨ (65 ≤ b.toNat ∧ b.toNat ≤ 90) ∨
      (48 ≤ b.toNat ∧ b.toNat ≤ 57) ∨ b.toNat = 46 ∨ b.toNat = 45 ∨ b.toNat = 95 := by
  simp only [isChallengeByte, Bool.or_eq_true, Bool.and_eq_true, decide_eq_true_eq, beq_iff_eq,
    UInt8.le_iff_toNat_le, ← UInt8.toNat_inj, UInt8.toNat_ofNat]
  omega

theorem check_iff (c : List UInt8) : check c = true ↔ WellFormed c := by
  unfold check WellFormed
  simp only [Bool.and_eq_true, Bool.not_eq_true', List.isEmpty_eq_false_iff, decide_eq_true_eq,
    List.all_eq_true, isChallengeByte_iff, Generated.C13.challengeLenBound]
  constructor
  · rintro ⟨⟨h1, h2⟩, h3⟩
    refine ⟨?_, by omega, h3⟩
    cases c with
    | nil => exact absurd rfl h1
    | cons _ _ => simp
  · rintro ⟨h1, h2, h3⟩
    refine ⟨⟨?_, by omega⟩, h3⟩
    intro h; subst h; simp at h1

/-- Status is 204 for every request. -/
theorem status_204 (ch : Option (List UInt8)) : (handle ch).status = 204 := by
  unfold handle
  cases ch with
  | none => rfl
  | some c => by_cases h : check c = true <;> simp [h, Generated.C13.statusNoContent]

/-- Exact iff: a response header is produced iff the challenge is well-formed, and then
it is precisely `response ` followed by the challenge. -/
theorem echo_iff (c : List UInt8) :
    (WellFormed c → (handle (some c)).header = some (responsePrefix ++ c)) ∧
    (¬ WellFormed c → (handle (some c)).header = none) := by
  rw [← check_iff]
  unfold handle
  by_cases h : check c = true <;> simp [h]

/-- Without a challenge header there is no response header. -/
theorem no_challenge_no_echo : (handle none).header = none := rfl

-- Non-vacuity: a concrete well-formed challenge and two malformed ones.
example : WellFormed [97, 46, 66, 95, 45, 57] := by
  refine ⟨by decide, by decide, ?_⟩; decide
example : ¬ WellFormed [] := by simp [WellFormed]
example : ¬ WellFormed [97, 32] := by
  intro ⟨_, _, h⟩; have := h 32 (by simp); revert this; decide

end IrohModel.C13
