/-
C13 — captive-portal probe.  Model of `serve_no_content_handler` /
`is_challenge_char` (iroh-relay/src/server.rs).  Import-free apart from the
generated constants, executable.
-/
import IrohModel.Generated.C13

namespace IrohModel.C13

/-- `is_challenge_char` on a header byte (the code casts `u8 as char`). -/
def isChallengeByte (b : UInt8) : Bool :=
  (97 ≤ b && b ≤ 122) || (65 ≤ b && b ≤ 90) || (48 ≤ b && b ≤ 57) ||
  b == 46 || b == 45 || b == 95

/-- The closure `check` in the handler. -/
def check (c : List UInt8) : Bool :=
  !c.isEmpty && decide (c.length < Generated.C13.challengeLenBound) && c.all isChallengeByte

/-- ASCII bytes of "response ". -/
def responsePrefix : List UInt8 := [114, 101, 115, 112, 111, 110, 115, 101, 32]

structure Response where
  status : Nat
  header : Option (List UInt8)
deriving DecidableEq, Repr

/-- The handler: `challenge = none` means the request carries no challenge header. -/
def handle (challenge : Option (List UInt8)) : Response :=
  match challenge with
  | some c => if check c then ⟨Generated.C13.statusNoContent, some (responsePrefix ++ c)⟩
              else ⟨Generated.C13.statusNoContent, none⟩
  | none => ⟨Generated.C13.statusNoContent, none⟩

end IrohModel.C13
