/-
C11 — relay protocol version negotiation.  Model of

* `ProtocolVersion` (iroh-relay/src/http.rs): variants `V1 < V2` (derived `Ord`, declaration
  order), strum names `iroh-relay-v1` / `iroh-relay-v2`, `match_from_str` = exact,
  case-sensitive match, `ALL = [V2, V1]`, `all_joined` = names joined with `", "`;
* the server's negotiation in `handle_relay_ws_upgrade` (iroh-relay/src/server/http_server.rs):

  ```rust
  let subprotocols = expect_header(&req, SEC_WEBSOCKET_PROTOCOL)?   // first header line; missing ⇒ 400
      .to_str().ok().ok_or_else(|| InvalidHeader{..})?;             // non visible-ASCII ⇒ 400
  let protocol_version = subprotocols.split(",").map(|s| s.trim())
      .filter_map(ProtocolVersion::match_from_str).max()
      .ok_or_else(|| UnsupportedRelayVersion{..})?;                 // ⇒ 400
  … 101, header Sec-WebSocket-Protocol: protocol_version.to_header_value()
  ```
* the client's check in `ClientBuilder::connect` (iroh-relay/src/client.rs):
  `response.headers().get(SEC_WEBSOCKET_PROTOCOL).and_then(|s| s.to_str().ok())
     .and_then(ProtocolVersion::match_from_str)` — `None` ⇒ `BadVersionHeader`.

Strings are byte lists.  Core Lean only, executable.
-/
import IrohModel.Generated.C11

namespace IrohModel.C11

abbrev Bytes := List UInt8

def asciiBytes (s : String) : Bytes := s.toList.map (fun c => UInt8.ofNat c.toNat)

/-- `ProtocolVersion`; the derived `Ord` is the declaration order, `V1 < V2`. -/
inductive Version where
  | v1
  | v2
deriving DecidableEq, Repr

namespace Version

/-- Position in the enum declaration = the derived `Ord`. -/
def rank : Version → Nat
  | v1 => 0
  | v2 => 1

/-- `to_str` / the strum `serialize` name. -/
def name : Version → Bytes
  | v1 => asciiBytes Generated.C11.v1Name
  | v2 => asciiBytes Generated.C11.v2Name

/-- `ProtocolVersion::ALL` (newest first). -/
def all : List Version := [v2, v1]

end Version

/-- `ProtocolVersion::match_from_str` (strum `EnumString`: exact match, variants tried in
declaration order). -/
def matchFromStr (t : Bytes) : Option Version :=
  if t = Version.v1.name then some .v1
  else if t = Version.v2.name then some .v2
  else none

/-- `HeaderValue::to_str` succeeds on tab and 0x20..0x7e only. -/
def isVisibleAscii (b : UInt8) : Bool := (32 ≤ b && b < 127) || b == 9
def isText (v : Bytes) : Bool := v.all isVisibleAscii

/-- `str::split(sep)` for a one-byte separator: always at least one piece. -/
def splitAll (c : UInt8) : Bytes → List Bytes
  | [] => [[]]
  | b :: rest =>
    if b == c then [] :: splitAll c rest
    else match splitAll c rest with
      | h :: t => (b :: h) :: t
      | [] => [[b]]

/-- ASCII `White_Space` (what `str::trim` removes from an ASCII string). -/
def isWs (b : UInt8) : Bool := (9 ≤ b && b ≤ 13) || b == 32

def trimStart (t : Bytes) : Bytes := t.dropWhile isWs
def trimEnd (t : Bytes) : Bytes := (t.reverse.dropWhile isWs).reverse
/-- `str::trim`. -/
def trim (t : Bytes) : Bytes := trimEnd (trimStart t)

/-- `Iterator::max` under the derived `Ord` (the later of equal maxima is returned). -/
def maxVersion : List Version → Option Version
  | [] => none
  | v :: rest =>
    match maxVersion rest with
    | none => some v
    | some m => if v.rank ≤ m.rank then some m else some v

/-- The separator of `subprotocols.split(",")`. -/
def sep : UInt8 := UInt8.ofNat Generated.C11.splitSep

/-- The versions the header offers, in header order (unsupported tokens dropped). -/
def offered (h : Bytes) : List Version := ((splitAll sep h).map trim).filterMap matchFromStr

/-- The server's choice for a header value that passed `to_str`. -/
def serverPick (h : Bytes) : Option Version := maxVersion (offered h)

/-- Outcome of the upgrade request as far as version negotiation is concerned. -/
inductive Upgrade where
  /-- 101 Switching Protocols, `Sec-WebSocket-Protocol: <name v>`; the connection then speaks `v`. -/
  | switching (v : Version)
  /-- 400: no `Sec-WebSocket-Protocol` header. -/
  | missingHeader
  /-- 400: header value is not visible ASCII. -/
  | notAscii
  /-- 400: no supported version offered. -/
  | unsupported
deriving DecidableEq, Repr

/-- `hdr` = value of the FIRST `Sec-WebSocket-Protocol` header line (`HeaderMap::get`). -/
def negotiate (hdr : Option Bytes) : Upgrade :=
  match hdr with
  | none => .missingHeader
  | some h =>
    if !isText h then .notAscii
    else match serverPick h with
      | some v => .switching v
      | none => .unsupported

def Upgrade.status : Upgrade → Nat
  | .switching _ => Generated.C11.statusSwitching
  | _ => Generated.C11.statusBadRequest

/-- The `Sec-WebSocket-Protocol` response header (only on 101). -/
def Upgrade.answer : Upgrade → Option Bytes
  | .switching v => some v.name
  | _ => none

/-- Client side: the version the client goes on to speak, `none` = `BadVersionHeader`.
`answer` = value of the response's `Sec-WebSocket-Protocol` header, if any. -/
def clientAccept (answer : Option Bytes) : Option Version :=
  match answer with
  | none => none
  | some a => if isText a then matchFromStr a else none

/-- `list.join(sep)`. -/
def joinWith (s : Bytes) : List Bytes → Bytes
  | [] => []
  | [x] => x
  | x :: y :: rest => x ++ s ++ joinWith s (y :: rest)

/-- `ProtocolVersion::all_as_header_value()`: what the real client offers. -/
def clientOffer : Bytes := joinWith (asciiBytes Generated.C11.allJoinSep) (Version.all.map Version.name)

end IrohModel.C11
