/-
C11 — helper lemmas about the model functions (no property statements here).
-/
import IrohModel.C11.Model

namespace IrohModel.C11

/-! ### `split` -/

theorem splitAll_ne_nil (c : UInt8) (h : Bytes) : splitAll c h ≠ [] := by
  induction h with
  | nil => simp [splitAll]
  | cons b rest ih =>
    unfold splitAll
    by_cases hb : (b == c) = true
    · simp [hb]
    · obtain ⟨hd, tl, he⟩ := List.exists_cons_of_ne_nil ih
      simp [hb, he]

theorem splitAll_cons_sep (c : UInt8) (rest : Bytes) :
    splitAll c (c :: rest) = [] :: splitAll c rest := by
  simp [splitAll]

theorem splitAll_cons_ne (c b : UInt8) (rest hd : Bytes) (tl : List Bytes) (hb : b ≠ c)
    (he : splitAll c rest = hd :: tl) : splitAll c (b :: rest) = (b :: hd) :: tl := by
  have : (b == c) = false := by simpa using hb
  simp [splitAll, this, he]

theorem joinWith_cons_head (s : Bytes) (b : UInt8) (x : Bytes) (tl : List Bytes) :
    joinWith s ((b :: x) :: tl) = b :: joinWith s (x :: tl) := by
  cases tl with
  | nil => simp [joinWith]
  | cons y tl' => simp [joinWith]

/-- Joining the pieces with the separator gives the input back. -/
theorem joinWith_splitAll (c : UInt8) (h : Bytes) : joinWith [c] (splitAll c h) = h := by
  induction h with
  | nil => simp [splitAll, joinWith]
  | cons b rest ih =>
    obtain ⟨hd, tl, he⟩ := List.exists_cons_of_ne_nil (splitAll_ne_nil c rest)
    by_cases hb : b = c
    · subst hb
      rw [splitAll_cons_sep, he]
      rw [he] at ih
      simp [joinWith, ih]
    · rw [splitAll_cons_ne c b rest hd tl hb he, joinWith_cons_head]
      rw [he] at ih
      rw [ih]

/-- No piece contains the separator. -/
theorem not_mem_of_mem_splitAll (c : UInt8) (h : Bytes) : ∀ t ∈ splitAll c h, c ∉ t := by
  induction h with
  | nil => simp [splitAll]
  | cons b rest ih =>
    obtain ⟨hd, tl, he⟩ := List.exists_cons_of_ne_nil (splitAll_ne_nil c rest)
    by_cases hb : b = c
    · subst hb
      rw [splitAll_cons_sep]
      intro t ht
      rcases List.mem_cons.1 ht with rfl | ht
      · simp
      · exact ih t ht
    · rw [splitAll_cons_ne c b rest hd tl hb he]
      rw [he] at ih
      intro t ht
      rcases List.mem_cons.1 ht with rfl | ht
      · have := ih hd (by simp)
        simp only [List.mem_cons, not_or]
        exact ⟨fun h => hb h.symm, this⟩
      · exact ih t (List.mem_cons_of_mem _ ht)

theorem splitAll_of_not_mem (c : UInt8) (x : Bytes) (hx : c ∉ x) : splitAll c x = [x] := by
  induction x with
  | nil => simp [splitAll]
  | cons b x ih =>
    simp only [List.mem_cons, not_or] at hx
    exact splitAll_cons_ne c b x x [] (fun h => hx.1 h.symm) (ih hx.2)

theorem splitAll_append_sep (c : UInt8) (x y : Bytes) (hx : c ∉ x) :
    splitAll c (x ++ c :: y) = x :: splitAll c y := by
  induction x with
  | nil => simp [splitAll]
  | cons b x ih =>
    simp only [List.mem_cons, not_or] at hx
    exact splitAll_cons_ne c b (x ++ c :: y) x (splitAll c y) (fun h => hx.1 h.symm) (ih hx.2)

/-- `split` is the only way to cut `h` into separator-free pieces. -/
theorem splitAll_joinWith (c : UInt8) (ts : List Bytes) (hne : ts ≠ [])
    (hts : ∀ t ∈ ts, c ∉ t) : splitAll c (joinWith [c] ts) = ts := by
  induction ts with
  | nil => exact absurd rfl hne
  | cons x rest ih =>
    cases rest with
    | nil => simpa [joinWith] using splitAll_of_not_mem c x (hts x (by simp))
    | cons y rest' =>
      have : joinWith [c] (x :: y :: rest') = x ++ c :: joinWith [c] (y :: rest') := by
        simp [joinWith]
      rw [this, splitAll_append_sep c x _ (hts x (by simp)),
        ih (by simp) (fun t ht => hts t (List.mem_cons_of_mem _ ht))]

/-! ### `trim` -/

theorem dropWhile_append_of_all (p : UInt8 → Bool) (l s : Bytes) (hl : ∀ b ∈ l, p b = true) :
    (l ++ s).dropWhile p = s.dropWhile p := by
  induction l with
  | nil => rfl
  | cons b l ih =>
    have hb := hl b (by simp)
    simp only [List.cons_append, List.dropWhile_cons, hb, if_true]
    exact ih (fun x hx => hl x (List.mem_cons_of_mem _ hx))

theorem dropWhile_of_head_neg (p : UInt8 → Bool) (b : UInt8) (s : Bytes) (hb : p b = false) :
    (b :: s).dropWhile p = b :: s := by
  simp [hb]

/-- If `core` is non-empty and neither starts nor ends with white space, then `trim` of `core`
padded with white space on both sides is `core`. -/
theorem trim_padded (l r core : Bytes) (hl : ∀ b ∈ l, isWs b = true) (hr : ∀ b ∈ r, isWs b = true)
    (b₀ : UInt8) (c₀ : Bytes) (hc : core = b₀ :: c₀) (hb₀ : isWs b₀ = false)
    (e₀ : UInt8) (d₀ : Bytes) (hd : core.reverse = e₀ :: d₀) (he₀ : isWs e₀ = false) :
    trim (l ++ core ++ r) = core := by
  unfold trim trimStart trimEnd
  rw [List.append_assoc, dropWhile_append_of_all isWs l _ hl, hc, List.cons_append,
    dropWhile_of_head_neg isWs b₀ _ hb₀, ← List.cons_append, ← hc, List.reverse_append,
    dropWhile_append_of_all isWs r.reverse _ (fun b hb => hr b (List.mem_reverse.1 hb)), hd,
    dropWhile_of_head_neg isWs e₀ _ he₀, ← hd, List.reverse_reverse]

theorem of_mem_takeWhile (p : UInt8 → Bool) (l : Bytes) : ∀ b ∈ l.takeWhile p, p b = true := by
  induction l with
  | nil => simp
  | cons a l ih =>
    intro b hb
    by_cases ha : p a = true
    · simp only [List.takeWhile_cons, ha, if_true, List.mem_cons] at hb
      rcases hb with rfl | hb
      · exact ha
      · exact ih b hb
    · simp [ha] at hb

/-- Conversely `t` is always its `trim` padded with white space. -/
theorem trim_decomp (t : Bytes) :
    ∃ l r, t = l ++ trim t ++ r ∧ (∀ b ∈ l, isWs b = true) ∧ (∀ b ∈ r, isWs b = true) := by
  refine ⟨t.takeWhile isWs, ((t.dropWhile isWs).reverse.takeWhile isWs).reverse, ?_, ?_, ?_⟩
  · unfold trim trimStart trimEnd
    have h1 : t = t.takeWhile isWs ++ t.dropWhile isWs := (List.takeWhile_append_dropWhile).symm
    have h2 : (t.dropWhile isWs) =
        ((t.dropWhile isWs).reverse.dropWhile isWs).reverse ++
          ((t.dropWhile isWs).reverse.takeWhile isWs).reverse := by
      rw [← List.reverse_append, List.takeWhile_append_dropWhile, List.reverse_reverse]
    rw [List.append_assoc, ← h2, ← h1]
  · intro b hb; exact of_mem_takeWhile isWs _ b hb
  · intro b hb; exact of_mem_takeWhile isWs _ b (List.mem_reverse.1 hb)

/-! ### `max` -/

theorem rank_inj (a b : Version) (h : a.rank = b.rank) : a = b := by
  cases a <;> cases b <;> simp_all [Version.rank]

theorem maxVersion_eq_none_iff (l : List Version) : maxVersion l = none ↔ l = [] := by
  cases l with
  | nil => simp [maxVersion]
  | cons v rest =>
    unfold maxVersion
    cases maxVersion rest with
    | none => simp
    | some m => by_cases h : v.rank ≤ m.rank <;> simp [h]

theorem maxVersion_eq_some_iff (l : List Version) (m : Version) :
    maxVersion l = some m ↔ m ∈ l ∧ ∀ v ∈ l, v.rank ≤ m.rank := by
  induction l generalizing m with
  | nil => simp [maxVersion]
  | cons v rest ih =>
    unfold maxVersion
    cases hr : maxVersion rest with
    | none =>
      have : rest = [] := (maxVersion_eq_none_iff rest).1 hr
      subst this
      simp only [Option.some.injEq, List.mem_singleton, forall_eq]
      constructor
      · rintro rfl; exact ⟨rfl, Nat.le_refl _⟩
      · rintro ⟨rfl, _⟩; rfl
    | some m' =>
      have hm' := (ih m').1 hr
      by_cases h : v.rank ≤ m'.rank
      · simp only [h, if_true, Option.some.injEq]
        constructor
        · rintro rfl
          refine ⟨List.mem_cons_of_mem _ hm'.1, ?_⟩
          intro x hx
          rcases List.mem_cons.1 hx with rfl | hx
          · exact h
          · exact hm'.2 x hx
        · rintro ⟨_, hub⟩
          apply rank_inj
          have h1 := hub m' (List.mem_cons_of_mem _ hm'.1)
          rcases List.mem_cons.1 ‹m ∈ v :: rest› with rfl | hmr
          · omega
          · have := hm'.2 m hmr; omega
      · simp only [h, if_false, Option.some.injEq]
        constructor
        · rintro rfl
          refine ⟨by simp, ?_⟩
          intro x hx
          rcases List.mem_cons.1 hx with rfl | hx
          · exact Nat.le_refl _
          · have := hm'.2 x hx; omega
        · rintro ⟨_, hub⟩
          apply rank_inj
          have h1 := hub v (by simp)
          rcases List.mem_cons.1 ‹m ∈ v :: rest› with rfl | hmr
          · rfl
          · have := hm'.2 m hmr; omega

/-! ### membership in `offered` -/

theorem mem_offered_iff (h : Bytes) (v : Version) :
    v ∈ offered h ↔ ∃ t ∈ splitAll sep h, matchFromStr (trim t) = some v := by
  unfold offered
  simp only [List.mem_filterMap, List.mem_map]
  constructor
  · rintro ⟨a, ⟨t, ht, rfl⟩, hm⟩; exact ⟨t, ht, hm⟩
  · rintro ⟨t, ht, hm⟩; exact ⟨trim t, ⟨t, ht, rfl⟩, hm⟩

theorem isVisibleAscii_iff (b : UInt8) :
    isVisibleAscii b = true ↔ b.toNat = 9 ∨ (32 ≤ b.toNat ∧ b.toNat ≤ 126) := by
  simp only [isVisibleAscii, Bool.or_eq_true, Bool.and_eq_true, decide_eq_true_eq, beq_iff_eq,
    UInt8.le_iff_toNat_le, UInt8.lt_iff_toNat_lt, ← UInt8.toNat_inj, UInt8.toNat_ofNat]
  omega

theorem isWs_iff (b : UInt8) :
    isWs b = true ↔ (9 ≤ b.toNat ∧ b.toNat ≤ 13) ∨ b.toNat = 32 := by
  simp only [isWs, Bool.or_eq_true, Bool.and_eq_true, decide_eq_true_eq, beq_iff_eq,
    UInt8.le_iff_toNat_le, ← UInt8.toNat_inj, UInt8.toNat_ofNat]

/-! ### names, `match_from_str`, honest offers -/

theorem sep_eq : sep = 44 := by decide

theorem name_ne : Version.v1.name ≠ Version.v2.name := by decide

/-- `match_from_str` is exact string equality with the version's name. -/
theorem matchFromStr_eq_some_iff (t : Bytes) (v : Version) :
    matchFromStr t = some v ↔ t = v.name := by
  unfold matchFromStr
  by_cases h1 : t = Version.v1.name
  · subst h1
    cases v with
    | v1 => simp
    | v2 => simp [name_ne]
  · by_cases h2 : t = Version.v2.name
    · subst h2
      cases v with
      | v1 => simp [Ne.symm name_ne]
      | v2 => simp [Ne.symm name_ne]
    · cases v with
      | v1 => simp [h1, h2]
      | v2 => simp [h1, h2]

theorem matchFromStr_name (v : Version) : matchFromStr v.name = some v :=
  (matchFromStr_eq_some_iff _ v).2 rfl

/-- Every name is non-empty and neither starts nor ends with white space, contains no comma and
is visible ASCII. -/
theorem name_shape (v : Version) :
    ∃ b₀ c₀ e₀ d₀, v.name = b₀ :: c₀ ∧ isWs b₀ = false ∧ v.name.reverse = e₀ :: d₀ ∧ isWs e₀ = false := by
  cases v with
  | v1 => exact ⟨105, Version.v1.name.tail, 49, Version.v1.name.reverse.tail,
      by decide, by decide, by decide, by decide⟩
  | v2 => exact ⟨105, Version.v2.name.tail, 50, Version.v2.name.reverse.tail,
      by decide, by decide, by decide, by decide⟩

theorem name_no_sep (v : Version) : (44 : UInt8) ∉ v.name := by cases v <;> decide

theorem name_isText (v : Version) : isText v.name = true := by cases v <;> decide

theorem trim_padded_name (l r : Bytes) (v : Version) (hl : ∀ b ∈ l, isWs b = true)
    (hr : ∀ b ∈ r, isWs b = true) : trim (l ++ v.name ++ r) = v.name := by
  obtain ⟨b₀, c₀, e₀, d₀, h1, h2, h3, h4⟩ := name_shape v
  exact trim_padded l r v.name hl hr b₀ c₀ h1 h2 e₀ d₀ h3 h4

theorem not_sep_of_isWs (b : UInt8) (h : isWs b = true) : b ≠ 44 := by
  rintro rfl; revert h; decide

theorem no_sep_of_ws (p : Bytes) (hp : ∀ b ∈ p, isWs b = true) : (44 : UInt8) ∉ p :=
  fun h => not_sep_of_isWs 44 (hp 44 h) rfl

/-- White space only offers nothing. -/
theorem offered_ws (p : Bytes) (hp : ∀ b ∈ p, isWs b = true) : offered p = [] := by
  have hsep := no_sep_of_ws p hp
  unfold offered
  rw [sep_eq, splitAll_of_not_mem 44 p hsep]
  simp only [List.map_cons, List.map_nil, List.filterMap_cons, List.filterMap_nil]
  cases hm : matchFromStr (trim p) with
  | none => rfl
  | some v =>
    exfalso
    have ht := (matchFromStr_eq_some_iff _ v).1 hm
    obtain ⟨l, r, hdec, _, _⟩ := trim_decomp p
    obtain ⟨b₀, c₀, _, _, h1, h2, _, _⟩ := name_shape v
    have : b₀ ∈ p := by rw [hdec, ht, h1]; simp
    rw [hp b₀ this] at h2; simp at h2

/-- An honest offer — the names of the versions in `sup`, joined with `", "` (optionally after
white space) — offers exactly `sup`, in order. -/
theorem offered_join (sup : List Version) (p : Bytes) (hp : ∀ b ∈ p, isWs b = true) :
    offered (p ++ joinWith [44, 32] (sup.map Version.name)) = sup := by
  induction sup generalizing p with
  | nil => simpa [joinWith] using offered_ws p hp
  | cons v rest ih =>
    have hsep := no_sep_of_ws p hp
    cases rest with
    | nil =>
      have hno : (44 : UInt8) ∉ p ++ v.name := by
        simp only [List.mem_append, not_or]; exact ⟨hsep, name_no_sep v⟩
      unfold offered
      simp only [List.map_cons, List.map_nil, joinWith]
      rw [sep_eq, splitAll_of_not_mem 44 _ hno]
      have := trim_padded_name p [] v hp (by simp)
      simp only [List.append_nil] at this
      simp [this, matchFromStr_name]
    | cons w rest' =>
      have hno : (44 : UInt8) ∉ p ++ v.name := by
        simp only [List.mem_append, not_or]; exact ⟨hsep, name_no_sep v⟩
      have hj : p ++ joinWith [44, 32] ((v :: w :: rest').map Version.name) =
          (p ++ v.name) ++ 44 :: ([32] ++ joinWith [44, 32] ((w :: rest').map Version.name)) := by
        simp [joinWith]
      have ih' := ih [32] (by decide)
      unfold offered at ih' ⊢
      rw [hj, sep_eq, splitAll_append_sep 44 _ _ hno]
      rw [sep_eq] at ih'
      have := trim_padded_name p [] v hp (by simp)
      simp only [List.append_nil] at this
      simp only [List.map_cons, List.filterMap_cons, this, matchFromStr_name]
      simp only [List.map_cons] at ih'
      rw [ih']

theorem isText_append (a b : Bytes) : isText (a ++ b) = (isText a && isText b) := by
  simp [isText]

theorem isText_join (sup : List Version) :
    isText (joinWith [44, 32] (sup.map Version.name)) = true := by
  induction sup with
  | nil => rfl
  | cons v rest ih =>
    cases rest with
    | nil => simpa [joinWith] using name_isText v
    | cons w rest' =>
      have : joinWith [44, 32] ((v :: w :: rest').map Version.name) =
          v.name ++ ([44, 32] ++ joinWith [44, 32] ((w :: rest').map Version.name)) := by
        simp [joinWith]
      rw [this, isText_append, isText_append, name_isText, ih]
      decide

end IrohModel.C11
