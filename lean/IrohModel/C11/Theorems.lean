/-
C11 — property theorems (only).  Statement of the property:

  For any offered sub-protocol header, the relay upgrades a connection only if the client
  offers at least one supported version, and then uses the newest version the client
  offered.  A client accepts a relay's answer only if it names a version the client
  supports, and both ends then speak that version.

`Tokens`, `Padded`, `Offers` spell out "the header offers version v" independently of the
model's executable `split`/`trim`/`filter_map`: the header is cut at its commas, and some piece
is the version's name surrounded by white space only.
-/
import IrohModel.C11.Lemmas

namespace IrohModel.C11

/-- What `HeaderValue::to_str` accepts: tab or 0x20..0x7e. -/
def IsText (v : Bytes) : Prop := ∀ b ∈ v, b.toNat = 9 ∨ (32 ≤ b.toNat ∧ b.toNat ≤ 126)

/-- ASCII white space: TAB, LF, VT, FF, CR, space (in a text header only TAB and space occur). -/
def IsWsByte (b : UInt8) : Prop := (9 ≤ b.toNat ∧ b.toNat ≤ 13) ∨ b.toNat = 32

/-- `ts` are the comma-separated pieces of `h`: joining them with `,` gives `h`, no piece
contains a comma (so there are `#commas + 1` pieces; pieces may be empty). -/
def Tokens (h : Bytes) (ts : List Bytes) : Prop :=
  ts ≠ [] ∧ joinWith [44] ts = h ∧ ∀ t ∈ ts, (44 : UInt8) ∉ t

/-- `t` is `core` with only white space before and after it. -/
def Padded (t core : Bytes) : Prop :=
  ∃ l r, t = l ++ core ++ r ∧ (∀ b ∈ l, IsWsByte b) ∧ (∀ b ∈ r, IsWsByte b)

/-- The identifiers of the two supported versions: `iroh-relay-v1`, `iroh-relay-v2`. -/
def specName : Version → Bytes
  | .v1 => [105, 114, 111, 104, 45, 114, 101, 108, 97, 121, 45, 118, 49]
  | .v2 => [105, 114, 111, 104, 45, 114, 101, 108, 97, 121, 45, 118, 50]

/-- Header `h` offers version `v`. -/
def Offers (h : Bytes) (v : Version) : Prop :=
  ∃ ts, Tokens h ts ∧ ∃ t ∈ ts, Padded t (specName v)

/-- `a` is at most as new as `b` (`V1` is older than `V2`). -/
def OlderEq (a b : Version) : Prop := a.rank ≤ b.rank

/-- The numerals above are the character codes of the strings of the statement. -/
theorem spec_codes :
    "iroh-relay-v1".toList.map (fun c => UInt8.ofNat c.toNat) = specName .v1 ∧
    "iroh-relay-v2".toList.map (fun c => UInt8.ofNat c.toNat) = specName .v2 ∧
    ','.toNat = 44 ∧ ' '.toNat = 32 ∧ '\t'.toNat = 9 := by decide

/-- The constants extracted from the source are the ones the statement talks about: the two
names, `V1` declared before `V2` and nothing after it (regex), derived `Ord`, `ALL = [V2, V1]`,
joined with `", "`, split at `,`, statuses 101 / 400. -/
theorem source_constants :
    Version.v1.name = specName .v1 ∧ Version.v2.name = specName .v2 ∧ sep = 44 ∧
    Generated.C11.allList.toList = "Self::V2, Self::V1".toList ∧
    Generated.C11.derivesOrd = true ∧ asciiBytes Generated.C11.allJoinSep = [44, 32] ∧
    Generated.C11.statusSwitching = 101 ∧ Generated.C11.statusBadRequest = 400 := by decide

theorem name_eq_specName (v : Version) : v.name = specName v := by
  cases v
  · exact source_constants.1
  · exact source_constants.2.1

theorem isText_iff (v : Bytes) : isText v = true ↔ IsText v := by
  simp only [isText, IsText, List.all_eq_true, isVisibleAscii_iff]

/-- `trim`ming a piece gives the version's name iff the piece is the name padded with
white space. -/
theorem trim_eq_name_iff (t : Bytes) (v : Version) : trim t = specName v ↔ Padded t (specName v) := by
  rw [← name_eq_specName]
  constructor
  · intro h
    obtain ⟨l, r, hd, hl, hr⟩ := trim_decomp t
    rw [h] at hd
    exact ⟨l, r, hd, fun b hb => (isWs_iff b).1 (hl b hb), fun b hb => (isWs_iff b).1 (hr b hb)⟩
  · rintro ⟨l, r, rfl, hl, hr⟩
    exact trim_padded_name l r v (fun b hb => (isWs_iff b).2 (hl b hb))
      (fun b hb => (isWs_iff b).2 (hr b hb))

/-- `split(",")` computes the (unique) comma-separated pieces. -/
theorem tokens_iff (h : Bytes) (ts : List Bytes) : Tokens h ts ↔ ts = splitAll 44 h := by
  constructor
  · rintro ⟨hne, rfl, hts⟩
    exact (splitAll_joinWith 44 ts hne hts).symm
  · rintro rfl
    exact ⟨splitAll_ne_nil 44 h, joinWith_splitAll 44 h, not_mem_of_mem_splitAll 44 h⟩

/-- The model's list of offered versions contains exactly the versions the header offers. -/
theorem mem_offered_iff_offers (h : Bytes) (v : Version) : v ∈ offered h ↔ Offers h v := by
  rw [mem_offered_iff, sep_eq]
  constructor
  · rintro ⟨t, ht, hm⟩
    refine ⟨splitAll 44 h, (tokens_iff h _).2 rfl, t, ht, ?_⟩
    rw [← trim_eq_name_iff, ← name_eq_specName]
    exact (matchFromStr_eq_some_iff _ v).1 hm
  · rintro ⟨ts, hts, t, ht, hp⟩
    rw [(tokens_iff h ts).1 hts] at ht
    refine ⟨t, ht, (matchFromStr_eq_some_iff _ v).2 ?_⟩
    rw [name_eq_specName]
    exact (trim_eq_name_iff t v).2 hp

/-- **Exact characterisation of the server's decision.**  The relay answers 101 with version
`v` iff the header is text, offers `v`, and offers nothing newer than `v`. -/
theorem negotiate_switching_iff (h : Bytes) (v : Version) :
    negotiate (some h) = .switching v ↔
      IsText h ∧ Offers h v ∧ ∀ v', Offers h v' → OlderEq v' v := by
  unfold negotiate serverPick
  by_cases ht : isText h = true
  · have ht' := (isText_iff h).1 ht
    simp only [ht, Bool.not_true, Bool.false_eq_true, if_false]
    cases hm : maxVersion (offered h) with
    | none =>
      have hnil := (maxVersion_eq_none_iff _).1 hm
      simp only [reduceCtorEq, false_iff, not_and]
      intro _ ho
      have := (mem_offered_iff_offers h v).2 ho
      rw [hnil] at this; simp at this
    | some m =>
      have hmx := (maxVersion_eq_some_iff _ m).1 hm
      simp only [Upgrade.switching.injEq]
      constructor
      · rintro rfl
        exact ⟨ht', (mem_offered_iff_offers h m).1 hmx.1,
          fun v' hv' => hmx.2 v' ((mem_offered_iff_offers h v').2 hv')⟩
      · rintro ⟨_, ho, hub⟩
        have hv := (mem_offered_iff_offers h v).2 ho
        have h1 : OlderEq m v := hub m ((mem_offered_iff_offers h m).1 hmx.1)
        have h2 := hmx.2 v hv
        exact rank_inj m v (Nat.le_antisymm h1 h2)
  · have hf : isText h = false := by simpa using ht
    simp only [hf, Bool.not_false, if_true, reduceCtorEq, false_iff, not_and]
    intro hx; exact absurd ((isText_iff h).2 hx) ht

/-- **Upgrade iff some supported version is offered.**  The relay upgrades (101) iff the header
is text and offers at least one supported version. -/
theorem upgrade_iff (h : Bytes) :
    (∃ v, negotiate (some h) = .switching v) ↔ IsText h ∧ ∃ v, Offers h v := by
  constructor
  · rintro ⟨v, hv⟩
    have := (negotiate_switching_iff h v).1 hv
    exact ⟨this.1, v, this.2.1⟩
  · rintro ⟨ht, v, hv⟩
    have hmem := (mem_offered_iff_offers h v).2 hv
    cases hm : maxVersion (offered h) with
    | none => rw [(maxVersion_eq_none_iff _).1 hm] at hmem; simp at hmem
    | some m =>
      refine ⟨m, ?_⟩
      simp [negotiate, serverPick, (isText_iff h).2 ht, hm]

/-- **The version used is offered and is the newest offered one.** -/
theorem picks_newest (h : Bytes) (v : Version) (hv : negotiate (some h) = .switching v) :
    Offers h v ∧ ∀ v', Offers h v' → OlderEq v' v :=
  ((negotiate_switching_iff h v).1 hv).2

/-- **No upgrade otherwise**, and which 400 it is: no header, non-text header, nothing supported. -/
theorem no_upgrade :
    negotiate none = .missingHeader ∧
    (∀ h, ¬ IsText h → negotiate (some h) = .notAscii) ∧
    (∀ h, IsText h → (¬ ∃ v, Offers h v) → negotiate (some h) = .unsupported) := by
  refine ⟨rfl, ?_, ?_⟩
  · intro h hn
    have : isText h = false := by
      cases hx : isText h with
      | false => rfl
      | true => exact absurd ((isText_iff h).1 hx) hn
    simp [negotiate, this]
  · intro h ht hno
    cases hm : maxVersion (offered h) with
    | none => simp [negotiate, serverPick, (isText_iff h).2 ht, hm]
    | some m =>
      exact absurd ⟨m, (mem_offered_iff_offers h m).1 ((maxVersion_eq_some_iff _ m).1 hm).1⟩ hno

/-- Status and answer header: 101 + the chosen version's identifier exactly when upgrading,
400 without a version header otherwise. -/
theorem response_shape (hdr : Option Bytes) :
    (∀ v, negotiate hdr = .switching v →
        (negotiate hdr).status = 101 ∧ (negotiate hdr).answer = some (specName v)) ∧
    ((¬ ∃ v, negotiate hdr = .switching v) →
        (negotiate hdr).status = 400 ∧ (negotiate hdr).answer = none) := by
  constructor
  · intro v hv
    rw [hv]
    exact ⟨source_constants.2.2.2.2.2.2.1, by simp [Upgrade.answer, name_eq_specName]⟩
  · intro hn
    cases hu : negotiate hdr with
    | switching v => exact absurd ⟨v, hu⟩ hn
    | missingHeader => exact ⟨source_constants.2.2.2.2.2.2.2, rfl⟩
    | notAscii => exact ⟨source_constants.2.2.2.2.2.2.2, rfl⟩
    | unsupported => exact ⟨source_constants.2.2.2.2.2.2.2, rfl⟩

/-- **The client accepts an answer only if it names a supported version** — exactly (no
trimming, case-sensitive), and then speaks that version. -/
theorem client_accepts_iff (a : Option Bytes) (v : Version) :
    clientAccept a = some v ↔ a = some (specName v) := by
  rw [← name_eq_specName]
  unfold clientAccept
  cases a with
  | none => simp
  | some x =>
    by_cases ht : isText x = true
    · simp only [ht, if_true, Option.some.injEq]
      exact matchFromStr_eq_some_iff x v
    · simp only [ht, Bool.false_eq_true, if_false, reduceCtorEq, Option.some.injEq, false_iff]
      rintro rfl; exact ht (name_isText v)

/-- **Both ends speak the same version**: whenever the relay upgrades with `v`, the client
accepts the relay's answer and goes on with `v`. -/
theorem both_ends_agree (hdr : Option Bytes) (v : Version) (hv : negotiate hdr = .switching v) :
    clientAccept (negotiate hdr).answer = some v := by
  rw [hv]
  simp only [Upgrade.answer, clientAccept, name_isText, if_true]
  exact matchFromStr_name v

/-- **Honest client and server agree on the newest common version.**  A client that supports the
versions in `sup` (any order, repetitions allowed) and offers their identifiers joined as the
real client does (`", "`) gets the newest of them, and accepts it. -/
theorem honest_agree (sup : List Version) (m : Version) (hm : maxVersion sup = some m) :
    let offer := joinWith (asciiBytes Generated.C11.allJoinSep) (sup.map Version.name)
    negotiate (some offer) = .switching m ∧ clientAccept (negotiate (some offer)).answer = some m ∧
      m ∈ sup ∧ ∀ v ∈ sup, OlderEq v m := by
  intro offer
  have hoff : offered offer = sup := by
    have := offered_join sup [] (by simp)
    simpa [offer, source_constants.2.2.2.2.2.1] using this
  have htext : isText offer = true := by
    simpa [offer, source_constants.2.2.2.2.2.1] using isText_join sup
  have hneg : negotiate (some offer) = .switching m := by
    simp [negotiate, serverPick, htext, hoff, hm]
  exact ⟨hneg, both_ends_agree _ m hneg, ((maxVersion_eq_some_iff sup m).1 hm).1,
    ((maxVersion_eq_some_iff sup m).1 hm).2⟩

/-- The real client (`all_as_header_value()`) and the real server settle on `V2`, the newest
version there is. -/
theorem real_client_agree :
    negotiate (some clientOffer) = .switching .v2 ∧
    clientAccept (negotiate (some clientOffer)).answer = some .v2 ∧ ∀ v : Version, OlderEq v .v2 := by
  refine ⟨by decide, by decide, ?_⟩
  intro v; cases v <;> simp [OlderEq, Version.rank]

/-! Non-vacuity. -/

-- "foo, iroh-relay-v1 ,\tiroh-relay-v2,iroh-relay-v3" offers v1 and v2.
def exampleHeader : Bytes :=
  asciiBytes "foo, iroh-relay-v1 ,\tiroh-relay-v2,iroh-relay-v3"

example : negotiate (some exampleHeader) = .switching .v2 := by decide
example : Offers exampleHeader .v1 := (mem_offered_iff_offers _ _).1 (by decide)
example : Offers exampleHeader .v2 := (mem_offered_iff_offers _ _).1 (by decide)
example : IsText exampleHeader := (isText_iff _).1 (by decide)
example : Padded (asciiBytes " iroh-relay-v1 ") (specName .v1) :=
  ⟨[32], [32], by decide, by simp [IsWsByte], by simp [IsWsByte]⟩
example : Tokens (asciiBytes "a,,b") [[97], [], [98]] := (tokens_iff _ _).2 (by decide)
-- upper-case, inner space, unknown version: nothing offered → 400
example : negotiate (some (asciiBytes "IROH-RELAY-V1, iroh-relay -v1, iroh-relay-v3")) = .unsupported := by
  decide
example : ¬ IsText [0xc3, 0xa9] := by rw [← isText_iff]; decide
example : clientAccept (some (asciiBytes " iroh-relay-v2")) = none := by decide
example : maxVersion [.v1, .v2, .v1] = some .v2 := by decide

end IrohModel.C11
