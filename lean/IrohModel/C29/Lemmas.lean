/-
C29 — helper definitions and lemmas: merge orders (`Interleaving`), fair feeds of
the inner stream (`Feed`), and the run lemma `run_feed`.
-/
import IrohModel.C29.Model

namespace IrohModel.C29

/-- An element of a service stream as it appears in the merged stream. -/
def toOut : Res → Out
  | .item x => .item x
  | .err e => .err e

/-- The errors of a merge order, in that order. -/
def errsOf : List Res → List Nat
  | [] => []
  | .err e :: m => e :: errsOf m
  | .item _ :: m => errsOf m

/-- `m` is a merge order of the streams `ss`: repeatedly some stream hands over its head,
until all streams are exhausted.  (Assumed of `MergeBounded`; any such order is allowed.) -/
inductive Interleaving : List (List Res) → List Res → Prop
  | nil {ss : List (List Res)} : (∀ s ∈ ss, s = []) → Interleaving ss []
  | cons {ss : List (List Res)} {i : Nat} {x : Res} {rest m : List Res} :
      ss[i]? = some (x :: rest) → Interleaving (ss.set i rest) m → Interleaving ss (x :: m)

/-- The answers of the inner stream over a complete run with merge order `m`: the elements of
`m` in order, `pending` any number of times in between, then `done`; what would come after
`done` is irrelevant (the stream never polls the merge again) and left arbitrary. -/
inductive Feed : List Res → List Inner → Prop
  | pending {m : List Res} {is : List Inner} : Feed m is → Feed m (.pending :: is)
  | elem {r : Res} {m : List Res} {is : List Inner} : Feed m is → Feed (r :: m) (.elem r :: is)
  | done {rest : List Inner} : Feed [] (.done :: rest)

/-- The poll that closes the stream, from state `s` with `m` still to come. -/
def lastPoll (s : St) (m : List Res) : Poll :=
  if s.didEmit || m.any Res.isItem then .ready none
  else .ready (some (.noResults (s.errors ++ errsOf m)))

theorem runPolls_closed (s : St) (h : s.closed = true) (is : List Inner) :
    runPolls s is = (s, is.map fun _ => Poll.ready none) := by
  induction is with
  | nil => rfl
  | cons i is ih => simp [runPolls, pollNext, h, ih]

theorem toOut_not_failure (r : Res) : (toOut r).isFailure = false := by
  cases r <;> rfl

theorem outs_append (a b : List Poll) : outs (a ++ b) = outs a ++ outs b := by
  induction a with
  | nil => rfl
  | cons p a ih =>
    cases p with
    | pending => simpa [outs] using ih
    | ready o => cases o <;> simpa [outs] using ih

theorem outs_ready_none (post : List Poll) (h : ∀ p ∈ post, p = Poll.ready none) : outs post = [] := by
  induction post with
  | nil => rfl
  | cons p post ih =>
    have hp := h p (by simp)
    subst hp
    simpa [outs] using ih (fun q hq => h q (by simp [hq]))

theorem pollNext_pending (s : St) (hs : s.hasStreams = true) (hc : s.closed = false) :
    pollNext s .pending = (s, .pending) := by simp [pollNext, hs, hc]

theorem pollNext_item (s : St) (hs : s.hasStreams = true) (hc : s.closed = false) (x : Nat) :
    pollNext s (.elem (.item x)) = ({ s with didEmit := true }, .ready (some (.item x))) := by
  simp [pollNext, hs, hc]

theorem pollNext_err (s : St) (hs : s.hasStreams = true) (hc : s.closed = false) (e : Nat) :
    pollNext s (.elem (.err e)) = ({ s with errors := s.errors ++ [e] }, .ready (some (.err e))) := by
  simp [pollNext, hs, hc]

theorem pollNext_done (s : St) (hs : s.hasStreams = true) (hc : s.closed = false) :
    pollNext s .done =
      if s.didEmit then ({ s with closed := true }, .ready none)
      else ({ s with closed := true, errors := [] }, .ready (some (.noResults s.errors))) := by
  cases hd : s.didEmit <;> simp [pollNext, hs, hc, hd]

theorem lastPoll_item (s : St) (x : Nat) (m : List Res) :
    lastPoll s (.item x :: m) = lastPoll { s with didEmit := true } m := by
  simp [lastPoll, Res.isItem]

theorem lastPoll_err (s : St) (e : Nat) (m : List Res) :
    lastPoll s (.err e :: m) = lastPoll { s with errors := s.errors ++ [e] } m := by
  simp [lastPoll, Res.isItem, errsOf]

/-- The run lemma: from any open state with streams, a fair feed of merge order `m` produces
exactly the elements of `m`, then the closing poll, then only `Ready(None)`. -/
theorem run_feed (m : List Res) (is : List Inner) (h : Feed m is) :
    ∀ s : St, s.hasStreams = true → s.closed = false →
    ∃ pre post, (runPolls s is).2 = pre ++ lastPoll s m :: post
      ∧ outs pre = m.map toOut
      ∧ (∀ p ∈ pre, p = .pending ∨ ∃ r ∈ m, p = .ready (some (toOut r)))
      ∧ (∀ p ∈ post, p = .ready none)
      ∧ (runPolls s is).1.closed = true := by
  induction h with
  | @pending m is _ ih =>
    intro s hs hc
    obtain ⟨pre, post, h1, h2, h3, h4, h5⟩ := ih s hs hc
    refine ⟨.pending :: pre, post, ?_, ?_, ?_, h4, ?_⟩
    · simp only [runPolls, pollNext_pending s hs hc, h1, List.cons_append]
    · simpa [outs] using h2
    · intro p hp
      rcases List.mem_cons.1 hp with rfl | hp
      · exact .inl rfl
      · exact h3 p hp
    · simpa only [runPolls, pollNext_pending s hs hc] using h5
  | @elem r m is _ ih =>
    intro s hs hc
    cases r with
    | item x =>
      obtain ⟨pre, post, h1, h2, h3, h4, h5⟩ := ih { s with didEmit := true } hs hc
      refine ⟨.ready (some (.item x)) :: pre, post, ?_, ?_, ?_, h4, ?_⟩
      · simp only [runPolls, pollNext_item s hs hc, h1, List.cons_append, lastPoll_item]
      · simp [outs, h2, toOut]
      · intro p hp
        rcases List.mem_cons.1 hp with rfl | hp
        · exact .inr ⟨.item x, by simp, rfl⟩
        · rcases h3 p hp with h | ⟨r, hr, h⟩
          · exact .inl h
          · exact .inr ⟨r, by simp [hr], h⟩
      · simpa only [runPolls, pollNext_item s hs hc] using h5
    | err e =>
      obtain ⟨pre, post, h1, h2, h3, h4, h5⟩ := ih { s with errors := s.errors ++ [e] } hs hc
      refine ⟨.ready (some (.err e)) :: pre, post, ?_, ?_, ?_, h4, ?_⟩
      · simp only [runPolls, pollNext_err s hs hc, h1, List.cons_append, lastPoll_err]
      · simp [outs, h2, toOut]
      · intro p hp
        rcases List.mem_cons.1 hp with rfl | hp
        · exact .inr ⟨.err e, by simp, rfl⟩
        · rcases h3 p hp with h | ⟨r, hr, h⟩
          · exact .inl h
          · exact .inr ⟨r, by simp [hr], h⟩
      · simpa only [runPolls, pollNext_err s hs hc] using h5
  | @done rest =>
    intro s hs hc
    refine ⟨[], rest.map fun _ => Poll.ready none, ?_, rfl, by simp, by simp, ?_⟩
    · simp only [runPolls, pollNext_done s hs hc, List.nil_append]
      cases hd : s.didEmit
      · simp [lastPoll, hd, errsOf, runPolls_closed]
      · simp [lastPoll, hd, runPolls_closed]
    · simp only [runPolls, pollNext_done s hs hc]
      cases hd : s.didEmit <;> simp [runPolls_closed]

/-! ### Merge orders lose and invent nothing -/

theorem flatten_set_perm (ss : List (List Res)) (i : Nat) (x : Res) (rest : List Res)
    (h : ss[i]? = some (x :: rest)) : (x :: (ss.set i rest).flatten).Perm ss.flatten := by
  induction ss generalizing i with
  | nil => simp at h
  | cons s ss ih =>
    cases i with
    | zero =>
      simp at h; subst h; simp
    | succ i =>
      simp at h
      have := ih i h
      simp only [List.set_cons_succ, List.flatten_cons]
      exact (List.perm_middle.symm).trans (List.Perm.append_left s this)

/-- Every element of every stream occurs in the merge order exactly as often as it was produced. -/
theorem Interleaving.perm {ss : List (List Res)} {m : List Res} (h : Interleaving ss m) :
    m.Perm ss.flatten := by
  induction h with
  | @nil ss hall =>
    have : ss.flatten = [] := by
      simp only [List.flatten_eq_nil_iff]; exact hall
    rw [this]
  | @cons ss i x rest m hi _ ih =>
    exact (List.Perm.cons x ih).trans (flatten_set_perm ss i x rest hi)

theorem Interleaving.of_nil {m : List Res} (h : Interleaving [] m) : m = [] := by
  cases h with
  | nil _ => rfl
  | cons hi _ => simp at hi

/-- Each service's elements appear in the merge order in the order the service produced them. -/
theorem Interleaving.sublist {ss : List (List Res)} {m : List Res} (h : Interleaving ss m) :
    ∀ (i : Nat) (s : List Res), ss[i]? = some s → s.Sublist m := by
  induction h with
  | @nil ss hall =>
    intro i s hi
    have : s = [] := hall s (List.mem_of_getElem? hi)
    subst this; exact List.Sublist.slnil
  | @cons ss j x rest m hj _ ih =>
    intro i s hi
    by_cases hij : j = i
    · subst hij
      rw [hj] at hi
      cases hi
      have hlt : j < ss.length := by
        rcases Nat.lt_or_ge j ss.length with h | h
        · exact h
        · rw [List.getElem?_eq_none h] at hj; cases hj
      exact List.Sublist.cons_cons x (ih j rest (by simp [hlt]))
    · have : (ss.set j rest)[i]? = some s := by
        rw [List.getElem?_set_ne hij]; exact hi
      exact List.Sublist.cons x (ih i s this)

/-! ### The timer-discipline merger of the driver produces merge orders -/

theorem pickMin_some_ne_none (ss : List (List (Nat × Res))) (i : Nat) (b : Nat × Nat × Res × List (Nat × Res)) :
    pickMin ss i (some b) ≠ none := by
  induction ss generalizing i b with
  | nil => simp [pickMin]
  | cons s ss ih =>
    obtain ⟨ib, tb, rb, tlb⟩ := b
    cases s with
    | nil => simpa [pickMin] using ih (i + 1) _
    | cons x tl =>
      obtain ⟨t, r⟩ := x
      simp only [pickMin]
      split <;> exact ih (i + 1) _

theorem pickMin_none (ss : List (List (Nat × Res))) (i : Nat) (h : pickMin ss i none = none) :
    ∀ s ∈ ss, s = [] := by
  induction ss generalizing i with
  | nil => simp
  | cons s ss ih =>
    cases s with
    | nil =>
      simp only [pickMin] at h
      intro s hs
      rcases List.mem_cons.1 hs with rfl | hs
      · rfl
      · exact ih (i + 1) h s hs
    | cons x tl =>
      obtain ⟨t, r⟩ := x
      simp only [pickMin] at h
      exact absurd h (pickMin_some_ne_none ss (i + 1) _)

theorem pickMin_spec (ss : List (List (Nat × Res))) (i : Nat) (best : Option (Nat × Nat × Res × List (Nat × Res)))
    (j t : Nat) (r : Res) (tl : List (Nat × Res)) (h : pickMin ss i best = some (j, t, r, tl)) :
    best = some (j, t, r, tl) ∨ (i ≤ j ∧ ss[j - i]? = some ((t, r) :: tl)) := by
  induction ss generalizing i best with
  | nil => left; simpa [pickMin] using h
  | cons s ss ih =>
    have shift : ∀ {b}, pickMin ss (i + 1) b = some (j, t, r, tl) →
        b = some (j, t, r, tl) ∨ (i ≤ j ∧ (s :: ss)[j - i]? = some ((t, r) :: tl)) := by
      intro b hb
      rcases ih (i + 1) b hb with h1 | ⟨h1, h2⟩
      · exact .inl h1
      · right
        refine ⟨by omega, ?_⟩
        have : j - i = (j - (i + 1)) + 1 := by omega
        rw [this, List.getElem?_cons_succ]; exact h2
    cases s with
    | nil => simp only [pickMin] at h; exact shift h
    | cons x tl0 =>
      obtain ⟨t0, r0⟩ := x
      have here : ∀ {b}, pickMin ss (i + 1) (some (i, t0, r0, tl0)) = some (j, t, r, tl) →
          b = some (j, t, r, tl) ∨ (i ≤ j ∧ (((t0, r0) :: tl0) :: ss)[j - i]? = some ((t, r) :: tl)) := by
        intro b hb
        rcases shift hb with h1 | h1
        · right
          simp only [Option.some.injEq, Prod.mk.injEq] at h1
          obtain ⟨rfl, rfl, rfl, rfl⟩ := h1
          simp
        · exact .inr h1
      cases best with
      | none => simp only [pickMin] at h; exact here h
      | some b =>
        obtain ⟨ib, tb, rb, tlb⟩ := b
        simp only [pickMin] at h
        split at h
        · exact here h
        · exact shift h

theorem sum_length_set (ss : List (List (Nat × Res))) (j : Nat) (x : Nat × Res) (tl : List (Nat × Res))
    (h : ss[j]? = some (x :: tl)) :
    ((ss.set j tl).map List.length).sum + 1 = (ss.map List.length).sum := by
  induction ss generalizing j with
  | nil => simp at h
  | cons s ss ih =>
    cases j with
    | zero => simp at h; subst h; simp; omega
    | succ j =>
      simp at h
      have := ih j h
      simp only [List.set_cons_succ, List.map_cons, List.sum_cons]
      omega

theorem le_sum_of_mem (l : List Nat) (x : Nat) (h : x ∈ l) : x ≤ l.sum := by
  induction l with
  | nil => cases h
  | cons a l ih =>
    rcases List.mem_cons.1 h with rfl | h
    · simp
    · have := ih h; simp only [List.sum_cons]; omega

/-- Forget the virtual times. -/
def untimed (ss : List (List (Nat × Res))) : List (List Res) := ss.map (·.map Prod.snd)

theorem untimed_set (ss : List (List (Nat × Res))) (j : Nat) (tl : List (Nat × Res)) :
    untimed (ss.set j tl) = (untimed ss).set j (tl.map Prod.snd) := by
  simp [untimed, List.map_set]

/-- The order in which the timer discipline delivers elements is a merge order in the sense of
`Interleaving`, so the property theorems cover every run of the `T` mode of the correspondence. -/
theorem timeMerge_interleaving (fuel : Nat) (ss : List (List (Nat × Res)))
    (h : (ss.map List.length).sum ≤ fuel) :
    Interleaving (untimed ss) ((timeMerge fuel ss).map Prod.snd) := by
  induction fuel generalizing ss with
  | zero =>
    simp only [timeMerge, List.map_nil]
    apply Interleaving.nil
    intro s hs
    obtain ⟨s', hs', rfl⟩ := List.mem_map.1 hs
    have : s'.length ≤ (ss.map List.length).sum := le_sum_of_mem _ _ (List.mem_map.2 ⟨s', hs', rfl⟩)
    have : s'.length = 0 := by omega
    simp [List.length_eq_zero_iff.1 this]
  | succ fuel ih =>
    simp only [timeMerge]
    cases hp : pickMin ss 0 none with
    | none =>
      simp only [List.map_nil]
      apply Interleaving.nil
      intro s hs
      obtain ⟨s', hs', rfl⟩ := List.mem_map.1 hs
      simp [pickMin_none ss 0 hp s' hs']
    | some b =>
      obtain ⟨j, t, r, tl⟩ := b
      rcases pickMin_spec ss 0 none j t r tl hp with h1 | ⟨_, h2⟩
      · cases h1
      · simp only [Nat.sub_zero] at h2
        simp only [List.map_cons]
        refine Interleaving.cons (i := j) (rest := tl.map Prod.snd) ?_ ?_
        · simp [untimed, h2]
        · rw [← untimed_set]
          apply ih
          have := sum_length_set ss j (t, r) tl h2
          omega

/-! ### The channel-discipline merger of the driver feeds complete merge orders -/

/-- An additional empty stream does not change the merge orders. -/
theorem Interleaving.insert_nil {L : List (List Res)} {m : List Res} (h : Interleaving L m) :
    ∀ L₁ L₂, L = L₁ ++ L₂ → Interleaving (L₁ ++ [] :: L₂) m := by
  induction h with
  | @nil ss hall =>
    intro L₁ L₂ hL
    subst hL
    apply Interleaving.nil
    intro s hs
    simp only [List.mem_append, List.mem_cons] at hs
    rcases hs with hs | rfl | hs
    · exact hall s (by simp [hs])
    · rfl
    · exact hall s (by simp [hs])
  | @cons ss i x rest m hi _ ih =>
    intro L₁ L₂ hL
    subst hL
    by_cases hlt : i < L₁.length
    · have h1 : (L₁ ++ [] :: L₂)[i]? = some (x :: rest) := by
        rw [List.getElem?_append_left hlt]
        rw [List.getElem?_append_left hlt] at hi; exact hi
      refine Interleaving.cons (i := i) h1 ?_
      have := ih (L₁.set i rest) L₂ (by rw [List.set_append_left _ _ hlt])
      rwa [List.set_append_left _ _ hlt]
    · have hge : L₁.length ≤ i := by omega
      have hi2 : L₂[i - L₁.length]? = some (x :: rest) := by
        rw [List.getElem?_append_right hge] at hi; exact hi
      have h1 : (L₁ ++ [] :: L₂)[i + 1]? = some (x :: rest) := by
        rw [List.getElem?_append_right (by omega)]
        have : i + 1 - L₁.length = (i - L₁.length) + 1 := by omega
        rw [this, List.getElem?_cons_succ]; exact hi2
      refine Interleaving.cons (i := i + 1) h1 ?_
      have := ih L₁ (L₂.set (i - L₁.length) rest) (by rw [List.set_append_right _ _ hge])
      rw [List.set_append_right _ _ (by omega)]
      have e : i + 1 - L₁.length = (i - L₁.length) + 1 := by omega
      rw [e, List.set_cons_succ]
      exact this

theorem split_at (ss : Live) (k : Nat) (v : Option (List Res)) (h : ss[k]? = some v) :
    ss = ss.take k ++ v :: ss.drop (k + 1) ∧
      ∀ v', ss.set k v' = ss.take k ++ v' :: ss.drop (k + 1) := by
  induction ss generalizing k with
  | nil => simp at h
  | cons a ss ih =>
    cases k with
    | zero => simp at h; subst h; simp
    | succ k =>
      simp at h
      obtain ⟨h1, h2⟩ := ih k h
      refine ⟨?_, ?_⟩
      · simp only [List.take_succ_cons, List.drop_succ_cons, List.cons_append]
        rw [← h1]
      · intro v'
        simp only [List.set_cons_succ, List.take_succ_cons, List.drop_succ_cons, List.cons_append]
        rw [h2 v']

/-- The inner events a schedule produces under the channel discipline. -/
def schedEvents (ss : Live) : List (Option Nat) → List Inner
  | [] => []
  | st :: sts => (schedStep ss st).2 :: schedEvents (schedStep ss st).1 sts

def schedFinal (ss : Live) : List (Option Nat) → Live
  | [] => ss
  | st :: sts => schedFinal (schedStep ss st).1 sts

theorem runSched_polls (s : St) (ss : Live) (sched : List (Option Nat)) :
    (runSched s ss sched).2.2 = (runPolls s (schedEvents ss sched)).2 := by
  induction sched generalizing s ss with
  | nil => rfl
  | cons st sts ih => simp [runSched, runPolls, schedEvents, ih]

theorem filterMap_allGone (ss : Live) (h : allGone ss = true) : ss.filterMap id = [] := by
  induction ss with
  | nil => rfl
  | cons a ss ih =>
    simp only [allGone, List.all_cons, Bool.and_eq_true] at h
    cases a with
    | none => simpa using ih (by simpa [allGone] using h.2)
    | some l => simp at h

/-- Events once every stream is gone: `done` for ever. -/
theorem schedEvents_gone (ss : Live) (h : allGone ss = true) (st : Option Nat) :
    schedStep ss st = (ss, .done) := by
  have hk : ∀ k : Nat, ss[k]? = none ∨ ss[k]? = some none := by
    intro k
    cases hk : ss[k]? with
    | none => exact .inl rfl
    | some v =>
      have hm := List.mem_of_getElem? hk
      simp only [allGone, List.all_eq_true] at h
      have := h v hm
      cases v with
      | none => exact .inr rfl
      | some l => simp at this
  cases st with
  | none => simp [schedStep, idle, h]
  | some k =>
    rcases hk k with h1 | h1 <;> simp [schedStep, advance, h1, idle, h]

/-- A schedule that ends with every stream gone feeds the stream a complete merge order: the
property theorems cover every complete run of the `P` mode of the correspondence. -/
theorem sched_feed (ss : Live) (sched : List (Option Nat)) (hne : sched ≠ [])
    (hgone : allGone (schedFinal ss sched) = true) :
    ∃ m, Interleaving (ss.filterMap id) m ∧ Feed m (schedEvents ss sched) := by
  induction sched generalizing ss with
  | nil => exact absurd rfl hne
  | cons st sts ih =>
    simp only [schedFinal] at hgone
    simp only [schedEvents]
    -- the rest of the run, from the state after this step
    have hrest : ∀ ss', schedFinal ss' sts = schedFinal (schedStep ss st).1 sts → ss' = (schedStep ss st).1 →
        (∃ m, Interleaving (ss'.filterMap id) m ∧ Feed m (schedEvents ss' sts)) ∨
        (sts = [] ∧ allGone ss' = true) := by
      intro ss' _ hs'
      subst hs'
      cases sts with
      | nil => right; exact ⟨rfl, hgone⟩
      | cons a b => left; exact ih _ (by simp) hgone
    by_cases hg : allGone ss = true
    · -- nothing live: this poll reports the end
      rw [schedEvents_gone ss hg st]
      exact ⟨[], by rw [filterMap_allGone ss hg]; exact .nil (by simp), .done⟩
    · cases st with
      | none =>
        have hstep : schedStep ss none = (ss, .pending) := by simp [schedStep, idle, hg]
        rw [hstep] at hgone ⊢
        rcases hrest ss (by rw [hstep]) (by rw [hstep]) with ⟨m, h1, h2⟩ | ⟨rfl, h2⟩
        · exact ⟨m, h1, .pending h2⟩
        · exact absurd h2 hg
      | some k =>
        cases hk : ss[k]? with
        | none =>
          have hstep : schedStep ss (some k) = (ss, .pending) := by simp [schedStep, advance, hk, idle, hg]
          rw [hstep] at hgone ⊢
          rcases hrest ss (by rw [hstep]) (by rw [hstep]) with ⟨m, h1, h2⟩ | ⟨rfl, h2⟩
          · exact ⟨m, h1, .pending h2⟩
          · exact absurd h2 hg
        | some v =>
          obtain ⟨hsplit, hset⟩ := split_at ss k v hk
          cases v with
          | none =>
            have hstep : schedStep ss (some k) = (ss, .pending) := by simp [schedStep, advance, hk, idle, hg]
            rw [hstep] at hgone ⊢
            rcases hrest ss (by rw [hstep]) (by rw [hstep]) with ⟨m, h1, h2⟩ | ⟨rfl, h2⟩
            · exact ⟨m, h1, .pending h2⟩
            · exact absurd h2 hg
          | some l =>
            cases l with
            | nil =>
              -- the stream ends
              have hstep : schedStep ss (some k) = (ss.set k none, idle (ss.set k none)) := by
                simp [schedStep, advance, hk]
              rw [hstep] at hgone ⊢
              have hfm : ss.filterMap id =
                  (ss.take k).filterMap id ++ [] :: (ss.drop (k + 1)).filterMap id := by
                conv => lhs; rw [hsplit]
                simp [List.filterMap_append]
              have hfm' : (ss.set k none).filterMap id =
                  (ss.take k).filterMap id ++ (ss.drop (k + 1)).filterMap id := by
                rw [hset none]; simp [List.filterMap_append]
              rcases hrest (ss.set k none) (by rw [hstep]) (by rw [hstep]) with ⟨m, h1, h2⟩ | ⟨rfl, h2⟩
              · refine ⟨m, ?_, ?_⟩
                · rw [hfm]; exact h1.insert_nil _ _ hfm'
                · by_cases hg' : allGone (ss.set k none) = true
                  · have : m = [] := by
                      rw [filterMap_allGone _ hg'] at h1; exact Interleaving.of_nil h1
                    subst this
                    simp only [idle, hg', if_true]; exact .done
                  · simp only [idle, hg']; exact .pending h2
              · refine ⟨[], ?_, ?_⟩
                · rw [hfm]
                  have : Interleaving ((ss.set k none).filterMap id) [] := by
                    rw [filterMap_allGone _ h2]; exact .nil (by simp)
                  exact this.insert_nil _ _ hfm'
                · simp only [idle, h2, if_true, schedEvents]; exact .done
            | cons r rest =>
              have hstep : schedStep ss (some k) = (ss.set k (some rest), .elem r) := by
                simp [schedStep, advance, hk]
              rw [hstep] at hgone ⊢
              have hfm : ss.filterMap id =
                  (ss.take k).filterMap id ++ (r :: rest) :: (ss.drop (k + 1)).filterMap id := by
                conv => lhs; rw [hsplit]
                simp [List.filterMap_append]
              have hfm' : (ss.set k (some rest)).filterMap id =
                  (ss.take k).filterMap id ++ rest :: (ss.drop (k + 1)).filterMap id := by
                rw [hset (some rest)]; simp [List.filterMap_append]
              have hnot : allGone (ss.set k (some rest)) = false := by
                cases hgo : allGone (ss.set k (some rest)) with
                | false => rfl
                | true =>
                  have := filterMap_allGone _ hgo
                  rw [hfm'] at this; simp at this
              rcases hrest (ss.set k (some rest)) (by rw [hstep]) (by rw [hstep]) with ⟨m, h1, h2⟩ | ⟨rfl, h2⟩
              · refine ⟨r :: m, ?_, .elem h2⟩
                rw [hfm]
                refine Interleaving.cons (i := ((ss.take k).filterMap id).length) (rest := rest) (by simp) ?_
                rw [hfm'] at h1
                simpa using h1
              · rw [hnot] at h2; cases h2

theorem feed_elems (m : List Res) (rest : List Inner) : Feed m (m.map Inner.elem ++ .done :: rest) := by
  induction m with
  | nil => exact .done
  | cons r m ih => exact .elem ih

theorem absTimes_snd (t : Nat) (l : List (Nat × Res)) : (absTimes t l).map Prod.snd = l.map Prod.snd := by
  induction l generalizing t with
  | nil => rfl
  | cons x l ih => obtain ⟨d, r⟩ := x; simp [absTimes, ih]

theorem untimed_streams (svcs : List (Option (List (Nat × Res)))) :
    untimed (svcs.filterMap (Option.map (absTimes 0))) =
      (svcs.map (Option.map (List.map Prod.snd))).filterMap id := by
  induction svcs with
  | nil => rfl
  | cons a svcs ih =>
    cases a with
    | none => simpa [untimed] using ih
    | some l =>
      simp only [untimed] at ih
      simp [untimed, absTimes_snd, ih]

end IrohModel.C29
