/-
C29 — helper definitions and lemmas: merge orders (`Interleaving`), fair feeds of
the inner stream (`Feed`), and the run lemma `run_feed`.
-/
import IrohModel.C29.Model

namespace IrohModel.C29

/-- An element of a service stream as it appears in the merged stream. -/
def toOut : Res → Out
  | .item x => .item x
  | .err e => .err e

/-- The errors of a merge order, in that order. -/
def errsOf : List Res → List Nat
  | [] => []
  | .err e :: m => e :: errsOf m
  | .item _ :: m => errsOf m

/-- `m` is a merge order of the streams `ss`: repeatedly some stream hands over its head,
until all streams are exhausted.  (Assumed of `MergeBounded`; any such order is allowed.) -/
inductive Interleaving : List (List Res) → List Res → Prop
  | nil {ss : List (List Res)} : (∀ s ∈ ss, s = []) → Interleaving ss []
  | cons {ss : List (List Res)} {i : Nat} {x : Res} {rest m : List Res} :
      ss[i]? = some (x :: rest) → Interleaving (ss.set i rest) m → Interleaving ss (x :: m)

/-- The answers of the inner stream over a complete run with merge order `m`: the elements of
`m` in order, `pending` any number of times in between, then `done`; what would come after
`done` is irrelevant (the stream never polls the merge again) and left arbitrary. -/
inductive Feed : List Res → List Inner → Prop
  | pending {m : List Res} {is : List Inner} : Feed m is → Feed m (.pending :: is)
  | elem {r : Res} {m : List Res} {is : List Inner} : Feed m is → Feed (r :: m) (.elem r :: is)
  | done {rest : List Inner} : Feed [] (.done :: rest)

/-- The poll that closes the stream, from state `s` with `m` still to come. -/
def lastPoll (s : St) (m : List Res) : Poll :=
  if s.didEmit || m.any Res.isItem then .ready none
  else .ready (some (.noResults (s.errors ++ errsOf m)))

theorem runPolls_closed (s : St) (h : s.closed = true) (is : List Inner) :
    runPolls s is = (s, is.map fun _ => Poll.ready none) := by
  induction is with
  | nil => rfl
  | cons i is ih => simp [runPolls, pollNext, h, ih]

theorem toOut_not_failure (r : Res) : (toOut r).isFailure = false := by
  cases r <;> rfl

theorem outs_append (a b : List Poll) : outs (a ++ b) = outs a ++ outs b := by
  induction a with
  | nil => rfl
  | cons p a ih =>
    cases p with
    | pending => simpa [outs] using ih
    | ready o => cases o <;> simpa [outs] using ih

theorem outs_ready_none (post : List Poll) (h : ∀ p ∈ post, p = Poll.ready none) : outs post = [] := by
  induction post with
  | nil => rfl
  | cons p post ih =>
    have hp := h p (by simp)
    subst hp
    simpa [outs] using ih (fun q hq => h q (by simp [hq]))

theorem pollNext_pending (s : St) (hs : s.hasStreams = true) (hc : s.closed = false) :
    pollNext s .pending = (s, .pending) := by simp [pollNext, hs, hc]

theorem pollNext_item (s : St) (hs : s.hasStreams = true) (hc : s.closed = false) (x : Nat) :
    pollNext s (.elem (.item x)) = ({ s with didEmit := true }, .ready (some (.item x))) := by
  simp [pollNext, hs, hc]

theorem pollNext_err (s : St) (hs : s.hasStreams = true) (hc : s.closed = false) (e : Nat) :
    pollNext s (.elem (.err e)) = ({ s with errors := s.errors ++ [e] }, .ready (some (.err e))) := by
  simp [pollNext, hs, hc]

theorem pollNext_done (s : St) (hs : s.hasStreams = true) (hc : s.closed = false) :
    pollNext s .done =
      if s.didEmit then ({ s with closed := true }, .ready none)
      else ({ s with closed := true, errors := [] }, .ready (some (.noResults s.errors))) := by
  cases hd : s.didEmit <;> simp [pollNext, hs, hc, hd]

theorem lastPoll_item (s : St) (x : Nat) (m : List Res) :
    lastPoll s (.item x :: m) = lastPoll { s with didEmit := true } m := by
  simp [lastPoll, Res.isItem]

theorem lastPoll_err (s : St) (e : Nat) (m : List Res) :
    lastPoll s (.err e :: m) = lastPoll { s with errors := s.errors ++ [e] } m := by
  simp [lastPoll, Res.isItem, errsOf]

/-- The run lemma: from any open state with streams, a fair feed of merge order `m` produces
exactly the elements of `m`, then the closing poll, then only `Ready(None)`. -/
theorem run_feed (m : List Res) (is : List Inner) (h : Feed m is) :
    ∀ s : St, s.hasStreams = true → s.closed = false →
    ∃ pre post, (runPolls s is).2 = pre ++ lastPoll s m :: post
      ∧ outs pre = m.map toOut
      ∧ (∀ p ∈ pre, p = .pending ∨ ∃ r ∈ m, p = .ready (some (toOut r)))
      ∧ (∀ p ∈ post, p = .ready none)
      ∧ (runPolls s is).1.closed = true := by
  induction h with
  | @pending m is _ ih =>
    intro s hs hc
    obtain ⟨pre, post, h1, h2, h3, h4, h5⟩ := ih s hs hc
    refine ⟨.pending :: pre, post, ?_, ?_, ?_, h4, ?_⟩
    · simp only [runPolls, pollNext_pending s hs hc, h1, List.cons_append]
    · simpa [outs] using h2
    · intro p hp
      rcases List.mem_cons.1 hp with rfl | hp
      · exact .inl rfl
      · exact h3 p hp
    · simpa only [runPolls, pollNext_pending s hs hc] using h5
  | @elem r m is _ ih =>
    intro s hs hc
    cases r with
    | item x =>
      obtain ⟨pre, post, h1, h2, h3, h4, h5⟩ := ih { s with didEmit := true } hs hc
      refine ⟨.ready (some (.item x)) :: pre, post, ?_, ?_, ?_, h4, ?_⟩
      · simp only [runPolls, pollNext_item s hs hc, h1, List.cons_append, lastPoll_item]
      · simp [outs, h2, toOut]
      · intro p hp
        rcases List.mem_cons.1 hp with rfl | hp
        · exact .inr ⟨.item x, by simp, rfl⟩
        · rcases h3 p hp with h | ⟨r, hr, h⟩
          · exact .inl h
          · exact .inr ⟨r, by simp [hr], h⟩
      · simpa only [runPolls, pollNext_item s hs hc] using h5
    | err e =>
      obtain ⟨pre, post, h1, h2, h3, h4, h5⟩ := ih { s with errors := s.errors ++ [e] } hs hc
      refine ⟨.ready (some (.err e)) :: pre, post, ?_, ?_, ?_, h4, ?_⟩
      · simp only [runPolls, pollNext_err s hs hc, h1, List.cons_append, lastPoll_err]
      · simp [outs, h2, toOut]
      · intro p hp
        rcases List.mem_cons.1 hp with rfl | hp
        · exact .inr ⟨.err e, by simp, rfl⟩
        · rcases h3 p hp with h | ⟨r, hr, h⟩
          · exact .inl h
          · exact .inr ⟨r, by simp [hr], h⟩
      · simpa only [runPolls, pollNext_err s hs hc] using h5
  | @done rest =>
    intro s hs hc
    refine ⟨[], rest.map fun _ => Poll.ready none, ?_, rfl, by simp, by simp, ?_⟩
    · simp only [runPolls, pollNext_done s hs hc, List.nil_append]
      cases hd : s.didEmit
      · simp [lastPoll, hd, errsOf, runPolls_closed]
      · simp [lastPoll, hd, runPolls_closed]
    · simp only [runPolls, pollNext_done s hs hc]
      cases hd : s.didEmit <;> simp [runPolls_closed]

/-! ### Merge orders lose and invent nothing -/

theorem flatten_set_perm (ss : List (List Res)) (i : Nat) (x : Res) (rest : List Res)
    (h : ss[i]? = some (x :: rest)) : (x :: (ss.set i rest).flatten).Perm ss.flatten := by
  induction ss generalizing i with
  | nil => simp at h
  | cons s ss ih =>
    cases i with
    | zero =>
      simp at h; subst h; simp
    | succ i =>
      simp at h
      have := ih i h
      simp only [List.set_cons_succ, List.flatten_cons]
      exact (List.perm_middle.symm).trans (List.Perm.append_left s this)

/-- Every element of every stream occurs in the merge order exactly as often as it was produced. -/
theorem Interleaving.perm {ss : List (List Res)} {m : List Res} (h : Interleaving ss m) :
    m.Perm ss.flatten := by
  induction h with
  | @nil ss hall =>
    have : ss.flatten = [] := by
      simp only [List.flatten_eq_nil_iff]; exact hall
    rw [this]
  | @cons ss i x rest m hi _ ih =>
    exact (List.Perm.cons x ih).trans (flatten_set_perm ss i x rest hi)

theorem Interleaving.of_nil {m : List Res} (h : Interleaving [] m) : m = [] := by
  cases h with
  | nil _ => rfl
  | cons hi _ => simp at hi

/-- Each service's elements appear in the merge order in the order the service produced them. -/
theorem Interleaving.sublist {ss : List (List Res)} {m : List Res} (h : Interleaving ss m) :
    ∀ (i : Nat) (s : List Res), ss[i]? = some s → s.Sublist m := by
  induction h with
  | @nil ss hall =>
    intro i s hi
    have : s = [] := hall s (List.mem_of_getElem? hi)
    subst this; exact List.Sublist.slnil
  | @cons ss j x rest m hj _ ih =>
    intro i s hi
    by_cases hij : j = i
    · subst hij
      rw [hj] at hi
      cases hi
      have hlt : j < ss.length := by
        rcases Nat.lt_or_ge j ss.length with h | h
        · exact h
        · rw [List.getElem?_eq_none h] at hj; cases hj
      exact List.Sublist.cons_cons x (ih j rest (by simp [hlt]))
    · have : (ss.set j rest)[i]? = some s := by
        rw [List.getElem?_set_ne hij]; exact hi
      exact List.Sublist.cons x (ih i s this)

end IrohModel.C29
