/-
C29 — property theorems.

"Resolving through the configured lookup services yields every item and every
per-service error produced, then ends: with a single no-results failure
(carrying all errors) exactly when no item was produced, or with a single
no-services failure exactly when no service is configured.  Nothing is yielded
after the end."

Quantification.  `services` is ANY list of services (declining = `none`; a
stream = `some l` with `l` any finite list of items/errors: empty, immediate,
delayed, erroring, multi-item).  `m` is ANY merge order of the streams
(`Interleaving`), `is` ANY complete sequence of answers of the inner merge with
that order (`Feed`: `Pending` any number of times anywhere — this is where
delays live — and arbitrary garbage after the merge reported its end).  The
consumer may go on polling for ever (`is` has arbitrary length).
-/
import IrohModel.C29.Lemmas

namespace IrohModel.C29

/-- A complete fair run of `resolve(services)`: `m` is a merge order of the streams of the
services that did not decline, and `is` feeds it to the stream.  With no service configured
the merge does not exist; the consumer polls at least once. -/
structure FairRun (services : List Service) (m : List Res) (is : List Inner) : Prop where
  merge : Interleaving (resolve services).2 m
  feed : if services = [] then is ≠ [] else Feed m is

/-- What the consumer sees: the `Ready(Some(_))` values over all its polls. -/
def seen (services : List Service) (is : List Inner) : List Out :=
  outs (runPolls (resolve services).1 is).2

/-- The terminal item the protocol documents. -/
def terminal (services : List Service) (m : List Res) : List Out :=
  if services = [] then [.noService]
  else if m.any Res.isItem then []
  else [.noResults (errsOf m)]

theorem resolve_nil : resolve [] = (St.empty, []) := rfl

theorem resolve_cons (s : Service) (ss : List Service) :
    resolve (s :: ss) = (St.new, (s :: ss).filterMap id) := rfl

/-- With no service configured the polls are: `NoServiceConfigured`, then `Ready(None)` for ever. -/
theorem polls_no_service (i : Inner) (is : List Inner) :
    (runPolls (resolve []).1 (i :: is)).2 = .ready (some .noService) :: is.map fun _ => Poll.ready none := by
  simp [resolve_nil, runPolls, pollNext, St.empty, runPolls_closed]

/-- **protocol_shape** — the polls of a complete run are: elements and `Pending`s, then ONE closing
poll (the terminal failure, or `Ready(None)` if an item was produced), then `Ready(None)` only. -/
theorem protocol_shape (services : List Service) (m : List Res) (is : List Inner)
    (h : FairRun services m is) :
    ∃ pre last post, (runPolls (resolve services).1 is).2 = pre ++ last :: post
      ∧ outs pre = m.map toOut
      ∧ (∀ p ∈ pre, p = .pending ∨ ∃ r ∈ m, p = .ready (some (toOut r)))
      ∧ outs [last] = terminal services m
      ∧ (∀ p ∈ post, p = .ready none)
      ∧ (runPolls (resolve services).1 is).1.closed = true := by
  cases services with
  | nil =>
    have hm : m = [] := Interleaving.of_nil h.merge
    subst hm
    have hne : is ≠ [] := by simpa using h.feed
    cases is with
    | nil => exact absurd rfl hne
    | cons i is =>
      refine ⟨[], .ready (some .noService), is.map fun _ => Poll.ready none, ?_, rfl, by simp, rfl, by simp, ?_⟩
      · simpa using polls_no_service i is
      · simp [resolve_nil, runPolls, pollNext, St.empty, runPolls_closed]
  | cons s ss =>
    have hf : Feed m is := by simpa using h.feed
    obtain ⟨pre, post, h1, h2, h3, h4, h5⟩ := run_feed m is hf St.new rfl rfl
    refine ⟨pre, lastPoll St.new m, post, h1, h2, h3, ?_, h4, h5⟩
    simp only [lastPoll, terminal, St.new]
    cases hany : m.any Res.isItem <;> simp [outs]

/-- The closing poll of a complete run. -/
def closing (services : List Service) (m : List Res) : Poll :=
  if services = [] then .ready (some .noService)
  else if m.any Res.isItem then .ready none
  else .ready (some (.noResults (errsOf m)))

/-- `protocol_shape` with the closing poll named: it is never `Pending`. -/
theorem protocol_shape_closing (services : List Service) (m : List Res) (is : List Inner)
    (h : FairRun services m is) :
    ∃ pre post, (runPolls (resolve services).1 is).2 = pre ++ closing services m :: post
      ∧ outs pre = m.map toOut
      ∧ (∀ p ∈ pre, p = .pending ∨ ∃ r ∈ m, p = .ready (some (toOut r)))
      ∧ (∀ p ∈ post, p = .ready none) := by
  cases services with
  | nil =>
    have hm : m = [] := Interleaving.of_nil h.merge
    subst hm
    have hne : is ≠ [] := by simpa using h.feed
    cases is with
    | nil => exact absurd rfl hne
    | cons i is =>
      refine ⟨[], is.map fun _ => Poll.ready none, ?_, rfl, by simp, by simp⟩
      simpa [closing] using polls_no_service i is
  | cons s ss =>
    have hf : Feed m is := by simpa using h.feed
    obtain ⟨pre, post, h1, h2, h3, h4, _⟩ := run_feed m is hf St.new rfl rfl
    refine ⟨pre, post, ?_, h2, h3, h4⟩
    show (runPolls St.new is).2 = _
    rw [h1]
    simp only [lastPoll, closing, St.new]
    cases hany : m.any Res.isItem <;> simp

theorem outs_closing (services : List Service) (m : List Res) :
    outs [closing services m] = terminal services m := by
  unfold closing terminal
  split
  · rfl
  · split <;> rfl

/-- **yields_all** — the consumer sees every element of the merge order, in that order, followed by
the terminal item and nothing else; and the merge order contains every item and every error each
service produced, exactly as often as produced, each service's elements in its own order. -/
theorem yields_all (services : List Service) (m : List Res) (is : List Inner)
    (h : FairRun services m is) :
    seen services is = m.map toOut ++ terminal services m
      ∧ m.Perm ((services.filterMap id).flatten)
      ∧ ∀ l, some l ∈ services → l.Sublist m := by
  obtain ⟨pre, last, post, h1, h2, _, h4, h5, _⟩ := protocol_shape services m is h
  refine ⟨?_, ?_, ?_⟩
  · have : outs (last :: post) = outs [last] ++ outs post := outs_append [last] post
    simp only [seen, h1, outs_append, this, h2, h4, outs_ready_none post h5, List.append_nil]
  · cases services with
    | nil => rw [Interleaving.of_nil h.merge]; exact List.Perm.nil
    | cons s ss => exact h.merge.perm
  · intro l hl
    cases services with
    | nil => cases hl
    | cons s ss =>
      have hmem : l ∈ (s :: ss).filterMap id := by
        rw [List.mem_filterMap]; exact ⟨some l, hl, rfl⟩
      obtain ⟨i, hi⟩ := List.getElem?_of_mem hmem
      exact h.merge.sublist i l hi

/-- **ends_once** — at most one failure is ever yielded, and nothing at all is yielded after it. -/
theorem ends_once (services : List Service) (m : List Res) (is : List Inner)
    (h : FairRun services m is) :
    (seen services is).countP Out.isFailure ≤ 1
      ∧ ∀ a b o, seen services is = a ++ o :: b → o.isFailure = true → b = [] := by
  have hy := (yields_all services m is h).1
  have hnf : ∀ o ∈ m.map toOut, o.isFailure = false := by
    intro o ho
    obtain ⟨r, _, rfl⟩ := List.mem_map.1 ho
    exact toOut_not_failure r
  have hterm : terminal services m = [] ∨ ∃ t, terminal services m = [t] := by
    unfold terminal; split
    · exact .inr ⟨_, rfl⟩
    · split
      · exact .inl rfl
      · exact .inr ⟨_, rfl⟩
  refine ⟨?_, ?_⟩
  · rw [hy, List.countP_append]
    have h0 : (m.map toOut).countP Out.isFailure = 0 := by
      rw [List.countP_eq_zero]; intro o ho; simp [hnf o ho]
    rcases hterm with ht | ⟨t, ht⟩
    · simp [h0, ht]
    · rw [h0, ht]; simp [List.countP_cons]; split <;> omega
  · intro a b o hs ho
    rw [hy] at hs
    rcases hterm with ht | ⟨t, ht⟩
    · rw [ht, List.append_nil] at hs
      have : o ∈ m.map toOut := by rw [hs]; simp
      rw [hnf o this] at ho; cases ho
    · rw [ht] at hs
      -- the failure `o` cannot be inside `m.map toOut`, so it is the last element
      rcases List.append_eq_append_iff.1 hs with ⟨c, hc1, hc2⟩ | ⟨c, hc1, hc2⟩
      · -- a = m.map toOut ++ c,  [t] = c ++ o :: b
        cases c with
        | nil => simp at hc2; exact hc2.2
        | cons x c => simp at hc2
      · -- m.map toOut = a ++ c,  o :: b = c ++ [t]
        cases c with
        | nil => simp at hc2; exact hc2.2
        | cons x c =>
          simp at hc2
          have : o ∈ m.map toOut := by rw [hc1, ← hc2.1]; simp
          rw [hnf o this] at ho; cases ho

/-- **noresults_iff_no_item** — a no-results failure is yielded exactly when services are configured
and no item was produced; it then carries exactly the errors produced (all of them, in the order
they were yielded). -/
theorem noresults_iff_no_item (services : List Service) (m : List Res) (is : List Inner)
    (h : FairRun services m is) :
    ((∃ errs, Out.noResults errs ∈ seen services is) ↔ (services ≠ [] ∧ ∀ r ∈ m, r.isItem = false))
      ∧ (∀ errs, Out.noResults errs ∈ seen services is → errs = errsOf m) := by
  have hy := (yields_all services m is h).1
  have hnot : ∀ errs, Out.noResults errs ∉ m.map toOut := by
    intro errs hmem
    obtain ⟨r, _, hr⟩ := List.mem_map.1 hmem
    cases r <;> cases hr
  have key : ∀ errs, Out.noResults errs ∈ seen services is ↔
      (services ≠ [] ∧ m.any Res.isItem = false ∧ errs = errsOf m) := by
    intro errs
    rw [hy, List.mem_append]
    unfold terminal
    by_cases hs : services = []
    · simp [hs, hnot]
    · cases hany : m.any Res.isItem
      · simp [hs, hnot]
      · simp [hs, hnot]
  refine ⟨?_, fun errs he => ((key errs).1 he).2.2⟩
  constructor
  · rintro ⟨errs, he⟩
    obtain ⟨h1, h2, _⟩ := (key errs).1 he
    refine ⟨h1, ?_⟩
    intro r hr
    cases hri : r.isItem
    · rfl
    · have : m.any Res.isItem = true := List.any_eq_true.2 ⟨r, hr, hri⟩
      rw [this] at h2; cases h2
  · rintro ⟨h1, h2⟩
    refine ⟨errsOf m, (key _).2 ⟨h1, ?_, rfl⟩⟩
    cases hany : m.any Res.isItem
    · rfl
    · obtain ⟨r, hr, hri⟩ := List.any_eq_true.1 hany
      rw [h2 r hr] at hri; cases hri

/-- **noservice_iff_empty** — the no-services failure is yielded exactly when no service is configured
(services that all decline are *configured*: they end with no-results, not no-services). -/
theorem noservice_iff_empty (services : List Service) (m : List Res) (is : List Inner)
    (h : FairRun services m is) :
    Out.noService ∈ seen services is ↔ services = [] := by
  have hy := (yields_all services m is h).1
  have hnot : Out.noService ∉ m.map toOut := by
    intro hmem
    obtain ⟨r, _, hr⟩ := List.mem_map.1 hmem
    cases r <;> cases hr
  rw [hy, List.mem_append]
  unfold terminal
  by_cases hs : services = []
  · simp [hs]
  · cases hany : m.any Res.isItem <;> simp [hs, hnot]

/-- **nothing_after_end** — once the stream has closed (after the terminal failure or after the
first `Ready(None)`), every further poll is `Ready(None)` and the state no longer changes,
whatever the inner streams would do. -/
theorem nothing_after_end (s : St) (h : s.closed = true) (is : List Inner) :
    runPolls s is = (s, is.map fun _ => Poll.ready none) :=
  runPolls_closed s h is

/-- A complete run leaves the stream closed, so `nothing_after_end` applies to all later polls;
and within the run everything after the closing poll is `Ready(None)`. -/
theorem closed_after_run (services : List Service) (m : List Res) (is more : List Inner)
    (h : FairRun services m is) :
    runPolls (runPolls (resolve services).1 is).1 more =
      ((runPolls (resolve services).1 is).1, more.map fun _ => Poll.ready none) := by
  obtain ⟨_, _, _, _, _, _, _, _, hc⟩ := protocol_shape services m is h
  exact runPolls_closed _ hc more

/-! ### The runs exercised by the correspondence are fair runs

The driver computes the model's answer for a payload with the two executable mergers of
`Model.lean`.  These corollaries show that what the mergers feed to the stream is a `FairRun`,
i.e. every complete run of the correspondence is an instance of the theorems above. -/

/-- `P` mode: a schedule after which every stream has ended. -/
theorem sched_fair_run (services : List Service) (hs : services ≠ []) (sched : List (Option Nat))
    (hne : sched ≠ []) (hgone : allGone (schedFinal services sched) = true) :
    ∃ m, FairRun services m (schedEvents services sched) := by
  obtain ⟨m, h1, h2⟩ := sched_feed services sched hne hgone
  refine ⟨m, ⟨?_, by simpa [hs] using h2⟩⟩
  cases services with
  | nil => exact absurd rfl hs
  | cons s ss => exact h1

/-- `T` mode: services with per-element delays, merged by virtual time. -/
theorem timed_fair_run (svcs : List (Option (List (Nat × Res)))) (hs : svcs ≠ []) (fuel : Nat)
    (hfuel : ((svcs.filterMap (Option.map (absTimes 0))).map List.length).sum ≤ fuel) (rest : List Inner) :
    FairRun (svcs.map (Option.map (List.map Prod.snd)))
      ((timeMerge fuel (svcs.filterMap (Option.map (absTimes 0)))).map Prod.snd)
      (((timeMerge fuel (svcs.filterMap (Option.map (absTimes 0)))).map Prod.snd).map Inner.elem ++ .done :: rest) := by
  have hne : svcs.map (Option.map (List.map Prod.snd)) ≠ [] := by simpa using hs
  refine ⟨?_, by rw [if_neg hne]; exact feed_elems _ rest⟩
  have := timeMerge_interleaving fuel _ hfuel
  rw [untimed_streams] at this
  cases hsv : svcs.map (Option.map (List.map Prod.snd)) with
  | nil => exact absurd hsv hne
  | cons a b => rw [hsv] at this; exact this

/-! ### Non-vacuity: concrete fair runs exist (each hypothesis is satisfiable) -/

/-- Two services, an error then an item interleaved, a `Pending` in between. -/
example : FairRun [some [.err 1], none, some [.item 2]] [.err 1, .item 2]
    [.pending, .elem (.err 1), .pending, .elem (.item 2), .done, .elem (.item 9)] :=
  ⟨.cons (i := 0) rfl (.cons (i := 1) rfl (.nil (by decide))),
   by simpa using Feed.pending (Feed.elem (Feed.pending (Feed.elem Feed.done)))⟩

example : seen [some [.err 1], none, some [.item 2]]
    [.pending, .elem (.err 1), .pending, .elem (.item 2), .done, .elem (.item 9)] = [.err 1, .item 2] := by
  decide

/-- Only errors: the no-results failure carries both. -/
example : FairRun [some [.err 1], some [.err 2]] [.err 2, .err 1] [.elem (.err 2), .elem (.err 1), .done] :=
  ⟨.cons (i := 1) rfl (.cons (i := 0) rfl (.nil (by decide))),
   by simpa using Feed.elem (Feed.elem Feed.done)⟩

example : seen [some [.err 1], some [.err 2]] [.elem (.err 2), .elem (.err 1), .done, .done] =
    [.err 2, .err 1, .noResults [2, 1]] := by decide

/-- No service configured. -/
example : FairRun [] [] [.pending] := ⟨.nil (by simp [resolve]), by simp⟩

example : seen [] [.pending, .pending] = [.noService] := by decide

/-- All services decline: configured, hence no-results with no errors. -/
example : FairRun [none, none] [] [.done] := ⟨.nil (by simp [resolve]), by simpa using Feed.done⟩

example : (runPolls St.new [.done]).1.closed = true := by decide

end IrohModel.C29
