/-
C29 ∘ C22 — the address-lookup stream feeding the resolve plumbing of `RemoteStateActor`
(iroh/src/socket/remote_map/remote_state.rs).  Executable definitions only (linked into
the driver); the theorems are in `WithResolve.lean`.

`trigger_address_lookup` wraps `AddressLookupServices::resolve(endpoint_id)` in a
`filter_map` that drops the per-service errors (`Ok(Err(_)) => None`) and stores it as
`address_lookup_stream`; the run loop polls it while it is `Some` and passes every result to
`handle_address_lookup_item`:

* `Some(Ok(item))`: an item for another endpoint id is ignored (warned), otherwise its
  addresses go to `RemotePathState::insert_multiple` (`to_transports_addr` keeps every
  `Relay`/`Ip`/`Custom` address, so an item is *usable* iff it is for the right endpoint and
  has at least one address);
* `Some(Err(e))` (`NoResults{errors}` / `NoServiceConfigured`): `address_lookup_finished(Err(e))`,
  the stream is dropped — pending requests get `e` itself (with the collected errors);
* `None`: `address_lookup_finished(Ok(()))`, the stream is dropped — pending requests with no
  known path get `NoResults{errors: []}`.

The stream side is C29's `pollNext`; the actor side is C22's `step` (imported, not re-modelled).
-/
import IrohModel.C29.Model
import IrohModel.C22.Model

namespace IrohModel.C29

/-- What an item (identified by its number) carries: address ids (C22's encoding) and whether
it is for another endpoint id. -/
structure ItemInfo where
  addrs : List Nat
  wrongId : Bool
deriving DecidableEq, Repr

/-- An element of a service stream that gives the actor at least one path. -/
def usable (content : Nat → ItemInfo) : Res → Bool
  | .item x => !(content x).wrongId && !(content x).addrs.isEmpty
  | .err _ => false

/-- What the run loop hands to `handle_address_lookup_item` for one poll result of the merged
stream: nothing for `Pending` and for a per-service error (filtered out). -/
def opOfPoll (content : Nat → ItemInfo) : Poll → Option C22.Op
  | .pending => none
  | .ready (some (.item x)) => some (.lookupItem (content x).addrs (content x).wrongId)
  | .ready (some (.err _)) => none
  | .ready (some (.noResults _)) => some (.lookupDone (some .noResults))
  | .ready (some .noService) => some (.lookupDone (some .noService))
  | .ready none => some (.lookupDone none)

/-- The handler calls a sequence of poll results causes; `ord k` is the hash-map iteration order
at the `prune_paths` call of the `k`-th poll (arbitrary). -/
def lookupSteps (content : Nat → ItemInfo) (ord : Nat → List Nat) : Nat → List Poll → List C22.Step
  | _, [] => []
  | k, p :: ps =>
    match opOfPoll content p with
    | some op => ⟨op, ord k⟩ :: lookupSteps content ord (k + 1) ps
    | none => lookupSteps content ord (k + 1) ps

/-- A connect's resolve request without addresses on a fresh actor (no known path), then the
lookup stream's poll results. -/
def history (content : Nat → ItemInfo) (ord : Nat → List Nat) (polls : List Poll) : List C22.Step :=
  ⟨.resolve [], ord 0⟩ :: lookupSteps content ord 1 polls

/-- The errors a failing reply carries: those of the stream's `NoResults`, none when the actor
synthesises `NoResults` itself (stream ended `None`, still no path). -/
def carriedErrors : Poll → List Nat
  | .ready (some (.noResults errs)) => errs
  | _ => []

/-- One poll of the actor's `address_lookup_stream` (`filter_map` over the merged stream): inner
polls are repeated while they yield per-service errors.  `next` answers the inner polls after
the first (nothing new is delivered in between). -/
def outerPoll (s : St) (first : Inner) (next : Inner) : Nat → St × Poll
  | 0 => (s, .pending)
  | fuel + 1 =>
    let r := pollNext s first
    match r.2 with
    | .ready (some (.err _)) => outerPoll r.1 next next fuel
    | _ => r

end IrohModel.C29
