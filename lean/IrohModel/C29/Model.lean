/-
C29 — address lookup results stream.  Model of `iroh/src/address_lookup.rs`:
`AddressLookupServices::resolve` and `AddressLookupStream::poll_next`.

The stream merges the per-service result streams (`MergeBounded`, third party)
and adds a terminal item.  The merged inner stream is an *input* of the model:
every call of `poll_next` that reaches the inner stream receives one `Inner`
event (`pending`, an element, or `done` = the merge returned `None`).  The
theorems quantify over every merge order (interleaving of the per-service
streams) and every placement of `pending` polls.

Two executable mergers are provided for the correspondence run only (they model
the *assumed* behaviour of `MergeBounded` under the two disciplines the harness
uses): `advance` (channel-backed services, one delivery per poll, the schedule
names the service that delivers next) and `timeMerge` (timer-backed services
under paused time: elements come out ordered by their virtual time).
-/
import IrohModel.Generated.C29

namespace IrohModel.C29
open IrohModel.Generated.C29

/-- One element of a per-service stream (`Result<Item, Error>`), identified by a number. -/
inductive Res where
  | item (id : Nat)
  | err (id : Nat)
deriving DecidableEq, Repr

def Res.isItem : Res → Bool
  | .item _ => true
  | .err _ => false

/-- A configured service: `AddressLookup::resolve` returns `None` (the service declines)
or `Some(stream)` with a finite stream (possibly empty). -/
abbrev Service := Option (List Res)

/-- Items of the merged stream: `Result<Result<Item, Error>, AddressLookupFailed>`. -/
inductive Out where
  /-- `Ok(Ok(item))` -/
  | item (id : Nat)
  /-- `Ok(Err(error))` -/
  | err (id : Nat)
  /-- `Err(AddressLookupFailed::NoResults { errors })` -/
  | noResults (errs : List Nat)
  /-- `Err(AddressLookupFailed::NoServiceConfigured)` -/
  | noService
deriving DecidableEq, Repr

def Out.isFailure : Out → Bool
  | .noResults _ => true
  | .noService => true
  | _ => false

/-- Result of one `poll_next`. -/
inductive Poll where
  | pending
  | ready (o : Option Out)
deriving DecidableEq, Repr

/-- `struct AddressLookupStream` (`streams` is reduced to `is_some()`; the merge itself is an input). -/
structure St where
  hasStreams : Bool
  errors : List Nat
  didEmit : Bool
  closed : Bool
deriving DecidableEq, Repr

/-- `AddressLookupStream::empty()` -/
def St.empty : St := ⟨false, [], emptyDidEmit, emptyClosed⟩
/-- `AddressLookupStream::new(streams)` -/
def St.new : St := ⟨true, [], newDidEmit, newClosed⟩

/-- `AddressLookupServices::resolve`: no service configured → `empty()`, otherwise the
streams of the services that did not decline (`filter_map`). -/
def resolve (services : List Service) : St × List (List Res) :=
  if services.isEmpty then (St.empty, []) else (St.new, services.filterMap id)

/-- What the inner merged stream answers when `poll_next` polls it. -/
inductive Inner where
  | pending
  | elem (r : Res)
  | done
deriving DecidableEq, Repr

/-- `AddressLookupStream::poll_next`.  The inner stream is consulted only when the stream is
neither closed nor empty; `i` is its answer in that case. -/
def pollNext (s : St) (i : Inner) : St × Poll :=
  if s.closed then (s, .ready none)
  else if !s.hasStreams then ({ s with closed := true }, .ready (some .noService))
  else match i with
    | .pending => (s, .pending)
    | .elem (.item x) => ({ s with didEmit := true }, .ready (some (.item x)))
    | .elem (.err e) => ({ s with errors := s.errors ++ [e] }, .ready (some (.err e)))
    | .done =>
      if !s.didEmit then
        ({ s with closed := true, errors := [] }, .ready (some (.noResults s.errors)))
      else ({ s with closed := true }, .ready none)

/-- A consumer polling repeatedly. -/
def runPolls (s : St) : List Inner → St × List Poll
  | [] => (s, [])
  | i :: is =>
    let r := pollNext s i
    let rs := runPolls r.1 is
    (rs.1, r.2 :: rs.2)

/-- The items a consumer sees (`Ready(Some(_))`). -/
def outs : List Poll → List Out
  | [] => []
  | .ready (some o) :: ps => o :: outs ps
  | _ :: ps => outs ps

/-! ### Executable mergers used by the correspondence driver -/

/-- Channel discipline: per service `some rest` = live stream with undelivered elements,
`none` = no live stream (declined, or ended and removed from the merge). -/
abbrev Live := List (Option (List Res))

def allGone (ss : Live) : Bool := ss.all Option.isNone

/-- Poll of the merge with nothing newly available. -/
def idle (ss : Live) : Inner := if allGone ss then .done else .pending

/-- Service `k` delivers its next element (or, having none left, ends); then the merge is polled. -/
def advance (ss : Live) (k : Nat) : Live × Inner :=
  match ss[k]? with
  | some (some (r :: rest)) => (ss.set k (some rest), .elem r)
  | some (some []) => let ss' := ss.set k none; (ss', idle ss')
  | _ => (ss, idle ss)

/-- A schedule step: `some k` = service `k` advances, `none` = plain poll. -/
def schedStep (ss : Live) : Option Nat → Live × Inner
  | some k => advance ss k
  | none => (ss, idle ss)

/-- Run a schedule against the stream. -/
def runSched (s : St) (ss : Live) : List (Option Nat) → St × Live × List Poll
  | [] => (s, ss, [])
  | st :: sts =>
    let a := schedStep ss st
    let r := pollNext s a.2
    let rs := runSched r.1 a.1 sts
    (rs.1, rs.2.1, r.2 :: rs.2.2)

/-- Timer discipline: absolute virtual times from per-element delays. -/
def absTimes (t0 : Nat) : List (Nat × Res) → List (Nat × Res)
  | [] => []
  | (d, r) :: rest => (t0 + d, r) :: absTimes (t0 + d) rest

/-- Index, time, element and tail of the stream whose head is earliest (lowest index on ties). -/
def pickMin : List (List (Nat × Res)) → Nat → Option (Nat × Nat × Res × List (Nat × Res)) →
    Option (Nat × Nat × Res × List (Nat × Res))
  | [], _, best => best
  | [] :: ss, i, best => pickMin ss (i + 1) best
  | ((t, r) :: tl) :: ss, i, best =>
    match best with
    | none => pickMin ss (i + 1) (some (i, t, r, tl))
    | some (ib, tb, rb, tlb) =>
      if t < tb then pickMin ss (i + 1) (some (i, t, r, tl)) else pickMin ss (i + 1) (some (ib, tb, rb, tlb))

/-- Merge by virtual time (`fuel` ≥ total number of elements). -/
def timeMerge : Nat → List (List (Nat × Res)) → List (Nat × Res)
  | 0, _ => []
  | fuel + 1, ss =>
    match pickMin ss 0 none with
    | none => []
    | some (i, t, r, tl) => (t, r) :: timeMerge fuel (ss.set i tl)

end IrohModel.C29
