/-
C29 ∘ C22 — theorems about the composition (definitions in `ResolveModel.lean`).

A connect asks a fresh `RemoteStateActor` to resolve a remote with no known path; the actor
starts the address lookup and feeds every result of the merged stream to
`handle_address_lookup_item`.  For EVERY list of services, EVERY fair merge order `m`, EVERY
placement of `Pending` (C29's `FairRun`), every content of the items (addresses, endpoint id)
and every hash-map iteration order at the pruning calls:

* `connect_resolution_end_to_end` — the request is answered exactly once: `Ok`, by the handler
  of the first usable item and not before, if the merge order contains a usable item;
  otherwise an error, by the handler of the stream's closing poll and not before:
  `NoServiceConfigured` iff no service is configured, else `NoResults`, carrying exactly the
  errors the services produced (in yield order) when no item at all was produced.
* `per_service_errors_do_not_fail_resolve` — before the closing poll nothing but `Ok` can be
  sent, whatever errors the services produced.
* `late_items_after_answer_harmless` — after the answer no further answer is sent, whatever
  else the stream yields (items, errors, its end).

They use C29 `protocol_shape` for the shape of the polls and C22's `step` for the actor;
`answered_exactly_once_c22` and `failure_only_from_closing_poll_c22` are the instances of C22's
`answered_at_most_once` / `never_dropped` / `fail_only_after_lookup_finished_empty` on the
composed history.
-/
import IrohModel.C29.Theorems
import IrohModel.C29.ResolveModel
import IrohModel.C22.Theorems

namespace IrohModel.C29

open IrohModel.C22 (Reply LookupErr Answer)

/-- The actor waits: no path known, the connect's request (id 0) queued, a lookup running. -/
structure Waiting (s : C22.State) : Prop where
  paths : s.paths = []
  pending : s.pending = [0]
  lookup : s.lookup = true

/-! ### The actor's handlers on the two kinds of states -/

theorem resolve_fresh (c : Bool) (o : List Nat) :
    Waiting (C22.step (C22.init c) ⟨.resolve [], o⟩).1 ∧
      (C22.step (C22.init c) ⟨.resolve [], o⟩).2 = [] := by
  simp only [C22.step, C22.insertMultiple_eq]
  simp [C22.init, C22.insertAddrs_nil, C22.pruneWith_nil, C22.resolveRemote, C22.triggerLookup]
  exact ⟨rfl, rfl, rfl⟩

theorem waiting_item_unusable {s : C22.State} (h : Waiting s) (addrs o : List Nat) (w : Bool)
    (hu : w = true ∨ addrs = []) :
    Waiting (C22.step s ⟨.lookupItem addrs w, o⟩).1 ∧ (C22.step s ⟨.lookupItem addrs w, o⟩).2 = [] := by
  cases w with
  | true =>
    refine ⟨⟨?_, ?_, ?_⟩, ?_⟩ <;> simp [C22.step, h.lookup, h.paths, h.pending]
  | false =>
    have ha : addrs = [] := by
      rcases hu with h | h
      · cases h
      · exact h
    subst ha
    refine ⟨⟨?_, ?_, ?_⟩, ?_⟩ <;>
      simp [C22.step, h.lookup, C22.insertMultiple_eq, h.paths, C22.insertAddrs_nil, C22.pruneWith_nil, h.pending]

theorem waiting_item_usable {s : C22.State} (h : Waiting s) (addrs o : List Nat) (ha : addrs ≠ []) :
    (C22.step s ⟨.lookupItem addrs false, o⟩).1.pending = [] ∧
      (C22.step s ⟨.lookupItem addrs false, o⟩).2 = [(0, Reply.ok)] := by
  have hne : C22.insertAddrs [] addrs ≠ [] := fun h0 => ha (C22.insertAddrs_nil_left_eq_nil h0)
  simp only [C22.step, h.lookup, Bool.not_true, Bool.false_eq_true, if_false, C22.insertMultiple_eq, h.paths]
  simp [C22.isEmpty_false_of_ne_nil hne, h.pending]

theorem waiting_done {s : C22.State} (h : Waiting s) (e : Option LookupErr) (o : List Nat) :
    (C22.step s ⟨.lookupDone e, o⟩).1.pending = [] ∧
      (C22.step s ⟨.lookupDone e, o⟩).2 = [(0, Reply.err (e.getD .noResults))] := by
  simp [C22.step, C22.finishLookup_eq, h.lookup, h.pending, C22.replyOf, h.paths]

/-- With nothing queued the lookup handlers send nothing and queue nothing. -/
theorem quiet_step {s : C22.State} (hq : s.pending = []) (p : Poll) (content : Nat → ItemInfo)
    (op : C22.Op) (hop : opOfPoll content p = some op) (o : List Nat) :
    (C22.step s ⟨op, o⟩).1.pending = [] ∧ (C22.step s ⟨op, o⟩).2 = [] := by
  have item : ∀ addrs w, (C22.step s ⟨.lookupItem addrs w, o⟩).1.pending = [] ∧
      (C22.step s ⟨.lookupItem addrs w, o⟩).2 = [] := by
    intro addrs w
    simp only [C22.step]
    cases s.lookup
    · exact ⟨hq, rfl⟩
    · cases w
      · simp only [Bool.not_true, Bool.false_eq_true, if_false, C22.insertMultiple_eq]
        split <;> simp [hq]
      · exact ⟨hq, rfl⟩
  have done : ∀ e, (C22.step s ⟨.lookupDone e, o⟩).1.pending = [] ∧
      (C22.step s ⟨.lookupDone e, o⟩).2 = [] := by
    intro e
    simp only [C22.step, C22.finishLookup_eq]
    split <;> simp [hq]
  cases p with
  | pending => cases hop
  | ready r =>
    cases r with
    | none => simp only [opOfPoll, Option.some.injEq] at hop; subst hop; exact done _
    | some out =>
      cases out <;> simp only [opOfPoll, Option.some.injEq] at hop <;> try (subst hop)
      · exact item _ _
      · cases hop
      · exact done _
      · exact done _

theorem quiet_run {s : C22.State} (hq : s.pending = []) (content : Nat → ItemInfo) (ord : Nat → List Nat)
    (k : Nat) (ps : List Poll) :
    (C22.run s (lookupSteps content ord k ps)).1.pending = [] ∧
      (C22.run s (lookupSteps content ord k ps)).2 = [] := by
  induction ps generalizing s k with
  | nil => exact ⟨hq, rfl⟩
  | cons p ps ih =>
    simp only [lookupSteps]
    cases hop : opOfPoll content p with
    | none => exact ih hq (k + 1)
    | some op =>
      obtain ⟨h1, h2⟩ := quiet_step hq p content op hop (ord k)
      obtain ⟨h3, h4⟩ := ih h1 (k + 1)
      simp only [C22.run]
      exact ⟨h3, by rw [h2, h4]; rfl⟩

theorem lookupSteps_append (content : Nat → ItemInfo) (ord : Nat → List Nat) (k : Nat) (a b : List Poll) :
    lookupSteps content ord k (a ++ b) =
      lookupSteps content ord k a ++ lookupSteps content ord (k + a.length) b := by
  induction a generalizing k with
  | nil => simp [lookupSteps]
  | cons p a ih =>
    simp only [List.cons_append, lookupSteps, List.length_cons]
    have e : k + (a.length + 1) = k + 1 + a.length := by omega
    cases opOfPoll content p <;> simp [ih, e]

/-- An element in the merged stream's vocabulary. -/
def usableOut (content : Nat → ItemInfo) : Out → Bool
  | .item x => !(content x).wrongId && !(content x).addrs.isEmpty
  | _ => false

theorem usableOut_toOut (content : Nat → ItemInfo) (r : Res) : usableOut content (toOut r) = usable content r := by
  cases r <;> rfl

/-- While only unusable elements (and `Pending`) come, the actor keeps waiting and says nothing. -/
theorem waiting_run {s : C22.State} (h : Waiting s) (content : Nat → ItemInfo) (ord : Nat → List Nat)
    (k : Nat) (pre : List Poll)
    (hpre : ∀ p ∈ pre, p = .pending ∨ ∃ r, usable content r = false ∧ p = .ready (some (toOut r))) :
    Waiting (C22.run s (lookupSteps content ord k pre)).1 ∧
      (C22.run s (lookupSteps content ord k pre)).2 = [] := by
  induction pre generalizing s k with
  | nil => exact ⟨h, rfl⟩
  | cons p pre ih =>
    have hrest : ∀ q ∈ pre, q = .pending ∨ ∃ r, usable content r = false ∧ q = .ready (some (toOut r)) :=
      fun q hq => hpre q (by simp [hq])
    rcases hpre p (by simp) with rfl | ⟨r, hu, rfl⟩
    · simpa [lookupSteps, opOfPoll] using ih h (k + 1) hrest
    · cases r with
      | err e => simpa [lookupSteps, opOfPoll, toOut] using ih h (k + 1) hrest
      | item x =>
        have hun : (content x).wrongId = true ∨ (content x).addrs = [] := by
          simp only [usable, Bool.and_eq_false_iff, Bool.not_eq_false', List.isEmpty_iff] at hu
          rcases hu with h | h
          · exact .inl h
          · exact .inr (by simpa using h)
        obtain ⟨h1, h2⟩ := waiting_item_unusable h (content x).addrs (ord k) (content x).wrongId hun
        obtain ⟨h3, h4⟩ := ih h1 (k + 1) hrest
        simp only [lookupSteps, opOfPoll, toOut, C22.run]
        exact ⟨h3, by rw [h2, h4]; rfl⟩

theorem mem_outs (ps : List Poll) (o : Out) (h : Poll.ready (some o) ∈ ps) : o ∈ outs ps := by
  induction ps with
  | nil => cases h
  | cons x xs ih =>
    rcases List.mem_cons.1 h with hx | hx
    · subst hx; simp [outs]
    · have := ih hx
      cases x with
      | pending => simpa [outs] using this
      | ready y => cases y <;> simp [outs, this]

/-- Splitting the polls where the consumer sees a given element. -/
theorem outs_split (ps : List Poll) (A B : List Out) (o : Out) (h : outs ps = A ++ o :: B) :
    ∃ pa pb, ps = pa ++ .ready (some o) :: pb ∧ outs pa = A ∧ outs pb = B := by
  induction ps generalizing A with
  | nil => simp [outs] at h
  | cons p ps ih =>
    cases p with
    | pending =>
      obtain ⟨pa, pb, h1, h2, h3⟩ := ih A (by simpa [outs] using h)
      exact ⟨.pending :: pa, pb, by simp [h1], by simpa [outs] using h2, h3⟩
    | ready r =>
      cases r with
      | none =>
        obtain ⟨pa, pb, h1, h2, h3⟩ := ih A (by simpa [outs] using h)
        exact ⟨.ready none :: pa, pb, by simp [h1], by simpa [outs] using h2, h3⟩
      | some o' =>
        simp only [outs] at h
        cases A with
        | nil =>
          simp only [List.nil_append, List.cons.injEq] at h
          exact ⟨[], ps, by simp [h.1], rfl, h.2⟩
        | cons a A =>
          simp only [List.cons_append, List.cons.injEq] at h
          obtain ⟨pa, pb, h1, h2, h3⟩ := ih A h.2
          exact ⟨.ready (some o') :: pa, pb, by simp [h1], by simp [outs, h2, h.1], h3⟩

/-! ### The composed run -/

/-- The answers the connect gets over a composed history. -/
def answers (c : Bool) (content : Nat → ItemInfo) (ord : Nat → List Nat) (polls : List Poll) : List Answer :=
  C22.answersOf c (history content ord polls)

theorem answers_eq (c : Bool) (content : Nat → ItemInfo) (ord : Nat → List Nat) (polls : List Poll) :
    answers c content ord polls =
      (C22.run (C22.step (C22.init c) ⟨.resolve [], ord 0⟩).1 (lookupSteps content ord 1 polls)).2 := by
  simp [answers, C22.answersOf, history, C22.run, (resolve_fresh c (ord 0)).2]

/-- Every poll before the closing one carries an element of the merge order or is `Pending`;
restated with (un)usability. -/
theorem pre_unusable {content : Nat → ItemInfo} {m : List Res} {pre : List Poll}
    (h3 : ∀ p ∈ pre, p = .pending ∨ ∃ r ∈ m, p = .ready (some (toOut r)))
    (hm : ∀ r ∈ m, usable content r = false) :
    ∀ p ∈ pre, p = .pending ∨ ∃ r, usable content r = false ∧ p = .ready (some (toOut r)) := by
  intro p hp
  rcases h3 p hp with h | ⟨r, hr, h⟩
  · exact .inl h
  · exact .inr ⟨r, hm r hr, h⟩

/-- The closing poll as the actor sees it. -/
theorem closing_op (content : Nat → ItemInfo) (services : List Service) (m : List Res) :
    ∃ e, opOfPoll content (closing services m) = some (.lookupDone e) ∧
      e.getD .noResults = (if services = [] then LookupErr.noService else LookupErr.noResults) ∧
      carriedErrors (closing services m) = (if services = [] ∨ m.any Res.isItem then [] else errsOf m) := by
  unfold closing
  by_cases hs : services = []
  · refine ⟨some .noService, ?_, ?_, ?_⟩ <;> simp [hs, opOfPoll, carriedErrors]
  · cases hany : m.any Res.isItem
    · refine ⟨some .noResults, ?_, ?_, ?_⟩ <;> simp [hs, opOfPoll, carriedErrors]
    · refine ⟨none, ?_, ?_, ?_⟩ <;> simp [hs, opOfPoll, carriedErrors]

/-- **connect_resolution_end_to_end** — see the header. -/
theorem connect_resolution_end_to_end (c : Bool) (content : Nat → ItemInfo) (ord : Nat → List Nat)
    (services : List Service) (m : List Res) (is : List Inner) (h : FairRun services m is) :
    -- (a) a usable item exists: `Ok` from the handler of the FIRST one, nothing before, nothing after
    (∀ m1 r m2, m = m1 ++ r :: m2 → usable content r = true → (∀ r' ∈ m1, usable content r' = false) →
      ∃ pa pb, (runPolls (resolve services).1 is).2 = pa ++ .ready (some (toOut r)) :: pb ∧
        outs pa = m1.map toOut ∧
        answers c content ord pa = [] ∧
        answers c content ord (pa ++ [.ready (some (toOut r))]) = [(0, Reply.ok)] ∧
        answers c content ord (runPolls (resolve services).1 is).2 = [(0, Reply.ok)]) ∧
    -- (b) no usable item: an error from the handler of the closing poll, nothing before, nothing after
    ((∀ r ∈ m, usable content r = false) →
      ∃ pre last post, (runPolls (resolve services).1 is).2 = pre ++ last :: post ∧
        outs pre = m.map toOut ∧ last = closing services m ∧
        answers c content ord pre = [] ∧
        answers c content ord (pre ++ [last]) =
          [(0, Reply.err (if services = [] then .noService else .noResults))] ∧
        answers c content ord (runPolls (resolve services).1 is).2 =
          [(0, Reply.err (if services = [] then .noService else .noResults))] ∧
        carriedErrors last = (if services = [] ∨ m.any Res.isItem then [] else errsOf m)) := by
  obtain ⟨pre, post, hp, hout, hpre, hpost⟩ := protocol_shape_closing services m is h
  generalize hlast : closing services m = last at hp
  have hw := (resolve_fresh c (ord 0)).1
  refine ⟨?_, ?_⟩
  · intro m1 r m2 hm hur hm1
    have hsplit : outs pre = m1.map toOut ++ toOut r :: m2.map toOut := by
      rw [hout, hm]; simp
    obtain ⟨pa, pb', h1, h2, _⟩ := outs_split _ _ _ _ hsplit
    have h1' : (runPolls (resolve services).1 is).2 = pa ++ .ready (some (toOut r)) :: (pb' ++ last :: post) := by
      rw [hp, h1]; simp
    generalize pb' ++ last :: post = pb at h1'
    -- the polls before the first usable element carry only unusable ones
    have hpa : ∀ p ∈ pa, p = .pending ∨ ∃ r', usable content r' = false ∧ p = .ready (some (toOut r')) := by
      intro p hp'
      rcases hpre p (by rw [h1]; simp [hp']) with h0 | ⟨r0, _, h0⟩
      · exact .inl h0
      · right
        subst h0
        have hmem : toOut r0 ∈ outs pa := mem_outs _ _ hp'
        rw [h2] at hmem
        obtain ⟨r', hr', he⟩ := List.mem_map.1 hmem
        exact ⟨r', hm1 r' hr', by rw [he]⟩
    obtain ⟨hwa, hqa⟩ := waiting_run hw content ord 1 pa hpa
    -- the usable element itself
    cases r with
    | err e => simp [usable] at hur
    | item x =>
      have hx : (content x).wrongId = false ∧ (content x).addrs ≠ [] := by
        simp only [usable, Bool.and_eq_true, Bool.not_eq_eq_eq_not, Bool.not_true, List.isEmpty_iff] at hur
        exact ⟨hur.1, by simpa using hur.2⟩
      obtain ⟨hq1, hq2⟩ := waiting_item_usable hwa (content x).addrs (ord (1 + pa.length)) hx.2
      have hstep : lookupSteps content ord (1 + pa.length) [Poll.ready (some (toOut (Res.item x)))] =
          [⟨.lookupItem (content x).addrs false, ord (1 + pa.length)⟩] := by
        simp [lookupSteps, opOfPoll, toOut, hx.1]
      have hone : answers c content ord (pa ++ [.ready (some (toOut (.item x)))]) = [(0, Reply.ok)] ∧
          (C22.run (C22.step (C22.init c) ⟨.resolve [], ord 0⟩).1
            (lookupSteps content ord 1 (pa ++ [.ready (some (toOut (.item x)))]))).1.pending = [] := by
        rw [answers_eq, lookupSteps_append, C22.run_append, hstep]
        simp only [C22.run, hqa, hq2, hq1, List.nil_append, List.append_nil, and_self]
      refine ⟨pa, pb, h1', h2, by rw [answers_eq]; exact hqa, hone.1, ?_⟩
      have : (runPolls (resolve services).1 is).2 = (pa ++ [.ready (some (toOut (.item x)))]) ++ pb := by
        rw [h1']; simp
      rw [this, answers_eq, lookupSteps_append, C22.run_append]
      have hq := quiet_run hone.2 content ord (1 + (pa ++ [Poll.ready (some (toOut (Res.item x)))]).length) pb
      rw [answers_eq] at hone
      rw [hone.1, hq.2]; rfl
  · intro hm
    obtain ⟨hwa, hqa⟩ := waiting_run hw content ord 1 pre (pre_unusable hpre hm)
    obtain ⟨e, hop, he, hcar⟩ := closing_op content services m
    rw [hlast] at hop hcar
    obtain ⟨hq1, hq2⟩ := waiting_done hwa e (ord (1 + pre.length))
    have hstep : lookupSteps content ord (1 + pre.length) [last] = [⟨.lookupDone e, ord (1 + pre.length)⟩] := by
      simp [lookupSteps, hop]
    have hone : answers c content ord (pre ++ [last]) =
          [(0, Reply.err (if services = [] then .noService else .noResults))] ∧
        (C22.run (C22.step (C22.init c) ⟨.resolve [], ord 0⟩).1
          (lookupSteps content ord 1 (pre ++ [last]))).1.pending = [] := by
      rw [answers_eq, lookupSteps_append, C22.run_append, hstep]
      simp only [C22.run, hqa, hq2, hq1, he, List.nil_append, List.append_nil, and_self]
    refine ⟨pre, last, post, hp, hout, rfl, by rw [answers_eq]; exact hqa, hone.1, ?_, hcar⟩
    have : (runPolls (resolve services).1 is).2 = (pre ++ [last]) ++ post := by rw [hp]; simp
    rw [this, answers_eq, lookupSteps_append, C22.run_append]
    have hq := quiet_run hone.2 content ord (1 + (pre ++ [last]).length) post
    rw [answers_eq] at hone
    rw [hone.1, hq.2]; rfl

/-- The first usable element of a list that has one. -/
theorem first_usable_split (content : Nat → ItemInfo) (m : List Res) (h : m.any (usable content) = true) :
    ∃ m1 r m2, m = m1 ++ r :: m2 ∧ usable content r = true ∧ ∀ r' ∈ m1, usable content r' = false := by
  induction m with
  | nil => simp at h
  | cons a m ih =>
    cases ha : usable content a
    · have : m.any (usable content) = true := by simpa [ha] using h
      obtain ⟨m1, r, m2, h1, h2, h3⟩ := ih this
      refine ⟨a :: m1, r, m2, by simp [h1], h2, ?_⟩
      intro r' hr'
      rcases List.mem_cons.1 hr' with rfl | hr'
      · exact ha
      · exact h3 r' hr'
    · exact ⟨[], a, m, rfl, ha, by simp⟩

/-- **answered exactly once, and correctly** — never both, never neither: over a complete run the
connect gets exactly one answer; it is `Ok` iff some service produced a usable item, otherwise
`NoServiceConfigured` iff no service is configured, otherwise `NoResults`. -/
theorem answered_exactly_once (c : Bool) (content : Nat → ItemInfo) (ord : Nat → List Nat)
    (services : List Service) (m : List Res) (is : List Inner) (h : FairRun services m is) :
    answers c content ord (runPolls (resolve services).1 is).2 =
      [(0, if m.any (usable content) then Reply.ok
           else Reply.err (if services = [] then .noService else .noResults))] := by
  obtain ⟨ha, hb⟩ := connect_resolution_end_to_end c content ord services m is h
  cases hany : m.any (usable content)
  · have hm : ∀ r ∈ m, usable content r = false := by
      intro r hr
      cases hu : usable content r
      · rfl
      · have : m.any (usable content) = true := List.any_eq_true.2 ⟨r, hr, hu⟩
        rw [hany] at this; cases this
    obtain ⟨_, _, _, _, _, _, _, _, h6, _⟩ := hb hm
    simpa using h6
  · obtain ⟨m1, r, m2, h1, h2, h3⟩ := first_usable_split content m hany
    obtain ⟨_, _, _, _, _, _, h5⟩ := ha m1 r m2 h1 h2 h3
    simpa using h5

/-! ### Per-service errors -/

theorem mem_run_answers (s : C22.State) (hs : List C22.Step) (a : Answer) (ha : a ∈ (C22.run s hs).2) :
    ∃ h1 st h2, hs = h1 ++ st :: h2 ∧ a ∈ (C22.step (C22.run s h1).1 st).2 := by
  induction hs generalizing s with
  | nil => simp [C22.run] at ha
  | cons st hs ih =>
    simp only [C22.run, List.mem_append] at ha
    rcases ha with ha | ha
    · exact ⟨[], st, hs, rfl, by simpa [C22.run] using ha⟩
    · obtain ⟨h1, st', h2, e, hm⟩ := ih _ ha
      exact ⟨st :: h1, st', h2, by simp [e], by simpa [C22.run] using hm⟩

/-- Before the closing poll the actor is only ever handed items. -/
theorem lookupSteps_items (content : Nat → ItemInfo) (ord : Nat → List Nat) (m : List Res) (k : Nat)
    (ps : List Poll) (hps : ∀ p ∈ ps, p = .pending ∨ ∃ r ∈ m, p = .ready (some (toOut r))) :
    ∀ st ∈ lookupSteps content ord k ps, ∃ addrs w, st.op = .lookupItem addrs w := by
  induction ps generalizing k with
  | nil => intro st hst; cases hst
  | cons p ps ih =>
    have hrest : ∀ q ∈ ps, q = .pending ∨ ∃ r ∈ m, q = .ready (some (toOut r)) :=
      fun q hq => hps q (by simp [hq])
    intro st hst
    rcases hps p (by simp) with rfl | ⟨r, _, rfl⟩
    · exact ih (k + 1) hrest st (by simpa [lookupSteps, opOfPoll] using hst)
    · cases r with
      | err e => exact ih (k + 1) hrest st (by simpa [lookupSteps, opOfPoll, toOut] using hst)
      | item x =>
        simp only [lookupSteps, opOfPoll, toOut, List.mem_cons] at hst
        rcases hst with rfl | hst
        · exact ⟨_, _, rfl⟩
        · exact ih (k + 1) hrest st hst

/-- **per_service_errors_do_not_fail_resolve** — as long as the merged stream has not ended
(any prefix of the polls before its closing poll: other services may still yield), no answer
other than `Ok` has been sent, whatever errors the services produced; the errors only travel
in the terminal `NoResults` (C29 `noresults_iff_no_item`).  The step from "no failure is sent
by an item handler" is C22's `fail_only_after_lookup_finished_empty`. -/
theorem per_service_errors_do_not_fail_resolve (c : Bool) (content : Nat → ItemInfo) (ord : Nat → List Nat)
    (services : List Service) (m : List Res) (is : List Inner) (h : FairRun services m is) :
    ∃ pre post, (runPolls (resolve services).1 is).2 = pre ++ closing services m :: post ∧
      ∀ pa pb, pre = pa ++ pb → ∀ a ∈ answers c content ord pa, a.2 = Reply.ok := by
  obtain ⟨pre, post, hp, _, hpre, _⟩ := protocol_shape_closing services m is h
  refine ⟨pre, post, hp, ?_⟩
  intro pa pb hsplit a ha
  apply Classical.byContradiction
  intro hne
  obtain ⟨h1, st, h2, he, hmem⟩ := mem_run_answers (C22.init c) (history content ord pa) a ha
  have hfin := (C22.fail_only_after_lookup_finished_empty c h1 st a hmem hne).1
  -- `st` is the resolve or an item handler: never a lookup-finished handler
  have hst : st ∈ history content ord pa := by rw [he]; simp
  simp only [history, List.mem_cons] at hst
  rcases hst with rfl | hst
  · exact hfin
  · have hpa : ∀ p ∈ pa, p = .pending ∨ ∃ r ∈ m, p = .ready (some (toOut r)) :=
      fun p hp' => hpre p (by rw [hsplit]; simp [hp'])
    obtain ⟨addrs, w, hop⟩ := lookupSteps_items content ord m 1 pa hpa st hst
    rw [hop] at hfin
    exact hfin

/-! ### After the answer -/

/-- **late_items_after_answer_harmless** — once the connect's request has been answered (nothing
is queued), whatever the stream yields afterwards (further items — usable or not —, errors,
its end; any polls at all, fair or not) sends no further answer. -/
theorem late_items_after_answer_harmless (c : Bool) (content : Nat → ItemInfo) (ord : Nat → List Nat)
    (polls later : List Poll)
    (hq : (C22.stateAfter c (history content ord polls)).pending = []) :
    answers c content ord (polls ++ later) = answers c content ord polls ∧
      (C22.stateAfter c (history content ord (polls ++ later))).pending = [] := by
  have e : history content ord (polls ++ later) =
      history content ord polls ++ lookupSteps content ord (1 + polls.length) later := by
    simp [history, lookupSteps_append]
  have hq' := quiet_run hq content ord (1 + polls.length) later
  simp only [answers, C22.answersOf, C22.stateAfter, e, C22.run_append] at hq' ⊢
  exact ⟨by rw [hq'.2]; simp, hq'.1⟩

/-- C22's `answered_at_most_once` on the composed history: whatever the stream does (any polls,
fair or not), the connect is never answered twice. -/
theorem answered_at_most_once_composed (c : Bool) (content : Nat → ItemInfo) (ord : Nat → List Nat)
    (polls : List Poll) : (C22.answeredIds (answers c content ord polls)).Nodup :=
  C22.answered_at_most_once c (history content ord polls)

/-! ### Non-vacuity -/

/-- Two services: one errors, the other yields an item for the wrong endpoint, an empty item and
then a usable one; the answer comes with the third item. -/
example :
    let content : Nat → ItemInfo := fun x => if x = 1 then ⟨[4], true⟩ else if x = 2 then ⟨[], false⟩ else ⟨[4, 7], false⟩
    answers true content (fun _ => []) [.ready (some (.err 9)), .ready (some (.item 1)), .pending,
        .ready (some (.item 2))] = [] ∧
    answers true content (fun _ => []) [.ready (some (.err 9)), .ready (some (.item 1)), .pending,
        .ready (some (.item 2)), .ready (some (.item 3)), .ready (some (.item 3)), .ready none] = [(0, Reply.ok)] := by
  decide

example :
    answers true (fun _ => ⟨[], false⟩) (fun _ => []) [.ready (some (.err 9)), .ready (some (.noResults [9]))] =
      [(0, Reply.err .noResults)] ∧
    answers false (fun _ => ⟨[], false⟩) (fun _ => []) [.ready (some .noService), .ready none] =
      [(0, Reply.err .noService)] := by decide

end IrohModel.C29
