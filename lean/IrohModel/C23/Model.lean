/-
C23 — path pruning.  Model of `prune_non_relay_paths`
(iroh/src/socket/remote_map/remote_state/path_state.rs) exactly as written,
including the `split_off(len − MAX_INACTIVE)` arithmetic (known finding
`C23:inactive-keep-arith`).

The map `FxHashMap<Addr, PathState>` is modelled as the list of its entries in
the map's iteration order (the harness reports that order to the model); keys
are the `id`s, which are pairwise distinct in every map (`WF`).  Only what the
function reads is kept of an entry: relay / non-relay address and status.
-/
import IrohModel.Generated.C23

namespace IrohModel.C23

/-- `PathStatus`; close times are `Nat` ticks (`Instant`s are only compared). -/
inductive Status
  | open
  | inactive (closedAt : Nat)
  | unusable
  | unknown
deriving DecidableEq, Repr

structure Path where
  id : Nat
  relay : Bool
  status : Status
deriving DecidableEq, Repr

abbrev maxNonRelay : Nat := Generated.C23.maxNonRelayPaths
abbrev maxInactive : Nat := Generated.C23.maxInactiveNonRelayPaths

def Path.isInactive (p : Path) : Bool :=
  match p.status with
  | .inactive _ => true
  | _ => false

def Path.isUnusable (p : Path) : Bool :=
  match p.status with
  | .unusable => true
  | _ => false

/-- Close time of an inactive path (0 for any other status; only used on inactive ones). -/
def Path.closedAt (p : Path) : Nat :=
  match p.status with
  | .inactive t => t
  | _ => 0

/-- `primary_paths`: the non-relay entries, in iteration order. -/
def primaryOf (paths : List Path) : List Path := paths.filter fun p => !p.relay

/-- `inactive`: (addr, close time) of the inactive primary paths, in iteration order. -/
def inactiveOf (primary : List Path) : List (Nat × Nat) :=
  (primary.filter Path.isInactive).map fun p => (p.id, p.closedAt)

/-- `failed`: addresses of the unusable primary paths, in iteration order. -/
def failedOf (primary : List Path) : List Nat :=
  (primary.filter Path.isUnusable).map (·.id)

/-- Stable insertion into a list sorted most-recently-closed first: `x` goes behind every
entry closed strictly later and in front of entries closed at the same time or earlier. -/
def insertRecentFirst (x : Nat × Nat) : List (Nat × Nat) → List (Nat × Nat)
  | [] => [x]
  | y :: ys => if x.2 < y.2 then y :: insertRecentFirst x ys else x :: y :: ys

/-- `inactive.sort_by_key(|b| Reverse(b.1))` — a stable sort, most recently closed first. -/
def sortRecentFirst : List (Nat × Nat) → List (Nat × Nat)
  | [] => []
  | x :: xs => insertRecentFirst x (sortRecentFirst xs)

/-- `must_prune` for a map that passed both threshold tests. -/
def mustPrune (paths : List Path) : List Nat :=
  let primary := primaryOf paths
  let failed := failedOf primary
  -- "All paths are bad, don't prune all of them": `failed.truncate(len − MAX)`
  let failed := if failed.length = paths.length then failed.take (paths.length - maxNonRelay) else failed
  let sorted := sortRecentFirst (inactiveOf primary)
  -- `inactive.split_off(len.saturating_sub(MAX_INACTIVE))` returns the tail
  let old := sorted.drop (sorted.length - maxInactive)
  failed ++ old.map (·.1)

/-- `prune_non_relay_paths`. -/
def prune (paths : List Path) : List Path :=
  if paths.length < maxNonRelay then paths
  else if (primaryOf paths).length < maxNonRelay then paths
  else paths.filter fun p => !(mustPrune paths).contains p.id

end IrohModel.C23
