/-
C23 — helper lemmas about the pruning model.
-/
import IrohModel.C23.Model

namespace IrohModel.C23

/-- Keys of a map are pairwise distinct. -/
def WF (paths : List Path) : Prop := (paths.map (·.id)).Nodup

/-- Sorted most-recently-closed first. -/
def RecentFirst (l : List (Nat × Nat)) : Prop := l.Pairwise fun a b => b.2 ≤ a.2

theorem insertRecentFirst_perm (x : Nat × Nat) (l : List (Nat × Nat)) :
    (insertRecentFirst x l).Perm (x :: l) := by
  induction l with
  | nil => exact List.Perm.refl _
  | cons y ys ih =>
    unfold insertRecentFirst
    split
    · exact ((List.Perm.cons y ih).trans (List.Perm.swap x y ys))
    · exact List.Perm.refl _

theorem sortRecentFirst_perm (l : List (Nat × Nat)) : (sortRecentFirst l).Perm l := by
  induction l with
  | nil => exact List.Perm.refl _
  | cons x xs ih =>
    unfold sortRecentFirst
    exact (insertRecentFirst_perm x _).trans (List.Perm.cons x ih)

theorem insertRecentFirst_sorted (x : Nat × Nat) (l : List (Nat × Nat)) (h : RecentFirst l) :
    RecentFirst (insertRecentFirst x l) := by
  induction l with
  | nil => simp [insertRecentFirst, RecentFirst]
  | cons y ys ih =>
    unfold RecentFirst at h ⊢
    rw [List.pairwise_cons] at h
    unfold insertRecentFirst
    split
    · rename_i hlt
      rw [List.pairwise_cons]
      refine ⟨?_, ih h.2⟩
      intro b hb
      have hb' := (insertRecentFirst_perm x ys).mem_iff.mp hb
      rw [List.mem_cons] at hb'
      rcases hb' with hb' | hb'
      · subst hb'; omega
      · exact h.1 b hb'
    · rename_i hge
      rw [List.pairwise_cons]
      refine ⟨?_, List.pairwise_cons.mpr h⟩
      intro b hb
      rw [List.mem_cons] at hb
      rcases hb with hb | hb
      · subst hb; omega
      · have := h.1 b hb; omega

theorem sortRecentFirst_sorted (l : List (Nat × Nat)) : RecentFirst (sortRecentFirst l) := by
  induction l with
  | nil => simp [sortRecentFirst, RecentFirst]
  | cons x xs ih => unfold sortRecentFirst; exact insertRecentFirst_sorted x _ ih

theorem sortRecentFirst_length (l : List (Nat × Nat)) : (sortRecentFirst l).length = l.length :=
  (sortRecentFirst_perm l).length_eq

/-! ### Distinct keys -/

theorem eq_of_id_eq_aux : ∀ (l : List Path), (l.map (·.id)).Nodup → ∀ {p q : Path},
    p ∈ l → q ∈ l → p.id = q.id → p = q := by
  intro l
  induction l with
  | nil => intro _ p q hp; cases hp
  | cons x xs ih =>
    intro h p q hp hq hid
    rw [List.map_cons, List.nodup_cons] at h
    rw [List.mem_cons] at hp hq
    rcases hp with hp | hp <;> rcases hq with hq | hq
    · rw [hp, hq]
    · subst hp
      exact absurd (hid ▸ List.mem_map_of_mem (f := (·.id)) hq) h.1
    · subst hq
      exact absurd (hid ▸ List.mem_map_of_mem (f := (·.id)) hp) h.1
    · exact ih h.2 hp hq hid

theorem WF.eq_of_id_eq {paths : List Path} (h : WF paths) {p q : Path}
    (hp : p ∈ paths) (hq : q ∈ paths) (hid : p.id = q.id) : p = q :=
  eq_of_id_eq_aux paths h hp hq hid

/-! ### What can be in `must_prune` -/

theorem mem_primaryOf {paths : List Path} {p : Path} :
    p ∈ primaryOf paths ↔ p ∈ paths ∧ p.relay = false := by
  simp [primaryOf]

theorem mem_failedOf {l : List Path} {i : Nat} :
    i ∈ failedOf l ↔ ∃ p ∈ l, p.isUnusable = true ∧ p.id = i := by
  simp [failedOf, and_assoc]

theorem mem_inactiveOf {l : List Path} {a : Nat × Nat} :
    a ∈ inactiveOf l ↔ ∃ p ∈ l, p.isInactive = true ∧ (p.id, p.closedAt) = a := by
  simp [inactiveOf, and_assoc]

theorem isUnusable_iff (p : Path) : p.isUnusable = true ↔ p.status = .unusable := by
  unfold Path.isUnusable; cases p.status <;> simp

theorem isInactive_iff (p : Path) : p.isInactive = true ↔ ∃ t, p.status = .inactive t := by
  unfold Path.isInactive; cases p.status <;> simp

theorem isInactive_status {p : Path} (h : p.isInactive = true) : p.status = .inactive p.closedAt := by
  unfold Path.isInactive at h; unfold Path.closedAt
  cases hs : p.status <;> simp_all

/-- The ids of the old inactive entries (`old_inactive`). -/
def oldOf (paths : List Path) : List (Nat × Nat) :=
  let sorted := sortRecentFirst (inactiveOf (primaryOf paths))
  sorted.drop (sorted.length - maxInactive)

/-- The failed addresses after the "all paths are bad" truncation. -/
def failedKeptOf (paths : List Path) : List Nat :=
  let failed := failedOf (primaryOf paths)
  if failed.length = paths.length then failed.take (paths.length - maxNonRelay) else failed

theorem mustPrune_eq (paths : List Path) :
    mustPrune paths = failedKeptOf paths ++ (oldOf paths).map (·.1) := rfl

theorem mem_failedKeptOf {paths : List Path} {i : Nat} (h : i ∈ failedKeptOf paths) :
    ∃ p ∈ paths, p.relay = false ∧ p.status = .unusable ∧ p.id = i := by
  unfold failedKeptOf at h
  dsimp only at h
  have h' : i ∈ failedOf (primaryOf paths) := by
    split at h
    · exact List.mem_of_mem_take h
    · exact h
  obtain ⟨p, hp, hu, hi⟩ := mem_failedOf.mp h'
  obtain ⟨hp1, hp2⟩ := mem_primaryOf.mp hp
  exact ⟨p, hp1, hp2, (isUnusable_iff p).mp hu, hi⟩

theorem mem_oldOf {paths : List Path} {a : Nat × Nat} (h : a ∈ oldOf paths) :
    ∃ p ∈ paths, p.relay = false ∧ p.isInactive = true ∧ (p.id, p.closedAt) = a := by
  unfold oldOf at h
  have h1 := List.mem_of_mem_drop h
  have h2 := (sortRecentFirst_perm _).mem_iff.mp h1
  obtain ⟨p, hp, hi, ha⟩ := mem_inactiveOf.mp h2
  obtain ⟨hp1, hp2⟩ := mem_primaryOf.mp hp
  exact ⟨p, hp1, hp2, hi, ha⟩

/-- Everything in `must_prune` is the address of a non-relay path that is unusable or inactive. -/
theorem mem_mustPrune {paths : List Path} {i : Nat} (h : i ∈ mustPrune paths) :
    ∃ p ∈ paths, p.id = i ∧ p.relay = false ∧ (p.status = .unusable ∨ p.isInactive = true) := by
  rw [mustPrune_eq, List.mem_append] at h
  rcases h with h | h
  · obtain ⟨p, hp, hr, hs, hi⟩ := mem_failedKeptOf h
    exact ⟨p, hp, hi, hr, Or.inl hs⟩
  · rw [List.mem_map] at h
    obtain ⟨a, ha, hai⟩ := h
    obtain ⟨p, hp, hr, hin, hpa⟩ := mem_oldOf ha
    refine ⟨p, hp, ?_, hr, Or.inr hin⟩
    rw [← hai, ← hpa]

/-- Under both thresholds nothing happens. -/
theorem prune_of_lt {paths : List Path} (h : (primaryOf paths).length < maxNonRelay) :
    prune paths = paths := by
  unfold prune
  split
  · rfl
  · simp

theorem primaryOf_length_le (paths : List Path) : (primaryOf paths).length ≤ paths.length :=
  List.length_filter_le _ _

/-- At or above the threshold pruning is the `retain`. -/
theorem prune_of_ge {paths : List Path} (h : maxNonRelay ≤ (primaryOf paths).length) :
    prune paths = paths.filter fun p => !(mustPrune paths).contains p.id := by
  have := primaryOf_length_le paths
  unfold prune
  rw [if_neg (by omega), if_neg (by omega)]

theorem mem_prune_of_ge {paths : List Path} (h : maxNonRelay ≤ (primaryOf paths).length) {p : Path} :
    p ∈ prune paths ↔ p ∈ paths ∧ p.id ∉ mustPrune paths := by
  rw [prune_of_ge h]; simp

/-- Pruning only removes entries. -/
theorem prune_sublist (paths : List Path) : (prune paths).Sublist paths := by
  unfold prune
  split
  · exact List.Sublist.refl _
  · split
    · exact List.Sublist.refl _
    · exact List.filter_sublist

/-! ### The failed list -/

theorem failedOf_length (paths : List Path) :
    (failedOf (primaryOf paths)).length =
      (paths.filter fun p => !p.relay && p.isUnusable).length := by
  simp [failedOf, primaryOf, List.filter_filter, Bool.and_comm]

/-- `failed.len() == paths.len()` iff every entry is an unusable non-relay path. -/
theorem failed_all_iff (paths : List Path) :
    (failedOf (primaryOf paths)).length = paths.length ↔
      ∀ p ∈ paths, p.relay = false ∧ p.status = .unusable := by
  rw [failedOf_length]
  constructor
  · intro h p hp
    have := (List.length_filter_eq_length_iff.mp h) p hp
    simp only [Bool.and_eq_true, Bool.not_eq_true'] at this
    exact ⟨this.1, (isUnusable_iff p).mp this.2⟩
  · intro h
    apply List.length_filter_eq_length_iff.mpr
    intro p hp
    have := h p hp
    simp [this.1, (isUnusable_iff p).mpr this.2]

/-! ### Splitting a list with distinct keys -/

theorem filter_not_mem_take_ids (l : List Path) (h : WF l) (k : Nat) :
    (l.filter fun p => !((l.map (·.id)).take k).contains p.id) = l.drop k := by
  have hnd : ((l.take k).map (·.id) ++ (l.drop k).map (·.id)).Nodup := by
    rw [← List.map_append, List.take_append_drop]; exact h
  rw [List.nodup_append] at hnd
  obtain ⟨_, _, hdisj⟩ := hnd
  have hids : (l.map (·.id)).take k = (l.take k).map (·.id) := by
    rw [List.map_take]
  rw [hids]
  have h1 : ((l.take k).filter fun p => !((l.take k).map (·.id)).contains p.id) = [] := by
    rw [List.filter_eq_nil_iff]
    intro p hp
    simp only [Bool.not_eq_true', Bool.not_eq_false, List.contains_iff_mem]
    exact List.mem_map_of_mem hp
  have h2 : ((l.drop k).filter fun p => !((l.take k).map (·.id)).contains p.id) = l.drop k := by
    rw [List.filter_eq_self]
    intro p hp
    simp only [Bool.not_eq_true', List.contains_eq_mem, decide_eq_false_iff_not]
    intro hc
    exact hdisj _ hc _ (List.mem_map_of_mem hp) rfl
  calc l.filter (fun p => !((l.take k).map (·.id)).contains p.id)
      = (l.take k ++ l.drop k).filter (fun p => !((l.take k).map (·.id)).contains p.id) := by
        rw [List.take_append_drop]
    _ = l.drop k := by rw [List.filter_append, h1, h2, List.nil_append]

theorem filter_not_mem_drop_fst (l : List (Nat × Nat)) (h : (l.map (·.1)).Nodup) (k : Nat) :
    (l.filter fun a => !((l.drop k).map (·.1)).contains a.1) = l.take k := by
  have hnd : ((l.take k).map (·.1) ++ (l.drop k).map (·.1)).Nodup := by
    rw [← List.map_append, List.take_append_drop]; exact h
  rw [List.nodup_append] at hnd
  obtain ⟨_, _, hdisj⟩ := hnd
  have h1 : ((l.take k).filter fun a => !((l.drop k).map (·.1)).contains a.1) = l.take k := by
    rw [List.filter_eq_self]
    intro a ha
    simp only [Bool.not_eq_true', List.contains_eq_mem, decide_eq_false_iff_not]
    intro hc
    exact hdisj _ (List.mem_map_of_mem ha) _ hc rfl
  have h2 : ((l.drop k).filter fun a => !((l.drop k).map (·.1)).contains a.1) = [] := by
    rw [List.filter_eq_nil_iff]
    intro a ha
    simp only [Bool.not_eq_true', Bool.not_eq_false, List.contains_iff_mem]
    exact List.mem_map_of_mem ha
  calc l.filter (fun a => !((l.drop k).map (·.1)).contains a.1)
      = (l.take k ++ l.drop k).filter (fun a => !((l.drop k).map (·.1)).contains a.1) := by
        rw [List.take_append_drop]
    _ = l.take k := by rw [List.filter_append, h1, h2, List.append_nil]

/-! ### Live paths survive -/

theorem not_mem_mustPrune_of_live {paths : List Path} (hwf : WF paths) {p : Path} (hp : p ∈ paths)
    (hl : p.relay = true ∨ p.status = .open ∨ p.status = .unknown) : p.id ∉ mustPrune paths := by
  intro hc
  obtain ⟨q, hq, hid, hr, hs⟩ := mem_mustPrune hc
  have : q = p := hwf.eq_of_id_eq hq hp hid
  subst this
  rcases hl with hl | hl | hl
  · rw [hr] at hl; cases hl
  · rcases hs with hs | hs
    · rw [hl] at hs; cases hs
    · have := isInactive_status hs; rw [hl] at this; cases this
  · rcases hs with hs | hs
    · rw [hl] at hs; cases hs
    · have := isInactive_status hs; rw [hl] at this; cases this

/-! ### Inactive paths -/

/-- The inactive non-relay entries, in iteration order. -/
def allInactive (paths : List Path) : List Path := paths.filter fun p => !p.relay && p.isInactive

theorem mem_allInactive {paths : List Path} {p : Path} :
    p ∈ allInactive paths ↔ p ∈ paths ∧ p.relay = false ∧ p.isInactive = true := by
  simp [allInactive]

theorem inactiveOf_primaryOf (paths : List Path) :
    inactiveOf (primaryOf paths) = (allInactive paths).map fun p => (p.id, p.closedAt) := by
  simp [inactiveOf, primaryOf, allInactive, List.filter_filter, Bool.and_comm]

theorem sorted_ids_nodup {paths : List Path} (hwf : WF paths) :
    ((sortRecentFirst (inactiveOf (primaryOf paths))).map (·.1)).Nodup := by
  have hperm := (sortRecentFirst_perm (inactiveOf (primaryOf paths))).map (·.1)
  rw [hperm.nodup_iff, inactiveOf_primaryOf, List.map_map]
  have hsub : ((allInactive paths).map ((·.1) ∘ fun p => (p.id, p.closedAt))).Sublist
      (paths.map (·.id)) := by
    have : ((·.1) ∘ fun (p : Path) => (p.id, p.closedAt)) = (·.id) := rfl
    rw [this]
    exact (List.filter_sublist (l := paths)).map _
  exact hsub.nodup hwf

/-- An inactive path's id is never in the failed list. -/
theorem inactive_not_failed {paths : List Path} (hwf : WF paths) {p : Path} (hp : p ∈ paths)
    (hin : p.isInactive = true) : p.id ∉ failedKeptOf paths := by
  intro hc
  obtain ⟨q, hq, _, hs, hid⟩ := mem_failedKeptOf hc
  have : q = p := hwf.eq_of_id_eq hq hp hid
  subst this
  have := isInactive_status hin
  rw [hs] at this; cases this

/-- A removed inactive non-relay path is one of the `old_inactive`. -/
theorem inactive_removed_iff {paths : List Path} (hwf : WF paths) {p : Path}
    (hp : p ∈ paths) (hr : p.relay = false) (hin : p.isInactive = true) :
    p.id ∈ mustPrune paths ↔ (p.id, p.closedAt) ∈ oldOf paths := by
  rw [mustPrune_eq, List.mem_append]
  constructor
  · rintro (h | h)
    · exact absurd h (inactive_not_failed hwf hp hin)
    · rw [List.mem_map] at h
      obtain ⟨a, ha, hai⟩ := h
      obtain ⟨q, hq, _, _, hqa⟩ := mem_oldOf ha
      have hid : q.id = p.id := by rw [← hai, ← hqa]
      have : q = p := hwf.eq_of_id_eq hq hp hid
      subst this
      rw [hqa]; exact ha
  · intro h
    exact Or.inr (List.mem_map.mpr ⟨_, h, rfl⟩)

/-- The surviving inactive non-relay entries. -/
def keptInactive (paths : List Path) : List Path :=
  (prune paths).filter fun p => !p.relay && p.isInactive

theorem keptInactive_length {paths : List Path} (hwf : WF paths)
    (hge : maxNonRelay ≤ (primaryOf paths).length) :
    (keptInactive paths).length = (allInactive paths).length - maxInactive := by
  let sorted := sortRecentFirst (inactiveOf (primaryOf paths))
  let k := sorted.length - maxInactive
  let oldIds := (oldOf paths).map (·.1)
  -- step 2: the surviving inactive entries are the inactive entries not among the old ids
  have h2 : keptInactive paths = (allInactive paths).filter fun p => !oldIds.contains p.id := by
    unfold keptInactive allInactive
    rw [prune_of_ge hge, List.filter_filter, List.filter_filter]
    apply List.filter_congr
    intro p hp
    by_cases hc : (!p.relay && p.isInactive) = true
    · simp only [Bool.and_eq_true, Bool.not_eq_true'] at hc
      have hiff := inactive_removed_iff hwf hp hc.1 hc.2
      have hold : (p.id, p.closedAt) ∈ oldOf paths ↔ p.id ∈ oldIds := by
        constructor
        · intro h; exact List.mem_map.mpr ⟨_, h, rfl⟩
        · intro h
          have : p.id ∈ mustPrune paths := by
            rw [mustPrune_eq]; exact List.mem_append_right _ h
          exact hiff.mp this
      simp [hc.1, hc.2]
      exact hiff.trans hold
    · have : (!p.relay && p.isInactive) = false := by simpa using hc
      simp [this]
  -- step 3/4: count on the sorted pair list
  have h3 : ((allInactive paths).filter fun p => !oldIds.contains p.id).length
      = (sorted.filter fun a => !oldIds.contains a.1).length := by
    have hperm : sorted.Perm (inactiveOf (primaryOf paths)) := sortRecentFirst_perm _
    rw [inactiveOf_primaryOf] at hperm
    rw [(hperm.filter _).length_eq, List.filter_map, List.length_map]
    rfl
  -- step 5: that filter is the kept prefix
  have h5 : (sorted.filter fun a => !oldIds.contains a.1) = sorted.take k :=
    filter_not_mem_drop_fst sorted (sorted_ids_nodup hwf) k
  have hlen : sorted.length = (allInactive paths).length := by
    show (sortRecentFirst (inactiveOf (primaryOf paths))).length = _
    rw [sortRecentFirst_length, inactiveOf_primaryOf, List.length_map]
  rw [h2, h3, h5, List.length_take]
  show min (sorted.length - maxInactive) sorted.length = _
  rw [hlen]; omega

/-- Every removed inactive path was closed no later than every surviving inactive path. -/
theorem removed_older {paths : List Path} (hwf : WF paths)
    (hge : maxNonRelay ≤ (primaryOf paths).length) {p q : Path}
    (hp : p ∈ allInactive paths) (hpr : p ∉ prune paths) (hq : q ∈ keptInactive paths) :
    p.closedAt ≤ q.closedAt := by
  obtain ⟨hp1, hp2, hp3⟩ := mem_allInactive.mp hp
  have hpm : p.id ∈ mustPrune paths := by
    by_cases hc : p.id ∈ mustPrune paths
    · exact hc
    · exact absurd ((mem_prune_of_ge hge).mpr ⟨hp1, hc⟩) hpr
  have hpold := (inactive_removed_iff hwf hp1 hp2 hp3).mp hpm
  unfold keptInactive at hq
  rw [List.mem_filter] at hq
  obtain ⟨hq1, hq2⟩ := hq
  simp only [Bool.and_eq_true, Bool.not_eq_true'] at hq2
  obtain ⟨hq3, hq4⟩ := (mem_prune_of_ge hge).mp hq1
  have hqnot : (q.id, q.closedAt) ∉ oldOf paths := fun hc =>
    hq4 ((inactive_removed_iff hwf hq3 hq2.1 hq2.2).mpr hc)
  -- q's entry is in the sorted list, hence in the kept prefix
  have hqs : (q.id, q.closedAt) ∈ sortRecentFirst (inactiveOf (primaryOf paths)) := by
    rw [(sortRecentFirst_perm _).mem_iff]
    exact mem_inactiveOf.mpr ⟨q, mem_primaryOf.mpr ⟨hq3, hq2.1⟩, hq2.2, rfl⟩
  have hsorted := sortRecentFirst_sorted (inactiveOf (primaryOf paths))
  unfold oldOf at hpold hqnot
  dsimp only at hpold hqnot
  generalize sortRecentFirst (inactiveOf (primaryOf paths)) = sorted at *
  generalize sorted.length - maxInactive = k at *
  rw [← List.take_append_drop k sorted, List.mem_append] at hqs
  have hqa : (q.id, q.closedAt) ∈ sorted.take k := by
    rcases hqs with h | h
    · exact h
    · exact absurd h hqnot
  unfold RecentFirst at hsorted
  rw [← List.take_append_drop k sorted, List.pairwise_append] at hsorted
  exact hsorted.2.2 _ hqa _ hpold

/-! ### Everything failed -/

theorem prune_all_failed {paths : List Path} (hwf : WF paths)
    (hall : ∀ p ∈ paths, p.relay = false ∧ p.status = .unusable)
    (hge : maxNonRelay ≤ paths.length) :
    prune paths = paths.drop (paths.length - maxNonRelay) := by
  have hprim : primaryOf paths = paths := by
    unfold primaryOf
    rw [List.filter_eq_self]
    intro p hp; simp [(hall p hp).1]
  have hfail : failedOf paths = paths.map (·.id) := by
    unfold failedOf
    congr 1
    rw [List.filter_eq_self]
    intro p hp; exact (isUnusable_iff p).mpr (hall p hp).2
  have hin : inactiveOf paths = [] := by
    unfold inactiveOf
    rw [List.map_eq_nil_iff, List.filter_eq_nil_iff]
    intro p hp hc
    have := isInactive_status hc
    rw [(hall p hp).2] at this; cases this
  have hmust : mustPrune paths = (paths.map (·.id)).take (paths.length - maxNonRelay) := by
    rw [mustPrune_eq]
    unfold failedKeptOf oldOf
    simp [hprim, hfail, hin, sortRecentFirst]
  rw [prune_of_ge (by rw [hprim]; exact hge), hmust]
  exact filter_not_mem_take_ids paths hwf _

/-! ### When the result is empty -/

theorem not_live_cases {p : Path}
    (h : ¬ (p.relay = true ∨ p.status = .open ∨ p.status = .unknown)) :
    p.relay = false ∧ (p.status = .unusable ∨ p.isInactive = true) := by
  have hr : p.relay = false := by
    cases hr : p.relay
    · rfl
    · exact absurd (Or.inl hr) h
  refine ⟨hr, ?_⟩
  cases hs : p.status with
  | «open» => exact absurd (Or.inr (Or.inl hs)) h
  | unknown => exact absurd (Or.inr (Or.inr hs)) h
  | unusable => exact Or.inl rfl
  | inactive t => right; unfold Path.isInactive; rw [hs]

/-- All entries are pruned when every entry is a failed or inactive non-relay path and there
are between 1 and `MAX_INACTIVE_NON_RELAY_PATHS` inactive ones. -/
theorem prune_eq_nil_of {paths : List Path}
    (hge : maxNonRelay ≤ (primaryOf paths).length)
    (hall : ∀ p ∈ paths, p.relay = false ∧ (p.status = .unusable ∨ p.isInactive = true))
    (h1 : 1 ≤ (allInactive paths).length) (h2 : (allInactive paths).length ≤ maxInactive) :
    prune paths = [] := by
  rw [prune_of_ge hge, List.filter_eq_nil_iff]
  intro p hp
  simp only [Bool.not_eq_true', Bool.not_eq_false, List.contains_iff_mem]
  obtain ⟨hr, hs⟩ := hall p hp
  rw [mustPrune_eq, List.mem_append]
  rcases hs with hs | hs
  · left
    unfold failedKeptOf
    have hne : ¬ (failedOf (primaryOf paths)).length = paths.length := by
      rw [failed_all_iff]
      intro hc
      -- there is an inactive entry, which is not unusable
      have : allInactive paths ≠ [] := by
        intro h0; rw [h0] at h1; simp at h1
      obtain ⟨q, hq⟩ := List.exists_mem_of_ne_nil _ this
      obtain ⟨hq1, _, hq3⟩ := mem_allInactive.mp hq
      have := isInactive_status hq3
      rw [(hc q hq1).2] at this; cases this
    simp only [hne, if_false]
    exact mem_failedOf.mpr ⟨p, mem_primaryOf.mpr ⟨hp, hr⟩, (isUnusable_iff p).mpr hs, rfl⟩
  · right
    rw [List.mem_map]
    refine ⟨(p.id, p.closedAt), ?_, rfl⟩
    unfold oldOf
    dsimp only
    have hlen : (sortRecentFirst (inactiveOf (primaryOf paths))).length - maxInactive = 0 := by
      rw [sortRecentFirst_length, inactiveOf_primaryOf, List.length_map]; omega
    rw [hlen, List.drop_zero, (sortRecentFirst_perm _).mem_iff]
    exact mem_inactiveOf.mpr ⟨p, mem_primaryOf.mpr ⟨hp, hr⟩, hs, rfl⟩

end IrohModel.C23
