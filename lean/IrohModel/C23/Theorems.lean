/-
C23 — property theorems (only).  Statement of the property:
when a remote has at least 30 non-relay paths, pruning removes every path that
failed hole punching and all but the 10 most recently closed paths, and never
removes an open path, a path of unknown status, or a relay path.  If every path
has failed, exactly 30 are kept; pruning never empties a non-empty path set.

Two clauses are FALSE of the code (known findings `C23:inactive-keep-arith`,
`C23:empties-path-set`, one root cause: `split_off(len − 10)` keeps the
`len − 10` most recent inactive paths instead of the 10 most recent):
`counterexample` gives the witnesses, `code_spec` states what the code keeps,
`keeps_10_most_recent_partial` / `never_empties_partial` state exactly where the
two clauses do hold.  All other clauses are proved in full, for every path set.

Path sets are lists with pairwise distinct keys (`WF`), in any order.
-/
import IrohModel.C23.Lemmas

namespace IrohModel.C23

/-- Number of non-relay paths. -/
def nonRelayCount (paths : List Path) : Nat := (paths.filter fun p => !p.relay).length

/-- Open, of unknown status, or a relay path. -/
def Path.Live (p : Path) : Prop := p.relay = true ∨ p.status = .open ∨ p.status = .unknown

/-- A non-relay path that failed hole punching. -/
def Path.Failed (p : Path) : Prop := p.relay = false ∧ p.status = .unusable

/-- Every path has failed. -/
def AllFailed (paths : List Path) : Prop := ∀ p ∈ paths, p.Failed

/-- Number of inactive (once open, now closed) non-relay paths. -/
def inactiveCount (paths : List Path) : Nat := (allInactive paths).length

/-- Surviving inactive paths were all closed at least as recently as every removed one. -/
def KeptAreMostRecent (paths : List Path) : Prop :=
  ∀ p ∈ allInactive paths, p ∉ prune paths → ∀ q ∈ keptInactive paths, p.closedAt ≤ q.closedAt

/-- The property's clause: all but the 10 most recently closed paths are removed. -/
def KeepsTenMostRecent (paths : List Path) : Prop :=
  (keptInactive paths).length = min 10 (inactiveCount paths) ∧ KeptAreMostRecent paths

/-! ## Clauses that hold in full -/

/-- Below 30 non-relay paths nothing is pruned. -/
theorem below_threshold_unchanged (paths : List Path) (h : nonRelayCount paths < 30) :
    prune paths = paths :=
  prune_of_lt h

/-- Pruning only ever removes entries (and keeps the order). -/
theorem only_removes (paths : List Path) : (prune paths).Sublist paths :=
  prune_sublist paths

/-- **Never removes an open path, a path of unknown status, or a relay path** — for every
path set, of any size. -/
theorem never_removes_open_unknown_relay (paths : List Path) (hwf : WF paths)
    (p : Path) (hp : p ∈ paths) (hl : p.Live) : p ∈ prune paths := by
  by_cases hge : maxNonRelay ≤ (primaryOf paths).length
  · exact (mem_prune_of_ge hge).mpr ⟨hp, not_mem_mustPrune_of_live hwf hp hl⟩
  · rw [prune_of_lt (by omega)]; exact hp

/-- **Removes every path that failed hole punching** (unless every path has failed). -/
theorem removes_all_failed (paths : List Path) (hge : 30 ≤ nonRelayCount paths)
    (hna : ¬ AllFailed paths) : ∀ p ∈ prune paths, ¬ p.Failed := by
  intro p hp hf
  have hge' : maxNonRelay ≤ (primaryOf paths).length := hge
  obtain ⟨hp1, hp2⟩ := (mem_prune_of_ge hge').mp hp
  apply hp2
  rw [mustPrune_eq]
  apply List.mem_append_left
  unfold failedKeptOf
  have hne : ¬ (failedOf (primaryOf paths)).length = paths.length := by
    rw [failed_all_iff]; exact hna
  simp only [hne, if_false]
  exact mem_failedOf.mpr ⟨p, mem_primaryOf.mpr ⟨hp1, hf.1⟩, (isUnusable_iff p).mpr hf.2, rfl⟩

/-- **If every path has failed, exactly 30 are kept** (the last 30 in the map's iteration
order). -/
theorem all_failed_keeps_30 (paths : List Path) (hwf : WF paths) (hall : AllFailed paths)
    (hge : 30 ≤ paths.length) :
    (prune paths).length = 30 ∧ prune paths = paths.drop (paths.length - 30) := by
  have h := prune_all_failed hwf hall (show maxNonRelay ≤ paths.length from hge)
  refine ⟨?_, h⟩
  rw [h, List.length_drop]
  show paths.length - (paths.length - 30) = 30
  omega

/-! ## The inactive clause: what the code does, the witness, and where the clause holds -/

/-- **What the code keeps** of the inactive paths when pruning applies: the
`inactiveCount − 10` most recently closed ones (none if there are at most 10). -/
theorem code_spec (paths : List Path) (hwf : WF paths) (hge : 30 ≤ nonRelayCount paths) :
    (keptInactive paths).length = inactiveCount paths - 10 ∧ KeptAreMostRecent paths := by
  have hge' : maxNonRelay ≤ (primaryOf paths).length := hge
  exact ⟨keptInactive_length hwf hge', fun p hp hpr q hq => removed_older hwf hge' hp hpr hq⟩

/-- 15 paths of unknown status and 15 inactive paths closed at times 1..15. -/
def witnessKeep : List Path :=
  (List.range 15).map (fun i => ⟨i, false, .unknown⟩) ++
  (List.range 15).map (fun i => ⟨15 + i, false, .inactive (i + 1)⟩)

/-- 29 failed paths and one inactive path. -/
def witnessEmpty : List Path :=
  (List.range 29).map (fun i => ⟨i, false, .unusable⟩) ++ [⟨29, false, .inactive 1⟩]

/-- **Witnesses of the recorded findings**: a path set where 5 instead of 10 inactive paths
survive, and a non-empty path set that pruning empties. -/
theorem counterexample :
    (WF witnessKeep ∧ 30 ≤ nonRelayCount witnessKeep ∧ inactiveCount witnessKeep = 15 ∧
      (keptInactive witnessKeep).length = 5 ∧ ¬ KeepsTenMostRecent witnessKeep) ∧
    (WF witnessEmpty ∧ witnessEmpty ≠ [] ∧ prune witnessEmpty = []) := by
  have hwf : WF witnessKeep := by unfold WF; decide
  have hge : 30 ≤ nonRelayCount witnessKeep := by decide
  have hn : inactiveCount witnessKeep = 15 := by decide
  have hk : (keptInactive witnessKeep).length = 5 := by
    rw [(code_spec witnessKeep hwf hge).1, hn]
  refine ⟨⟨hwf, hge, hn, hk, ?_⟩, ?_, ?_, ?_⟩
  · intro h; rw [h.1, hn] at hk; revert hk; decide
  · unfold WF; decide
  · decide
  · apply prune_eq_nil_of (paths := witnessEmpty)
    · decide
    · decide
    · decide
    · decide

/-- **The clause holds exactly when there are 0 or 20 inactive paths** (20 is the repo's own
unit test `test_prune_keeps_most_recent_inactive`). -/
theorem keeps_10_most_recent_partial (paths : List Path) (hwf : WF paths)
    (hge : 30 ≤ nonRelayCount paths) :
    KeepsTenMostRecent paths ↔ inactiveCount paths = 0 ∨ inactiveCount paths = 20 := by
  have ⟨h1, h2⟩ := code_spec paths hwf hge
  unfold KeepsTenMostRecent
  rw [h1]
  constructor
  · rintro ⟨h, _⟩; omega
  · intro h; exact ⟨by omega, h2⟩

/-- **Exactly when pruning empties a non-empty path set**: every path is a failed or inactive
non-relay path, pruning applies, and there are between 1 and 10 inactive paths. -/
theorem empties_iff (paths : List Path) (hwf : WF paths) (hne : paths ≠ []) :
    prune paths = [] ↔
      30 ≤ nonRelayCount paths ∧ (∀ p ∈ paths, ¬ p.Live) ∧
      1 ≤ inactiveCount paths ∧ inactiveCount paths ≤ 10 := by
  constructor
  · intro hnil
    have hnl : ∀ p ∈ paths, ¬ p.Live := by
      intro p hp hl
      have := never_removes_open_unknown_relay paths hwf p hp hl
      rw [hnil] at this; cases this
    have hge : 30 ≤ nonRelayCount paths := by
      by_cases hc : nonRelayCount paths < 30
      · rw [below_threshold_unchanged paths hc] at hnil; exact absurd hnil hne
      · omega
    have ⟨hk, _⟩ := code_spec paths hwf hge
    have hk0 : (keptInactive paths).length = 0 := by
      unfold keptInactive; rw [hnil]; rfl
    refine ⟨hge, hnl, ?_, by omega⟩
    -- no inactive path at all would mean every path failed, and then 30 survive
    apply Nat.pos_of_ne_zero
    intro h0
    have hall : AllFailed paths := by
      intro p hp
      obtain ⟨hr, hs⟩ := not_live_cases (hnl p hp)
      refine ⟨hr, ?_⟩
      rcases hs with hs | hs
      · exact hs
      · have : p ∈ allInactive paths := mem_allInactive.mpr ⟨hp, hr, hs⟩
        unfold inactiveCount at h0
        rw [List.length_eq_zero_iff] at h0
        rw [h0] at this; cases this
    have hlen : 30 ≤ paths.length := by
      have := primaryOf_length_le paths
      unfold nonRelayCount at hge; unfold primaryOf at this; omega
    have := (all_failed_keeps_30 paths hwf hall hlen).1
    rw [hnil] at this; cases this
  · rintro ⟨hge, hnl, h1, h2⟩
    exact prune_eq_nil_of (show maxNonRelay ≤ (primaryOf paths).length from hge)
      (fun p hp => not_live_cases (hnl p hp)) h1 h2

/-- **Never empties a non-empty path set outside the finding class**: with a live path, no
inactive path, more than 10 inactive paths, or below the threshold, something survives. -/
theorem never_empties_partial (paths : List Path) (hwf : WF paths) (hne : paths ≠ [])
    (h : (∃ p ∈ paths, p.Live) ∨ inactiveCount paths = 0 ∨ 10 < inactiveCount paths ∨
         nonRelayCount paths < 30) :
    prune paths ≠ [] := by
  intro hnil
  obtain ⟨h1, h2, h3, h4⟩ := (empties_iff paths hwf hne).mp hnil
  rcases h with ⟨p, hp, hl⟩ | h | h | h
  · exact h2 p hp hl
  · omega
  · omega
  · omega

-- Non-vacuity of the hypotheses used above.
/-- A well-formed set at the threshold with live, failed and 20 inactive paths: every clause
applies and the inactive clause holds (the repo's unit-test shape). -/
def sampleOk : List Path :=
  [⟨100, true, .open⟩, ⟨101, false, .open⟩] ++
  (List.range 9).map (fun i => ⟨i, false, .unusable⟩) ++
  (List.range 20).map (fun i => ⟨20 + i, false, .inactive (i + 1)⟩)

example : WF sampleOk := by unfold WF; decide
example : 30 ≤ nonRelayCount sampleOk := by decide
example : ¬ AllFailed sampleOk := by
  intro h; have := h ⟨100, true, .open⟩ (by decide); exact absurd this.1 (by decide)
example : KeepsTenMostRecent sampleOk :=
  (keeps_10_most_recent_partial sampleOk (by unfold WF; decide) (by decide)).mpr (Or.inr (by decide))
example : (prune sampleOk).length = 12 := by decide
example : AllFailed ((List.range 31).map fun i => (⟨i, false, .unusable⟩ : Path)) := by
  intro p hp
  rw [List.mem_map] at hp
  obtain ⟨i, _, rfl⟩ := hp
  exact ⟨rfl, rfl⟩
example : (⟨1, false, .unknown⟩ : Path).Live := Or.inr (Or.inr rfl)

end IrohModel.C23
