/-
C26 (caller) — `RelayActor`'s handling of a home-relay change on top of the `HomeRelayWatch` LTS
(iroh/src/socket/transports/relay/actor.rs).

```rust
async fn on_network_change(&mut self, report: Report) {          -- RelayActorMessage::NetworkChange
    let prev = self.config.my_relay.get();                        -- step `handle r` (r = report.preferred_relay)
    if report.preferred_relay.as_ref() == prev.url { return; }    --   (no change)
    if let Some(relay_url) = report.preferred_relay {
        self.config.my_relay.set(relay_url.clone(), Connecting);  -- ALWAYS: steps `raAcquire`, `raFinish`
        self.set_home_relay(relay_url).await;                     --   (the watch LTS's `choose (some url)` by thread 0)
    } else {
        self.config.my_relay.clear();                             -- `choose none`
    }
}
async fn set_home_relay(&mut self, home_url: RelayUrl) {
    join_all(active_relays.iter().map(|(url, h)| h.inbox.send(SetHomeRelay(url == home_url)))).await;  -- steps `notify`
    self.active_relay_handle(home_url);                           -- step `ensure`: start the actor if there is none
}
```
`RelayActor::run` is one task: it handles one message at a time (`handle … ensure` is one handler
run), a datagram for a relay without connection starts an `ActiveRelayActor` (`traffic v`) only
between two messages, actors that ended are reaped there too (`actorExit v`).  Every
`ActiveRelayActor` (thread `v + 1` of the watch LTS, for relay `v`) calls `set_status(&v, st)` for
connection events and when told `SetHomeRelay(true)` while connected — over-approximated: it may call
`set_status(&v, st)` with any `st` at any time, whether it is home, demoted, or already gone
(`actorCall`, `actorStep`).

Which actors exist when a relay becomes home matters only for `notify`/`ensure` — unless the code
skipped `set` for a relay that already has an actor ("it republishes on SetHomeRelay(true)"): that
actor can only write through `set_status`, whose url guard rejects it because the url was never
set.  `sa : Bool` ("set always") is re-read from the source (`Generated.C26.setAlways`);
`sa = false` is that variant, on which the counterexample is proved.

`handled` (ghost) is the preferred relay of the last completely handled `NetworkChange`.
-/
import IrohModel.C26.Model

namespace IrohModel.C26

/-- Program counter of the `RelayActor` task. -/
inductive RaPC where
  /-- between two messages -/
  | idle
  /-- `on_network_change`: inside `my_relay.set(url, Connecting)` / `clear()` -/
  | setting (r : Option Url)
  /-- `set_home_relay`: actors still to be told `SetHomeRelay(url == u)` -/
  | notifying (u : Url) (todo : List Url)
deriving DecidableEq, Repr

inductive Sub where
  | acquire | read | finish
deriving DecidableEq, Repr

def Sub.label (k : Sub) (t : Nat) : Label :=
  match k with
  | .acquire => .acquire t
  | .read => .read t
  | .finish => .finish t

structure CState where
  base : State
  ra : RaPC
  /-- preferred relay of the last completely handled `NetworkChange` -/
  handled : Option Url
  /-- relays that have an `ActiveRelayActor` in `active_relays` -/
  actors : List Url

def cinit : CState := ⟨init, .idle, none, []⟩

inductive CLabel where
  | handle (r : Option Url)
  | raAcquire
  | raFinish
  | notify
  | ensure
  | traffic (v : Url)
  | actorExit (v : Url)
  | actorCall (v : Url) (st : St)
  | actorStep (v : Url) (k : Sub)
deriving DecidableEq, Repr

def addActor (as : List Url) (v : Url) : List Url := if v ∈ as then as else v :: as

/-- One step of the composed system.  `sa`: `on_network_change` sets the url for every new home;
`lk`: the watch's writers take its lock. -/
def cstep (sa lk : Bool) (s : CState) : CLabel → Option CState
  | .handle r =>
    match s.ra with
    | .idle =>
      if s.base.watch.map Prod.fst = r then some { s with handled := r }
      else
        let skip := match r with
          | some u => !sa && decide (u ∈ s.actors)
          | none => false
        match r, skip with
        | some u, true => some { s with ra := .notifying u s.actors }
        | _, _ => (step lk s.base (.call 0 (.choose r))).map fun b => { s with base := b, ra := .setting r }
    | _ => none
  | .raAcquire =>
    match s.ra with
    | .setting _ => (step lk s.base (.acquire 0)).map fun b => { s with base := b }
    | _ => none
  | .raFinish =>
    match s.ra with
    | .setting r =>
      (step lk s.base (.finish 0)).map fun b =>
        match r with
        | some u => { s with base := b, ra := .notifying u s.actors }
        | none => { s with base := b, ra := .idle, handled := none }
    | _ => none
  | .notify =>
    match s.ra with
    | .notifying u (_ :: rest) => some { s with ra := .notifying u rest }
    | _ => none
  | .ensure =>
    match s.ra with
    | .notifying u [] => some { s with ra := .idle, handled := some u, actors := addActor s.actors u }
    | _ => none
  | .traffic v =>
    match s.ra with
    | .idle => some { s with actors := addActor s.actors v }
    | _ => none
  | .actorExit v =>
    match s.ra with
    | .idle => if v ∈ s.actors then some { s with actors := s.actors.filter (· ≠ v) } else none
    | _ => none
  | .actorCall v st => (step lk s.base (.call (v + 1) (.status v st))).map fun b => { s with base := b }
  | .actorStep v k => (step lk s.base (k.label (v + 1))).map fun b => { s with base := b }

inductive CReachable (sa lk : Bool) : CState → Prop where
  | init : CReachable sa lk cinit
  | step {s s' : CState} (l : CLabel) : CReachable sa lk s → cstep sa lk s l = some s' → CReachable sa lk s'

/-- What the code does now (re-read from the source). -/
def codeSa : Bool := Generated.C26.setAlways

/-! ### Sequential replay used by the correspondence driver

The harness drives the real `RelayActor` with one message at a time and waits until it has been
handled; the home relay's actor then reports `Connected` (the test relays are up). -/

inductive GlueOp where
  | home (r : Option Url)
  | traffic (v : Url)

def runLabelsC (sa lk : Bool) (s : CState) : List CLabel → Option CState
  | [] => some s
  | l :: ls => (cstep sa lk s l).bind (runLabelsC sa lk · ls)

/-- Runs `notify` until the todo list is empty, then `ensure`. -/
def finishHandler (sa lk : Bool) : Nat → CState → Option CState
  | 0, s => some s
  | fuel + 1, s =>
    match s.ra with
    | .notifying _ (_ :: _) => (cstep sa lk s .notify).bind (finishHandler sa lk fuel)
    | .notifying _ [] => cstep sa lk s .ensure
    | .setting _ => (runLabelsC sa lk s [.raAcquire, .raFinish]).bind (finishHandler sa lk fuel)
    | .idle => some s

/-- The home relay's actor publishes `Connected` once it is told / connects. -/
def homeConnects (sa lk : Bool) (s : CState) : Option CState :=
  match s.handled with
  | some u =>
    if s.base.watch.map Prod.fst = some u then
      runLabelsC sa lk s [.actorCall u 1, .actorStep u .acquire, .actorStep u .read, .actorStep u .finish]
    else some s
  | none => some s

def glueStep (sa lk : Bool) (s : CState) : GlueOp → Option CState
  | .home r => ((cstep sa lk s (.handle r)).bind (finishHandler sa lk (s.actors.length + 4))).bind (homeConnects sa lk)
  | .traffic v => cstep sa lk s (.traffic v)

def renderGlueWatch : Option (Url × St) → String
  | none => "n"
  | some (u, st) => if st = 1 then s!"{u}C" else s!"{u}-"

def runGlue (sa lk : Bool) : CState → List GlueOp → List String
  | _, [] => []
  | s, op :: rest =>
    match glueStep sa lk s op with
    | none => ["impossible"]
    | some s' => renderGlueWatch s'.base.watch :: runGlue sa lk s' rest

end IrohModel.C26
