/-
C26 (caller) — invariant of the composed `RelayActor` + `HomeRelayWatch` system (`sa = lk = true`).
-/
import IrohModel.C26.Caller
import IrohModel.C26.Lemmas

namespace IrohModel.C26

def Label.thread : Label → Nat
  | .call t _ => t | .acquire t => t | .read t => t | .finish t => t

/-- The thread is inside a `set`/`clear` call. -/
def isChoosePc (p : PC) : Prop := ∃ r, p = .wanting (.choose r) ∨ p = .holding (.choose r)

theorem not_isChoose_idle : ¬ isChoosePc .idle := by rintro ⟨r, h | h⟩ <;> cases h
theorem not_isChoose_matched (u st) : ¬ isChoosePc (.matched u st) := by rintro ⟨r, h | h⟩ <;> cases h
theorem not_isChoose_wanting_status (u st) : ¬ isChoosePc (.wanting (.status u st)) := by
  rintro ⟨r, h | h⟩ <;> cases h
theorem not_isChoose_holding_status (u st) : ¬ isChoosePc (.holding (.status u st)) := by
  rintro ⟨r, h | h⟩ <;> cases h

/-- A step only changes the pc of its own thread. -/
theorem step_other_pcs {lk : Bool} {b b' : State} {l : Label} (h : step lk b l = some b')
    (x : Nat) (hx : x ≠ l.thread) : b'.pcs x = b.pcs x := by
  rcases step_cases h with
    ⟨t, c, rfl, -, rfl⟩ | ⟨t, c, rfl, -, -, -, rfl⟩ | ⟨t, c, rfl, -, -, rfl⟩ |
    ⟨t, u, st, rfl, -, -, rfl⟩ | ⟨t, u, st, rfl, -, -, rfl⟩ | ⟨t, r, rfl, -, rfl⟩ |
    ⟨t, u, st, rfl, -, rfl⟩ <;> exact setPc_other _ _ hx

/-- A step of a thread that is not inside `set`/`clear` (and does not enter one) leaves the latest
choice alone and keeps the thread outside `set`/`clear`. -/
theorem step_non_choose {lk : Bool} {b b' : State} {l : Label} (h : step lk b l = some b')
    (hpc : ¬ isChoosePc (b.pcs l.thread)) (hcall : ∀ t r, l ≠ .call t (.choose r)) :
    ¬ isChoosePc (b'.pcs l.thread) ∧ lastChoice b'.log = lastChoice b.log := by
  rcases step_cases h with
    ⟨t, c, rfl, hp, rfl⟩ | ⟨t, c, rfl, hp, -, -, rfl⟩ | ⟨t, c, rfl, hp, -, rfl⟩ |
    ⟨t, u, st, rfl, hp, -, rfl⟩ | ⟨t, u, st, rfl, hp, -, rfl⟩ | ⟨t, r, rfl, hp, rfl⟩ |
    ⟨t, u, st, rfl, hp, rfl⟩
  · cases c with
    | choose r => exact absurd rfl (hcall t r)
    | status u st => exact ⟨by simpa [Label.thread] using not_isChoose_wanting_status u st, rfl⟩
  · cases c with
    | choose r => exact absurd ⟨r, Or.inl hp⟩ hpc
    | status u st => exact ⟨by simpa [Label.thread] using not_isChoose_holding_status u st, rfl⟩
  · cases c with
    | choose r => exact absurd ⟨r, Or.inl hp⟩ hpc
    | status u st => exact ⟨by simpa [Label.thread] using not_isChoose_holding_status u st, rfl⟩
  · exact ⟨by simpa [Label.thread] using not_isChoose_matched u st, rfl⟩
  · exact ⟨by simpa [Label.thread] using not_isChoose_idle, rfl⟩
  · exact absurd ⟨r, Or.inr hp⟩ hpc
  · exact ⟨by simpa [Label.thread] using not_isChoose_idle, rfl⟩

/-- The invariant of the composed system. -/
structure CInv (s : CState) : Prop where
  base_inv : Inv s.base
  ra_pc : match s.ra with
    | .setting r => s.base.pcs 0 = .wanting (.choose r) ∨ s.base.pcs 0 = .holding (.choose r)
    | _ => s.base.pcs 0 = .idle
  only_ra_chooses : ∀ t, t ≠ 0 → ¬ isChoosePc (s.base.pcs t)
  choice : match s.ra with
    | .idle => lastChoice s.base.log = s.handled
    | .notifying u _ => lastChoice s.base.log = some u
    | .setting _ => True

theorem cinv_init : CInv cinit := by
  refine ⟨inv_init, rfl, fun t _ => ?_, rfl⟩
  exact not_isChoose_idle

/-- Steps of an `ActiveRelayActor` thread (`v + 1`). -/
theorem cinv_actor_step {s : CState} (hs : CInv s) {l : Label} {b : State} (hl : l.thread ≠ 0)
    (hcall : ∀ t r, l ≠ .call t (.choose r)) (h : step true s.base l = some b) :
    CInv { s with base := b } := by
  have hnc := step_non_choose h (hs.only_ra_chooses _ hl) hcall
  have h0 : b.pcs 0 = s.base.pcs 0 := step_other_pcs h 0 (Ne.symm hl)
  refine ⟨inv_step hs.base_inv h, ?_, ?_, ?_⟩
  · have := hs.ra_pc
    simp only [] at this ⊢
    rw [h0]; exact this
  · intro t ht
    by_cases htl : t = l.thread
    · subst htl; exact hnc.1
    · rw [step_other_pcs h t htl]; exact hs.only_ra_chooses t ht
  · have := hs.choice
    simp only [] at this ⊢
    rw [hnc.2]; exact this

theorem cinv_step {s s' : CState} {l : CLabel} (hs : CInv s) (h : cstep true true s l = some s') :
    CInv s' := by
  cases l with
  | handle r =>
    simp only [cstep] at h
    split at h
    · rename_i hra
      split at h
      · rename_i hsame
        simp only [Option.some.injEq] at h; subst h
        refine ⟨hs.base_inv, ?_, hs.only_ra_chooses, ?_⟩
        · have := hs.ra_pc; simp only [hra] at this ⊢; exact this
        · simp only [hra]
          rw [← hs.base_inv.url_latest]; exact hsame
      · have hcall : (step true s.base (.call 0 (.choose r))).map
            (fun b => ({ s with base := b, ra := .setting r } : CState)) = some s' := by
          cases r with
          | none => simpa using h
          | some u => simpa using h
        cases hb : step true s.base (.call 0 (.choose r)) with
        | none => simp [hb] at hcall
        | some b =>
          simp only [hb, Option.map_some, Option.some.injEq] at hcall; subst hcall
          rcases step_cases hb with
            ⟨t, c, hl, hp, rfl⟩ | ⟨t, c, hl, -, -, -, -⟩ | ⟨t, c, hl, -, -, -⟩ |
            ⟨t, u, st, hl, -, -, -⟩ | ⟨t, u, st, hl, -, -, -⟩ | ⟨t, r', hl, -, -⟩ |
            ⟨t, u, st, hl, -, -⟩ <;> try (cases hl; done)
          cases hl
          refine ⟨inv_step hs.base_inv hb, Or.inl (by simp), ?_, trivial⟩
          intro t ht
          simp only [setPc_other _ _ ht]
          exact hs.only_ra_chooses t ht
    · simp at h
  | raAcquire =>
    simp only [cstep] at h
    split at h
    · rename_i r hra
      cases hb : step true s.base (.acquire 0) with
      | none => simp [hb] at h
      | some b =>
        simp only [hb, Option.map_some, Option.some.injEq] at h; subst h
        have hpc := hs.ra_pc; simp only [hra] at hpc
        rcases step_cases hb with
          ⟨t, c, hl, -, -⟩ | ⟨t, c, hl, hp, -, -, rfl⟩ | ⟨t, c, hl, -, hlk, -⟩ |
          ⟨t, u, st, hl, -, -, -⟩ | ⟨t, u, st, hl, -, -, -⟩ | ⟨t, r', hl, -, -⟩ |
          ⟨t, u, st, hl, -, -⟩ <;> try (cases hl; done)
        · cases hl
          have hc : c = .choose r := by
            rcases hpc with h' | h' <;> rw [hp] at h' <;> cases h' <;> rfl
          subst hc
          refine ⟨inv_step hs.base_inv hb, ?_, ?_, ?_⟩
          · simp only [hra]; exact Or.inr (by simp)
          · intro t ht; simp only [setPc_other _ _ ht]; exact hs.only_ra_chooses t ht
          · simp only [hra]
        · cases hlk
    · simp at h
  | raFinish =>
    simp only [cstep] at h
    split at h
    · rename_i r hra
      cases hb : step true s.base (.finish 0) with
      | none => simp [hb] at h
      | some b =>
        simp only [hb, Option.map_some, Option.some.injEq] at h
        have hpc := hs.ra_pc; simp only [hra] at hpc
        rcases step_cases hb with
          ⟨t, c, hl, -, -⟩ | ⟨t, c, hl, -, -, -, -⟩ | ⟨t, c, hl, -, -, -⟩ |
          ⟨t, u, st, hl, -, -, -⟩ | ⟨t, u, st, hl, -, -, -⟩ | ⟨t, r', hl, hp, hb'⟩ |
          ⟨t, u, st, hl, hp, -⟩ <;> try (cases hl; done)
        · cases hl
          have hr : r' = r := by
            rcases hpc with h' | h' <;> rw [hp] at h' <;> cases h' <;> rfl
          subst hr
          have hpcs : ∀ t, t ≠ 0 → ¬ isChoosePc (b.pcs t) := by
            intro t ht; rw [hb']; simp only [setPc_other _ _ ht]; exact hs.only_ra_chooses t ht
          have h0 : b.pcs 0 = .idle := by rw [hb']; simp
          have hlc : lastChoice b.log = r' := by rw [hb']; rfl
          cases r' with
          | none =>
            subst h
            exact ⟨inv_step hs.base_inv hb, h0, hpcs, hlc⟩
          | some u =>
            subst h
            exact ⟨inv_step hs.base_inv hb, h0, hpcs, hlc⟩
        · cases hl
          rcases hpc with h' | h' <;> rw [hp] at h' <;> cases h'
    · simp at h
  | notify =>
    simp only [cstep] at h
    split at h
    · rename_i u a rest hra
      simp only [Option.some.injEq] at h; subst h
      refine ⟨hs.base_inv, ?_, hs.only_ra_chooses, ?_⟩
      · have := hs.ra_pc; simp only [hra] at this ⊢; exact this
      · have := hs.choice; simp only [hra] at this ⊢; exact this
    · simp at h
  | ensure =>
    simp only [cstep] at h
    split at h
    · rename_i u hra
      simp only [Option.some.injEq] at h; subst h
      refine ⟨hs.base_inv, ?_, hs.only_ra_chooses, ?_⟩
      · have := hs.ra_pc; simp only [hra] at this ⊢; exact this
      · have := hs.choice; simp only [hra] at this ⊢; exact this
    · simp at h
  | traffic v =>
    simp only [cstep] at h
    split at h
    · rename_i hra
      simp only [Option.some.injEq] at h; subst h
      refine ⟨hs.base_inv, ?_, hs.only_ra_chooses, ?_⟩
      · have := hs.ra_pc; simp only [hra] at this ⊢; exact this
      · have := hs.choice; simp only [hra] at this ⊢; exact this
    · simp at h
  | actorExit v =>
    simp only [cstep] at h
    split at h
    · rename_i hra
      split at h
      · simp only [Option.some.injEq] at h; subst h
        refine ⟨hs.base_inv, ?_, hs.only_ra_chooses, ?_⟩
        · have := hs.ra_pc; simp only [hra] at this ⊢; exact this
        · have := hs.choice; simp only [hra] at this ⊢; exact this
      · simp at h
    · simp at h
  | actorCall v st =>
    simp only [cstep] at h
    cases hb : step true s.base (.call (v + 1) (.status v st)) with
    | none => simp [hb] at h
    | some b =>
      simp only [hb, Option.map_some, Option.some.injEq] at h; subst h
      exact cinv_actor_step hs (by simp [Label.thread]) (by intro t r hc; cases hc) hb
  | actorStep v k =>
    simp only [cstep] at h
    cases hb : step true s.base (k.label (v + 1)) with
    | none => simp [hb] at h
    | some b =>
      simp only [hb, Option.map_some, Option.some.injEq] at h; subst h
      exact cinv_actor_step hs (by cases k <;> simp [Sub.label, Label.thread])
        (by intro t r hc; cases k <;> cases hc) hb

theorem cinv_of_reachable {s : CState} (h : CReachable true true s) : CInv s := by
  induction h with
  | init => exact cinv_init
  | step l _ hst ih => exact cinv_step ih hst

theorem creachable_of_runLabelsC {sa lk : Bool} {s s' : CState} (hs : CReachable sa lk s)
    (ls : List CLabel) (h : runLabelsC sa lk s ls = some s') : CReachable sa lk s' := by
  induction ls generalizing s with
  | nil => simp [runLabelsC] at h; exact h ▸ hs
  | cons l ls ih =>
    simp only [runLabelsC] at h
    cases hst : cstep sa lk s l with
    | none => simp [hst] at h
    | some s1 => rw [hst] at h; exact ih (CReachable.step l hs hst) h

end IrohModel.C26
