/-
C26 — property theorems (only).

Statement: the home relay an endpoint advertises (and whose connection state it reports) is always
the relay most recently chosen as home; a relay connection that has been demoted can never make its
url or status the advertised one again, whatever the interleaving of its status updates with the
choice of a new home relay.

The theorems quantify over every state `s` reachable in the LTS of `Model.lean` with the code's
current locking (`codeLk`, recomputed from the source on every run): any number of threads, any
sequence of `choose`/`status` calls per thread (any urls, any states), any interleaving of their
atomic steps.  `s.watch` is the advertised value, `s.chosen` the relay most recently chosen
(`lastChoice` of the log of writes), `s.history` the chronological list of writes.
-/
import IrohModel.C26.Lemmas
import IrohModel.C26.CallerLemmas

namespace IrohModel.C26

theorem codeLk_eq : codeLk = true := rfl

/-- In every reachable state the advertised url is the relay most recently chosen as home
(and nothing is advertised iff the latest choice was "no home relay"). -/
theorem advertised_is_latest_choice {s : State} (h : Reachable codeLk s) :
    s.watch.map Prod.fst = s.chosen :=
  (inv_of_reachable (codeLk_eq ▸ h)).url_latest

/-- The advertised `(url, state)` is exactly what the most recent write published: the state
`Connecting` set together with the latest choice, or the state of a later status write — which, by
`demoted_never_writes`, was made for the chosen relay. -/
theorem advertised_state_is_current {s : State} (h : Reachable codeLk s) :
    s.watch = advertisedOf s.history.reverse := by
  rw [State.history, List.reverse_reverse]
  exact (inv_of_reachable (codeLk_eq ▸ h)).cell

/-- A demoted connection never writes: whenever a thread's `set_status(&u, st)` changed the
advertised value, `u` was the relay most recently chosen at that moment (the last `chose` event
before the write is `chose (some u)`) — in every history, for any number of updaters. -/
theorem demoted_never_writes {s : State} (h : Reachable codeLk s)
    (l1 l2 : List Event) (t : Nat) (u : Url) (st : St)
    (hsplit : s.history = l1 ++ [.wrote t u st] ++ l2) : lastChoice l1.reverse = some u := by
  have hw := (inv_of_reachable (codeLk_eq ▸ h)).writes_ok
  have hlog : s.log = l2.reverse ++ .wrote t u st :: l1.reverse := by
    have := congrArg List.reverse hsplit
    simpa [State.history] using this
  exact hw.split _ _ t u st hlog

/-- At most one writer is between taking the lock and releasing it. -/
theorem writers_exclusive {s : State} (h : Reachable codeLk s) (t t' : Nat)
    (ht : (∃ c, s.pcs t = .holding c) ∨ (∃ u st, s.pcs t = .matched u st))
    (ht' : (∃ c, s.pcs t' = .holding c) ∨ (∃ u st, s.pcs t' = .matched u st)) : t = t' := by
  have hi := inv_of_reachable (codeLk_eq ▸ h)
  have h1 := hi.inside_holds t ht
  have h2 := hi.inside_holds t' ht'
  rw [h1] at h2; exact Option.some.inj h2

/-- No deadlock: whoever holds the writer lock has an enabled step (and every such step either
releases the lock or moves to the write that releases it). -/
theorem lock_holder_can_progress {s : State} (h : Reachable codeLk s) (t : Nat)
    (hl : s.lock = some t) :
    ∃ l s', (l = .read t ∨ l = .finish t) ∧ step codeLk s l = some s' ∧
      (s'.lock = none ∨ ∃ u st, s'.pcs t = .matched u st) := by
  have hi := inv_of_reachable (codeLk_eq ▸ h)
  rw [codeLk_eq]
  rcases hi.holder_inside t hl with ⟨c, hc⟩ | ⟨u, st, hm⟩
  · cases c with
    | choose r =>
      have hstep : step true s (.finish t) = some ⟨r.map (fun u => (u, connecting)), none,
          setPc s.pcs t .idle, .chose r :: s.log⟩ := by simp [step, hc]
      exact ⟨_, _, Or.inr rfl, hstep, Or.inl rfl⟩
    | status u st =>
      by_cases hm : s.watch.map Prod.fst = some u
      · have hstep : step true s (.read t) = some ⟨s.watch, s.lock, setPc s.pcs t (.matched u st),
            s.log⟩ := by simp only [step, hc, hm, if_true]
        exact ⟨_, _, Or.inl rfl, hstep, Or.inr ⟨u, st, by simp⟩⟩
      · have hstep : step true s (.read t) = some ⟨s.watch, none, setPc s.pcs t .idle, s.log⟩ := by
          simp only [step, hc, hm, if_false, if_true]
        exact ⟨_, _, Or.inl rfl, hstep, Or.inl rfl⟩
  · have hstep : step true s (.finish t) = some ⟨some (u, st), none, setPc s.pcs t .idle,
        .wrote t u st :: s.log⟩ := by simp [step, hm]
    exact ⟨_, _, Or.inr rfl, hstep, Or.inl rfl⟩

/-! ### The unrepaired code (defect D10, `lk = false`)

`set_status` without the writer lock is a get-then-set: the schedule
`actor: choose 0 · old: call, (acquire), read ✓ · actor: choose 1 · old: write`
re-publishes relay 0 although relay 1 is the latest choice.  Replayed on the real code before the
repair (see `known_findings.json`, fixed). -/

def toctouSchedule : List Label :=
  [.call 0 (.choose (some 0)), .acquire 0, .finish 0,
   .call 1 (.status 0 1), .acquire 1, .read 1,
   .call 0 (.choose (some 1)), .acquire 0, .finish 0,
   .finish 1]

/-- Without the lock the property fails: a reachable state advertises a demoted relay. -/
theorem C26_counterexample_unrepaired :
    ∃ s, Reachable false s ∧ s.watch = some (0, 1) ∧ s.chosen = some 1 ∧
      s.watch.map Prod.fst ≠ s.chosen := by
  cases hs : runLabels false init toctouSchedule with
  | none => exact absurd hs (by decide)
  | some s =>
    have hw : (runLabels false init toctouSchedule).map State.watch = some (some (0, 1)) := by decide
    have hc : (runLabels false init toctouSchedule).map State.chosen = some (some 1) := by decide
    rw [hs] at hw hc
    simp only [Option.map_some, Option.some.injEq] at hw hc
    exact ⟨s, reachable_of_runLabels .init _ hs, hw, hc, by rw [hw, hc]; decide⟩

/-- The same schedule is not executable with the lock: the actor's `acquire` is disabled while the
old connection's `set_status` is between its read and its write. -/
theorem toctou_schedule_blocked : runLabels codeLk init toctouSchedule = none ∧
    (runLabels codeLk init (toctouSchedule.take 7)).isSome ∧
    ((runLabels codeLk init (toctouSchedule.take 7)).bind (step codeLk · (.acquire 0))) = none := by
  decide

/-! ### Non-vacuity -/

/-- A reachable state (with the lock) that advertises a relay with a status written by its
connection, after an older connection's write was rejected. -/
def demoLabels : List Label :=
  [.call 0 (.choose (some 0)), .acquire 0, .finish 0,
   .call 1 (.status 0 1), .acquire 1, .read 1, .finish 1,
   .call 0 (.choose (some 1)), .acquire 0, .finish 0,
   .call 1 (.status 0 2), .acquire 1, .read 1,
   .call 2 (.status 1 1), .acquire 2, .read 2, .finish 2]

example : ∃ s, Reachable codeLk s ∧ s.watch = some (1, 1) ∧ s.chosen = some 1 ∧
    s.history = [.chose (some 0)] ++ [.wrote 1 0 1] ++ [.chose (some 1), .wrote 2 1 1] ∧
    lastChoice [Event.chose (some 0)].reverse = some 0 := by
  cases hs : runLabels codeLk init demoLabels with
  | none => exact absurd hs (by decide)
  | some s =>
    have hw : (runLabels codeLk init demoLabels).map State.watch = some (some (1, 1)) := by decide
    have hc : (runLabels codeLk init demoLabels).map State.chosen = some (some 1) := by decide
    have hh : (runLabels codeLk init demoLabels).map State.history =
        some [.chose (some 0), .wrote 1 0 1, .chose (some 1), .wrote 2 1 1] := by decide
    rw [hs] at hw hc hh
    simp only [Option.map_some, Option.some.injEq] at hw hc hh
    exact ⟨s, reachable_of_runLabels .init _ hs, hw, hc, by simpa using hh, by decide⟩

/-- Non-vacuity of `writers_exclusive` / `lock_holder_can_progress`: a reachable state in which
thread 1 holds the lock between its read and its write. -/
example : ((runLabels codeLk init (demoLabels.take 6)).map fun s => (s.lock, s.pcs 1)) =
    some (some 1, .matched 0 1) := by decide

/-! ## The caller: `RelayActor`'s home-relay change handling (`Caller.lean`)

Every state reachable in the composed system — the `RelayActor` task handling any sequence of
`NetworkChange` messages (any preferred relays), datagrams that start connections to any relays,
actors ending, and every `ActiveRelayActor` writing any status at any time, in any interleaving —
with the code's current handler (`codeSa`: `set` for every new home, re-read from the source). -/

theorem codeSa_eq : codeSa = true := rfl

/-- After every home-relay change the watch shows the newly chosen relay at once, whatever
`ActiveRelayActor`s already exist: from the moment `set_home_relay` starts telling the actors
(`notifying`) the advertised url is the new home, and whenever the `RelayActor` is between two
messages the advertised url is the preferred relay of the last `NetworkChange` it handled. -/
theorem published_follows_choice {s : CState} (h : CReachable codeSa codeLk s) :
    (s.ra = .idle → s.base.watch.map Prod.fst = s.handled) ∧
    (∀ u todo, s.ra = .notifying u todo → s.base.watch.map Prod.fst = some u) := by
  have hi := cinv_of_reachable (codeSa_eq ▸ codeLk_eq ▸ h)
  have hc := hi.choice
  constructor
  · intro hra
    rw [hra] at hc
    rw [hi.base_inv.url_latest]; exact hc
  · intro u todo hra
    rw [hra] at hc
    rw [hi.base_inv.url_latest]; exact hc

/-- … and the new home's status updates are accepted afterwards: a `set_status(&v, st)` of the actor
of the relay `v` that was handled last as home, having taken the lock, passes the url guard and
publishes `(v, st)`; `v` stays the advertised relay. -/
theorem home_status_accepted {s : CState} (h : CReachable codeSa codeLk s) (v : Url) (st : St)
    (hra : s.ra = .idle) (hh : s.handled = some v)
    (hpc : s.base.pcs (v + 1) = .holding (.status v st)) :
    ∃ s1 s2, cstep codeSa codeLk s (.actorStep v .read) = some s1 ∧
      cstep codeSa codeLk s1 (.actorStep v .finish) = some s2 ∧
      s2.base.watch = some (v, st) ∧ s2.ra = .idle ∧ s2.handled = some v := by
  have hurl : s.base.watch.map Prod.fst = some v := by
    rw [(published_follows_choice h).1 hra, hh]
  rw [codeSa_eq, codeLk_eq]
  refine ⟨{ s with base := { s.base with pcs := setPc s.base.pcs (v + 1) (.matched v st) } },
    { s with base := ⟨some (v, st), none, setPc (setPc s.base.pcs (v + 1) (.matched v st)) (v + 1) .idle,
        .wrote (v + 1) v st :: s.base.log⟩ }, ?_, ?_, rfl, hra, hh⟩
  · simp [cstep, Sub.label, step, hpc, hurl]
  · simp [cstep, Sub.label, step]

/-- The variant that skips `set` for a relay which already has an actor (`sa = false`) violates
the property: home 0; traffic opens a connection to relay 1; relay 1 is chosen as home — the watch
keeps advertising relay 0 after the change has been handled, and relay 1's status is rejected. -/
def glueSchedule : List CLabel :=
  [.handle (some 0), .raAcquire, .raFinish, .ensure,
   .traffic 1,
   .handle (some 1), .notify, .notify, .ensure,
   .actorCall 1 1, .actorStep 1 .acquire, .actorStep 1 .read]

theorem glue_counterexample_skip_set :
    ∃ s, CReachable false codeLk s ∧ s.ra = .idle ∧ s.handled = some 1 ∧
      s.base.watch.map Prod.fst = some 0 ∧ s.base.pcs 2 = .idle := by
  cases hs : runLabelsC false codeLk cinit glueSchedule with
  | none => exact absurd hs (by decide)
  | some s =>
    have hw : (runLabelsC false codeLk cinit glueSchedule).map
        (fun s => (s.ra, s.handled, s.base.watch.map Prod.fst, s.base.pcs 2)) =
        some (.idle, some 1, some 0, .idle) := by decide
    rw [hs] at hw
    simp only [Option.map_some, Option.some.injEq, Prod.mk.injEq] at hw
    exact ⟨s, creachable_of_runLabelsC .init _ hs, hw.1, hw.2.1, hw.2.2.1, hw.2.2.2⟩

/-- Non-vacuity: the same messages on the code as it is (an actor for relay 1 exists when it
becomes home): relay 1 is advertised and its actor's `Connected` is accepted. -/
def glueScheduleOk : List CLabel :=
  [.handle (some 0), .raAcquire, .raFinish, .ensure,
   .traffic 1,
   .handle (some 1), .raAcquire, .raFinish, .notify, .notify, .ensure,
   .actorCall 1 1, .actorStep 1 .acquire]

example : (runLabelsC codeSa codeLk cinit glueScheduleOk).map
    (fun s => (s.ra, s.handled, s.actors)) = some (.idle, some 1, [1, 0]) := by decide

example : (runLabelsC codeSa codeLk cinit glueScheduleOk).map
    (fun s => (s.base.watch, s.base.pcs 2)) =
    some (some (1, 0), .holding (.status 1 1)) := by decide

example : ((runLabelsC codeSa codeLk cinit (glueScheduleOk ++ [.actorStep 1 .read, .actorStep 1 .finish])).map
    fun s => s.base.watch) = some (some (1, 1)) := by decide

end IrohModel.C26
