/-
C26 — `HomeRelayWatch` (iroh/src/socket/transports/relay/actor.rs).

```rust
pub(crate) struct HomeRelayWatch {
    inner: Watchable<Option<RelayStatus>>,          -- the advertised (url, state); readers/watchers
    write_lock: Arc<Mutex<()>>,                     -- serialises the three writers below
}
fn set(&self, url, state) {                         -- RelayActor::on_network_change: a new home relay
    let _guard = self.write_lock.lock();            --   step `acquire`
    let _ = self.inner.set(Some(RelayStatus::new(url, state)));   -- step `finish` (+ guard drop)
}
fn clear(&self) { let _guard = self.write_lock.lock(); let _ = self.inner.set(None); }
fn set_status(&self, url: &RelayUrl, state) {       -- every ActiveRelayActor, for its own url
    let _guard = self.write_lock.lock();            --   step `acquire`
    if self.inner.get().as_ref().map(RelayStatus::url) == Some(url) {        -- step `read`
        let _ = self.inner.set(Some(RelayStatus::new(url.clone(), state)));  -- step `finish`
    }                                               --   (guard drop: with `finish`, or with a failed `read`)
}
```

The `write_lock` is the repair of defect D10 (commit `fix: HomeRelayWatch …`): before it,
`set_status` was a bare get-then-set on the `Watchable`, whose own `RwLock` is released between the
`get` and the `set`.  The model is parametrised by `lk : Bool` ("writers take `write_lock`");
`lk = true` is the code as it is (the generated constants `Generated.C26.*TakesLock` re-read this
from the source on every run), `lk = false` is the unrepaired code on which the counterexample is
proved.

Model: a labelled transition system over the watch cell, the writer lock and an unbounded family of
threads `t : Nat` with a program counter each.  A thread performs any sequence of calls; a call is
`choose r` (`set(url, Connecting)` for `r = some url`, `clear()` for `none` — the relay actor's
choice of a new home relay) or `status u st` (`set_status(&u, st)` by the connection actor of relay
`u`).  In the code there is one `RelayActor` task (the only caller of `set`/`clear`, and it calls
them only when the preferred relay differs from the advertised one) and one `ActiveRelayActor` task
per relay url; the model allows any thread to make any call at any time, which includes all of the
code's behaviours.

Atomicity (one LTS step each, read off the lock scopes above):
* `call`    – the call is entered, nothing shared touched (the thread is about to lock);
* `acquire` – `write_lock.lock()` succeeds (enabled only while the lock is free; a thread that
              cannot acquire simply has no enabled step — `Mutex` blocks);
* `read`    – `inner.get()` + comparison (one `RwLock` read section).  On mismatch the function
              returns: the guard is dropped in the same step;
* `finish`  – `inner.set(..)` (one `RwLock` write section) followed immediately by the guard drop
              at the end of the function; no code runs between the two, and while the guard is
              held no other writer has an enabled step, so splitting them would add no behaviour.
Readers (`get`, `watch`) take no lock and observe `watch` between any two steps.

`log` records, newest first, every write of the cell: `chose r` (a choice of home relay became
visible) and `wrote t u st` (thread `t` published status `st` for url `u`).
Executable, core Lean only.
-/
import IrohModel.Generated.C26

namespace IrohModel.C26

/-- Relay urls are numbered. -/
abbrev Url := Nat

/-- Connection state codes: 0 connecting, 1 connected, 2 disconnected (no error),
3 disconnected with a fresh error. -/
abbrev St := Nat

/-- The state published by `RelayActor::on_network_change` together with a new url. -/
def connecting : St := Generated.C26.chooseState

/-- One call on the shared `HomeRelayWatch`. -/
inductive Call where
  /-- `set(url, Connecting)` / `clear()` by the relay actor. -/
  | choose (r : Option Url)
  /-- `set_status(&u, st)` by the connection actor of relay `u`. -/
  | status (u : Url) (st : St)
deriving DecidableEq, Repr

/-- Program counter of one thread. -/
inductive PC where
  /-- not inside a call -/
  | idle
  /-- call entered, about to take `write_lock` -/
  | wanting (c : Call)
  /-- `write_lock` held (when the code takes it), nothing read or written yet -/
  | holding (c : Call)
  /-- `set_status`: the url comparison succeeded, about to write -/
  | matched (u : Url) (st : St)
deriving DecidableEq, Repr

inductive Event where
  | chose (r : Option Url)
  | wrote (t : Nat) (u : Url) (st : St)
deriving DecidableEq, Repr

inductive Label where
  | call (t : Nat) (c : Call)
  | acquire (t : Nat)
  | read (t : Nat)
  | finish (t : Nat)
deriving DecidableEq, Repr

structure State where
  /-- the advertised `(url, state)` -/
  watch : Option (Url × St)
  /-- holder of `write_lock` -/
  lock : Option Nat
  pcs : Nat → PC
  /-- newest event first -/
  log : List Event

def setPc (pcs : Nat → PC) (t : Nat) (p : PC) : Nat → PC :=
  fun u => if u = t then p else pcs u

def init : State := ⟨none, none, fun _ => .idle, []⟩

/-- The relay most recently chosen as home, in a newest-first log (`none`: no home relay). -/
def lastChoice : List Event → Option Url
  | [] => none
  | .chose r :: _ => r
  | .wrote _ _ _ :: l => lastChoice l

/-- What the newest event of a (newest-first) log wrote into the cell: a choice publishes the chosen
url with state `Connecting` (or nothing for "no home relay"), a status write publishes its url and
state. -/
def advertisedOf : List Event → Option (Url × St)
  | [] => none
  | .chose r :: _ => r.map (fun u => (u, connecting))
  | .wrote _ u st :: _ => some (u, st)

/-- One atomic step; `none` when the label is not enabled.  `lk`: the writers take `write_lock`. -/
def step (lk : Bool) (s : State) : Label → Option State
  | .call t c =>
    match s.pcs t with
    | .idle => some { s with pcs := setPc s.pcs t (.wanting c) }
    | _ => none
  | .acquire t =>
    match s.pcs t with
    | .wanting c =>
      if lk then
        match s.lock with
        | none => some { s with lock := some t, pcs := setPc s.pcs t (.holding c) }
        | some _ => none
      else some { s with pcs := setPc s.pcs t (.holding c) }
    | _ => none
  | .read t =>
    match s.pcs t with
    | .holding (.status u st) =>
      if s.watch.map Prod.fst = some u then some { s with pcs := setPc s.pcs t (.matched u st) }
      else some { s with pcs := setPc s.pcs t .idle, lock := if lk then none else s.lock }
    | _ => none
  | .finish t =>
    match s.pcs t with
    | .holding (.choose r) =>
      some { watch := r.map (fun u => (u, connecting)), lock := if lk then none else s.lock,
             pcs := setPc s.pcs t .idle, log := .chose r :: s.log }
    | .matched u st =>
      some { watch := some (u, st), lock := if lk then none else s.lock,
             pcs := setPc s.pcs t .idle, log := .wrote t u st :: s.log }
    | _ => none

/-- States reachable from `init` by any interleaving of any calls of any number of threads. -/
inductive Reachable (lk : Bool) : State → Prop where
  | init : Reachable lk init
  | step {s s' : State} (l : Label) : Reachable lk s → step lk s l = some s' → Reachable lk s'

/-- Chronological history (oldest event first). -/
def State.history (s : State) : List Event := s.log.reverse

/-- The relay most recently chosen as home. -/
def State.chosen (s : State) : Option Url := lastChoice s.log

/-- What the code does now: whether all three writers take `write_lock` (re-read from the source). -/
def codeLk : Bool :=
  Generated.C26.setTakesLock && Generated.C26.clearTakesLock && Generated.C26.statusTakesLock

/-! ### Schedule runner used by the correspondence driver

A case is: per thread the list of its calls, and a schedule (list of thread ids).  Each schedule
entry lets that thread attempt its next atomic step; a thread that is about to lock while the lock
is held is *blocked* (nothing happens).  Afterwards the threads run to completion one after the
other.  Every attempt yields one token `<t><code>:<watch>`:
`i` call entered · `a` lock acquired · `m` url matched · `d` call returned · `b` blocked ·
`e` no call left. -/

structure Sim where
  st : State
  calls : List (List Call)
  /-- tokens, newest first -/
  out : List String

def renderWatch : Option (Url × St) → String
  | none => "n"
  | some (u, st) => s!"{u}.{st}"

/-- The label thread `t` takes next. -/
def nextLabel (m : Sim) (t : Nat) : Option Label :=
  match m.st.pcs t with
  | .idle => match m.calls.getD t [] with
             | [] => none
             | c :: _ => some (.call t c)
  | .wanting _ => some (.acquire t)
  | .holding (.choose _) => some (.finish t)
  | .holding (.status _ _) => some (.read t)
  | .matched _ _ => some (.finish t)

def codeOf (before after : PC) : String :=
  match after with
  | .wanting _ => "i"
  | .holding _ => "a"
  | .matched _ _ => "m"
  | .idle => match before with
             | .idle => "e"
             | _ => "d"

def advance (lk : Bool) (m : Sim) (t : Nat) : Sim :=
  match nextLabel m t with
  | none => { m with out := s!"{t}e:{renderWatch m.st.watch}" :: m.out }
  | some l =>
    match step lk m.st l with
    | none => { m with out := s!"{t}b:{renderWatch m.st.watch}" :: m.out }
    | some st' =>
      let tok := s!"{t}{codeOf (m.st.pcs t) (st'.pcs t)}:{renderWatch st'.watch}"
      match l with
      | .call _ _ => { st := st', calls := m.calls.set t ((m.calls.getD t []).drop 1), out := tok :: m.out }
      | _ => { m with st := st', out := tok :: m.out }

/-- Let thread `t` run until it has nothing left to do (or is blocked: impossible once every other
thread is idle, which holds when threads are drained one after the other under `lk`; without the
lock nothing ever blocks). -/
def drainThread (lk : Bool) : Nat → Sim → Nat → Sim
  | 0, m, _ => m
  | fuel + 1, m, t =>
    match nextLabel m t with
    | none => m
    | some l =>
      match step lk m.st l with
      | none => m
      | some _ => drainThread lk fuel (advance lk m t) t

def runCase (lk : Bool) (calls : List (List Call)) (sched : List Nat) : Sim :=
  let m0 : Sim := ⟨init, calls, []⟩
  let m1 := sched.foldl (advance lk) m0
  let fuel := 4 * (calls.foldl (fun a l => a + l.length) 0) + 4
  -- the lock holder (if any) first, so that nobody is left blocked
  let order := (match m1.st.lock with | some h => [h] | none => []) ++ List.range calls.length
  order.foldl (fun m t => drainThread lk fuel m t) m1

def renderChoice : Option Url → String
  | none => "n"
  | some u => s!"{u}"

def render (m : Sim) : String :=
  " ".intercalate (m.out.reverse ++
    [s!"final={renderWatch m.st.watch}", s!"chosen={renderChoice m.st.chosen}"])

end IrohModel.C26
