/-
C26 — the inductive invariant of the `HomeRelayWatch` LTS with the writer lock (`lk = true`),
and helper lemmas.  Statements are about the newest-first `log`; `Theorems.lean` restates them on
the chronological `history`.
-/
import IrohModel.C26.Model

namespace IrohModel.C26

/-- Every status write in a (newest-first) log was made for the relay that was the most recent
choice at the time of the write. -/
def WritesOk : List Event → Prop
  | [] => True
  | .chose _ :: l => WritesOk l
  | .wrote _ u _ :: l => lastChoice l = some u ∧ WritesOk l

@[simp] theorem setPc_same (pcs : Nat → PC) (t : Nat) (p : PC) : setPc pcs t p t = p := by
  simp [setPc]

theorem setPc_other (pcs : Nat → PC) {t u : Nat} (p : PC) (h : u ≠ t) : setPc pcs t p u = pcs u := by
  simp [setPc, h]

/-- Reading `setPc … t p u = q` back: either `u = t ∧ p = q` or the old pc. -/
theorem setPc_eq {pcs : Nat → PC} {t u : Nat} {p q : PC} (h : setPc pcs t p u = q) :
    (u = t ∧ p = q) ∨ (u ≠ t ∧ pcs u = q) := by
  unfold setPc at h
  by_cases hu : u = t
  · simp [hu] at h; exact Or.inl ⟨hu, h⟩
  · simp [hu] at h; exact Or.inr ⟨hu, h⟩

/-- Characterisation of `step` as a relation (one disjunct per enabled transition). -/
theorem step_cases {lk : Bool} {s s' : State} {l : Label} (h : step lk s l = some s') :
    (∃ t c, l = .call t c ∧ s.pcs t = .idle ∧ s' = { s with pcs := setPc s.pcs t (.wanting c) }) ∨
    (∃ t c, l = .acquire t ∧ s.pcs t = .wanting c ∧ lk = true ∧ s.lock = none ∧
        s' = { s with lock := some t, pcs := setPc s.pcs t (.holding c) }) ∨
    (∃ t c, l = .acquire t ∧ s.pcs t = .wanting c ∧ lk = false ∧
        s' = { s with pcs := setPc s.pcs t (.holding c) }) ∨
    (∃ t u st, l = .read t ∧ s.pcs t = .holding (.status u st) ∧ s.watch.map Prod.fst = some u ∧
        s' = { s with pcs := setPc s.pcs t (.matched u st) }) ∨
    (∃ t u st, l = .read t ∧ s.pcs t = .holding (.status u st) ∧ s.watch.map Prod.fst ≠ some u ∧
        s' = { s with pcs := setPc s.pcs t .idle, lock := if lk then none else s.lock }) ∨
    (∃ t r, l = .finish t ∧ s.pcs t = .holding (.choose r) ∧
        s' = { watch := r.map (fun u => (u, connecting)), lock := if lk then none else s.lock,
               pcs := setPc s.pcs t .idle, log := .chose r :: s.log }) ∨
    (∃ t u st, l = .finish t ∧ s.pcs t = .matched u st ∧
        s' = { watch := some (u, st), lock := if lk then none else s.lock,
               pcs := setPc s.pcs t .idle, log := .wrote t u st :: s.log }) := by
  cases l with
  | call t c =>
    simp only [step] at h
    split at h
    · rename_i hpc
      exact Or.inl ⟨t, c, rfl, hpc, by simpa using h.symm⟩
    · simp at h
  | acquire t =>
    simp only [step] at h
    split at h
    · rename_i c hpc
      cases lk with
      | true =>
        simp only [if_true] at h
        split at h
        · rename_i hl
          exact Or.inr (Or.inl ⟨t, c, rfl, hpc, rfl, hl, by simpa using h.symm⟩)
        · simp at h
      | false =>
        exact Or.inr (Or.inr (Or.inl ⟨t, c, rfl, hpc, rfl, by simpa using h.symm⟩))
    · simp at h
  | read t =>
    simp only [step] at h
    split at h
    · rename_i u st hpc
      split at h
      · rename_i hm
        exact Or.inr (Or.inr (Or.inr (Or.inl ⟨t, u, st, rfl, hpc, hm, by simpa using h.symm⟩)))
      · rename_i hm
        exact Or.inr (Or.inr (Or.inr (Or.inr (Or.inl ⟨t, u, st, rfl, hpc, hm, by simpa using h.symm⟩))))
    · simp at h
  | finish t =>
    simp only [step] at h
    split at h
    · rename_i r hpc
      exact Or.inr (Or.inr (Or.inr (Or.inr (Or.inr (Or.inl ⟨t, r, rfl, hpc, by simpa using h.symm⟩)))))
    · rename_i u st hpc
      exact Or.inr (Or.inr (Or.inr (Or.inr (Or.inr (Or.inr ⟨t, u, st, rfl, hpc, by simpa using h.symm⟩)))))
    · simp at h

/-- The invariant of the repaired code. -/
structure Inv (s : State) : Prop where
  /-- a thread between `acquire` and its release holds the lock -/
  inside_holds : ∀ t, (∃ c, s.pcs t = .holding c) ∨ (∃ u st, s.pcs t = .matched u st) → s.lock = some t
  /-- the lock holder is inside a call -/
  holder_inside : ∀ t, s.lock = some t →
    (∃ c, s.pcs t = .holding c) ∨ (∃ u st, s.pcs t = .matched u st)
  /-- the advertised url is the latest choice -/
  url_latest : s.watch.map Prod.fst = lastChoice s.log
  /-- a successful url comparison stays true until the write -/
  matched_ok : ∀ t u st, s.pcs t = .matched u st → lastChoice s.log = some u
  writes_ok : WritesOk s.log
  /-- the cell holds what the newest write put there -/
  cell : s.watch = advertisedOf s.log

theorem inv_init : Inv init := by
  constructor <;> simp [init, lastChoice, WritesOk, advertisedOf]

theorem map_fst_map (r : Option Url) : (r.map (fun u => (u, connecting))).map Prod.fst = r := by
  cases r <;> rfl

theorem inv_step {s s' : State} {l : Label} (hs : Inv s) (h : step true s l = some s') : Inv s' := by
  rcases step_cases h with
    ⟨t, c, -, hpc, rfl⟩ | ⟨t, c, -, hpc, -, hl, rfl⟩ | ⟨t, c, -, hpc, hlk, rfl⟩ |
    ⟨t, u, st, -, hpc, hm, rfl⟩ | ⟨t, u, st, -, hpc, hm, rfl⟩ | ⟨t, r, -, hpc, rfl⟩ |
    ⟨t, u, st, -, hpc, rfl⟩
  · -- call
    refine ⟨?_, ?_, hs.url_latest, ?_, hs.writes_ok, hs.cell⟩
    · intro x hx
      by_cases hxt : x = t
      · subst hxt; simp at hx
      · simp only [setPc_other _ _ hxt] at hx; exact hs.inside_holds x hx
    · intro x hx
      have hne : x ≠ t := by
        intro hxt; subst hxt
        rcases hs.holder_inside x hx with ⟨c', h'⟩ | ⟨u, st, h'⟩ <;> simp [h'] at hpc
      simp only [setPc_other _ _ hne]; exact hs.holder_inside x hx
    · intro x u st hx
      rcases setPc_eq hx with ⟨_, h'⟩ | ⟨_, h'⟩
      · cases h'
      · exact hs.matched_ok x u st h'
  · -- acquire (lock free)
    have hall : ∀ x, ¬ ((∃ c, s.pcs x = .holding c) ∨ (∃ u st, s.pcs x = .matched u st)) := by
      intro x hx; have := hs.inside_holds x hx; simp [hl] at this
    refine ⟨?_, ?_, hs.url_latest, ?_, hs.writes_ok, hs.cell⟩
    · intro x hx
      by_cases hxt : x = t
      · subst hxt; rfl
      · simp only [setPc_other _ _ hxt] at hx; exact absurd hx (hall x)
    · intro x hx
      simp only [Option.some.injEq] at hx
      subst hx
      exact Or.inl ⟨c, by simp⟩
    · intro x u st hx
      rcases setPc_eq hx with ⟨_, h'⟩ | ⟨_, h'⟩
      · cases h'
      · exact hs.matched_ok x u st h'
  · -- acquire without lock: not this model
    cases hlk
  · -- read, url matches
    have hlock := hs.inside_holds t (Or.inl ⟨_, hpc⟩)
    refine ⟨?_, ?_, hs.url_latest, ?_, hs.writes_ok, hs.cell⟩
    · intro x hx
      by_cases hxt : x = t
      · subst hxt; exact hlock
      · simp only [setPc_other _ _ hxt] at hx; exact hs.inside_holds x hx
    · intro x hx
      by_cases hxt : x = t
      · subst hxt; exact Or.inr ⟨u, st, by simp⟩
      · simp only [setPc_other _ _ hxt]; exact hs.holder_inside x hx
    · intro x u' st' hx
      rcases setPc_eq hx with ⟨_, h'⟩ | ⟨_, h'⟩
      · cases h'; rw [← hs.url_latest]; exact hm
      · exact hs.matched_ok x u' st' h'
  · -- read, url differs: return, guard dropped
    have hlock := hs.inside_holds t (Or.inl ⟨_, hpc⟩)
    refine ⟨?_, ?_, hs.url_latest, ?_, hs.writes_ok, hs.cell⟩
    · intro x hx
      by_cases hxt : x = t
      · subst hxt; simp at hx
      · simp only [setPc_other _ _ hxt] at hx
        have := hs.inside_holds x hx
        rw [hlock] at this; exact absurd (Option.some.inj this).symm hxt
    · intro x hx; simp at hx
    · intro x u' st' hx
      rcases setPc_eq hx with ⟨_, h'⟩ | ⟨_, h'⟩
      · cases h'
      · exact hs.matched_ok x u' st' h'
  · -- finish: choose
    have hlock := hs.inside_holds t (Or.inl ⟨_, hpc⟩)
    have hothers : ∀ x, x ≠ t → ¬ ((∃ c, s.pcs x = .holding c) ∨ (∃ u st, s.pcs x = .matched u st)) := by
      intro x hxt hx
      have := hs.inside_holds x hx
      rw [hlock] at this; exact hxt (Option.some.inj this).symm
    refine ⟨?_, ?_, ?_, ?_, ?_, ?_⟩
    · intro x hx
      by_cases hxt : x = t
      · subst hxt; simp at hx
      · simp only [setPc_other _ _ hxt] at hx; exact absurd hx (hothers x hxt)
    · intro x hx; simp at hx
    · show (r.map (fun u => (u, connecting))).map Prod.fst = lastChoice (.chose r :: s.log)
      rw [map_fst_map]; rfl
    · intro x u st hx
      rcases setPc_eq hx with ⟨_, h'⟩ | ⟨hxt, h'⟩
      · cases h'
      · exact absurd (Or.inr ⟨u, st, h'⟩) (hothers x hxt)
    · simpa [WritesOk] using hs.writes_ok
    · simp [advertisedOf]
  · -- finish: status write
    have hlock := hs.inside_holds t (Or.inr ⟨_, _, hpc⟩)
    have hothers : ∀ x, x ≠ t → ¬ ((∃ c, s.pcs x = .holding c) ∨ (∃ u st, s.pcs x = .matched u st)) := by
      intro x hxt hx
      have := hs.inside_holds x hx
      rw [hlock] at this; exact hxt (Option.some.inj this).symm
    have hu := hs.matched_ok t u st hpc
    refine ⟨?_, ?_, ?_, ?_, ?_, ?_⟩
    · intro x hx
      by_cases hxt : x = t
      · subst hxt; simp at hx
      · simp only [setPc_other _ _ hxt] at hx; exact absurd hx (hothers x hxt)
    · intro x hx; simp at hx
    · simp [lastChoice, hu]
    · intro x u' st' hx
      rcases setPc_eq hx with ⟨_, h'⟩ | ⟨hxt, h'⟩
      · cases h'
      · exact absurd (Or.inr ⟨u', st', h'⟩) (hothers x hxt)
    · exact ⟨hu, hs.writes_ok⟩
    · simp [advertisedOf]

theorem inv_of_reachable {s : State} (h : Reachable true s) : Inv s := by
  induction h with
  | init => exact inv_init
  | step l _ hst ih => exact inv_step ih hst

/-- `WritesOk` in split form (newest first). -/
theorem WritesOk.split {l : List Event} (h : WritesOk l) (l2 l1 : List Event) (t u st)
    (hl : l = l2 ++ .wrote t u st :: l1) : lastChoice l1 = some u := by
  subst hl
  induction l2 with
  | nil => exact h.1
  | cons e l2 ih =>
    apply ih
    cases e with
    | chose r => exact h
    | wrote _ _ _ => exact h.2

/-- Run a list of labels. -/
def runLabels (lk : Bool) (s : State) : List Label → Option State
  | [] => some s
  | l :: ls => (step lk s l).bind (runLabels lk · ls)

theorem reachable_of_runLabels {lk : Bool} {s s' : State} (hs : Reachable lk s) (ls : List Label)
    (h : runLabels lk s ls = some s') : Reachable lk s' := by
  induction ls generalizing s with
  | nil => simp [runLabels] at h; exact h ▸ hs
  | cons l ls ih =>
    simp only [runLabels] at h
    cases hst : step lk s l with
    | none => simp [hst] at h
    | some s1 => rw [hst] at h; exact ih (Reachable.step l hs hst) h

end IrohModel.C26
