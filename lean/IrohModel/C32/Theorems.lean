/-
C32 — property theorems (only).

Statement: a signed packet is accepted from the wire (or from a relay payload
for a given key) only if its signature by the embedded (or given) key over its
timestamp and DNS payload verifies and the payload parses; any modification of
an accepted packet is rejected.  Any packet value obtainable from the public
constructors can be inspected without panicking.

`E : Env` is the abstract cryptography / DNS parser (arbitrary functions), so
every theorem holds for the real ed25519 `verify_strict`, point validation and
`simple_dns` parser as well — whatever they compute.
-/
import IrohModel.C32.Lemmas
import IrohModel.Common.Crypto

namespace IrohModel.C32
open IrohModel.Crypto

/-- The property's notion of authenticity for wire bytes `b`, written independently of
`fromBytes`: size window, the embedded key is a key, its signature over the BEP44 message built
from the embedded timestamp and DNS bytes verifies, the DNS bytes parse. -/
def Authentic (E : Env) (b : Bytes) : Prop :=
  104 ≤ b.length ∧ b.length ≤ 1104 ∧
  E.validPoint (b.take 32) = true ∧
  E.verify (b.take 32) (signable (beNat ((b.drop 96).take 8)) (b.drop 104)) ((b.drop 32).take 64) = true ∧
  E.dnsParses (b.drop 104) = true

/-- `from_bytes` accepts exactly the authentic byte strings, and the packet is those bytes. -/
theorem accept_iff_authentic (E : Env) (b : Bytes) (p : Packet) :
    fromBytes E b = .ok p ↔ Authentic E b ∧ p = ⟨b⟩ := by
  unfold fromBytes Authentic
  simp only [headerSize, maxTotal, maxDns, Generated.C32.headerSize, Generated.C32.maxDnsPacketSize,
    signedMsg, keyOf, sigOf, tsOf, tsBytesOf, dnsOf]
  by_cases h1 : b.length < 104
  · simp [h1]; omega
  · by_cases h2 : b.length > 104 + 1000
    · simp [h1, h2]; omega
    · rcases Bool.eq_false_or_eq_true (E.validPoint (List.take 32 b)) with hvp | hvp <;>
      rcases Bool.eq_false_or_eq_true (E.verify (List.take 32 b)
        (signable (beNat (List.take 8 (List.drop 96 b))) (List.drop 104 b))
        (List.take 64 (List.drop 32 b))) with hvs | hvs <;>
      rcases Bool.eq_false_or_eq_true (E.dnsParses (List.drop 104 b)) with hdp | hdp <;>
      simp [h1, h2, hvp, hvs, hdp]
      constructor
      · rintro rfl; exact ⟨⟨by omega, by omega⟩, rfl⟩
      · rintro ⟨_, rfl⟩; rfl

/-- Which error is reported (checks in source order). -/
theorem reject_reason (E : Env) (b : Bytes) :
    fromBytes E b =
      if b.length < 104 then .error .tooShort
      else if 1104 < b.length then .error .tooLarge
      else if E.validPoint (keyOf b) = false then .error .invalidKey
      else if E.verify (keyOf b) (signedMsg b) (sigOf b) = false then .error .signatureError
      else if E.dnsParses (dnsOf b) = false then .error .dnsError
      else .ok ⟨b⟩ := by
  unfold fromBytes
  simp only [headerSize, maxTotal, maxDns, Generated.C32.headerSize, Generated.C32.maxDnsPacketSize,
    Bool.not_eq_true', gt_iff_lt, Nat.reduceAdd]

/-- `from_relay_payload(key, payload)` accepts exactly when the signature (first 64 payload
bytes) by the GIVEN key over the timestamp and DNS bytes of the payload verifies, the DNS bytes
parse and the sizes fit; the packet is `key ‖ payload`. -/
theorem relay_accept_iff_authentic (E : Env) (pk payload : Bytes) (hpk : pk.length = 32) (p : Packet) :
    fromRelayPayload E pk payload = .ok p ↔
      (72 ≤ payload.length ∧ payload.length ≤ 1072 ∧ E.validPoint pk = true ∧
       E.verify pk (signable (beNat ((payload.drop 64).take 8)) (payload.drop 72)) (payload.take 64) = true ∧
       E.dnsParses (payload.drop 72) = true) ∧ p = ⟨pk ++ payload⟩ := by
  unfold fromRelayPayload
  rw [accept_iff_authentic]
  unfold Authentic
  have e1 : (pk ++ payload).take 32 = pk := by simp [hpk]
  have e2 : (pk ++ payload).drop 32 = payload := by simp [hpk]
  have e3 : (pk ++ payload).drop 96 = payload.drop 64 := by
    rw [show 96 = 32 + 64 from rfl, ← List.drop_drop, e2]
  have e4 : (pk ++ payload).drop 104 = payload.drop 72 := by
    rw [show 104 = 32 + 72 from rfl, ← List.drop_drop, e2]
  rw [e1, e2, e3, e4, List.length_append, hpk]
  constructor
  · rintro ⟨⟨h1, h2, h3, h4, h5⟩, rfl⟩
    exact ⟨⟨by omega, by omega, h3, h4, h5⟩, rfl⟩
  · rintro ⟨⟨h1, h2, h3, h4, h5⟩, rfl⟩
    exact ⟨⟨by omega, by omega, h3, h4, h5⟩, rfl⟩

/-- The BEP44 message determines timestamp and payload. -/
theorem signable_inj (t t' : Nat) (v v' : Bytes) : signable t v = signable t' v' ↔ t = t' ∧ v = v' :=
  ⟨signable_injective, fun ⟨h1, h2⟩ => by rw [h1, h2]⟩

/-- Two byte strings of at least header size with the same key, signature and signed message
are equal: the wire layout and `signable` lose nothing. -/
theorem triple_determines_bytes {b b' : Bytes} (hb : 104 ≤ b.length) (hb' : 104 ≤ b'.length)
    (hk : keyOf b = keyOf b') (hs : sigOf b = sigOf b') (hm : signedMsg b = signedMsg b') : b = b' := by
  obtain ⟨hts, hdns⟩ := signable_injective hm
  have htb : tsBytesOf b = tsBytesOf b' :=
    beNat_injective8 (tsBytesOf_length hb) (tsBytesOf_length hb') hts
  rw [layout b, layout b', hk, hs, htb, hdns]

/-- Any modification of an accepted packet is rejected unless the modified bytes carry a
verifying signature for a DIFFERENT (key, message, signature) triple — i.e. acceptance of a
tampered packet needs a fresh valid signature (EUF-CMA of the scheme, an assumption, then says no
adversary can produce one).  No change of key, signature, timestamp or payload goes unnoticed. -/
theorem tamper_rejected (E : Env) (b b' : Bytes) (p p' : Packet)
    (hacc : fromBytes E b = .ok p) (hne : b' ≠ b) (hacc' : fromBytes E b' = .ok p') :
    (keyOf b', signedMsg b', sigOf b') ≠ (keyOf b, signedMsg b, sigOf b) ∧
    E.verify (keyOf b') (signedMsg b') (sigOf b') = true := by
  have h := ((accept_iff_authentic E b p).mp hacc).1
  have h' := ((accept_iff_authentic E b' p').mp hacc').1
  refine ⟨?_, h'.2.2.2.1⟩
  intro heq
  simp only [Prod.mk.injEq] at heq
  exact hne (triple_determines_bytes h'.1 h.1 heq.1 heq.2.2 heq.2.1)

/-- Completeness for honest signers: for any signature scheme satisfying the correctness law,
a packet assembled from `pub sk`, `sign sk (signable ts dns)`, the timestamp and a parsing DNS
payload of at most 1000 bytes is accepted. -/
theorem honest_accepted {SK : Type} (S : SigScheme SK Bytes Bytes Bytes) (E : Env)
    (hv : E.verify = S.verify) (sk : SK) (ts : Nat) (dns : Bytes)
    (hpub : (S.pub sk).length = 32) (hpoint : E.validPoint (S.pub sk) = true)
    (hsig : (S.sign sk (signable ts dns)).length = 64)
    (hts : ts < 18446744073709551616) (hlen : dns.length ≤ 1000) (hdns : E.dnsParses dns = true) :
    fromBytes E (S.pub sk ++ S.sign sk (signable ts dns) ++ be64 ts ++ dns) =
      .ok ⟨S.pub sk ++ S.sign sk (signable ts dns) ++ be64 ts ++ dns⟩ := by
  rw [accept_iff_authentic]
  refine ⟨?_, rfl⟩
  obtain ⟨k1, k2, k3, k4⟩ := parts_of_concat (S.pub sk) (S.sign sk (signable ts dns)) (be64 ts) dns
    hpub hsig (be64_length ts)
  simp only [keyOf, sigOf, tsBytesOf, dnsOf] at k1 k2 k3 k4
  unfold Authentic
  rw [k1, k2, k3, k4, beNat_be64 ts hts, hv]
  refine ⟨?_, ?_, hpoint, S.verify_sign sk _, hdns⟩
  · simp only [List.length_append, hpub, hsig, be64_length]; omega
  · simp only [List.length_append, hpub, hsig, be64_length]; omega

/-- The packets obtainable from the public constructors. -/
inductive Constructed (E : Env) : Packet → Prop where
  | fromBytes (b) (p) : fromBytes E b = .ok p → Constructed E p
  | fromRelayPayload (pk payload) (p) : fromRelayPayload E pk payload = .ok p → Constructed E p
  | fromBytesUnchecked (b) (p) : fromBytesUnchecked E b = .ok p → Constructed E p
  | fromPartsUnchecked (pk sig ts dns) (p) : fromPartsUnchecked E pk sig ts dns = .ok p → Constructed E p

/-- What `from_bytes_unchecked` guarantees. -/
theorem unchecked_accept_iff (E : Env) (b : Bytes) (p : Packet) :
    fromBytesUnchecked E b = .ok p ↔
      (104 ≤ b.length ∧ b.length ≤ 1104 ∧ E.validPoint (keyOf b) = true ∧ E.dnsParses (dnsOf b) = true) ∧
      p = ⟨b⟩ := by
  unfold fromBytesUnchecked
  simp only [headerSize, maxTotal, maxDns, Generated.C32.headerSize, Generated.C32.maxDnsPacketSize]
  by_cases h1 : b.length < 104
  · simp [h1]; omega
  · by_cases h2 : b.length > 104 + 1000
    · simp [h1, h2]; omega
    · rcases Bool.eq_false_or_eq_true (E.validPoint (keyOf b)) with hvp | hvp <;>
      rcases Bool.eq_false_or_eq_true (E.dnsParses (dnsOf b)) with hdp | hdp <;>
      simp [h1, h2, hvp, hdp]
      constructor
      · rintro rfl; exact ⟨⟨by omega, by omega⟩, rfl⟩
      · rintro ⟨_, rfl⟩; rfl

/-- Every constructed packet has at least the header, at most the maximum size and a valid key. -/
theorem constructed_wf {E : Env} {p : Packet} (h : Constructed E p) :
    104 ≤ p.bytes.length ∧ p.bytes.length ≤ 1104 ∧ E.validPoint (keyOf p.bytes) = true := by
  cases h with
  | fromBytes b p h =>
    obtain ⟨ha, rfl⟩ := (accept_iff_authentic E b p).mp h
    exact ⟨ha.1, ha.2.1, ha.2.2.1⟩
  | fromRelayPayload pk payload p h =>
    obtain ⟨ha, rfl⟩ := (accept_iff_authentic E _ p).mp h
    exact ⟨ha.1, ha.2.1, ha.2.2.1⟩
  | fromBytesUnchecked b p h =>
    obtain ⟨ha, rfl⟩ := (unchecked_accept_iff E b p).mp h
    exact ⟨ha.1, ha.2.1, ha.2.2.1⟩
  | fromPartsUnchecked pk sig ts dns p h =>
    obtain ⟨ha, rfl⟩ := (unchecked_accept_iff E _ p).mp h
    exact ⟨ha.1, ha.2.1, ha.2.2.1⟩

/-- Safe to inspect: on every packet obtainable from a public constructor every accessor is
defined (no `expect`/slice panic), and returns the corresponding slice of the wire bytes. -/
theorem inspect_total {E : Env} {p : Packet} (h : Constructed E p) :
    p.publicKey E = some (keyOf p.bytes) ∧ p.signature = some (sigOf p.bytes) ∧
    p.timestamp = some (tsOf p.bytes) ∧ p.encodedPacket = some (dnsOf p.bytes) ∧
    p.relayPayload = some (p.bytes.drop 32) ∧
    p.recordsDefined E = true ∧ p.displayDefined E = true := by
  obtain ⟨h1, _, h3⟩ := constructed_wf h
  have a1 : p.publicKey E = some (keyOf p.bytes) := by
    simp only [Packet.publicKey, h3, and_true]; rw [if_pos (by omega)]
  have a2 : p.signature = some (sigOf p.bytes) := by
    simp only [Packet.signature]; rw [if_pos (by omega)]
  have a3 : p.timestamp = some (tsOf p.bytes) := by
    simp only [Packet.timestamp]; rw [if_pos (by omega)]
  have a4 : p.encodedPacket = some (dnsOf p.bytes) := by
    simp only [Packet.encodedPacket]; rw [if_pos (by omega)]
  have a5 : p.relayPayload = some (p.bytes.drop 32) := by
    simp only [Packet.relayPayload]; rw [if_pos (by omega)]
  refine ⟨a1, a2, a3, a4, a5, ?_, ?_⟩
  · simp [Packet.recordsDefined, a1, a4]
  · simp [Packet.displayDefined, a1, a3, a4]

/-! ### Non-vacuity -/

/-- A toy scheme (signature = key ‖ key, verification compares) and environment under which an
honest 104+12-byte packet is `Authentic`, accepted, and a one-byte change of it is rejected. -/
def toyScheme : SigScheme Bytes Bytes Bytes Bytes where
  pub sk := sk
  sign sk _ := sk ++ sk
  verify pk _ sig := sig == pk ++ pk
  verify_sign := by intro sk m; simp

def toyEnv : Env := ⟨fun k => k.length == 32, toyScheme.verify, fun d => d.length ≥ 12⟩

def toyKey : Bytes := List.replicate 32 7
def toyDns : Bytes := List.replicate 12 0

example : fromBytes toyEnv (toyKey ++ toyScheme.sign toyKey (signable 5 toyDns) ++ be64 5 ++ toyDns) =
    .ok ⟨toyKey ++ toyScheme.sign toyKey (signable 5 toyDns) ++ be64 5 ++ toyDns⟩ :=
  honest_accepted toyScheme toyEnv rfl toyKey 5 toyDns (by decide) (by decide) (by decide) (by decide)
    (by decide) (by decide)

example : Authentic toyEnv (toyKey ++ (toyKey ++ toyKey) ++ be64 5 ++ toyDns) := by
  refine ⟨by decide, by decide, by decide, by decide, by decide⟩

/-- the same packet with its first key byte changed is rejected (no longer a matching signature) -/
example : fromBytes toyEnv ((9 :: List.replicate 31 7) ++ (toyKey ++ toyKey) ++ be64 5 ++ toyDns) =
    .error .signatureError := by rfl

/-- `Constructed` is inhabited through the unchecked constructor as well. -/
example : Constructed toyEnv ⟨toyKey ++ List.replicate 64 1 ++ be64 9 ++ toyDns⟩ :=
  .fromPartsUnchecked toyKey (List.replicate 64 1) 9 toyDns _ (by rfl)

example : signable 1700000000000000 [1, 2, 3] = ascii "3:seqi1700000000000000e1:v3:" ++ [1, 2, 3] := by
  decide

/-! ### untrusted-input callers of the constructors

* `PkarrRelayClient::resolve` (iroh): `resolveViaRelay` below — proved here.
* iroh-dns-server `PUT /pkarr/{key}`: `from_relay_payload(key from the URL, body)`; composed with
  the server model in C36 (`C36.put_acceptance_is_c32_acceptance`).
* iroh-dns-server store: `deserialize` / `mutable_item_to_signed_packet` use
  `from_bytes_unchecked` / `from_parts_unchecked` on the server's OWN storage and on DHT items
  (trusted / verified elsewhere): no signature check by design; `inspect_total` covers them. -/

/-- **The resolver accepts only packets of the key it asked for.**  `PkarrRelayClient::resolve`
returns a packet for endpoint id `asked` exactly when the status is a success status and the body
is an authentic relay payload UNDER `asked`; the returned packet is `asked ‖ body`. -/
theorem resolver_accept_iff (E : Env) (asked body : Bytes) (status : Nat) (hk : asked.length = 32)
    (p : Packet) :
    resolveViaRelay E asked status body = .ok p ↔
      (200 ≤ status ∧ status ≤ 299) ∧
      (72 ≤ body.length ∧ body.length ≤ 1072 ∧ E.validPoint asked = true ∧
       E.verify asked (signable (beNat ((body.drop 64).take 8)) (body.drop 72)) (body.take 64) = true ∧
       E.dnsParses (body.drop 72) = true) ∧ p = ⟨asked ++ body⟩ := by
  unfold resolveViaRelay
  by_cases hs : 200 ≤ status ∧ status ≤ 299
  · rw [if_pos hs]
    cases hr : fromRelayPayload E asked body with
    | ok q =>
      have := (relay_accept_iff_authentic E asked body hk q).mp hr
      constructor
      · intro h; cases h; exact ⟨hs, this.1, this.2⟩
      · rintro ⟨_, _, rfl⟩; rw [this.2]
    | error e =>
      constructor
      · intro h; cases h
      · rintro ⟨_, ha, rfl⟩
        have := (relay_accept_iff_authentic E asked body hk ⟨asked ++ body⟩).mpr ⟨ha, rfl⟩
        rw [hr] at this; cases this
  · rw [if_neg hs]
    constructor
    · intro h; cases h
    · rintro ⟨h, _⟩; exact absurd h hs

/-- Whatever the relay answers — a payload signed by another key, a COMPLETE packet of another
key, a complete packet of the asked key, garbage — a packet that `resolve(asked)` returns carries
the asked key, and its signature verifies under the asked key. -/
theorem resolver_accepts_only_packets_of_asked_key (E : Env) (asked body : Bytes) (status : Nat)
    (hk : asked.length = 32) (p : Packet) (h : resolveViaRelay E asked status body = .ok p) :
    p.publicKey E = some asked ∧ keyOf p.bytes = asked ∧
    E.verify asked (signedMsg p.bytes) (sigOf p.bytes) = true := by
  obtain ⟨_, ⟨h1, h2, h3, h4, h5⟩, rfl⟩ := (resolver_accept_iff E asked body status hk p).mp h
  have hkey : keyOf (asked ++ body) = asked := by simp [keyOf, hk]
  have hacc : fromBytes E (asked ++ body) = .ok ⟨asked ++ body⟩ := by
    have := (relay_accept_iff_authentic E asked body hk ⟨asked ++ body⟩).mpr ⟨⟨h1, h2, h3, h4, h5⟩, rfl⟩
    exact this
  have ha := ((accept_iff_authentic E (asked ++ body) _).mp hacc).1
  refine ⟨?_, hkey, ?_⟩
  · simp only [Packet.publicKey, hkey, h3, and_true]
    rw [if_pos (by simp only [List.length_append, hk]; omega)]
  · have := ha.2.2.2.1
    simp only [signedMsg, sigOf, tsOf, tsBytesOf, dnsOf]
    have hk' : List.take 32 (asked ++ body) = asked := by simpa [keyOf] using hkey
    rw [hk'] at this
    exact this

/-- A complete, honestly signed packet of ANOTHER key `y` offered as the response to a lookup of
`asked` is accepted only if the bytes happen to carry a signature that verifies under `asked` —
never on the strength of `y`'s own signature. -/
theorem resolver_ignores_embedded_key (E : Env) (asked y rest : Bytes) (status : Nat)
    (hk : asked.length = 32) (p : Packet)
    (h : resolveViaRelay E asked status (y ++ rest) = .ok p) :
    keyOf p.bytes = asked ∧
    E.verify asked (signedMsg (asked ++ (y ++ rest))) (sigOf (asked ++ (y ++ rest))) = true := by
  obtain ⟨_, hkey, hver⟩ := resolver_accepts_only_packets_of_asked_key E asked (y ++ rest) status hk p h
  obtain ⟨_, _, rfl⟩ := (resolver_accept_iff E asked (y ++ rest) status hk p).mp h
  exact ⟨hkey, hver⟩

/-- Non-vacuity: the toy resolver accepts an honest payload with status 200, rejects the same
payload with status 404 and rejects a complete packet of the toy key offered as a payload. -/
example : resolveViaRelay toyEnv toyKey 200 ((toyKey ++ toyKey) ++ be64 5 ++ toyDns) =
    .ok ⟨toyKey ++ ((toyKey ++ toyKey) ++ be64 5 ++ toyDns)⟩ := by rfl
example : resolveViaRelay toyEnv toyKey 404 ((toyKey ++ toyKey) ++ be64 5 ++ toyDns) =
    .error (.httpRequest 404) := by rfl
set_option maxRecDepth 8192 in
example : (match resolveViaRelay toyEnv (List.replicate 32 9) 200
      (toyKey ++ (toyKey ++ toyKey) ++ be64 5 ++ toyDns) with
    | .error (.verify .signatureError) => true
    | _ => false) = true := by decide

end IrohModel.C32
