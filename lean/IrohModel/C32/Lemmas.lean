/-
C32 — helper lemmas: decimal rendering is uniquely decodable (so the BEP44
`signable` string is injective), big-endian timestamps, the wire layout.
-/
import IrohModel.C32.Model

namespace IrohModel.C32

/-! ### decimal digits and `signable` -/

def isDigitByte (b : UInt8) : Prop := 48 ≤ b.toNat ∧ b.toNat ≤ 57

theorem digit_byte_of_char {c : Char} (h : c.isDigit = true) :
    (UInt8.ofNat c.toNat).toNat = c.toNat ∧ 48 ≤ c.toNat ∧ c.toNat ≤ 57 := by
  rw [Char.isDigit_iff_toNat] at h
  have h : 48 ≤ c.toNat ∧ c.toNat ≤ 57 := h
  refine ⟨?_, h.1, h.2⟩
  rw [UInt8.toNat_ofNat']
  omega

theorem decimal_digits (n : Nat) : ∀ b ∈ decimal n, isDigitByte b := by
  intro b hb
  simp only [decimal, List.mem_map] at hb
  obtain ⟨c, hc, rfl⟩ := hb
  have := digit_byte_of_char (Nat.isDigit_of_mem_toDigits (by decide) (by decide) hc)
  unfold isDigitByte; omega

/-- Inverse of `decimal`. -/
def ofDecimal (bs : Bytes) (init : Nat) : Nat := bs.foldl (fun a b => 10 * a + (b.toNat - 48)) init

theorem ofDecimal_map (l : List Char) (hl : ∀ c ∈ l, c.isDigit = true) (init : Nat) :
    ofDecimal (l.map (fun c => UInt8.ofNat c.toNat)) init = Nat.ofDigitChars 10 l init := by
  induction l generalizing init with
  | nil => simp [ofDecimal]
  | cons c l ih =>
    have hc := digit_byte_of_char (hl c (by simp))
    have := ih (fun c' hc' => hl c' (by simp [hc'])) (10 * init + (c.toNat - 48))
    simp only [ofDecimal, List.map_cons, List.foldl_cons] at this ⊢
    rw [Nat.ofDigitChars_cons, hc.1]
    exact this

theorem ofDecimal_decimal (n : Nat) : ofDecimal (decimal n) 0 = n := by
  unfold decimal
  rw [ofDecimal_map _ (fun c hc => Nat.isDigit_of_mem_toDigits (by decide) (by decide) hc)]
  exact Nat.ofDigitChars_ten_toDigits

theorem decimal_injective {m n : Nat} (h : decimal m = decimal n) : m = n := by
  rw [← ofDecimal_decimal m, h, ofDecimal_decimal]

/-- Digit strings followed by a non-digit are uniquely decodable. -/
theorem digits_sep_inj {d1 d2 r1 r2 : Bytes} {c1 c2 : UInt8}
    (h1 : ∀ b ∈ d1, isDigitByte b) (h2 : ∀ b ∈ d2, isDigitByte b)
    (hc1 : ¬ isDigitByte c1) (hc2 : ¬ isDigitByte c2)
    (h : d1 ++ c1 :: r1 = d2 ++ c2 :: r2) : d1 = d2 ∧ c1 :: r1 = c2 :: r2 := by
  induction d1 generalizing d2 with
  | nil =>
    cases d2 with
    | nil => exact ⟨rfl, by simpa using h⟩
    | cons x d2 =>
      simp only [List.nil_append, List.cons_append, List.cons.injEq] at h
      exact absurd (h.1 ▸ h2 x (by simp)) hc1
  | cons y d1 ih =>
    cases d2 with
    | nil =>
      simp only [List.nil_append, List.cons_append, List.cons.injEq] at h
      exact absurd (h.1 ▸ h1 y (by simp)) hc2
    | cons x d2 =>
      simp only [List.cons_append, List.cons.injEq] at h
      have := ih (fun b hb => h1 b (by simp [hb])) (fun b hb => h2 b (by simp [hb])) h.2
      exact ⟨by rw [h.1, this.1], this.2⟩

theorem signable_injective {t t' : Nat} {v v' : Bytes} (h : signable t v = signable t' v') :
    t = t' ∧ v = v' := by
  unfold signable at h
  have e1 : ascii "3:seqi" = [51, 58, 115, 101, 113, 105] := by decide
  have e2 : ascii "e1:v" = [101, 49, 58, 118] := by decide
  have e3 : ascii ":" = [58] := by decide
  rw [e1, e2, e3] at h
  simp only [List.append_assoc, List.cons_append, List.nil_append, List.cons.injEq, true_and] at h
  have nd101 : ¬ isDigitByte 101 := by unfold isDigitByte; decide
  have nd58 : ¬ isDigitByte 58 := by unfold isDigitByte; decide
  obtain ⟨ht, hrest⟩ := digits_sep_inj (decimal_digits t) (decimal_digits t') nd101 nd101 h
  simp only [List.cons.injEq, true_and] at hrest
  obtain ⟨_, hv⟩ := digits_sep_inj (decimal_digits _) (decimal_digits _) nd58 nd58 hrest
  exact ⟨decimal_injective ht, by simpa using hv⟩

/-! ### big-endian timestamps and the wire layout -/

theorem beNat_concat (l : Bytes) (x : UInt8) : beNat (l ++ [x]) = beNat l * 256 + x.toNat := by
  simp [beNat, List.foldl_append]

theorem beBytes_length (k n : Nat) : (beBytes k n).length = k := by
  induction k generalizing n with
  | zero => rfl
  | succ k ih => simp [beBytes, ih]

theorem beNat_beBytes (k n : Nat) : beNat (beBytes k n) = n % 256 ^ k := by
  induction k generalizing n with
  | zero => simp [beBytes, beNat, Nat.mod_one]
  | succ k ih =>
    rw [beBytes, beNat_concat, ih, UInt8.toNat_ofNat']
    have h1 : n % 256 % 2 ^ 8 = n % 256 := Nat.mod_eq_of_lt (by omega)
    have h2 : n % 256 ^ (k + 1) = n % 256 + 256 * (n / 256 % 256 ^ k) := by
      rw [Nat.pow_succ, Nat.mul_comm (256 ^ k) 256, Nat.mod_mul]
    rw [h1, h2]
    omega

theorem beBytes_beNat (k : Nat) (l : Bytes) (h : l.length = k) : beBytes k (beNat l) = l := by
  induction k generalizing l with
  | zero => simp [beBytes, List.length_eq_zero_iff.mp h]
  | succ k ih =>
    rcases List.eq_nil_or_concat l with rfl | ⟨l', x, hlx⟩
    · simp at h
    · rw [List.concat_eq_append] at hlx
      subst hlx
      have hl : l'.length = k := by simpa using h
      have hx := x.toNat_lt
      rw [beBytes, beNat_concat]
      have h1 : (beNat l' * 256 + x.toNat) / 256 = beNat l' := by omega
      have h2 : (beNat l' * 256 + x.toNat) % 256 = x.toNat := by omega
      rw [h1, h2, ih l' hl]
      simp

theorem beNat_be64 (n : Nat) (h : n < 18446744073709551616) : beNat (be64 n) = n := by
  rw [be64, beNat_beBytes]
  exact Nat.mod_eq_of_lt (by simpa using h)

theorem be64_length (n : Nat) : (be64 n).length = 8 := beBytes_length 8 n

theorem beNat_injective8 {l l' : Bytes} (h : l.length = 8) (h' : l'.length = 8)
    (e : beNat l = beNat l') : l = l' := by
  rw [← beBytes_beNat 8 l h, e, beBytes_beNat 8 l' h']

theorem layout (b : Bytes) : b = keyOf b ++ sigOf b ++ tsBytesOf b ++ dnsOf b := by
  simp only [keyOf, sigOf, tsBytesOf, dnsOf]
  have h1 := List.take_append_drop 32 b
  have h2 := List.take_append_drop 64 (b.drop 32)
  have h3 := List.take_append_drop 8 (b.drop 96)
  rw [List.drop_drop] at h2 h3
  simp only [Nat.reduceAdd] at h2 h3
  rw [List.append_assoc, List.append_assoc, h3, h2, h1]

theorem keyOf_length {b : Bytes} (h : 104 ≤ b.length) : (keyOf b).length = 32 := by
  simp [keyOf]; omega

theorem sigOf_length {b : Bytes} (h : 104 ≤ b.length) : (sigOf b).length = 64 := by
  simp [sigOf]; omega

theorem tsBytesOf_length {b : Bytes} (h : 104 ≤ b.length) : (tsBytesOf b).length = 8 := by
  simp [tsBytesOf]; omega

set_option linter.unusedSimpArgs false in
/-- Slices of a concatenation with the header field sizes. -/
theorem parts_of_concat (k s t d : Bytes) (hk : k.length = 32) (hs : s.length = 64)
    (ht : t.length = 8) :
    keyOf (k ++ s ++ t ++ d) = k ∧ sigOf (k ++ s ++ t ++ d) = s ∧
    tsBytesOf (k ++ s ++ t ++ d) = t ∧ dnsOf (k ++ s ++ t ++ d) = d := by
  refine ⟨?_, ?_, ?_, ?_⟩
  · simp [keyOf, List.take_append, hk, List.take_of_length_le]
  · simp [sigOf, List.append_assoc, List.drop_append, hk, List.take_append, hs,
      List.take_of_length_le, List.drop_of_length_le]
  · simp [tsBytesOf, List.append_assoc, List.drop_append, hk, hs, List.take_append, ht,
      List.take_of_length_le, List.drop_of_length_le]
  · simp [dnsOf, List.append_assoc, List.drop_append, hk, hs, ht, List.drop_of_length_le]

end IrohModel.C32
