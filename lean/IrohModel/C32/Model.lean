/-
C32 — pkarr `SignedPacket` constructors and accessors (iroh-dns/src/pkarr.rs),
modelled after the `fix:` commit that validates the key in
`from_bytes_unchecked`.

Wire layout: `<32 key><64 signature><8 BE timestamp><encoded DNS packet>`,
total length within `HEADER_SIZE ..= HEADER_SIZE + MAX_DNS_PACKET_SIZE`.

Cryptography and DNS wire parsing are abstract (`Env`): `validPoint k` — the 32
bytes are a valid ed25519 key (`PublicKey::try_from`), `verify k m s` —
`verify_strict`, `dnsParses d` — `simple_dns::Packet::parse(d).is_ok()`.  In
the correspondence run the verdicts of the real libraries are inputs.
A Rust panic (`expect`, slice index out of range) is the outcome `none` of an
accessor.  Executable, core Lean only.
-/
import IrohModel.Generated.C32
import IrohModel.Common.Hex

namespace IrohModel.C32

abbrev headerSize : Nat := Generated.C32.headerSize
abbrev maxDns : Nat := Generated.C32.maxDnsPacketSize
/-- `MAX_SIGNED_PACKET_SIZE = HEADER_SIZE + MAX_DNS_PACKET_SIZE` -/
abbrev maxTotal : Nat := headerSize + maxDns

structure Env where
  validPoint : Bytes → Bool
  verify : Bytes → Bytes → Bytes → Bool
  dnsParses : Bytes → Bool

/-! ### byte-level helpers -/

/-- Big-endian value of a byte string (`u64::from_be_bytes` on 8 bytes). -/
def beNat (bs : Bytes) : Nat := bs.foldl (fun a b => a * 256 + b.toNat) 0

/-- The `k` low-order base-256 digits of `n`, most significant first. -/
def beBytes : Nat → Nat → Bytes
  | 0, _ => []
  | k + 1, n => beBytes k (n / 256) ++ [UInt8.ofNat (n % 256)]

/-- `u64::to_be_bytes`. -/
def be64 (n : Nat) : Bytes := beBytes 8 n

/-- ASCII decimal digits of `n` (`format!("{}", n)`). -/
def decimal (n : Nat) : Bytes := (Nat.toDigits 10 n).map (fun c => UInt8.ofNat c.toNat)

def ascii (s : String) : Bytes := s.toList.map (fun c => UInt8.ofNat c.toNat)

/-- `signable`: `format!("3:seqi{}e1:v{}:", timestamp, v.len())` followed by `v` (BEP_0044). -/
def signable (ts : Nat) (v : Bytes) : Bytes :=
  ascii "3:seqi" ++ decimal ts ++ ascii "e1:v" ++ decimal v.length ++ ascii ":" ++ v

def keyOf (b : Bytes) : Bytes := b.take 32
def sigOf (b : Bytes) : Bytes := (b.drop 32).take 64
def tsBytesOf (b : Bytes) : Bytes := (b.drop 96).take 8
def tsOf (b : Bytes) : Nat := beNat (tsBytesOf b)
def dnsOf (b : Bytes) : Bytes := b.drop 104

/-- The message whose signature is checked for wire bytes `b`. -/
def signedMsg (b : Bytes) : Bytes := signable (tsOf b) (dnsOf b)

/-! ### constructors -/

inductive Err where
  | tooShort | tooLarge | invalidKey | signatureError | dnsError
deriving DecidableEq, Repr

structure Packet where
  bytes : Bytes
deriving DecidableEq, Repr

/-- `SignedPacket::from_bytes` (checks in source order). -/
def fromBytes (E : Env) (b : Bytes) : Except Err Packet :=
  if b.length < headerSize then .error .tooShort
  else if b.length > maxTotal then .error .tooLarge
  else if !E.validPoint (keyOf b) then .error .invalidKey
  else if !E.verify (keyOf b) (signedMsg b) (sigOf b) then .error .signatureError
  else if !E.dnsParses (dnsOf b) then .error .dnsError
  else .ok ⟨b⟩

/-- `SignedPacket::from_relay_payload(&PublicKey, payload)`; `pk` are the 32 bytes of the key. -/
def fromRelayPayload (E : Env) (pk payload : Bytes) : Except Err Packet :=
  fromBytes E (pk ++ payload)

/-- `SignedPacket::from_bytes_unchecked`: no signature check; length, key validity, DNS parse. -/
def fromBytesUnchecked (E : Env) (b : Bytes) : Except Err Packet :=
  if b.length < headerSize then .error .tooShort
  else if b.length > maxTotal then .error .tooLarge
  else if !E.validPoint (keyOf b) then .error .invalidKey
  else if !E.dnsParses (dnsOf b) then .error .dnsError
  else .ok ⟨b⟩

/-- `SignedPacket::from_parts_unchecked(public_key, signature, timestamp, encoded_packet)`:
plain concatenation (the slices may have any length), then `from_bytes_unchecked`. -/
def fromPartsUnchecked (E : Env) (pk sig : Bytes) (ts : Nat) (dns : Bytes) : Except Err Packet :=
  fromBytesUnchecked E (pk ++ sig ++ be64 ts ++ dns)

/-! ### accessors (`none` = the Rust code panics) -/

/-- `public_key()`: `PublicKey::try_from(&self.bytes[..32]).expect(..)`. -/
def Packet.publicKey (E : Env) (p : Packet) : Option Bytes :=
  if 32 ≤ p.bytes.length ∧ E.validPoint (keyOf p.bytes) then some (keyOf p.bytes) else none

/-- `signature()`: `self.bytes[32..96]`. -/
def Packet.signature (p : Packet) : Option Bytes :=
  if 96 ≤ p.bytes.length then some (sigOf p.bytes) else none

/-- `timestamp()`: `self.bytes[96..104]`. -/
def Packet.timestamp (p : Packet) : Option Nat :=
  if 104 ≤ p.bytes.length then some (tsOf p.bytes) else none

/-- `encoded_packet()`: `&self.bytes[104..]`. -/
def Packet.encodedPacket (p : Packet) : Option Bytes :=
  if 104 ≤ p.bytes.length then some (dnsOf p.bytes) else none

/-- `to_relay_payload()`: `self.bytes[32..]`. -/
def Packet.relayPayload (p : Packet) : Option Bytes :=
  if 32 ≤ p.bytes.length then some (p.bytes.drop 32) else none

/-- `txt_records`, `all_txt_records`, `Display`, `Debug`: all start with `self.public_key()` and
then only use total operations (a failed DNS parse yields an empty list); `Display`/`Debug` also
read the timestamp.  Their *values* (TXT contents) are not part of this model. -/
def Packet.recordsDefined (E : Env) (p : Packet) : Bool :=
  (p.publicKey E).isSome && p.encodedPacket.isSome

def Packet.displayDefined (E : Env) (p : Packet) : Bool :=
  (p.publicKey E).isSome && p.timestamp.isSome && p.encodedPacket.isSome

/-! ### rendering for the correspondence driver -/

def Err.name : Err → String
  | .tooShort => "TooShort" | .tooLarge => "TooLarge" | .invalidKey => "InvalidKey"
  | .signatureError => "SignatureError" | .dnsError => "DnsError"

def okOrPanic (b : Bool) : String := if b then "ok" else "panic"

def renderResult (E : Env) : Except Err Packet → String
  | .error e => s!"err:{e.name}"
  | .ok p =>
    let pk := match p.publicKey E with | some k => hexOfBytes k | none => "panic"
    let sig := match p.signature with | some k => hexOfBytes k | none => "panic"
    let ts := match p.timestamp with | some t => toString t | none => "panic"
    let dns := match p.encodedPacket with | some d => toString d.length | none => "panic"
    let relay := match p.relayPayload with | some d => toString d.length | none => "panic"
    let rec_ := okOrPanic (p.recordsDefined E)
    let disp := okOrPanic (p.displayDefined E)
    s!"ok[pk:{pk},sig:{sig},ts:{ts},dns:{dns},relay:{relay},txt:{rec_},all:{rec_},disp:{disp},dbg:{disp}]"

/-! ### untrusted-input callers

`PkarrRelayClient::resolve(endpoint_id)` (iroh/src/address_lookup/pkarr.rs): the HTTP response
of the pkarr relay is untrusted.  A non-success status (`!status.is_success()`, i.e. outside
200..=299) is an error; otherwise the body is handed to
`SignedPacket::from_relay_payload(&endpoint_id, &payload)` — with the key that was ASKED for —
and nothing else is tried. -/

inductive ResolveErr where
  | httpRequest (status : Nat)
  | verify (e : Err)
deriving DecidableEq, Repr

/-- What `PkarrRelayClient::resolve` does with a response (`asked` = the 32 bytes of the
endpoint id that was looked up). -/
def resolveViaRelay (E : Env) (asked : Bytes) (status : Nat) (body : Bytes) :
    Except ResolveErr Packet :=
  if 200 ≤ status ∧ status ≤ 299 then
    match fromRelayPayload E asked body with
    | .ok p => .ok p
    | .error e => .error (.verify e)
  else .error (.httpRequest status)

def renderResolve (E : Env) : Except ResolveErr Packet → String
  | .ok p => renderResult E (.ok p)
  | .error (.httpRequest _) => "err:Http"
  | .error (.verify e) => s!"err:Verify:{e.name}"

end IrohModel.C32
