/-
C24 — property theorems (only).  Statement of the property:
path selection only ever picks one of the remote's live paths with readable
statistics (and changes nothing when there are none); a direct (primary) path is
always preferred over a relay (backup) path.  Within the same tier the selection
moves away from the current path only to a path whose biased round-trip time is at
least 5 ms better, with IPv6 credited 3 ms.

All theorems quantify over every candidate list (any length, duplicates of an
address across connections, unreadable statistics anywhere) and every current path.
-/
import IrohModel.C24.Lemmas

namespace IrohModel.C24

/-- A primary (direct) path kind; the relay is the only backup. -/
def Addr.Primary (a : Addr) : Prop := a.kind ≠ .relay

/-- Biased round-trip time in ns: IPv6 is credited 3 ms. -/
def biased (a : Addr) (rtt : Nat) : Int :=
  match a.kind with
  | .v6 => (rtt : Int) - 3000000
  | _ => rtt

/-- `(a, rtt)` is a live path with readable statistics. -/
def Live (ps : List Cand) (a : Addr) (rtt : Nat) : Prop := (⟨a, some rtt⟩ : Cand) ∈ ps

theorem tierOf_eq_zero_iff (a : Addr) : tierOf a.kind = 0 ↔ a.Primary := by
  unfold Addr.Primary tierOf
  cases a.kind <;> simp [Generated.C24.tierIpV4, Generated.C24.tierIpV6, Generated.C24.tierRelay,
    Generated.C24.tierUnconfigured]

theorem tierOf_le_one (k : Kind) : tierOf k ≤ 1 := by
  cases k <;> simp [tierOf, Generated.C24.tierIpV4, Generated.C24.tierIpV6,
    Generated.C24.tierRelay, Generated.C24.tierUnconfigured]

/-- The code's sort key is `(tier, biased RTT)` with the statement's numbers. -/
theorem sortKey_eq (a : Addr) (rtt : Nat) : sortKey a rtt = (tierOf a.kind, biased a rtt) := by
  unfold sortKey biased biasOf
  cases a.kind <;> simp [Generated.C24.ipv6RttAdvantageNs] <;> omega

/-- **IPv6 is credited 3 ms**; every other kind is not biased; the relay is the only backup. -/
theorem ipv6_credit (i : Nat) (rtt : Nat) :
    sortKey ⟨.v6, i⟩ rtt = (0, (rtt : Int) - 3000000) ∧ sortKey ⟨.v4, i⟩ rtt = (0, (rtt : Int)) ∧
    sortKey ⟨.custom, i⟩ rtt = (0, (rtt : Int)) ∧ sortKey ⟨.relay, i⟩ rtt = (1, (rtt : Int)) := by
  simp [sortKey_eq, biased, tierOf, Generated.C24.tierIpV4, Generated.C24.tierIpV6,
    Generated.C24.tierRelay, Generated.C24.tierUnconfigured]

/-- The switching threshold is 5 ms. -/
theorem switching_min_5ms : Generated.C24.rttSwitchingMinNs = 5000000 := rfl

/-- What `select` returns, in terms of the loop result. -/
private theorem select_some {current : Option Addr} {ps : List Cand} {a : Addr}
    (h : select current ps = some a) :
    ∃ k, (scan current ps).best = some (a, k) ∧
      ((scan current ps).cur = none ∨
       ∃ ck, (scan current ps).cur = some ck ∧ (ck.1 ≠ k.1 ∨ k.2 + 5000000 ≤ ck.2)) := by
  unfold select at h
  simp only at h
  cases hb : (scan current ps).best with
  | none => rw [hb] at h; cases h
  | some bk =>
    obtain ⟨b, bt, bb⟩ := bk
    rw [hb] at h
    simp only at h
    cases hc : (scan current ps).cur with
    | none =>
      rw [hc] at h
      simp only [Option.some.injEq] at h
      subst h
      exact ⟨(bt, bb), rfl, Or.inl rfl⟩
    | some ck =>
      obtain ⟨ct, cb⟩ := ck
      rw [hc] at h
      simp only [Generated.C24.rttSwitchingMinNs] at h
      by_cases h1 : ct ≠ bt
      · simp only [h1, if_true, ne_eq, not_false_eq_true, Option.some.injEq] at h
        subst h
        exact ⟨(bt, bb), rfl, Or.inr ⟨(ct, cb), rfl, Or.inl h1⟩⟩
      · simp only [h1, if_false] at h
        by_cases h2 : bb + ((5000000 : Nat) : Int) ≤ cb
        · simp only [h2, if_true, Option.some.injEq] at h
          subst h
          exact ⟨(bt, bb), rfl, Or.inr ⟨(ct, cb), rfl, Or.inr (by simpa using h2)⟩⟩
        · simp only [h2, if_false] at h; cases h

/-- **Picks only a live path with readable statistics.** -/
theorem picks_member_with_stats (current : Option Addr) (ps : List Cand) (a : Addr)
    (h : select current ps = some a) : ∃ rtt, Live ps a rtt := by
  obtain ⟨k, hb, _⟩ := select_some h
  have hinv := (scan_inv current ps).1
  rw [hb] at hinv
  obtain ⟨⟨r, hm, _⟩, _⟩ := hinv
  exact ⟨r, hm⟩

/-- **With no readable statistics nothing is selected, and nothing changes.** -/
theorem none_if_no_stats (current : Option Addr) (ps : List Cand)
    (h : ∀ c ∈ ps, c.rtt = none) :
    select current ps = none ∧ applySelection current (select current ps) = current := by
  have hsel : select current ps = none := by
    cases hs : select current ps with
    | none => rfl
    | some a =>
      obtain ⟨r, hm⟩ := picks_member_with_stats current ps a hs
      have := h _ hm
      cases this
  rw [hsel]; exact ⟨rfl, rfl⟩

/-- An empty selection keeps the current path; a selection becomes the path in use.  The
condition in `select_path` is the one the model was read from. -/
theorem apply_rule (current : Option Addr) (a : Addr) :
    applySelection current none = current ∧ applySelection current (some a) = some a ∧
    Generated.C24.applyCondition = "self.state.selected_path.as_ref() != Some(&addr)" := by
  refine ⟨rfl, ?_, rfl⟩
  unfold applySelection
  by_cases h : current = some a <;> simp [h]

/-- **A primary path is always preferred over a backup path**: when some primary path has
readable statistics, a backup path is never selected, and the path in use after applying
the selection is never a backup path (a backup current path is left immediately). -/
theorem primary_beats_backup (current : Option Addr) (ps : List Cand)
    (hp : ∃ p rtt, Live ps p rtt ∧ p.Primary) :
    (∀ a, select current ps = some a → a.Primary) ∧
    (∀ a, applySelection current (select current ps) = some a → a.Primary) := by
  obtain ⟨p, rp, hpm, hpp⟩ := hp
  have hinv := scan_inv current ps
  -- the best key has tier 0
  have hbest : ∃ b k, (scan current ps).best = some (b, k) ∧ k.1 = 0 ∧ tierOf b.kind = k.1 := by
    cases hb : (scan current ps).best with
    | none =>
      have h1 := hinv.1
      rw [hb] at h1
      have := h1 _ hpm
      cases this
    | some bk =>
      obtain ⟨b, k⟩ := bk
      have h1 := hinv.1
      rw [hb] at h1
      obtain ⟨⟨r, _, hk⟩, hmin⟩ := h1
      have hlt := hmin _ hpm rp rfl
      rw [keyLt_false_iff, sortKey_eq] at hlt
      have hp0 := (tierOf_eq_zero_iff p).mpr hpp
      simp only at hlt hp0
      refine ⟨b, k, rfl, by omega, ?_⟩
      rw [hk, sortKey_eq]
  obtain ⟨b, k, hb, hk0, hbt⟩ := hbest
  have hsel : ∀ a, select current ps = some a → a.Primary := by
    intro a ha
    obtain ⟨k', hb', _⟩ := select_some ha
    rw [hb] at hb'
    simp only [Option.some.injEq, Prod.mk.injEq] at hb'
    obtain ⟨hab, _⟩ := hb'
    subst hab
    exact (tierOf_eq_zero_iff b).mp (by omega)
  refine ⟨hsel, ?_⟩
  intro a ha
  cases hs : select current ps with
  | some s =>
    rw [hs] at ha
    have := (apply_rule current s).2.1
    rw [this] at ha
    cases ha
    exact hsel _ hs
  | none =>
    rw [hs] at ha
    -- nothing selected although a best exists: the current path has a key of the best tier
    change current = some a at ha
    unfold select at hs
    simp only [hb] at hs
    cases hc : (scan current ps).cur with
    | none => rw [hc] at hs; cases hs
    | some ck =>
      obtain ⟨ct, cb⟩ := ck
      rw [hc] at hs
      obtain ⟨bt, bb⟩ := k
      simp only at hs hk0
      by_cases h1 : ct ≠ bt
      · simp [h1] at hs
      · have hct : ct = 0 := by omega
        have h2 := hinv.2
        rw [hc] at h2
        obtain ⟨⟨a0, r0, hca, _, hk⟩, _⟩ := h2
        rw [ha] at hca
        cases hca
        rw [sortKey_eq] at hk
        simp only [Prod.mk.injEq] at hk
        exact (tierOf_eq_zero_iff a).mp (by omega)

/-- **Same-tier hysteresis**: if the current path has readable statistics and the selection
is a path of the same tier, then the selected path's biased RTT is at least 5 ms better than
the biased RTT of *every* readable instance of the current path (duplicates across
connections count with their minimum). -/
theorem same_tier_hysteresis (c0 : Addr) (ps : List Cand) (a : Addr)
    (h : select (some c0) ps = some a) (hc0 : ∃ r0, Live ps c0 r0)
    (htier : tierOf a.kind = tierOf c0.kind) :
    ∃ ra, Live ps a ra ∧ ∀ r0, Live ps c0 r0 → biased a ra + 5000000 ≤ biased c0 r0 := by
  obtain ⟨k, hb, hcur⟩ := select_some h
  have hinv := scan_inv (some c0) ps
  have h1 := hinv.1
  rw [hb] at h1
  obtain ⟨⟨ra, hma, hka⟩, _⟩ := h1
  refine ⟨ra, hma, ?_⟩
  obtain ⟨r0', hm0⟩ := hc0
  rcases hcur with hnone | ⟨ck, hck, hcond⟩
  · have h2 := hinv.2
    rw [hnone] at h2
    have := h2 _ hm0 rfl
    cases this
  · have h2 := hinv.2
    rw [hck] at h2
    obtain ⟨⟨a0, rs, hca, _, hks⟩, hmin⟩ := h2
    cases hca
    rw [sortKey_eq] at hka hks
    intro r0 hr0
    have hlt := hmin _ hr0 r0 rfl rfl
    rw [keyLt_false_iff, sortKey_eq, hks] at hlt
    subst hka hks
    simp only at hcond hlt
    rcases hcond with hne | hle
    · exact absurd htier.symm hne
    · omega

/-- Under the same hypotheses the selection is never the current path itself. -/
theorem selection_ne_current (c0 : Addr) (ps : List Cand) (a : Addr)
    (h : select (some c0) ps = some a) (hc0 : ∃ r0, Live ps c0 r0) : a ≠ c0 := by
  intro hac
  subst hac
  obtain ⟨ra, hra, hall⟩ := same_tier_hysteresis a ps a h hc0 rfl
  have := hall ra hra
  omega

/-- **The hysteresis does not get stuck**: a live path of a tier at least as good whose biased
RTT is at least 5 ms better than every readable instance of the current path makes the
selector move (and by `picks_member_with_stats`/`primary_beats_backup` it moves to a live
path). -/
theorem switches_when_5ms_better (c0 : Addr) (ps : List Cand) (c : Addr) (r : Nat)
    (hc : Live ps c r) (htier : tierOf c.kind ≤ tierOf c0.kind)
    (hbetter : ∀ r0, Live ps c0 r0 → biased c r + 5000000 ≤ biased c0 r0) :
    ∃ a, select (some c0) ps = some a := by
  have hinv := scan_inv (some c0) ps
  cases hb : (scan (some c0) ps).best with
  | none =>
    have h1 := hinv.1
    rw [hb] at h1
    have := h1 _ hc
    cases this
  | some bk =>
    obtain ⟨b, bt, bb⟩ := bk
    have h1 := hinv.1
    rw [hb] at h1
    obtain ⟨_, hmin⟩ := h1
    have hlt := hmin _ hc r rfl
    rw [keyLt_false_iff, sortKey_eq] at hlt
    simp only at hlt
    unfold select
    simp only [hb]
    cases hcur : (scan (some c0) ps).cur with
    | none => exact ⟨b, rfl⟩
    | some ck =>
      obtain ⟨ct, cb⟩ := ck
      have h2 := hinv.2
      rw [hcur] at h2
      obtain ⟨⟨a0, rs, hca, hms, hks⟩, _⟩ := h2
      cases hca
      rw [sortKey_eq] at hks
      simp only [Prod.mk.injEq] at hks
      have hb5 := hbetter rs hms
      simp only [Generated.C24.rttSwitchingMinNs]
      by_cases h1 : ct ≠ bt
      · exact ⟨b, by simp [h1]⟩
      · have h2 : bb + 5000000 ≤ cb := by omega
        exact ⟨b, by simp [h1]; exact h2⟩

/-- Without a readable current path the selector picks a live path whose `(tier, biased RTT)`
no live path beats. -/
theorem no_current_picks_min (current : Option Addr) (ps : List Cand)
    (hcur : ∀ c0, current = some c0 → ∀ r0, ¬ Live ps c0 r0) (hne : ∃ c r, Live ps c r) :
    ∃ b rb, select current ps = some b ∧ Live ps b rb ∧
      ∀ c r, Live ps c r →
        tierOf b.kind < tierOf c.kind ∨ (tierOf b.kind = tierOf c.kind ∧ biased b rb ≤ biased c r) := by
  have hinv := scan_inv current ps
  obtain ⟨c, r, hcr⟩ := hne
  have hcn : (scan current ps).cur = none := by
    cases hc : (scan current ps).cur with
    | none => rfl
    | some k =>
      have h2 := hinv.2
      rw [hc] at h2
      obtain ⟨⟨a0, r0, hca, hm, _⟩, _⟩ := h2
      exact absurd hm (hcur a0 hca r0)
  cases hb : (scan current ps).best with
  | none =>
    have h1 := hinv.1
    rw [hb] at h1
    have := h1 _ hcr
    cases this
  | some bk =>
    obtain ⟨b, k⟩ := bk
    have h1 := hinv.1
    rw [hb] at h1
    obtain ⟨⟨rb, hmb, hk⟩, hmin⟩ := h1
    refine ⟨b, rb, ?_, hmb, ?_⟩
    · unfold select; simp only [hb, hcn]
    · intro c' r' hc'
      have := hmin _ hc' r' rfl
      rw [keyLt_false_iff, hk, sortKey_eq, sortKey_eq] at this
      simp only at this
      omega

/-- **The 3 ms IPv6 credit decides between an IPv4 and an IPv6 path**: with no current path and
exactly these two live paths (in any order, any multiplicity), IPv6 is selected when it is less
than 3 ms slower, IPv4 when IPv6 is more than 3 ms slower. -/
theorem ipv6_credit_3ms (i j : Nat) (r4 r6 : Nat) (ps : List Cand)
    (h4 : Live ps ⟨.v4, i⟩ r4) (h6 : Live ps ⟨.v6, j⟩ r6)
    (honly : ∀ c ∈ ps, c = ⟨⟨.v4, i⟩, some r4⟩ ∨ c = ⟨⟨.v6, j⟩, some r6⟩) :
    (r6 < r4 + 3000000 → select none ps = some ⟨.v6, j⟩) ∧
    (r4 + 3000000 < r6 → select none ps = some ⟨.v4, i⟩) := by
  obtain ⟨b, rb, hsel, hmb, hmin⟩ :=
    no_current_picks_min none ps (by intro c0 h; cases h) ⟨_, _, h4⟩
  have hb := honly _ hmb
  have m4 := hmin _ _ h4
  have m6 := hmin _ _ h6
  rcases hb with hb | hb
  · simp only [Cand.mk.injEq, Option.some.injEq] at hb
    obtain ⟨hb1, hb2⟩ := hb
    subst hb1 hb2
    simp [tierOf, biased, Generated.C24.tierIpV4, Generated.C24.tierIpV6] at m6
    constructor
    · intro h; omega
    · intro _; exact hsel
  · simp only [Cand.mk.injEq, Option.some.injEq] at hb
    obtain ⟨hb1, hb2⟩ := hb
    subst hb1 hb2
    simp [tierOf, biased, Generated.C24.tierIpV4, Generated.C24.tierIpV6] at m4
    constructor
    · intro _; exact hsel
    · intro h; omega

-- Non-vacuity: the repo's unit-test scenarios as instances of the hypotheses.
def f1 : Addr := ⟨.v4, 1⟩
def f2 : Addr := ⟨.v4, 2⟩
def s1 : Addr := ⟨.v6, 1⟩
def r1 : Addr := ⟨.relay, 1⟩

example : select (some f1) [⟨f1, some 20000000⟩, ⟨f2, some 15000000⟩] = some f2 := by decide
example : select (some f1) [⟨f1, some 20000000⟩, ⟨f2, some 15000001⟩] = none := by decide
example : Live [⟨f1, some 20000000⟩, ⟨f2, some 15000000⟩] f1 20000000 := by simp [Live]
example : tierOf f2.kind = tierOf f1.kind := rfl
example : select none [⟨f1, some 100000000⟩, ⟨r1, some 10000000⟩] = some f1 := by decide
example : select (some r1) [⟨r1, some 1000000⟩, ⟨f1, some 900000000⟩] = some f1 := by decide
example : f1.Primary ∧ ¬ r1.Primary := by simp [Addr.Primary, f1, r1]
example : select none [⟨f1, some 10000000⟩, ⟨s1, some 12000000⟩] = some s1 := by decide
example : select (some f1) [⟨f1, none⟩, ⟨f2, none⟩] = none := by decide
example : select (some f1) [⟨f1, some 20000000⟩, ⟨f1, some 9000000⟩, ⟨f2, some 5000000⟩] = none := by
  decide

end IrohModel.C24
