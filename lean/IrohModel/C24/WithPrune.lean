/-
C24 ∘ C23 — path selection composed with path pruning.

How the real code connects the two (iroh/src/socket/remote_map/remote_state.rs):
the selector's candidates are the entries of `ConnectionState::paths` of the live
connections; every such entry was put there by `register_and_configure_path`, which
in the same step calls `RemotePathState::insert_open_path(network_path.remote())`
(status `Open`, then `prune_paths`).  `select_path` never reads the path set and
`prune_paths` never touches `ConnectionState::paths` or `selected_path`; what ties them
is the address: a candidate path's remote address is a key of the path set.

The composition is therefore stated over a *world*: a path set (C23), a candidate list
(C24), the current selection, and `key`, the map from a network path to the key of its
remote address in the path set (not injective: two FourTuples with different local
addresses share a remote).  `Linked` is the link established by
`register_and_configure_path`: every candidate's remote address is an `open` entry of
the path set.  To make "prune before selection" observable, selection is run on the
candidates whose remote address is still known to the path set (`visible`).

Everything here is core Lean only (the driver links it).
-/
import IrohModel.C23.Theorems
import IrohModel.C24.Theorems

namespace IrohModel.C24.WithPrune

open IrohModel

/-- The candidate's remote address is a key of the path set. -/
def known (key : Addr → Nat) (paths : List C23.Path) (c : Cand) : Bool :=
  paths.any fun p => p.id == key c.addr

/-- The candidates whose remote address the path set still knows. -/
def visible (key : Addr → Nat) (paths : List C23.Path) (cands : List Cand) : List Cand :=
  cands.filter (known key paths)

/-- What `register_and_configure_path` establishes: every candidate path's remote address is
an open entry of the path set. -/
def Linked (key : Addr → Nat) (paths : List C23.Path) (cands : List Cand) : Prop :=
  ∀ c ∈ cands, ∃ p ∈ paths, p.id = key c.addr ∧ p.status = .open

structure World where
  paths : List C23.Path
  cands : List Cand
  current : Option Addr

/-- Selection on the state as it is, then pruning. -/
def selectThenPrune (key : Addr → Nat) (w : World) : Option Addr × List C23.Path :=
  (select w.current (visible key w.paths w.cands), C23.prune w.paths)

/-- Pruning first, then selection on what is left. -/
def pruneThenSelect (key : Addr → Nat) (w : World) : Option Addr × List C23.Path :=
  let ps := C23.prune w.paths
  (select w.current (visible key ps w.cands), ps)

/-- `Path.Live` as a Boolean test. -/
def isLive (p : C23.Path) : Bool :=
  p.relay || p.status == .open || p.status == .unknown

theorem isLive_iff (p : C23.Path) : isLive p = true ↔ p.Live := by
  unfold isLive C23.Path.Live
  simp [Bool.or_eq_true, or_assoc]

/-- The link survives pruning: pruning never removes an open entry. -/
theorem linked_prune (key : Addr → Nat) (paths : List C23.Path) (cands : List Cand)
    (hwf : C23.WF paths) (h : Linked key paths cands) : Linked key (C23.prune paths) cands := by
  intro c hc
  obtain ⟨p, hp, hid, hs⟩ := h c hc
  exact ⟨p, C23.never_removes_open_unknown_relay paths hwf p hp (Or.inr (Or.inl hs)), hid, hs⟩

theorem visible_of_linked (key : Addr → Nat) (paths : List C23.Path) (cands : List Cand)
    (h : Linked key paths cands) : visible key paths cands = cands := by
  unfold visible
  rw [List.filter_eq_self]
  intro c hc
  obtain ⟨p, hp, hid, _⟩ := h c hc
  unfold known
  rw [List.any_eq_true]
  exact ⟨p, hp, by simp [hid]⟩

/-- **(1) A path that selection returns is never removed by pruning** — for every path set
(including the known-finding class of C23), every candidate list, every current path. -/
theorem selected_survives_prune (key : Addr → Nat) (paths : List C23.Path) (cands : List Cand)
    (current : Option Addr) (hwf : C23.WF paths) (hl : Linked key paths cands)
    (a : Addr) (hsel : select current cands = some a) :
    ∃ p ∈ C23.prune paths, p.id = key a ∧ p.status = .open := by
  obtain ⟨rtt, hm⟩ := picks_member_with_stats current cands a hsel
  exact linked_prune key paths cands hwf hl _ hm

/-- **(2) Pruning before or after selection yields the same selection (and the same path
set)**: pruning only removes entries that are not candidates. -/
theorem selection_stable_under_prune (key : Addr → Nat) (w : World)
    (hwf : C23.WF w.paths) (hl : Linked key w.paths w.cands) :
    selectThenPrune key w = pruneThenSelect key w ∧
    selectThenPrune key w = (select w.current w.cands, C23.prune w.paths) := by
  unfold selectThenPrune pruneThenSelect
  simp only
  rw [visible_of_linked key w.paths w.cands hl,
    visible_of_linked key (C23.prune w.paths) w.cands (linked_prune key w.paths w.cands hwf hl)]
  exact ⟨rfl, rfl⟩

/-- In the class of the known finding (at most `MAX_INACTIVE` inactive paths, pruning applies)
with at least one live path, pruning leaves **exactly** the live paths: everything else goes,
no live path goes. -/
theorem prune_keeps_exactly_live (paths : List C23.Path) (hwf : C23.WF paths)
    (hge : 30 ≤ C23.nonRelayCount paths) (hlive : ∃ p ∈ paths, p.Live)
    (hfew : C23.inactiveCount paths ≤ 10) :
    C23.prune paths = paths.filter isLive := by
  have hge' : C23.maxNonRelay ≤ (C23.primaryOf paths).length := hge
  rw [C23.prune_of_ge hge']
  apply List.filter_congr
  intro p hp
  by_cases hl : p.Live
  · have h1 := C23.not_mem_mustPrune_of_live hwf hp hl
    have h2 := (isLive_iff p).mpr hl
    simp [h1, h2]
  · have h2 : isLive p = false := by
      rw [← Bool.not_eq_true, isLive_iff]; exact hl
    rw [h2]
    simp only [Bool.not_eq_false', List.contains_iff_mem]
    obtain ⟨hr, hs⟩ := C23.not_live_cases hl
    rw [C23.mustPrune_eq, List.mem_append]
    rcases hs with hs | hs
    · left
      unfold C23.failedKeptOf
      have hne : ¬ (C23.failedOf (C23.primaryOf paths)).length = paths.length := by
        rw [C23.failed_all_iff]
        intro hc
        obtain ⟨q, hq, hql⟩ := hlive
        obtain ⟨hq1, hq2⟩ := hc q hq
        rcases hql with h | h | h
        · rw [hq1] at h; cases h
        · rw [hq2] at h; cases h
        · rw [hq2] at h; cases h
      simp only [hne, if_false]
      exact C23.mem_failedOf.mpr
        ⟨p, C23.mem_primaryOf.mpr ⟨hp, hr⟩, (C23.isUnusable_iff p).mpr hs, rfl⟩
    · right
      rw [List.mem_map]
      refine ⟨(p.id, p.closedAt), ?_, rfl⟩
      unfold C23.oldOf
      dsimp only
      have hlen : (C23.sortRecentFirst (C23.inactiveOf (C23.primaryOf paths))).length
          - C23.maxInactive = 0 := by
        rw [C23.sortRecentFirst_length, C23.inactiveOf_primaryOf, List.length_map]
        have : (C23.allInactive paths).length ≤ 10 := hfew
        show (C23.allInactive paths).length - 10 = 0
        omega
      rw [hlen, List.drop_zero, (C23.sortRecentFirst_perm _).mem_iff]
      exact C23.mem_inactiveOf.mpr ⟨p, C23.mem_primaryOf.mpr ⟨hp, hr⟩, hs, rfl⟩

/-- **(3) Interaction with the known finding `C23:empties-path-set`**: even when pruning
removes every other entry (all other paths failed or inactive, at most 10 inactive), the
path set does not become empty as long as there is a candidate, and the selected path's
entry is still there, open. -/
theorem selected_survives_emptying (key : Addr → Nat) (paths : List C23.Path)
    (cands : List Cand) (current : Option Addr) (hwf : C23.WF paths)
    (hl : Linked key paths cands) (hge : 30 ≤ C23.nonRelayCount paths)
    (hfew : C23.inactiveCount paths ≤ 10)
    (a : Addr) (hsel : select current cands = some a) :
    C23.prune paths = paths.filter isLive ∧ C23.prune paths ≠ [] ∧
    ∃ p ∈ C23.prune paths, p.id = key a ∧ p.status = .open := by
  have hs := selected_survives_prune key paths cands current hwf hl a hsel
  obtain ⟨rtt, hm⟩ := picks_member_with_stats current cands a hsel
  obtain ⟨p0, hp0, _, hs0⟩ := hl _ hm
  refine ⟨prune_keeps_exactly_live paths hwf hge ⟨p0, hp0, Or.inr (Or.inl hs0)⟩ hfew, ?_, hs⟩
  obtain ⟨p, hp, _⟩ := hs
  intro hnil; rw [hnil] at hp; cases hp

/-- The concrete key used by the driver and the harness: kind and id modulo 1000 (ids ≥ 1000
are the same remote address seen from another local address). -/
def remoteKey (a : Addr) : Nat :=
  (match a.kind with | .v4 => 0 | .v6 => 1 | .relay => 2 | .custom => 3) * 1000 + a.id % 1000

-- Non-vacuity: the emptying witness of C23 plus one open, selected path.
/-- 29 failed paths, one inactive path, and the open path `f500` (key 500). -/
def witnessPaths : List C23.Path :=
  C23.witnessEmpty ++ [⟨500, false, .open⟩]

def witnessCands : List Cand := [⟨⟨.v4, 500⟩, some 20000000⟩, ⟨⟨.v4, 1500⟩, some 30000000⟩]

example : C23.WF witnessPaths := by unfold C23.WF; decide
example : Linked remoteKey witnessPaths witnessCands := by
  intro c hc
  refine ⟨⟨500, false, .open⟩, by decide, ?_, rfl⟩
  simp only [witnessCands, List.mem_cons, List.mem_nil_iff, or_false] at hc
  rcases hc with rfl | rfl <;> rfl
example : 30 ≤ C23.nonRelayCount witnessPaths := by decide
example : C23.inactiveCount witnessPaths ≤ 10 := by decide
example : select none witnessCands = some ⟨.v4, 500⟩ := by decide
example : C23.prune witnessPaths = [⟨500, false, .open⟩] := by decide
example : C23.prune C23.witnessEmpty = [] := C23.counterexample.2.2.2

end IrohModel.C24.WithPrune
