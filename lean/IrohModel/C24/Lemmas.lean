/-
C24 — helper lemmas: the loop invariant of the single pass.
-/
import IrohModel.C24.Model

namespace IrohModel.C24

theorem keyLt_iff (a b : Key) :
    keyLt a b = true ↔ a.1 < b.1 ∨ (a.1 = b.1 ∧ a.2 < b.2) := by
  simp [keyLt]

theorem keyLt_false_iff (a b : Key) :
    keyLt a b = false ↔ b.1 < a.1 ∨ (a.1 = b.1 ∧ b.2 ≤ a.2) := by
  rw [← Bool.not_eq_true, keyLt_iff]
  omega

/-- `best` after a prefix: nothing readable yet, or a readable member whose key no readable
member beats. -/
def BestInv (pre : List Cand) : Option (Addr × Key) → Prop
  | none => ∀ c ∈ pre, c.rtt = none
  | some (b, k) =>
    (∃ r, (⟨b, some r⟩ : Cand) ∈ pre ∧ k = sortKey b r) ∧
    ∀ c ∈ pre, ∀ r, c.rtt = some r → keyLt (sortKey c.addr r) k = false

/-- `current_key` after a prefix: no readable instance of the current path yet, or the key of
a readable instance that no readable instance of the current path beats. -/
def CurInv (current : Option Addr) (pre : List Cand) : Option Key → Prop
  | none => ∀ c ∈ pre, some c.addr = current → c.rtt = none
  | some k =>
    (∃ a r, current = some a ∧ (⟨a, some r⟩ : Cand) ∈ pre ∧ k = sortKey a r) ∧
    ∀ c ∈ pre, ∀ r, some c.addr = current → c.rtt = some r → keyLt (sortKey c.addr r) k = false

theorem keyLt_trans_false {a b c : Key} (h1 : keyLt a b = false) (h2 : keyLt c b = true) :
    keyLt a c = false := by
  rw [keyLt_false_iff] at h1 ⊢
  rw [keyLt_iff] at h2
  omega

theorem keyLt_irrefl (a : Key) : keyLt a a = false := by
  rw [keyLt_false_iff]; omega

theorem step_best {current : Option Addr} {pre : List Cand} {acc : Acc} (c : Cand)
    (h : BestInv pre acc.best) : BestInv (pre ++ [c]) (step current acc c).best := by
  unfold step
  cases hr : c.rtt with
  | none =>
    simp only
    cases hb : acc.best with
    | none =>
      rw [hb] at h
      intro c' hc'
      rw [List.mem_append, List.mem_singleton] at hc'
      rcases hc' with hc' | hc'
      · exact h c' hc'
      · rw [hc']; exact hr
    | some bk =>
      obtain ⟨b, k⟩ := bk
      rw [hb] at h
      obtain ⟨⟨r, hm, hk⟩, hmin⟩ := h
      refine ⟨⟨r, List.mem_append_left _ hm, hk⟩, ?_⟩
      intro c' hc' r' hr'
      rw [List.mem_append, List.mem_singleton] at hc'
      rcases hc' with hc' | hc'
      · exact hmin c' hc' r' hr'
      · subst hc'; rw [hr] at hr'; cases hr'
  | some rtt =>
    simp only
    have hc : c = ⟨c.addr, some rtt⟩ := by cases c; simp_all
    cases hb : acc.best with
    | none =>
      rw [hb] at h
      simp only [Option.map_none, noneOrLt, if_true]
      refine ⟨⟨rtt, ?_, rfl⟩, ?_⟩
      · rw [← hc]; simp
      · intro c' hc' r' hr'
        rw [List.mem_append, List.mem_singleton] at hc'
        rcases hc' with hc' | hc'
        · rw [h c' hc'] at hr'; cases hr'
        · subst hc'; rw [hr] at hr'; cases hr'
          exact keyLt_irrefl _
    | some bk =>
      obtain ⟨b, k⟩ := bk
      rw [hb] at h
      obtain ⟨⟨r, hm, hk⟩, hmin⟩ := h
      simp only [Option.map_some, noneOrLt]
      by_cases hlt : keyLt (sortKey c.addr rtt) k = true
      · simp only [hlt, if_true]
        refine ⟨⟨rtt, ?_, rfl⟩, ?_⟩
        · rw [← hc]; simp
        · intro c' hc' r' hr'
          rw [List.mem_append, List.mem_singleton] at hc'
          rcases hc' with hc' | hc'
          · exact keyLt_trans_false (hmin c' hc' r' hr') hlt
          · subst hc'; rw [hr] at hr'; cases hr'
            exact keyLt_irrefl _
      · simp only [hlt, if_false, Bool.false_eq_true]
        refine ⟨⟨r, List.mem_append_left _ hm, hk⟩, ?_⟩
        intro c' hc' r' hr'
        rw [List.mem_append, List.mem_singleton] at hc'
        rcases hc' with hc' | hc'
        · exact hmin c' hc' r' hr'
        · subst hc'; rw [hr] at hr'; cases hr'
          simpa using hlt

theorem step_cur {current : Option Addr} {pre : List Cand} {acc : Acc} (c : Cand)
    (h : CurInv current pre acc.cur) : CurInv current (pre ++ [c]) (step current acc c).cur := by
  unfold step
  cases hr : c.rtt with
  | none =>
    simp only
    cases hb : acc.cur with
    | none =>
      rw [hb] at h
      intro c' hc' hcur
      rw [List.mem_append, List.mem_singleton] at hc'
      rcases hc' with hc' | hc'
      · exact h c' hc' hcur
      · rw [hc']; exact hr
    | some k =>
      rw [hb] at h
      obtain ⟨⟨a, r, hca, hm, hk⟩, hmin⟩ := h
      refine ⟨⟨a, r, hca, List.mem_append_left _ hm, hk⟩, ?_⟩
      intro c' hc' r' hcur hr'
      rw [List.mem_append, List.mem_singleton] at hc'
      rcases hc' with hc' | hc'
      · exact hmin c' hc' r' hcur hr'
      · subst hc'; rw [hr] at hr'; cases hr'
  | some rtt =>
    simp only
    have hc : c = ⟨c.addr, some rtt⟩ := by cases c; simp_all
    by_cases hcur : some c.addr = current
    · cases hb : acc.cur with
      | none =>
        rw [hb] at h
        simp only [hcur, noneOrLt, and_self, if_true]
        refine ⟨⟨c.addr, rtt, hcur.symm, ?_, rfl⟩, ?_⟩
        · rw [← hc]; simp
        · intro c' hc' r' hcur' hr'
          rw [List.mem_append, List.mem_singleton] at hc'
          rcases hc' with hc' | hc'
          · rw [h c' hc' hcur'] at hr'; cases hr'
          · subst hc'; rw [hr] at hr'; cases hr'
            exact keyLt_irrefl _
      | some k =>
        rw [hb] at h
        obtain ⟨⟨a, r, hca, hm, hk⟩, hmin⟩ := h
        simp only [hcur, noneOrLt, true_and]
        by_cases hlt : keyLt (sortKey c.addr rtt) k = true
        · simp only [hlt, if_true]
          refine ⟨⟨c.addr, rtt, hcur.symm, ?_, rfl⟩, ?_⟩
          · rw [← hc]; simp
          · intro c' hc' r' hcur' hr'
            rw [List.mem_append, List.mem_singleton] at hc'
            rcases hc' with hc' | hc'
            · exact keyLt_trans_false (hmin c' hc' r' hcur' hr') hlt
            · subst hc'; rw [hr] at hr'; cases hr'
              exact keyLt_irrefl _
        · simp only [hlt, if_false, Bool.false_eq_true]
          refine ⟨⟨a, r, hca, List.mem_append_left _ hm, hk⟩, ?_⟩
          intro c' hc' r' hcur' hr'
          rw [List.mem_append, List.mem_singleton] at hc'
          rcases hc' with hc' | hc'
          · exact hmin c' hc' r' hcur' hr'
          · subst hc'; rw [hr] at hr'; cases hr'
            simpa using hlt
    · simp only [hcur, false_and, if_false]
      cases hb : acc.cur with
      | none =>
        rw [hb] at h
        intro c' hc' hcur'
        rw [List.mem_append, List.mem_singleton] at hc'
        rcases hc' with hc' | hc'
        · exact h c' hc' hcur'
        · rw [hc'] at hcur'; exact absurd hcur' hcur
      | some k =>
        rw [hb] at h
        obtain ⟨⟨a, r, hca, hm, hk⟩, hmin⟩ := h
        refine ⟨⟨a, r, hca, List.mem_append_left _ hm, hk⟩, ?_⟩
        intro c' hc' r' hcur' hr'
        rw [List.mem_append, List.mem_singleton] at hc'
        rcases hc' with hc' | hc'
        · exact hmin c' hc' r' hcur' hr'
        · rw [hc'] at hcur'; exact absurd hcur' hcur

theorem foldl_inv (current : Option Addr) (ps : List Cand) : ∀ (pre : List Cand) (acc : Acc),
    BestInv pre acc.best → CurInv current pre acc.cur →
    BestInv (pre ++ ps) (ps.foldl (step current) acc).best ∧
    CurInv current (pre ++ ps) (ps.foldl (step current) acc).cur := by
  induction ps with
  | nil => intro pre acc hb hc; simpa using ⟨hb, hc⟩
  | cons c cs ih =>
    intro pre acc hb hc
    have := ih (pre ++ [c]) (step current acc c) (step_best c hb) (step_cur c hc)
    simpa [List.foldl_cons, List.append_assoc] using this

/-- The invariant holds after the whole pass. -/
theorem scan_inv (current : Option Addr) (ps : List Cand) :
    BestInv ps (scan current ps).best ∧ CurInv current ps (scan current ps).cur := by
  have := foldl_inv current ps [] ⟨none, none⟩ (by intro c hc; cases hc) (by intro c hc; cases hc)
  simpa [scan] using this

end IrohModel.C24
