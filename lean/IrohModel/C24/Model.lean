/-
C24 — default path selector.  Model of `BiasedRttPathSelector::select` with the
default bias table (iroh/src/socket/biased_rtt_path_selector.rs) and of the way
`RemoteStateActor::select_path` applies a selection
(iroh/src/socket/remote_map/remote_state.rs).

A network path (`FourTuple`) is an opaque identity plus its address kind; RTTs are
nanoseconds (`Duration::as_nanos`), biased RTTs are `Int` (`i128` in the code; the
`saturating_add` cannot saturate: a `Duration` is below 2^94 ns).  The candidate
list is the iteration order of `ctx.paths()`; the same address may occur several
times (one path per connection); `rtt = none` stands for `psd.stats() == None`.
-/
import IrohModel.Generated.C24

namespace IrohModel.C24

open Generated.C24

/-- `AddrKind` (all custom transports are unconfigured in the default table). -/
inductive Kind | v4 | v6 | relay | custom
deriving DecidableEq, Repr

structure Addr where
  kind : Kind
  id : Nat
deriving DecidableEq, Repr

/-- `TransportType` of the default bias table: 0 = `Primary`, 1 = `Backup` (`Primary < Backup`). -/
def tierOf : Kind → Nat
  | .v4 => tierIpV4
  | .v6 => tierIpV6
  | .relay => tierRelay
  | .custom => tierUnconfigured

/-- `rtt_bias` of the default bias table, in ns. -/
def biasOf : Kind → Int
  | .v6 => - (ipv6RttAdvantageNs : Int)
  | _ => 0

/-- `sort_key`: lower is better. -/
abbrev Key := Nat × Int

def sortKey (a : Addr) (rtt : Nat) : Key := (tierOf a.kind, (rtt : Int) + biasOf a.kind)

/-- Derived lexicographic `<` on `(TransportType, i128)`. -/
def keyLt (a b : Key) : Bool := decide (a.1 < b.1) || (a.1 == b.1 && decide (a.2 < b.2))

/-- One candidate path as the selector sees it. -/
structure Cand where
  addr : Addr
  rtt : Option Nat
deriving DecidableEq, Repr

/-- Loop state: `best` and `current_key`. -/
structure Acc where
  best : Option (Addr × Key)
  cur : Option Key
deriving Repr

/-- `opt.is_none_or(|c| key < c)` -/
def noneOrLt (k : Key) : Option Key → Bool
  | none => true
  | some c => keyLt k c

/-- One iteration of the `for psd in ctx.paths()` loop. -/
def step (current : Option Addr) (acc : Acc) (c : Cand) : Acc :=
  match c.rtt with
  | none => acc
  | some rtt =>
    let k := sortKey c.addr rtt
    { cur := if some c.addr = current ∧ noneOrLt k acc.cur = true then some k else acc.cur
      best := if noneOrLt k (acc.best.map (·.2)) = true then some (c.addr, k) else acc.best }

def scan (current : Option Addr) (paths : List Cand) : Acc :=
  paths.foldl (step current) ⟨none, none⟩

/-- `BiasedRttPathSelector::select`; `none` is the empty `PathSelection`. -/
def select (current : Option Addr) (paths : List Cand) : Option Addr :=
  let acc := scan current paths
  match acc.best with
  | none => none
  | some (b, (bt, bb)) =>
    match acc.cur with
    | none => some b
    | some (ct, cb) =>
      if ct ≠ bt then some b
      else if bb + (rttSwitchingMinNs : Int) ≤ cb then some b
      else none

/-- `select_path`: the selected path replaces the current one when there is a selection and it
differs (`if let Some(addr) = selected_addr && selected_path != Some(&addr)`); otherwise
the current path stays. -/
def applySelection (current : Option Addr) (sel : Option Addr) : Option Addr :=
  match sel with
  | some a => if current ≠ some a then some a else current
  | none => current

end IrohModel.C24
