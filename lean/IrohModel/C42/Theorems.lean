/-
C42 — property theorems.

"A connection is established only if every installed hook accepts it, and a rejection by any
hook stops the attempt before the handshake (for outgoing) or closes it with the hook's error
code (after the handshake).  Connecting to one's own id or with an empty protocol name always
fails."

All theorems quantify over ALL hook lists on both sides (any length, any accept/reject pattern,
any close codes), both targets and all three kinds of protocol name.
-/
import IrohModel.C42.Lemmas

namespace IrohModel.C42

/-- **established_iff_all_accept** — the dial ends established (on the dialer, and then also on
the acceptor) iff every dialer hook accepts `before_connect`, every dialer hook and every acceptor
hook accepts `after_handshake`, the target is another endpoint and the protocol name is a
non-empty one the acceptor serves. -/
theorem established_iff_all_accept (t : Target) (a : AlpnKind) (dh ah : List Hook) :
    ((connect t a dh ah).dres = .estab ↔
      AllBefore dh ∧ AllAfter dh ∧ AllAfter ah ∧ t = .peer ∧ a = .ok) ∧
    ((connect t a dh ah).ares = .estab ↔ (connect t a dh ah).dres = .estab) := by
  unfold connect
  by_cases hb : (runBefore 0 dh).2 = false
  · have hnb : ¬ AllBefore dh := fun h => by rw [(runBefore_accept_iff dh 0).mpr h] at hb; cases hb
    simp [hb, hnb]
  · have hb' : (runBefore 0 dh).2 = true := by simpa using hb
    have hab : AllBefore dh := (runBefore_accept_iff dh 0).mp hb'
    rw [if_neg hb]
    cases t with
    | self => simp
    | peer =>
      simp only [reduceCtorEq, if_false]
      cases a with
      | empty => simp
      | other => simp
      | ok =>
        simp only
        cases hd : (runAfter 0 dh).2 with
        | some c =>
          have : ¬ AllAfter dh := fun h => by rw [(runAfter_none_iff dh 0).mpr h] at hd; cases hd
          simp [this]
        | none =>
          have had : AllAfter dh := (runAfter_none_iff dh 0).mp hd
          cases hc : (runAfter 0 ah).2 with
          | some c =>
            have : ¬ AllAfter ah := fun h => by rw [(runAfter_none_iff ah 0).mpr h] at hc; cases hc
            simp [this]
          | none =>
            have haa : AllAfter ah := (runAfter_none_iff ah 0).mp hc
            simp [hab, had, haa]

example : (connect .peer .ok [⟨true, none⟩, ⟨true, none⟩] [⟨false, none⟩]).dres = .estab := by decide

/-- **reject_before_handshake** — if any dialer hook rejects `before_connect`, the attempt stops
with `LocallyRejected` before anything is sent (the acceptor sees no `Incoming`, none of its hooks
run, no after-handshake hook runs anywhere), exactly the hooks up to and including the FIRST
rejecting one were called, in order, and none after it — whatever the target and name. -/
theorem reject_before_handshake (t : Target) (a : AlpnKind) (pre post : List Hook) (x : Hook)
    (ah : List Hook) (hpre : AllBefore pre) (hx : x.beforeAccept = false) :
    let o := connect t a (pre ++ x :: post) ah
    o.dres = .rejBefore ∧ o.ares = .none ∧ ¬ o.handshakeStarted ∧ o.aAfter = some [] ∧ o.dAfter = [] ∧
      o.dBefore = idxFrom 0 (pre.length + 1) := by
  simp [connect, runBefore_first_reject pre post x hpre hx 0, Outcome.handshakeStarted]

/-- Every list with a rejecting `before_connect` hook is of that form (so the theorem above
covers "a rejection by ANY hook"). -/
theorem reject_before_any (t : Target) (a : AlpnKind) (dh ah : List Hook) (h : ¬ AllBefore dh) :
    (connect t a dh ah).dres = .rejBefore ∧ (connect t a dh ah).ares = .none := by
  obtain ⟨pre, x, post, rfl, hp, hx⟩ := split_first_before h
  have := reject_before_handshake t a pre post x ah hp hx
  exact ⟨this.1, this.2.1⟩

example : AllBefore [⟨true, none⟩] ∧ (⟨false, some 3⟩ : Hook).beforeAccept = false := by
  constructor
  · intro h hh; simp at hh; subst hh; rfl
  · rfl

/-- **reject_after_closes_with_code** — with all `before_connect` hooks accepting, a peer target
and a served protocol name:
(1) if the dialer's first rejecting `after_handshake` hook is `x` with code `c`, the dialer gets
`LocallyRejected`, the connection is closed towards the acceptor with exactly `c`, and exactly the
dialer hooks up to `x` ran;
(2) if no dialer hook rejects and the acceptor's first rejecting hook is `x` with code `c`, the
acceptor gets `LocallyRejected`, the dialer sees the connection closed with exactly `c`, all dialer
hooks ran, and exactly the acceptor hooks up to `x` ran. -/
theorem reject_after_closes_with_code (dh ah pre post : List Hook) (x : Hook) (c : Nat)
    (hb : AllBefore dh) (hpre : AllAfter pre) (hx : x.afterReject = some c) :
    (dh = pre ++ x :: post →
      (connect .peer .ok dh ah).dres = .rejAfter ∧ (connect .peer .ok dh ah).ares = .peerRejected c ∧
      (connect .peer .ok dh ah).dAfter = idxFrom 0 (pre.length + 1) ∧
      (connect .peer .ok dh ah).dBefore = idxFrom 0 dh.length) ∧
    (AllAfter dh → ah = pre ++ x :: post →
      (connect .peer .ok dh ah).dres = .closed c ∧ (connect .peer .ok dh ah).ares = .rejAfter ∧
      (connect .peer .ok dh ah).aAfter = some (idxFrom 0 (pre.length + 1)) ∧
      (connect .peer .ok dh ah).dAfter = idxFrom 0 dh.length) := by
  have hbr := runBefore_all hb 0
  constructor
  · intro he
    have hr := runAfter_first_reject pre post x c hpre hx 0
    rw [← he] at hr
    simp [connect, hbr, hr]
  · intro had he
    have hd := runAfter_all had 0
    have hr := runAfter_first_reject pre post x c hpre hx 0
    rw [← he] at hr
    simp [connect, hbr, hd, hr]

/-- Any rejecting `after_handshake` hook prevents establishment and produces a close code of
one of the hooks (general form, no need to exhibit the split). -/
theorem reject_after_any (dh ah : List Hook) (hb : AllBefore dh) (h : ¬ (AllAfter dh ∧ AllAfter ah)) :
    ∃ c, (∃ x, (x ∈ dh ∨ x ∈ ah) ∧ x.afterReject = some c) ∧
      (((connect .peer .ok dh ah).dres = .rejAfter ∧ (connect .peer .ok dh ah).ares = .peerRejected c) ∨
       ((connect .peer .ok dh ah).dres = .closed c ∧ (connect .peer .ok dh ah).ares = .rejAfter)) := by
  by_cases hd : AllAfter dh
  · have ha : ¬ AllAfter ah := fun ha => h ⟨hd, ha⟩
    obtain ⟨pre, x, post, c, he, hp, hx⟩ := split_first_after ha
    have := (reject_after_closes_with_code dh ah pre post x c hb hp hx).2 hd he
    exact ⟨c, ⟨x, Or.inr (by rw [he]; simp), hx⟩, Or.inr ⟨this.1, this.2.1⟩⟩
  · obtain ⟨pre, x, post, c, he, hp, hx⟩ := split_first_after hd
    have := (reject_after_closes_with_code dh ah pre post x c hb hp hx).1 he
    exact ⟨c, ⟨x, Or.inl (by rw [he]; simp), hx⟩, Or.inl ⟨this.1, this.2.1⟩⟩

example : (connect .peer .ok [⟨true, none⟩] [⟨true, none⟩, ⟨true, some 42⟩, ⟨true, some 7⟩]).dres = .closed 42 := by
  decide

/-- **self_connect_fails** — dialing one's own id never establishes and never starts a handshake:
the result is `LocallyRejected` (a hook rejected first) or `SelfConnect`. -/
theorem self_connect_fails (a : AlpnKind) (dh ah : List Hook) :
    ((connect .self a dh ah).dres = .rejBefore ∨ (connect .self a dh ah).dres = .selfConnect) ∧
    (connect .self a dh ah).ares = .none ∧ (connect .self a dh ah).dAfter = [] := by
  unfold connect
  by_cases hb : (runBefore 0 dh).2 = false <;> simp [hb]

/-- **empty_alpn_fails** — dialing with an empty protocol name never establishes and never starts
a handshake: `LocallyRejected`, `SelfConnect` (own id) or `InvalidAlpn`. -/
theorem empty_alpn_fails (t : Target) (dh ah : List Hook) :
    ((connect t .empty dh ah).dres = .rejBefore ∨ (connect t .empty dh ah).dres = .selfConnect ∨
      (connect t .empty dh ah).dres = .invalidAlpn) ∧
    (connect t .empty dh ah).ares = .none ∧ (connect t .empty dh ah).dAfter = [] := by
  unfold connect
  by_cases hb : (runBefore 0 dh).2 = false
  · simp [hb]
  · cases t <;> simp [hb]

/-- The acceptor's `before_connect` verdicts are never consulted. -/
theorem acceptor_before_irrelevant (t : Target) (a : AlpnKind) (dh ah ah' : List Hook)
    (h : ah.map (·.afterReject) = ah'.map (·.afterReject)) :
    connect t a dh ah = connect t a dh ah' := by
  have key : ∀ (l l' : List Hook) (i : Nat), l.map (·.afterReject) = l'.map (·.afterReject) →
      runAfter i l = runAfter i l' := by
    intro l
    induction l with
    | nil => intro l' i hl; cases l' with
      | nil => rfl
      | cons _ _ => simp at hl
    | cons x rest ih =>
      intro l' i hl
      cases l' with
      | nil => simp at hl
      | cons y rest' =>
        simp only [List.map_cons, List.cons.injEq] at hl
        simp only [runAfter, hl.1, ih rest' (i + 1) hl.2]
  unfold connect
  rw [key ah ah' 0 h]

/-- Order of the checks in the source the model relies on (regenerated on every run). -/
theorem source_shape :
    Generated.C42.hooksBeforeSelfCheck = 1 ∧ Generated.C42.selfCheckBeforeAlpnCheck = 1 ∧
    Generated.C42.afterRejectClosesWithCode = 1 := by decide

end IrohModel.C42
