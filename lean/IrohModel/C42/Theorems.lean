/-
C42 — property theorems.

"A connection is established only if every installed hook accepts it, and a rejection by any
hook stops the attempt before the handshake (for outgoing) or closes it with the hook's error
code (after the handshake).  Connecting to one's own id or with an empty protocol name always
fails."

All theorems quantify over ALL hook lists on both sides (any length, any accept/reject pattern,
any close codes), both targets and all three kinds of protocol name.
-/
import IrohModel.C42.Lemmas

namespace IrohModel.C42

/-- **established_iff_all_accept** — the dial ends established (on the dialer, and then also on
the acceptor) iff every dialer hook accepts `before_connect`, every dialer hook and every acceptor
hook accepts `after_handshake`, the target is another endpoint and the protocol name is a
non-empty one the acceptor serves. -/
theorem established_iff_all_accept (t : Target) (a : AlpnKind) (dh ah : List Hook) :
    ((connect t a dh ah).dres = .estab ↔
      AllBefore dh ∧ AllAfter dh ∧ AllAfter ah ∧ t = .peer ∧ a = .ok) ∧
    ((connect t a dh ah).ares = .estab ↔ (connect t a dh ah).dres = .estab) := by
  unfold connect
  by_cases hb : (runBefore 0 dh).2 = false
  · have hnb : ¬ AllBefore dh := fun h => by rw [(runBefore_accept_iff dh 0).mpr h] at hb; cases hb
    simp [hb, hnb]
  · have hb' : (runBefore 0 dh).2 = true := by simpa using hb
    have hab : AllBefore dh := (runBefore_accept_iff dh 0).mp hb'
    rw [if_neg hb]
    cases t with
    | self => simp
    | peer =>
      simp only [reduceCtorEq, if_false]
      cases a with
      | empty => simp
      | other => simp
      | ok =>
        simp only
        cases hd : (runAfter 0 dh).2 with
        | some c =>
          have : ¬ AllAfter dh := fun h => by rw [(runAfter_none_iff dh 0).mpr h] at hd; cases hd
          simp [this]
        | none =>
          have had : AllAfter dh := (runAfter_none_iff dh 0).mp hd
          cases hc : (runAfter 0 ah).2 with
          | some c =>
            have : ¬ AllAfter ah := fun h => by rw [(runAfter_none_iff ah 0).mpr h] at hc; cases hc
            simp [this]
          | none =>
            have haa : AllAfter ah := (runAfter_none_iff ah 0).mp hc
            simp [hab, had, haa]

example : (connect .peer .ok [⟨true, none⟩, ⟨true, none⟩] [⟨false, none⟩]).dres = .estab := by decide

/-- **reject_before_handshake** — if any dialer hook rejects `before_connect`, the attempt stops
with `LocallyRejected` before anything is sent (the acceptor sees no `Incoming`, none of its hooks
run, no after-handshake hook runs anywhere), exactly the hooks up to and including the FIRST
rejecting one were called, in order, and none after it — whatever the target and name. -/
theorem reject_before_handshake (t : Target) (a : AlpnKind) (pre post : List Hook) (x : Hook)
    (ah : List Hook) (hpre : AllBefore pre) (hx : x.beforeAccept = false) :
    let o := connect t a (pre ++ x :: post) ah
    o.dres = .rejBefore ∧ o.ares = .none ∧ ¬ o.handshakeStarted ∧ o.aAfter = some [] ∧ o.dAfter = [] ∧
      o.dBefore = idxFrom 0 (pre.length + 1) := by
  simp [connect, runBefore_first_reject pre post x hpre hx 0, Outcome.handshakeStarted]

/-- Every list with a rejecting `before_connect` hook is of that form (so the theorem above
covers "a rejection by ANY hook"). -/
theorem reject_before_any (t : Target) (a : AlpnKind) (dh ah : List Hook) (h : ¬ AllBefore dh) :
    (connect t a dh ah).dres = .rejBefore ∧ (connect t a dh ah).ares = .none := by
  obtain ⟨pre, x, post, rfl, hp, hx⟩ := split_first_before h
  have := reject_before_handshake t a pre post x ah hp hx
  exact ⟨this.1, this.2.1⟩

example : AllBefore [⟨true, none⟩] ∧ (⟨false, some 3⟩ : Hook).beforeAccept = false := by
  constructor
  · intro h hh; simp at hh; subst hh; rfl
  · rfl

/-- **reject_after_closes_with_code** — with all `before_connect` hooks accepting, a peer target
and a served protocol name:
(1) if the dialer's first rejecting `after_handshake` hook is `x` with code `c`, the dialer gets
`LocallyRejected`, the connection is closed towards the acceptor with exactly `c`, and exactly the
dialer hooks up to `x` ran;
(2) if no dialer hook rejects and the acceptor's first rejecting hook is `x` with code `c`, the
acceptor gets `LocallyRejected`, the dialer sees the connection closed with exactly `c`, all dialer
hooks ran, and exactly the acceptor hooks up to `x` ran. -/
theorem reject_after_closes_with_code (dh ah pre post : List Hook) (x : Hook) (c : Nat)
    (hb : AllBefore dh) (hpre : AllAfter pre) (hx : x.afterReject = some c) :
    (dh = pre ++ x :: post →
      (connect .peer .ok dh ah).dres = .rejAfter ∧ (connect .peer .ok dh ah).ares = .peerRejected c ∧
      (connect .peer .ok dh ah).dAfter = idxFrom 0 (pre.length + 1) ∧
      (connect .peer .ok dh ah).dBefore = idxFrom 0 dh.length) ∧
    (AllAfter dh → ah = pre ++ x :: post →
      (connect .peer .ok dh ah).dres = .closed c ∧ (connect .peer .ok dh ah).ares = .rejAfter ∧
      (connect .peer .ok dh ah).aAfter = some (idxFrom 0 (pre.length + 1)) ∧
      (connect .peer .ok dh ah).dAfter = idxFrom 0 dh.length) := by
  have hbr := runBefore_all hb 0
  constructor
  · intro he
    have hr := runAfter_first_reject pre post x c hpre hx 0
    rw [← he] at hr
    simp [connect, hbr, hr]
  · intro had he
    have hd := runAfter_all had 0
    have hr := runAfter_first_reject pre post x c hpre hx 0
    rw [← he] at hr
    simp [connect, hbr, hd, hr]

/-- Any rejecting `after_handshake` hook prevents establishment and produces a close code of
one of the hooks (general form, no need to exhibit the split). -/
theorem reject_after_any (dh ah : List Hook) (hb : AllBefore dh) (h : ¬ (AllAfter dh ∧ AllAfter ah)) :
    ∃ c, (∃ x, (x ∈ dh ∨ x ∈ ah) ∧ x.afterReject = some c) ∧
      (((connect .peer .ok dh ah).dres = .rejAfter ∧ (connect .peer .ok dh ah).ares = .peerRejected c) ∨
       ((connect .peer .ok dh ah).dres = .closed c ∧ (connect .peer .ok dh ah).ares = .rejAfter)) := by
  by_cases hd : AllAfter dh
  · have ha : ¬ AllAfter ah := fun ha => h ⟨hd, ha⟩
    obtain ⟨pre, x, post, c, he, hp, hx⟩ := split_first_after ha
    have := (reject_after_closes_with_code dh ah pre post x c hb hp hx).2 hd he
    exact ⟨c, ⟨x, Or.inr (by rw [he]; simp), hx⟩, Or.inr ⟨this.1, this.2.1⟩⟩
  · obtain ⟨pre, x, post, c, he, hp, hx⟩ := split_first_after hd
    have := (reject_after_closes_with_code dh ah pre post x c hb hp hx).1 he
    exact ⟨c, ⟨x, Or.inl (by rw [he]; simp), hx⟩, Or.inl ⟨this.1, this.2.1⟩⟩

example : (connect .peer .ok [⟨true, none⟩] [⟨true, none⟩, ⟨true, some 42⟩, ⟨true, some 7⟩]).dres = .closed 42 := by
  decide

/-- **self_connect_fails** — dialing one's own id never establishes and never starts a handshake:
the result is `LocallyRejected` (a hook rejected first) or `SelfConnect`. -/
theorem self_connect_fails (a : AlpnKind) (dh ah : List Hook) :
    ((connect .self a dh ah).dres = .rejBefore ∨ (connect .self a dh ah).dres = .selfConnect) ∧
    (connect .self a dh ah).ares = .none ∧ (connect .self a dh ah).dAfter = [] := by
  unfold connect
  by_cases hb : (runBefore 0 dh).2 = false <;> simp [hb]

/-- **empty_alpn_fails** — dialing with an empty protocol name never establishes and never starts
a handshake: `LocallyRejected`, `SelfConnect` (own id) or `InvalidAlpn`. -/
theorem empty_alpn_fails (t : Target) (dh ah : List Hook) :
    ((connect t .empty dh ah).dres = .rejBefore ∨ (connect t .empty dh ah).dres = .selfConnect ∨
      (connect t .empty dh ah).dres = .invalidAlpn) ∧
    (connect t .empty dh ah).ares = .none ∧ (connect t .empty dh ah).dAfter = [] := by
  unfold connect
  by_cases hb : (runBefore 0 dh).2 = false
  · simp [hb]
  · cases t <;> simp [hb]

/-- The acceptor's `before_connect` verdicts are never consulted. -/
theorem acceptor_before_irrelevant (t : Target) (a : AlpnKind) (dh ah ah' : List Hook)
    (h : ah.map (·.afterReject) = ah'.map (·.afterReject)) :
    connect t a dh ah = connect t a dh ah' := by
  have key : ∀ (l l' : List Hook) (i : Nat), l.map (·.afterReject) = l'.map (·.afterReject) →
      runAfter i l = runAfter i l' := by
    intro l
    induction l with
    | nil => intro l' i hl; cases l' with
      | nil => rfl
      | cons _ _ => simp at hl
    | cons x rest ih =>
      intro l' i hl
      cases l' with
      | nil => simp at hl
      | cons y rest' =>
        simp only [List.map_cons, List.cons.injEq] at hl
        simp only [runAfter, hl.1, ih rest' (i + 1) hl.2]
  unfold connect
  rw [key ah ah' 0 h]

/-! ### Connect variants -/

/-- A dialer that holds a `Connection` has had all its after-handshake hooks called, in order, and
all accepted; the same for the acceptor. (Plain `connect`; lifted to every variant below.) -/
theorem connection_implies_after_hooks (t : Target) (a : AlpnKind) (dh ah : List Hook) :
    (((connect t a dh ah).dres = .estab ∨ ∃ c, (connect t a dh ah).dres = .closed c) →
      AllAfter dh ∧ (connect t a dh ah).dAfter = idxFrom 0 dh.length) ∧
    ((connect t a dh ah).ares = .estab →
      AllAfter ah ∧ (connect t a dh ah).aAfter = some (idxFrom 0 ah.length)) := by
  unfold connect
  by_cases hb : (runBefore 0 dh).2 = false
  · simp [hb]
  · rw [if_neg hb]
    cases t with
    | self => simp
    | peer =>
      simp only [reduceCtorEq, if_false]
      cases a with
      | empty => simp
      | other => simp
      | ok =>
        simp only
        cases hd : (runAfter 0 dh).2 with
        | some c => simp
        | none =>
          have had : AllAfter dh := (runAfter_none_iff dh 0).mp hd
          have hda := runAfter_all had 0
          cases hc : (runAfter 0 ah).2 with
          | some c => simp [had, hda]
          | none =>
            have haa : AllAfter ah := (runAfter_none_iff ah 0).mp hc
            simp [had, hda, haa, runAfter_all haa 0]

/-- **every_variant_runs_after_hooks** — for EVERY connect variant on either side (plain
`connect`, `connect_with_opts`, `into_0rtt` handed back / accepted / rejected-then-1-RTT;
`Accepting`, `Incoming`, `Accepting::into_0rtt`): the hook outcome is the one of the plain dial
(all variants end in the same chain), and a side that obtains a `Connection` has had every one of
its after-handshake hooks invoked, in order, all accepting — a rejecting hook on a side means that
side never holds a `Connection`, whichever variant was used. -/
theorem every_variant_runs_after_hooks (dv : DVariant) (av : AVariant) (t : Target) (a : AlpnKind)
    (dh ah : List Hook) :
    (connectV dv av t a dh ah).base = connect t a dh ah ∧
    ((((connectV dv av t a dh ah).base.dres = .estab ∨ ∃ c, (connectV dv av t a dh ah).base.dres = .closed c) →
      AllAfter dh ∧ (connectV dv av t a dh ah).base.dAfter = idxFrom 0 dh.length)) ∧
    ((connectV dv av t a dh ah).base.ares = .estab →
      AllAfter ah ∧ (connectV dv av t a dh ah).base.aAfter = some (idxFrom 0 ah.length)) ∧
    (¬ AllAfter dh → (connectV dv av t a dh ah).base.dres ≠ .estab ∧
      ∀ c, (connectV dv av t a dh ah).base.dres ≠ .closed c) ∧
    (¬ AllAfter ah → (connectV dv av t a dh ah).base.ares ≠ .estab) := by
  have h := connection_implies_after_hooks t a dh ah
  refine ⟨rfl, h.1, h.2, ?_, ?_⟩
  · intro hn
    refine ⟨fun he => hn (h.1 (Or.inl he)).1, fun c hc => hn (h.1 (Or.inr ⟨c, hc⟩)).1⟩
  · intro hn he; exact hn (h.2 he).1

example : (connectV .zAccepted .zeroRtt .peer .ok [⟨true, none⟩] [⟨true, none⟩]).base.dres = .estab := by decide

/-- **zero_rtt_data_before_hooks** — stated as the code allows it:
(a) in the 0-RTT variants, once `connect_with_opts` succeeded (before-connect hooks, self check,
    empty-name check — these DO come first), the dialer's application writes stream data before any
    after-handshake hook has been invoked, whatever the after-handshake verdicts on either side are
    — in particular also when the dial then ends `LocallyRejected` or closed by the acceptor's hook;
(b) with accepted early data and an acceptor that uses `Accepting::into_0rtt`, the acceptor's
    application reads that data before ITS hooks are invoked — even if one of them then rejects
    (acceptor result `rejAfter`, the dialer sees the code);
(c) in the variants without 0-RTT no application data moves before the hooks: nothing is written
    early and nothing is read early;
(d) a rejecting before-connect hook (or a self dial / empty name) prevents 0-RTT data as well. -/
theorem zero_rtt_data_before_hooks (dv : DVariant) (av : AVariant) (t : Target) (a : AlpnKind)
    (dh ah : List Hook) :
    (dv.attempts0rtt = true → AllBefore dh → t = .peer → a = .ok →
      (connectV dv av t a dh ah).dEarlyWrite = true) ∧
    (dv = .zAccepted → av = .zeroRtt → AllBefore dh → AllAfter dh → t = .peer → a = .ok →
      (connectV dv av t a dh ah).aEarly = .pre ∧
      (¬ AllAfter ah → (connectV dv av t a dh ah).base.ares = .rejAfter)) ∧
    (dv.attempts0rtt = false →
      (connectV dv av t a dh ah).dEarlyWrite = false ∧ (connectV dv av t a dh ah).aEarly = .none) ∧
    ((¬ AllBefore dh ∨ t = .self ∨ a = .empty) →
      (connectV dv av t a dh ah).dEarlyWrite = false ∧ (connectV dv av t a dh ah).aEarly = .none ∧
      (connectV dv av t a dh ah).z = .notAttempted) := by
  refine ⟨?_, ?_, ?_, ?_⟩
  · intro h0 hb ht ha
    subst ht; subst ha
    simp [connectV, gotConnecting, (runBefore_accept_iff dh 0).mpr hb, h0]
  · intro hdv hav hb hda ht ha
    subst hdv; subst hav; subst ht; subst ha
    have hd := (runAfter_none_iff dh 0).mpr hda
    refine ⟨by simp [connectV, gotConnecting, (runBefore_accept_iff dh 0).mpr hb, hd], ?_⟩
    intro hna
    obtain ⟨pre, x, post, c, he, hp, hx⟩ := split_first_after hna
    have := (reject_after_closes_with_code dh ah pre post x c hb hp hx).2 hda he
    exact this.2.1
  · intro h0
    cases dv <;> simp [DVariant.attempts0rtt] at h0 <;> simp [connectV, DVariant.attempts0rtt]
  · intro h
    have hgc : gotConnecting t a dh = false := by
      unfold gotConnecting
      rcases h with h | h | h
      · have : (runBefore 0 dh).2 = false := by
          cases hb : (runBefore 0 dh).2 with
          | false => rfl
          | true => exact absurd ((runBefore_accept_iff dh 0).mp hb) h
        simp [this]
      · subst h; simp
      · subst h; simp
    simp [connectV, hgc]

example : (connectV .zAccepted .zeroRtt .peer .ok [⟨true, none⟩] [⟨true, some 7⟩]).aEarly = .pre ∧
    (connectV .zAccepted .zeroRtt .peer .ok [⟨true, none⟩] [⟨true, some 7⟩]).base.ares = .rejAfter ∧
    (connectV .zAccepted .zeroRtt .peer .ok [⟨true, none⟩] [⟨true, some 7⟩]).base.dres = .closed 7 := by decide

/-- The 0-RTT status a dialer learns: only from a `handshake_completed()` that succeeded, i.e. only
if all its after-handshake hooks accepted. -/
theorem zstatus_known_only_after_hooks (dv : DVariant) (av : AVariant) (t : Target) (a : AlpnKind)
    (dh ah : List Hook)
    (h : (connectV dv av t a dh ah).z = .accepted ∨ (connectV dv av t a dh ah).z = .rejected) :
    AllAfter dh := by
  apply (runAfter_none_iff dh 0).mp
  cases hd : (runAfter 0 dh).2 with
  | none => rfl
  | some c =>
    exfalso
    unfold connectV at h
    by_cases hgc : gotConnecting t a dh = true
    · cases dv <;> simp [hgc, hd] at h
    · simp [hgc] at h

/-- Order of the checks in the source the model relies on (regenerated on every run). -/
theorem source_shape :
    Generated.C42.hooksBeforeSelfCheck = 1 ∧ Generated.C42.selfCheckBeforeAlpnCheck = 1 ∧
    Generated.C42.afterRejectClosesWithCode = 1 ∧ Generated.C42.uncheckedConnCallSites = 0 := by decide

end IrohModel.C42
