/-
C42 — connection hooks and connect preconditions.
Model of `iroh/src/endpoint/hooks.rs` (`EndpointHooksList::{before_connect, after_handshake}`),
`iroh/src/endpoint.rs` (`connect_with_opts`) and `iroh/src/endpoint/connection.rs`
(`conn_from_noq_conn`, used by both `Connecting` and `Accepting`).

```
connect_with_opts(addr, alpn):
    if hooks.before_connect(addr, alpn) == Reject { return Err(LocallyRejected) }   -- (1)
    ensure!(addr.id != self.id(), SelfConnect)                                       -- (2)
    ensure!(!alpn.is_empty(), InvalidAlpn)                                           -- (3)
    .. resolve, start the QUIC handshake ..                                          -- first packet leaves here
Connecting / Accepting (each side, after ITS handshake completed):
    conn = register(..)
    if let Reject{code, reason} = hooks.after_handshake(&conn) { conn.close(code, reason); return Err(LocallyRejected) }
hooks list: for hook in hooks { match hook.f(..).await { Accept => continue, reject => return reject } } Accept
```
Order of the checks (1) (2) (3) is the code's: the hooks see self-dials and empty names first.

Assumed (third-party / timing, exercised by the correspondence run): the dialer completes its
handshake before the acceptor does (TLS 1.3: the acceptor needs the dialer's Finished), so the
dialer's after-handshake hooks run no later than the acceptor's; a `close(code, reason)` reaches
the peer as `ApplicationClosed{code, reason}`; no common protocol name ⇒ the TLS stack fails the
handshake on both sides and no after-handshake hook runs.  When the dialer's own hook rejects,
whether the acceptor still gets to run its hooks before it sees the close is a race: the model
leaves the acceptor's hook calls unspecified (`none`) in that case.
-/
import IrohModel.Generated.C42

namespace IrohModel.C42

/-- One installed `EndpointHooks` value, as data: its two verdict functions are constant in the
correspondence run; the theorems only use the verdicts. -/
structure Hook where
  /-- `before_connect` returns Accept -/
  beforeAccept : Bool
  /-- `after_handshake` returns `Reject{error_code}` -/
  afterReject : Option Nat
deriving DecidableEq, Repr

inductive Target where
  | peer | self
deriving DecidableEq, Repr

inductive AlpnKind where
  /-- a non-empty name the acceptor serves -/
  | ok
  /-- a non-empty name the acceptor does not serve -/
  | other
  | empty
deriving DecidableEq, Repr

/-- `EndpointHooksList::before_connect`: indices of the hooks called (ids start at `i`) and
whether the chain accepted. -/
def runBefore (i : Nat) : List Hook → List Nat × Bool
  | [] => ([], true)
  | h :: rest =>
    if h.beforeAccept then
      let r := runBefore (i + 1) rest
      (i :: r.1, r.2)
    else ([i], false)

/-- `EndpointHooksList::after_handshake`: hooks called and the rejecting hook's code, if any. -/
def runAfter (i : Nat) : List Hook → List Nat × Option Nat
  | [] => ([], none)
  | h :: rest =>
    match h.afterReject with
    | some c => ([i], some c)
    | none =>
      let r := runAfter (i + 1) rest
      (i :: r.1, r.2)

inductive DRes where
  | rejBefore | selfConnect | invalidAlpn | noAlpn | rejAfter
  /-- the peer closed with this application code -/
  | closed (code : Nat)
  | estab
deriving DecidableEq, Repr

inductive ARes where
  /-- no `Incoming` at all: nothing left the dialer -/
  | none
  | hsFailed
  /-- the dialer's after-handshake hook closed the connection with this code -/
  | peerRejected (code : Nat)
  | rejAfter
  | estab
deriving DecidableEq, Repr

structure Outcome where
  /-- dialer: `before_connect` calls -/
  dBefore : List Nat
  /-- dialer: `after_handshake` calls -/
  dAfter : List Nat
  dres : DRes
  /-- acceptor: `after_handshake` calls; `none` = unspecified (race, see header) -/
  aAfter : Option (List Nat)
  ares : ARes
deriving DecidableEq, Repr

/-- One dial. `dh` / `ah` are the hooks installed on the dialer / acceptor, in order. -/
def connect (t : Target) (a : AlpnKind) (dh ah : List Hook) : Outcome :=
  let b := runBefore 0 dh
  if b.2 = false then ⟨b.1, [], .rejBefore, some [], .none⟩
  else if t = .self then ⟨b.1, [], .selfConnect, some [], .none⟩
  else match a with
    | .empty => ⟨b.1, [], .invalidAlpn, some [], .none⟩
    | .other => ⟨b.1, [], .noAlpn, some [], .hsFailed⟩
    | .ok =>
      let d := runAfter 0 dh
      match d.2 with
      | some c => ⟨b.1, d.1, .rejAfter, none, .peerRejected c⟩
      | none =>
        let ac := runAfter 0 ah
        match ac.2 with
        | some c => ⟨b.1, d.1, .closed c, some ac.1, .rejAfter⟩
        | none => ⟨b.1, d.1, .estab, some ac.1, .estab⟩

/-- Something left the dialer (the acceptor saw an `Incoming`). -/
def Outcome.handshakeStarted (o : Outcome) : Prop := o.ares ≠ .none

/-! ### Connect variants

Every way the public API produces a `Connection` goes through ONE function,
`conn_from_noq_conn` (authenticate, register, run `hooks.after_handshake`, close on reject):

```
dialer   Endpoint::connect                = connect_with_opts(..).await?.await
         Connecting: Future::poll         → conn_from_noq_conn
         Connecting::into_0rtt            → Err(self)  (no session ticket: the same Connecting back)
                                          → Ok(OutgoingZeroRttConnection); its
                                            handshake_completed() → conn_from_noq_conn, then
                                            ZeroRttStatus::{Accepted, Rejected}(conn)
acceptor Accepting: Future::poll          → conn_from_noq_conn
         Incoming: IntoFuture             → conn_from_noq_conn
         Accepting::into_0rtt             → IncomingZeroRttConnection; its
                                            handshake_completed() → conn_from_noq_conn
```
so the hook outcome of a dial does not depend on the variant (`connectV .. .base = connect ..`).
What DOES depend on it is application data: an `OutgoingZeroRttConnection` /
`IncomingZeroRttConnection` is a usable connection handle (`open_bi`, `accept_bi`, …) BEFORE
`handshake_completed()` is awaited, i.e. before any after-handshake hook of that side has been
invoked — and the hooks of a side run only if/when its application awaits
`handshake_completed()`.  `before_connect` hooks and the two preconditions still come first
(`connect_with_opts` must succeed to have a `Connecting` at all).
-/

inductive DVariant where
  /-- `Endpoint::connect` -/
  | connect
  /-- `connect_with_opts` then awaiting the `Connecting` -/
  | opts
  /-- `into_0rtt` without a usable session ticket: hands the `Connecting` back -/
  | zNoTicket
  /-- `into_0rtt` with a ticket, the acceptor accepts the early data -/
  | zAccepted
  /-- `into_0rtt` with a ticket the acceptor can no longer use: 1-RTT fallback -/
  | zRejected
deriving DecidableEq, Repr

inductive AVariant where
  /-- `incoming.accept()?.await` -/
  | accepting
  /-- `incoming.await` -/
  | incoming
  /-- `Accepting::into_0rtt`, the application reads before `handshake_completed()` -/
  | zeroRtt
deriving DecidableEq, Repr

inductive ZStatus where
  | notAttempted
  /-- `into_0rtt` returned `Err(connecting)` -/
  | handedBack
  | accepted
  | rejected
  /-- attempted, but `handshake_completed()` failed (the dialer's hook rejected): never learned -/
  | unknown
deriving DecidableEq, Repr

inductive Early where
  | none
  /-- the acceptor's application read 0-RTT stream data BEFORE its after-handshake hooks were invoked -/
  | pre
  /-- race with the dialer's close -/
  | unspecified
deriving DecidableEq, Repr

def DVariant.attempts0rtt : DVariant → Bool
  | .zAccepted | .zRejected => true
  | _ => false

structure VOutcome where
  base : Outcome
  z : ZStatus
  /-- the dialer's application could (and in the run does) write stream data before any of its
  after-handshake hooks was invoked -/
  dEarlyWrite : Bool
  aEarly : Early
deriving DecidableEq, Repr

/-- `connect_with_opts` returned a `Connecting` (hooks, self check, empty-name check passed). -/
def gotConnecting (t : Target) (a : AlpnKind) (dh : List Hook) : Bool :=
  (runBefore 0 dh).2 && decide (t = .peer) && decide (a ≠ .empty)

def connectV (dv : DVariant) (av : AVariant) (t : Target) (a : AlpnKind) (dh ah : List Hook) : VOutcome :=
  let gc := gotConnecting t a dh
  let dAccepts := decide ((runAfter 0 dh).2 = none)
  { base := connect t a dh ah
    z := if !gc then .notAttempted else
      match dv with
      | .connect => .notAttempted
      | .opts => .notAttempted
      | .zNoTicket => .handedBack
      | .zAccepted => if dAccepts && decide (a = .ok) then .accepted else .unknown
      | .zRejected => if dAccepts && decide (a = .ok) then .rejected else .unknown
    dEarlyWrite := gc && dv.attempts0rtt
    aEarly :=
      if gc && decide (dv = .zAccepted) && decide (av = .zeroRtt) && decide (a = .ok) then
        (if dAccepts then .pre else .unspecified)
      else .none }

end IrohModel.C42
