/-
C42 — the hook chains: first reject wins, later hooks are not called.
-/
import IrohModel.C42.Model

namespace IrohModel.C42

/-- All hooks of the list accept `before_connect`. -/
def AllBefore (hs : List Hook) : Prop := ∀ h, h ∈ hs → h.beforeAccept = true
/-- All hooks of the list accept `after_handshake`. -/
def AllAfter (hs : List Hook) : Prop := ∀ h, h ∈ hs → h.afterReject = none

/-- `[i, i+1, .., i+n-1]`. -/
def idxFrom (i : Nat) : Nat → List Nat
  | 0 => []
  | n + 1 => i :: idxFrom (i + 1) n

theorem runBefore_all {hs : List Hook} (h : AllBefore hs) (i : Nat) :
    runBefore i hs = (idxFrom i hs.length, true) := by
  induction hs generalizing i with
  | nil => rfl
  | cons x rest ih =>
    have hx : x.beforeAccept = true := h x (List.mem_cons_self)
    have hr : AllBefore rest := fun y hy => h y (List.mem_cons_of_mem _ hy)
    simp [runBefore, hx, ih hr, idxFrom]

theorem runBefore_accept_iff (hs : List Hook) (i : Nat) : (runBefore i hs).2 = true ↔ AllBefore hs := by
  induction hs generalizing i with
  | nil => simp [runBefore, AllBefore]
  | cons x rest ih =>
    simp only [runBefore]
    by_cases hx : x.beforeAccept = true
    · rw [if_pos hx]
      simp only
      rw [ih]
      constructor
      · intro hr y hy
        rcases List.mem_cons.mp hy with rfl | hy
        · exact hx
        · exact hr y hy
      · intro h y hy; exact h y (List.mem_cons_of_mem _ hy)
    · rw [if_neg hx]
      simp only [Bool.false_eq_true, false_iff]
      intro h; exact hx (h x List.mem_cons_self)

/-- The chain stops at the first rejecting hook: with `pre` all accepting and `x` rejecting,
exactly the hooks `i .. i + |pre|` are called, nothing of `post`. -/
theorem runBefore_first_reject (pre post : List Hook) (x : Hook) (hpre : AllBefore pre)
    (hx : x.beforeAccept = false) (i : Nat) :
    runBefore i (pre ++ x :: post) = (idxFrom i (pre.length + 1), false) := by
  induction pre generalizing i with
  | nil => simp [runBefore, hx, idxFrom]
  | cons y rest ih =>
    have hy : y.beforeAccept = true := hpre y List.mem_cons_self
    have hr : AllBefore rest := fun z hz => hpre z (List.mem_cons_of_mem _ hz)
    simp [runBefore, hy, ih hr, idxFrom]

theorem runAfter_all {hs : List Hook} (h : AllAfter hs) (i : Nat) :
    runAfter i hs = (idxFrom i hs.length, none) := by
  induction hs generalizing i with
  | nil => rfl
  | cons x rest ih =>
    have hx : x.afterReject = none := h x List.mem_cons_self
    have hr : AllAfter rest := fun y hy => h y (List.mem_cons_of_mem _ hy)
    simp [runAfter, hx, ih hr, idxFrom]

theorem runAfter_none_iff (hs : List Hook) (i : Nat) : (runAfter i hs).2 = none ↔ AllAfter hs := by
  induction hs generalizing i with
  | nil => simp [runAfter, AllAfter]
  | cons x rest ih =>
    simp only [runAfter]
    cases hx : x.afterReject with
    | some c =>
      simp only [reduceCtorEq, false_iff]
      intro h
      have := h x List.mem_cons_self
      rw [hx] at this; cases this
    | none =>
      simp only
      rw [ih]
      constructor
      · intro hr y hy
        rcases List.mem_cons.mp hy with rfl | hy
        · exact hx
        · exact hr y hy
      · intro h y hy; exact h y (List.mem_cons_of_mem _ hy)

theorem runAfter_first_reject (pre post : List Hook) (x : Hook) (c : Nat) (hpre : AllAfter pre)
    (hx : x.afterReject = some c) (i : Nat) :
    runAfter i (pre ++ x :: post) = (idxFrom i (pre.length + 1), some c) := by
  induction pre generalizing i with
  | nil => simp [runAfter, hx, idxFrom]
  | cons y rest ih =>
    have hy : y.afterReject = none := hpre y List.mem_cons_self
    have hr : AllAfter rest := fun z hz => hpre z (List.mem_cons_of_mem _ hz)
    simp [runAfter, hy, ih hr, idxFrom]

/-- A list in which some hook rejects splits at the FIRST rejecting hook. -/
theorem split_first_before {hs : List Hook} (h : ¬ AllBefore hs) :
    ∃ pre x post, hs = pre ++ x :: post ∧ AllBefore pre ∧ x.beforeAccept = false := by
  induction hs with
  | nil => exact absurd (fun z hz => absurd hz (List.not_mem_nil)) h
  | cons y rest ih =>
    by_cases hy : y.beforeAccept = true
    · have hr : ¬ AllBefore rest := by
        intro hr; apply h; intro z hz
        rcases List.mem_cons.mp hz with rfl | hz
        · exact hy
        · exact hr z hz
      obtain ⟨pre, x, post, he, hp, hx⟩ := ih hr
      refine ⟨y :: pre, x, post, by rw [he]; rfl, ?_, hx⟩
      intro z hz
      rcases List.mem_cons.mp hz with rfl | hz
      · exact hy
      · exact hp z hz
    · exact ⟨[], y, rest, rfl, (fun z hz => absurd hz (List.not_mem_nil)), by simpa using hy⟩

theorem split_first_after {hs : List Hook} (h : ¬ AllAfter hs) :
    ∃ pre x post c, hs = pre ++ x :: post ∧ AllAfter pre ∧ x.afterReject = some c := by
  induction hs with
  | nil => exact absurd (fun z hz => absurd hz (List.not_mem_nil)) h
  | cons y rest ih =>
    cases hy : y.afterReject with
    | none =>
      have hr : ¬ AllAfter rest := by
        intro hr; apply h; intro z hz
        rcases List.mem_cons.mp hz with rfl | hz
        · exact hy
        · exact hr z hz
      obtain ⟨pre, x, post, c, he, hp, hx⟩ := ih hr
      refine ⟨y :: pre, x, post, c, by rw [he]; rfl, ?_, hx⟩
      intro z hz
      rcases List.mem_cons.mp hz with rfl | hz
      · exact hy
      · exact hp z hz
    | some c => exact ⟨[], y, rest, c, rfl, (fun z hz => absurd hz (List.not_mem_nil)), hy⟩

end IrohModel.C42
