/-
C40 — helper lemmas: the byte order, the protocol map, registration order, negotiation.
-/
import IrohModel.C40.Model

namespace IrohModel.C40

/-! ### `bytesLt` is a strict total order -/

theorem bytesLt_irrefl : ∀ a : Alpn, bytesLt a a = false
  | [] => rfl
  | a :: as => by simp [bytesLt, bytesLt_irrefl as]

theorem bytesLt_trans : ∀ {a b c : Alpn}, bytesLt a b = true → bytesLt b c = true → bytesLt a c = true
  | [], [], _, h, _ => by simp [bytesLt] at h
  | [], _ :: _, [], _, h => by simp [bytesLt] at h
  | [], _ :: _, _ :: _, _, _ => by simp [bytesLt]
  | _ :: _, [], _, h, _ => by simp [bytesLt] at h
  | _ :: _, _ :: _, [], _, h => by simp [bytesLt] at h
  | a :: as, b :: bs, c :: cs, h1, h2 => by
    simp only [bytesLt, Bool.or_eq_true, Bool.and_eq_true, decide_eq_true_eq, beq_iff_eq] at h1 h2 ⊢
    rcases h1 with h1 | ⟨e1, h1⟩ <;> rcases h2 with h2 | ⟨e2, h2⟩
    · left; omega
    · left; omega
    · left; omega
    · right; exact ⟨by omega, bytesLt_trans h1 h2⟩

theorem bytesLt_total : ∀ {a b : Alpn}, a ≠ b → bytesLt a b = false → bytesLt b a = true
  | [], [], h, _ => absurd rfl h
  | [], _ :: _, _, h => by simp [bytesLt] at h
  | _ :: _, [], _, _ => by simp [bytesLt]
  | a :: as, b :: bs, hne, h => by
    simp only [bytesLt, Bool.or_eq_false_iff, Bool.and_eq_false_imp, decide_eq_false_iff_not, beq_iff_eq] at h
    simp only [bytesLt, Bool.or_eq_true, Bool.and_eq_true, decide_eq_true_eq, beq_iff_eq]
    by_cases hab : a.toNat = b.toNat
    · right
      refine ⟨hab.symm, ?_⟩
      have hab' : a = b := UInt8.toNat_inj.mp hab
      have : as ≠ bs := by intro e; apply hne; rw [hab', e]
      exact bytesLt_total this (h.2 hab)
    · left; omega

theorem bytesLt_asymm {a b : Alpn} (h : bytesLt a b = true) : bytesLt b a = false := by
  cases hb : bytesLt b a with
  | false => rfl
  | true => have := bytesLt_trans h hb; rw [bytesLt_irrefl] at this; cases this

/-! ### The protocol map -/

theorem get_insert (m : PMap) (a : Alpn) (h : Nat) (b : Alpn) :
    (m.insert a h).get b = if b = a then some h else m.get b := by
  induction m with
  | nil => simp [PMap.insert, PMap.get]
  | cons kv rest ih =>
    obtain ⟨k, v⟩ := kv
    simp only [PMap.insert]
    by_cases hak : a = k
    · subst hak
      rw [if_pos rfl]
      simp only [PMap.get]
      by_cases hba : b = a <;> simp [hba]
    · rw [if_neg hak]
      by_cases hlt : bytesLt a k = true
      · rw [if_pos hlt]; simp only [PMap.get]
      · rw [if_neg hlt]
        simp only [PMap.get, ih]
        by_cases hbk : b = k
        · subst hbk
          have : ¬ b = a := fun e => hak e.symm
          simp [this]
        · simp [hbk]

theorem mem_alpns_insert (m : PMap) (a : Alpn) (h : Nat) (k : Alpn) :
    k ∈ (m.insert a h).alpns ↔ k = a ∨ k ∈ m.alpns := by
  induction m with
  | nil => simp [PMap.insert, PMap.alpns]
  | cons kv rest ih =>
    obtain ⟨k', v⟩ := kv
    simp only [PMap.insert]
    by_cases hak : a = k'
    · subst hak; rw [if_pos rfl]; simp [PMap.alpns]
    · rw [if_neg hak]
      by_cases hlt : bytesLt a k' = true
      · rw [if_pos hlt]; simp [PMap.alpns]
      · rw [if_neg hlt]
        simp only [PMap.alpns, List.map_cons, List.mem_cons] at ih ⊢
        rw [ih]
        constructor
        · rintro (h | h | h)
          · exact Or.inr (Or.inl h)
          · exact Or.inl h
          · exact Or.inr (Or.inr h)
        · rintro (h | h | h)
          · exact Or.inr (Or.inl h)
          · exact Or.inl h
          · exact Or.inr (Or.inr h)

theorem get_isSome_iff (m : PMap) (a : Alpn) : (m.get a).isSome = true ↔ a ∈ m.alpns := by
  induction m with
  | nil => simp [PMap.get, PMap.alpns]
  | cons kv rest ih =>
    obtain ⟨k, v⟩ := kv
    simp only [PMap.get, PMap.alpns, List.map_cons, List.mem_cons]
    by_cases hak : a = k
    · simp [hak]
    · simp only [hak, if_false, false_or]
      exact ih

/-- Keys strictly ascending (hence no duplicates). -/
def Sorted (m : PMap) : Prop := List.Pairwise (fun x y => bytesLt x y = true) m.alpns

theorem sorted_insert {m : PMap} (hs : Sorted m) (a : Alpn) (h : Nat) : Sorted (m.insert a h) := by
  induction m with
  | nil => simp [PMap.insert, Sorted, PMap.alpns]
  | cons kv rest ih =>
    obtain ⟨k, v⟩ := kv
    have hs' : (∀ x ∈ PMap.alpns rest, bytesLt k x = true) ∧ Sorted rest := by
      simpa [Sorted, PMap.alpns, List.pairwise_cons] using hs
    simp only [PMap.insert]
    by_cases hak : a = k
    · subst hak
      rw [if_pos rfl]
      simpa [Sorted, PMap.alpns, List.pairwise_cons] using hs
    · rw [if_neg hak]
      by_cases hlt : bytesLt a k = true
      · rw [if_pos hlt]
        show List.Pairwise _ (a :: k :: PMap.alpns rest)
        refine List.pairwise_cons.mpr ⟨?_, hs⟩
        intro x hx
        rcases List.mem_cons.mp hx with hx | hx
        · subst hx; exact hlt
        · exact bytesLt_trans hlt (hs'.1 x hx)
      · rw [if_neg hlt]
        show List.Pairwise _ (k :: PMap.alpns (PMap.insert rest a h))
        refine List.pairwise_cons.mpr ⟨?_, ih hs'.2⟩
        intro x hx
        rcases (mem_alpns_insert rest a h x).mp hx with hx | hx
        · subst hx
          exact bytesLt_total (fun e => hak e) (by simpa using hlt)
        · exact hs'.1 x hx

/-! ### Registration order -/

theorem buildFrom_get (m : PMap) (i : Nat) (regs : List Alpn) (a : Alpn) :
    (buildFrom m i regs).get a = match lastIdxFrom i regs a with
      | some h => some h
      | none => m.get a := by
  induction regs generalizing m i with
  | nil => simp [buildFrom, lastIdxFrom]
  | cons x rest ih =>
    simp only [buildFrom, lastIdxFrom]
    rw [ih]
    cases hl : lastIdxFrom (i + 1) rest a with
    | some h => rfl
    | none =>
      simp only [get_insert]
      by_cases hax : a = x <;> simp [hax]

theorem build_get (regs : List Alpn) (a : Alpn) : (build regs).get a = lastIdxFrom 0 regs a := by
  unfold build
  rw [buildFrom_get]
  cases lastIdxFrom 0 regs a <;> simp [PMap.get]

theorem buildFrom_mem (m : PMap) (i : Nat) (regs : List Alpn) (k : Alpn) :
    k ∈ (buildFrom m i regs).alpns ↔ k ∈ regs ∨ k ∈ m.alpns := by
  induction regs generalizing m i with
  | nil => simp [buildFrom]
  | cons x rest ih =>
    simp only [buildFrom, ih, mem_alpns_insert, List.mem_cons]
    constructor
    · rintro (h | h | h)
      · exact Or.inl (Or.inr h)
      · exact Or.inl (Or.inl h)
      · exact Or.inr h
    · rintro ((h | h) | h)
      · exact Or.inr (Or.inl h)
      · exact Or.inl h
      · exact Or.inr (Or.inr h)

theorem build_mem (regs : List Alpn) (k : Alpn) : k ∈ (build regs).alpns ↔ k ∈ regs := by
  unfold build; rw [buildFrom_mem]; simp [PMap.alpns]

theorem buildFrom_sorted {m : PMap} (hs : Sorted m) (i : Nat) (regs : List Alpn) :
    Sorted (buildFrom m i regs) := by
  induction regs generalizing m i with
  | nil => exact hs
  | cons x rest ih => exact ih (sorted_insert hs x i) (i + 1)

theorem build_sorted (regs : List Alpn) : Sorted (build regs) :=
  buildFrom_sorted (by simp [Sorted, PMap.alpns]) 0 regs

/-- `lastIdxFrom` really is the last registration. -/
theorem lastIdxFrom_spec (i : Nat) (regs : List Alpn) (a : Alpn) (h : Nat)
    (hl : lastIdxFrom i regs a = some h) :
    ∃ k, h = i + k ∧ regs[k]? = some a ∧ ∀ k', k < k' → regs[k']? ≠ some a := by
  induction regs generalizing i with
  | nil => simp [lastIdxFrom] at hl
  | cons x rest ih =>
    simp only [lastIdxFrom] at hl
    cases hr : lastIdxFrom (i + 1) rest a with
    | some h' =>
      rw [hr] at hl
      injection hl with hl
      subst hl
      obtain ⟨k, hk, hget, hlast⟩ := ih (i + 1) hr
      refine ⟨k + 1, by omega, by simpa using hget, ?_⟩
      intro k' hk'
      cases k' with
      | zero => omega
      | succ k'' => simpa using hlast k'' (by omega)
    | none =>
      rw [hr] at hl
      by_cases hax : a = x
      · simp only [hax, if_true] at hl
        injection hl with hl
        refine ⟨0, by omega, by simp [hax], ?_⟩
        intro k' hk'
        cases k' with
        | zero => omega
        | succ k'' =>
          simp only [List.getElem?_cons_succ]
          intro hget
          -- a later registration of `a` would have been found
          have : ∀ (j : Nat) (l : List Alpn) (n : Nat), l[n]? = some a → lastIdxFrom j l a ≠ none := by
            intro j l
            induction l generalizing j with
            | nil => intro n hn; simp at hn
            | cons y ys ihy =>
              intro n hn
              simp only [lastIdxFrom]
              cases hrec : lastIdxFrom (j + 1) ys a with
              | some _ => simp
              | none =>
                cases n with
                | zero =>
                  simp at hn
                  simp [hn]
                | succ n' =>
                  simp only [List.getElem?_cons_succ] at hn
                  exact absurd hrec (ihy (j + 1) n' hn)
          exact this (i + 1) rest k'' (hax ▸ hget) hr
      · simp [hax] at hl

theorem lastIdxFrom_none_iff (i : Nat) (regs : List Alpn) (a : Alpn) :
    lastIdxFrom i regs a = none ↔ a ∉ regs := by
  induction regs generalizing i with
  | nil => simp [lastIdxFrom]
  | cons x rest ih =>
    simp only [lastIdxFrom, List.mem_cons, not_or]
    cases hr : lastIdxFrom (i + 1) rest a with
    | some h' =>
      have : ¬ (a ∉ rest) := fun hn => by rw [(ih (i + 1)).mpr hn] at hr; cases hr
      simp [this]
    | none =>
      have := (ih (i + 1)).mp hr
      by_cases hax : a = x <;> simp [hax, this]

/-! ### Negotiation -/

theorem negotiate_some {ours offered : List Alpn} {a : Alpn} (h : negotiate ours offered = some a) :
    a ∈ ours ∧ a ∈ offered := by
  unfold negotiate at h
  have h1 := List.mem_of_find?_eq_some h
  have h2 := List.find?_some h
  exact ⟨h1, by simpa using h2⟩

theorem negotiate_none_iff (ours offered : List Alpn) :
    negotiate ours offered = none ↔ ∀ o, o ∈ offered → o ∉ ours := by
  unfold negotiate
  rw [List.find?_eq_none]
  constructor
  · intro h o ho hin
    have := h o hin
    simp [ho] at this
  · intro h x hx
    simp only [List.contains_iff_mem, Bool.not_eq_true, decide_eq_false_iff_not]
    intro hxo
    exact h x hxo hx

/-- In a strictly ascending list the first hit of `find?` is the least hit. -/
theorem find_least {l : List Alpn} (hs : List.Pairwise (fun x y => bytesLt x y = true) l)
    {p : Alpn → Bool} {a : Alpn} (h : l.find? p = some a) :
    ∀ k, k ∈ l → p k = true → k = a ∨ bytesLt a k = true := by
  induction l with
  | nil => simp at h
  | cons x rest ih =>
    obtain ⟨hx, hrest⟩ := List.pairwise_cons.mp hs
    intro k hk hpk
    by_cases hpx : p x = true
    · rw [List.find?_cons_of_pos hpx] at h
      injection h with h
      subst h
      rcases List.mem_cons.mp hk with hk | hk
      · exact Or.inl hk
      · exact Or.inr (hx k hk)
    · rw [List.find?_cons_of_neg hpx] at h
      rcases List.mem_cons.mp hk with hk | hk
      · subst hk; exact absurd hpk hpx
      · exact ih hrest h k hk hpk

end IrohModel.C40
