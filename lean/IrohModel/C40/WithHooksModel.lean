/-
C40 ∘ C42 — one dial against an endpoint that has BOTH a Router and `EndpointHooks`, from a
dialing endpoint with its own hooks.  Composition of the two verified cores: `C42.runBefore` /
`C42.runAfter` (hook chains, `connect_with_opts` preconditions) and `C40.dispatch` (incoming
filter, ALPN negotiation, `ProtocolMap` lookup).

Where the accept path runs the after-handshake hooks (read in `iroh/src/protocol.rs`
`handle_connection` and `iroh/src/endpoint/connection.rs` `Accepting::poll` → `conn_from_noq_conn`):

```
handle_connection(incoming):
    accepting = incoming.accept()
    alpn      = accepting.alpn().await                  -- from the ClientHello, handshake still running
    handler   = protocols.get(&alpn) else return
    match handler.on_accepting(accepting).await {       -- (A) the HANDLER is entered here, with the
        Ok(connection) => handler.accept(connection)    --     in-progress `Accepting`, BEFORE any hook
        Err(err)       => warn!(..) }                   -- (B) `accept` only with a `Connection`
default on_accepting:  accepting.await?                 -- completes the handshake, then
    conn_from_noq_conn: register; hooks.after_handshake(&conn):
        Reject{code, reason} => conn.close(code, reason); Err(LocallyRejected)
```
So the accepting side's after-handshake hooks run INSIDE `on_accepting` (in `accepting.await`):
a rejection makes `on_accepting` fail and `ProtocolHandler::accept` is never called — no
`Connection` value ever reaches a handler — but `on_accepting` itself HAS been entered (it is the
code that awaits the handshake).  A handler that overrides `on_accepting` without awaiting the
`Accepting` it was given never obtains a `Connection` at all.

Dialer side (`connect_with_opts` → `Connecting`): before-connect hooks, self check, empty-name
check, then the handshake; the dialer's after-handshake hooks run when ITS handshake completes,
which is before the acceptor's completes (TLS 1.3).  If a dialer hook rejects, the dialer closes
with the hook's code while the acceptor is still finishing: the acceptor either sees the close
first (`accepting.await` fails with `ApplicationClosed{code}` → no `accept`, its own hooks never
run) or completes first (its hooks run; if they accept, `accept` IS called with a connection that
then ends with `ApplicationClosed{code}`).  This race is `Tri.race` / `aAfter = none` below.
-/
import IrohModel.C40.Model
import IrohModel.C42.Model

namespace IrohModel.C40

open IrohModel.C42 (Hook Target runBefore runAfter)

/-- Is `ProtocolHandler::accept` called? -/
inductive Tri where
  | no | yes
  /-- depends on whether the acceptor completes its handshake before it sees the dialer's close -/
  | race
deriving DecidableEq, Repr

inductive CDial where
  | rejBefore | selfConnect | invalidAlpn
  | refused | ignored | noalpn
  | rejAfter
  /-- the acceptor's hook closed the connection with this code -/
  | closed (code : Nat)
  | ok (a : Alpn)
deriving DecidableEq, Repr

structure COutcome where
  /-- dialer `before_connect` calls -/
  dBefore : List Nat
  /-- the accepting endpoint produced an `Incoming` for this dial -/
  incoming : Bool
  filterCalls : List (Bool × Verdict)
  dial : CDial
  /-- the handler whose `on_accepting` is entered, with the negotiated ALPN -/
  onAccepting : Option (Nat × Alpn)
  /-- whether that handler's `accept` is called (with the established `Connection`) -/
  accept : Tri
  /-- dialer `after_handshake` calls -/
  dAfter : List Nat
  /-- acceptor `after_handshake` calls; `none` = unspecified (race) -/
  aAfter : Option (List Nat)
deriving DecidableEq, Repr

/-- `alpn.is_empty()` of the primary protocol name (`connect_with_opts`' own argument). -/
def primaryEmpty : List Alpn → Bool
  | [] => true
  | p :: _ => p.isEmpty

/-- Both handshakes run to completion: handler `h` has been entered for protocol `a`. -/
def afterPhase (bcalls : List Nat) (fcalls : List (Bool × Verdict)) (h : Nat) (a : Alpn)
    (dh ah : List Hook) : COutcome :=
  match (runAfter 0 dh).2, (runAfter 0 ah).2 with
  | some _, none =>
    -- the dialer's hook closes; the acceptor races with the close and would accept
    ⟨bcalls, true, fcalls, .rejAfter, some (h, a), .race, (runAfter 0 dh).1, none⟩
  | some _, some _ =>
    -- ... and would reject itself if it got that far: `accept` is not called either way
    ⟨bcalls, true, fcalls, .rejAfter, some (h, a), .no, (runAfter 0 dh).1, none⟩
  | none, some c =>
    ⟨bcalls, true, fcalls, .closed c, some (h, a), .no, (runAfter 0 dh).1, some (runAfter 0 ah).1⟩
  | none, none =>
    ⟨bcalls, true, fcalls, .ok a, some (h, a), .yes, (runAfter 0 dh).1, some (runAfter 0 ah).1⟩

/-- The dial left the dialer: the Router's dispatch (C40), then the after-handshake hooks. -/
def routed (bcalls : List Nat) (regs : List Alpn) (f : Option Filter) (src : Nat)
    (offered : List Alpn) (dh ah : List Hook) : COutcome :=
  match (dispatch (build regs) f src offered).handler with
  | none =>
    -- refused / ignored / nothing in common: the handshake never completes, no hook runs
    ⟨bcalls, true, (dispatch (build regs) f src offered).filterCalls,
      (match (dispatch (build regs) f src offered).dial with
        | .refused => CDial.refused
        | .ignored => CDial.ignored
        | .noalpn => CDial.noalpn
        | .ok a => CDial.ok a),   -- unreachable for `build regs` (C40.negotiated_has_handler)
      none, .no, [], some []⟩
  | some (h, a) => afterPhase bcalls (dispatch (build regs) f src offered).filterCalls h a dh ah

def connectRouted (t : Target) (regs : List Alpn) (f : Option Filter) (src : Nat)
    (offered : List Alpn) (dh ah : List Hook) : COutcome :=
  if (runBefore 0 dh).2 = false then ⟨(runBefore 0 dh).1, false, [], .rejBefore, none, .no, [], some []⟩
  else if t = .self then ⟨(runBefore 0 dh).1, false, [], .selfConnect, none, .no, [], some []⟩
  else if primaryEmpty offered = true then ⟨(runBefore 0 dh).1, false, [], .invalidAlpn, none, .no, [], some []⟩
  else routed (runBefore 0 dh).1 regs f src offered dh ah

end IrohModel.C40
