/-
C40 — property theorems.

"An incoming connection reaches exactly the protocol handler registered for the protocol
negotiated with the peer, and no handler if none is registered or the incoming filter refuses or
ignores it.  A connection the filter asks to retry reaches a handler only if the filter accepts
its validated retry."

All theorems quantify over every registration sequence `regs` (any length, duplicates allowed —
a later registration of the same ALPN replaces the handler), every offer list of the dialer,
every filter `f : Attempt → Verdict` (an arbitrary function of source and validation state) or no
filter, and every source.  The TLS stack's selection rule and the QUIC retry mechanics are
assumptions of the model (header of `Model.lean`).
-/
import IrohModel.C40.Lemmas

namespace IrohModel.C40

/-- What `dispatch` does, in one formula. -/
theorem dispatch_handler_eq (m : PMap) (f : Option Filter) (src : Nat) (offered : List Alpn) :
    (dispatch m f src offered).handler =
      if (filterPhase f src).2 = .admitted then
        (negotiate m.alpns offered).bind (fun a => (m.get a).map (fun h => (h, a)))
      else none := by
  unfold dispatch
  rcases hfp : filterPhase f src with ⟨calls, g⟩
  cases g <;> simp only [reduceCtorEq, if_true, if_false]
  cases hn : negotiate m.alpns offered with
  | none => rfl
  | some a => cases hg : m.get a <;> simp [hg]

theorem admitted_iff (f : Option Filter) (src : Nat) :
    (filterPhase f src).2 = .admitted ↔ Admits f src := by
  cases f with
  | none => simp [filterPhase, Admits]
  | some f =>
    simp only [filterPhase, Admits]
    cases h1 : f ⟨src, false⟩ <;> simp
    cases h2 : f ⟨src, true⟩ <;> simp

/-- **exactly_registered_handler** — if a handler is invoked it is THE handler registered (last)
for the negotiated protocol: handler `h` is the last registration of `a` (`regs[h] = a`, no later
registration of `a`), `a` is what the TLS stack negotiated, it was offered by the dialer, the
dialer sees the same protocol, and the filter admitted the dial. -/
theorem exactly_registered_handler (regs : List Alpn) (f : Option Filter) (src : Nat)
    (offered : List Alpn) (h : Nat) (a : Alpn)
    (hh : (dispatch (build regs) f src offered).handler = some (h, a)) :
    regs[h]? = some a ∧ (∀ h', h < h' → regs[h']? ≠ some a) ∧
    negotiate (build regs).alpns offered = some a ∧ a ∈ offered ∧
    (dispatch (build regs) f src offered).dial = .ok a ∧ Admits f src := by
  have hadm : (filterPhase f src).2 = .admitted := by
    rw [dispatch_handler_eq] at hh
    by_cases hc : (filterPhase f src).2 = .admitted
    · exact hc
    · rw [if_neg hc] at hh; cases hh
  rw [dispatch_handler_eq, if_pos hadm] at hh
  cases hn : negotiate (build regs).alpns offered with
  | none => rw [hn] at hh; cases hh
  | some a' =>
    rw [hn] at hh
    simp only [Option.bind_some] at hh
    cases hg : (build regs).get a' with
    | none => rw [hg] at hh; cases hh
    | some h' =>
      rw [hg] at hh
      simp only [Option.map_some, Option.some.injEq, Prod.mk.injEq] at hh
      obtain ⟨rfl, rfl⟩ := hh
      rw [build_get] at hg
      obtain ⟨k, hk, hget, hlast⟩ := lastIdxFrom_spec 0 regs a' h' hg
      have hk' : h' = k := by omega
      subst hk'
      refine ⟨hget, hlast, rfl, (negotiate_some hn).2, ?_, (admitted_iff f src).mp hadm⟩
      unfold dispatch
      rcases hfp : filterPhase f src with ⟨calls, g⟩
      rw [hfp] at hadm
      simp only at hadm
      subst hadm
      simp only [hn]
      rw [build_get, hg]

example : (dispatch (build [[98], [97]]) none 0 [[98], [97]]).handler = some (1, [97]) := by decide

/-- **handled_iff** — complete characterisation: a handler runs iff the filter admits the dial
and some offered protocol is registered. -/
theorem handled_iff (regs : List Alpn) (f : Option Filter) (src : Nat) (offered : List Alpn) :
    (dispatch (build regs) f src offered).handler.isSome = true ↔
      Admits f src ∧ ∃ o, o ∈ offered ∧ o ∈ regs := by
  rw [dispatch_handler_eq, ← admitted_iff]
  by_cases hc : (filterPhase f src).2 = .admitted
  · rw [if_pos hc]
    simp only [hc, true_and]
    cases hn : negotiate (build regs).alpns offered with
    | none =>
      have := (negotiate_none_iff _ _).mp hn
      simp only [Option.bind_none, Option.isSome_none, Bool.false_eq_true, false_iff, not_exists, not_and]
      intro o ho hreg
      exact this o ho ((build_mem regs o).mpr hreg)
    | some a =>
      obtain ⟨h1, h2⟩ := negotiate_some hn
      have hs : ((build regs).get a).isSome = true := (get_isSome_iff _ _).mpr h1
      cases hg : (build regs).get a with
      | none => rw [hg] at hs; cases hs
      | some h =>
        simp only [Option.bind_some, hg, Option.map_some, Option.isSome_some, true_iff]
        exact ⟨a, h2, (build_mem regs a).mp h1⟩
  · rw [if_neg hc]
    simp [hc]

/-- **none_if_unregistered_or_refused** — no handler is invoked (and the dial does not succeed)
when none of the offered protocols is registered, or when the filter's verdict on the first
attempt is reject or ignore. -/
theorem none_if_unregistered_or_refused (regs : List Alpn) (f : Option Filter) (src : Nat)
    (offered : List Alpn) :
    ((∀ o, o ∈ offered → o ∉ regs) →
      (dispatch (build regs) f src offered).handler = none ∧
      ∀ a, (dispatch (build regs) f src offered).dial ≠ .ok a) ∧
    (∀ g, f = some g → g ⟨src, false⟩ = .reject →
      (dispatch (build regs) f src offered).handler = none ∧
      (dispatch (build regs) f src offered).dial = .refused) ∧
    (∀ g, f = some g → g ⟨src, false⟩ = .ignore →
      (dispatch (build regs) f src offered).handler = none ∧
      (dispatch (build regs) f src offered).dial = .ignored) := by
  refine ⟨?_, ?_, ?_⟩
  · intro hun
    have hn : negotiate (build regs).alpns offered = none :=
      (negotiate_none_iff _ _).mpr (fun o ho hin => hun o ho ((build_mem regs o).mp hin))
    unfold dispatch
    rcases hfp : filterPhase f src with ⟨calls, g⟩
    cases g <;> simp [hn]
  · rintro g rfl hg
    simp [dispatch, filterPhase, hg]
  · rintro g rfl hg
    simp [dispatch, filterPhase, hg]

example : ∀ o, o ∈ [[122]] → o ∉ [[97], [98]] := by decide
example : (fun (_ : Attempt) => Verdict.reject) ⟨3, false⟩ = .reject := rfl

/-- **retry_needs_second_accept** — when the filter answers retry to the first (unvalidated)
attempt, a handler runs iff the filter accepts the validated retry (and a protocol matches); any
other verdict on the retry ends the dial without a handler. -/
theorem retry_needs_second_accept (regs : List Alpn) (g : Filter) (src : Nat) (offered : List Alpn)
    (hretry : g ⟨src, false⟩ = .retry) :
    ((dispatch (build regs) (some g) src offered).handler.isSome = true ↔
      g ⟨src, true⟩ = .accept ∧ ∃ o, o ∈ offered ∧ o ∈ regs) ∧
    (g ⟨src, true⟩ ≠ .accept →
      (dispatch (build regs) (some g) src offered).handler = none ∧
      ((dispatch (build regs) (some g) src offered).dial = .refused ∨
       (dispatch (build regs) (some g) src offered).dial = .ignored)) ∧
    (dispatch (build regs) (some g) src offered).filterCalls =
      [(false, .retry), (true, g ⟨src, true⟩)] := by
  refine ⟨?_, ?_, ?_⟩
  · rw [handled_iff]
    simp [Admits, hretry]
  · intro hne
    cases h2 : g ⟨src, true⟩ <;> simp [dispatch, filterPhase, hretry, h2] at hne ⊢
  · cases h2 : g ⟨src, true⟩ <;> simp only [dispatch, filterPhase, hretry, h2]
    split
    · rfl
    · split <;> rfl

example : (dispatch (build [[97]]) (some fun a => if a.validated then .accept else .retry) 0 [[97]]).handler
    = some (0, [97]) := by decide

/-- **negotiated_least** — the protocol chosen is the least (byte order) registered protocol the
dialer offers: the dialer's order does not matter (server preference = `BTreeMap` key order). -/
theorem negotiated_least (regs offered : List Alpn) (a : Alpn)
    (hn : negotiate (build regs).alpns offered = some a) :
    ∀ k, k ∈ regs → k ∈ offered → k = a ∨ bytesLt a k = true := by
  intro k hk ho
  exact find_least (build_sorted regs) hn k ((build_mem regs k).mpr hk) (by simpa using ho)

example : negotiate (build [[98], [97]]).alpns [[98], [97]] = some [97] := by decide

/-- The router's ALPN list has no duplicates and every lookup of a listed ALPN succeeds (the
"unsupported ALPN protocol" branch of `handle_connection` is unreachable for a negotiated ALPN). -/
theorem negotiated_has_handler (regs offered : List Alpn) (a : Alpn)
    (hn : negotiate (build regs).alpns offered = some a) : ((build regs).get a).isSome = true :=
  (get_isSome_iff _ _).mpr (negotiate_some hn).1

/-- Shape of the source the model relies on (regenerated on every run). -/
theorem source_shape :
    Generated.C40.protocolMapIsBTreeMap = 1 ∧ Generated.C40.retryFailureRefuses = 1 := by decide

end IrohModel.C40
