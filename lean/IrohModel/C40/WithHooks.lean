/-
C40 ∘ C42 — theorems about the composed model `connectRouted` (see `WithHooksModel.lean` for
where the code runs which gate).  All statements quantify over every registration list, every
filter function (or none), every source, every offer list, every hook list on both sides and both
targets.
-/
import IrohModel.C40.WithHooksModel
import IrohModel.C40.Theorems
import IrohModel.C42.Lemmas

namespace IrohModel.C40

open IrohModel.C42 (Hook Target runBefore runAfter AllBefore AllAfter runBefore_accept_iff
  runAfter_none_iff runAfter_first_reject idxFrom)

/-- The dialer-side gates in front of the first packet. -/
def Leaves (t : Target) (offered : List Alpn) (dh : List Hook) : Prop :=
  AllBefore dh ∧ t = .peer ∧ primaryEmpty offered = false

/-- All gates in front of the handshake's completion: dialer hooks and preconditions, the
incoming filter, a registered protocol among the offered ones. -/
def Gates (t : Target) (regs : List Alpn) (f : Option Filter) (src : Nat) (offered : List Alpn)
    (dh : List Hook) : Prop :=
  Leaves t offered dh ∧ Admits f src ∧ ∃ o, o ∈ offered ∧ o ∈ regs

/-! ### The after-handshake phase -/

theorem afterPhase_entered (bc : List Nat) (fc : List (Bool × Verdict)) (h : Nat) (a : Alpn)
    (dh ah : List Hook) : (afterPhase bc fc h a dh ah).onAccepting = some (h, a) := by
  unfold afterPhase; split <;> rfl

theorem afterPhase_accept (bc : List Nat) (fc : List (Bool × Verdict)) (h : Nat) (a : Alpn)
    (dh ah : List Hook) :
    (¬ AllAfter ah → (afterPhase bc fc h a dh ah).accept = .no) ∧
    (AllAfter ah → AllAfter dh → (afterPhase bc fc h a dh ah).accept = .yes ∧
      (afterPhase bc fc h a dh ah).dial = .ok a) ∧
    (AllAfter ah → ¬ AllAfter dh → (afterPhase bc fc h a dh ah).accept = .race ∧
      (afterPhase bc fc h a dh ah).dial = .rejAfter) := by
  have hd := runAfter_none_iff dh 0
  have ha := runAfter_none_iff ah 0
  unfold afterPhase
  split
  · rename_i c hdc hac
    rw [hdc] at hd; rw [hac] at ha
    refine ⟨fun hn => absurd (ha.mp rfl) hn, fun _ h2 => (by have := hd.mpr h2; cases this), fun _ _ => ⟨rfl, rfl⟩⟩
  · rename_i c c' hdc hac
    rw [hdc] at hd; rw [hac] at ha
    refine ⟨fun _ => rfl, fun h1 _ => (by have := ha.mpr h1; cases this), fun h1 _ => (by have := ha.mpr h1; cases this)⟩
  · rename_i c hdc hac
    rw [hdc] at hd; rw [hac] at ha
    refine ⟨fun _ => rfl, fun h1 _ => (by have := ha.mpr h1; cases this), fun h1 _ => (by have := ha.mpr h1; cases this)⟩
  · rename_i hdc hac
    rw [hdc] at hd; rw [hac] at ha
    refine ⟨fun hn => absurd (ha.mp rfl) hn, fun _ _ => ⟨rfl, rfl⟩, fun _ hn => absurd (hd.mp rfl) hn⟩

/-! ### The routed phase -/

theorem routed_entered (bc : List Nat) (regs : List Alpn) (f : Option Filter) (src : Nat)
    (offered : List Alpn) (dh ah : List Hook) :
    (routed bc regs f src offered dh ah).onAccepting = (dispatch (build regs) f src offered).handler := by
  unfold routed
  split
  · rename_i hh; rw [hh]
  · rename_i h a hh; rw [hh]; exact afterPhase_entered _ _ _ _ _ _

theorem routed_accept (bc : List Nat) (regs : List Alpn) (f : Option Filter) (src : Nat)
    (offered : List Alpn) (dh ah : List Hook) :
    ((dispatch (build regs) f src offered).handler = none →
      (routed bc regs f src offered dh ah).accept = .no) ∧
    (∀ h a, (dispatch (build regs) f src offered).handler = some (h, a) →
      (routed bc regs f src offered dh ah).accept = (afterPhase bc (dispatch (build regs) f src offered).filterCalls h a dh ah).accept ∧
      (routed bc regs f src offered dh ah).dial = (afterPhase bc (dispatch (build regs) f src offered).filterCalls h a dh ah).dial) := by
  unfold routed
  constructor
  · intro hh; rw [hh]
  · intro h a hh; rw [hh]; exact ⟨rfl, rfl⟩

/-! ### The whole dial -/

theorem leaves_iff (t : Target) (offered : List Alpn) (dh : List Hook) :
    Leaves t offered dh ↔ ((runBefore 0 dh).2 ≠ false ∧ t ≠ .self ∧ primaryEmpty offered ≠ true) := by
  unfold Leaves
  rw [← runBefore_accept_iff dh 0]
  constructor
  · rintro ⟨h1, h2, h3⟩; subst h2; simp [h1, h3]
  · rintro ⟨h1, h2, h3⟩
    refine ⟨by simpa using h1, ?_, by simpa using h3⟩
    cases t with
    | peer => rfl
    | self => exact absurd rfl h2

theorem connectRouted_of_leaves {t : Target} {offered : List Alpn} {dh : List Hook}
    (hl : Leaves t offered dh) (regs : List Alpn) (f : Option Filter) (src : Nat) (ah : List Hook) :
    connectRouted t regs f src offered dh ah = routed (runBefore 0 dh).1 regs f src offered dh ah := by
  obtain ⟨h1, h2, h3⟩ := (leaves_iff t offered dh).mp hl
  unfold connectRouted
  rw [if_neg h1, if_neg h2, if_neg h3]

theorem connectRouted_of_not_leaves {t : Target} {offered : List Alpn} {dh : List Hook}
    (hl : ¬ Leaves t offered dh) (regs : List Alpn) (f : Option Filter) (src : Nat) (ah : List Hook) :
    (connectRouted t regs f src offered dh ah).incoming = false ∧
    (connectRouted t regs f src offered dh ah).filterCalls = [] ∧
    (connectRouted t regs f src offered dh ah).onAccepting = none ∧
    (connectRouted t regs f src offered dh ah).accept = .no ∧
    (connectRouted t regs f src offered dh ah).aAfter = some [] ∧
    (connectRouted t regs f src offered dh ah).dAfter = [] ∧
    ((connectRouted t regs f src offered dh ah).dial = .rejBefore ∨
     (connectRouted t regs f src offered dh ah).dial = .selfConnect ∨
     (connectRouted t regs f src offered dh ah).dial = .invalidAlpn) := by
  unfold connectRouted
  by_cases h1 : (runBefore 0 dh).2 = false
  · rw [if_pos h1]; simp
  · rw [if_neg h1]
    by_cases h2 : t = .self
    · rw [if_pos h2]; simp
    · rw [if_neg h2]
      by_cases h3 : primaryEmpty offered = true
      · rw [if_pos h3]; simp
      · exact absurd ((leaves_iff t offered dh).mpr ⟨h1, h2, h3⟩) hl

/-- `on_accepting` of some handler is entered iff all gates in front of the handshake's
completion are open — independently of every after-handshake hook (the handler is entered BEFORE
the accept side's hooks run). -/
theorem onAccepting_isSome_iff (t : Target) (regs : List Alpn) (f : Option Filter) (src : Nat)
    (offered : List Alpn) (dh ah : List Hook) :
    (connectRouted t regs f src offered dh ah).onAccepting.isSome = true ↔
      Gates t regs f src offered dh := by
  unfold Gates
  by_cases hl : Leaves t offered dh
  · rw [connectRouted_of_leaves hl, routed_entered, handled_iff]
    simp [hl]
  · rw [(connectRouted_of_not_leaves hl regs f src ah).2.2.1]
    simp [hl]

/-- **rejected_by_hook_never_handled** —
(a) if ANY after-handshake hook on the accepting side rejects, `ProtocolHandler::accept` is never
called (no `Connection` reaches any handler), whatever the handler table, filter, offers and the
dialer's hooks are.  `on_accepting` may have been entered — it is the code inside which the
accepting side's hooks run (see `WithHooksModel.lean`);
(b) if ANY dialer before-connect hook rejects, the accepting endpoint produces no `Incoming` at
all: no filter call, no handler entered, no hook of the accepting side called, and the dialer
gets `LocallyRejected` before its handshake. -/
theorem rejected_by_hook_never_handled (t : Target) (regs : List Alpn) (f : Option Filter)
    (src : Nat) (offered : List Alpn) (dh ah : List Hook) :
    (¬ AllAfter ah → (connectRouted t regs f src offered dh ah).accept = .no) ∧
    (¬ AllBefore dh →
      (connectRouted t regs f src offered dh ah).incoming = false ∧
      (connectRouted t regs f src offered dh ah).filterCalls = [] ∧
      (connectRouted t regs f src offered dh ah).onAccepting = none ∧
      (connectRouted t regs f src offered dh ah).accept = .no ∧
      (connectRouted t regs f src offered dh ah).aAfter = some [] ∧
      (connectRouted t regs f src offered dh ah).dial = .rejBefore) := by
  constructor
  · intro hna
    by_cases hl : Leaves t offered dh
    · rw [connectRouted_of_leaves hl]
      cases hh : (dispatch (build regs) f src offered).handler with
      | none => exact (routed_accept _ regs f src offered dh ah).1 hh
      | some ha =>
        obtain ⟨h, a⟩ := ha
        rw [((routed_accept _ regs f src offered dh ah).2 h a hh).1]
        exact (afterPhase_accept _ _ h a dh ah).1 hna
    · exact (connectRouted_of_not_leaves hl regs f src ah).2.2.2.1
  · intro hnb
    have hl : ¬ Leaves t offered dh := fun h => hnb h.1
    obtain ⟨h1, h2, h3, h4, h5, _, _⟩ := connectRouted_of_not_leaves hl regs f src ah
    refine ⟨h1, h2, h3, h4, h5, ?_⟩
    have hb : (runBefore 0 dh).2 = false := by
      cases h : (runBefore 0 dh).2 with
      | false => rfl
      | true => exact absurd ((runBefore_accept_iff dh 0).mp h) hnb
    unfold connectRouted
    rw [if_pos hb]

/-- The close-code part of (a): acceptor hooks `pre ++ x :: post` with `pre` accepting and `x`
rejecting with `c`, all dialer after-hooks accepting, all gates open ⇒ the dialer sees `closed c`,
exactly the acceptor hooks `0 .. |pre|` ran, the handler was entered and `accept` was not called. -/
theorem acceptor_reject_closes_with_code (t : Target) (regs : List Alpn) (f : Option Filter)
    (src : Nat) (offered : List Alpn) (dh pre post : List Hook) (x : Hook) (c : Nat)
    (hg : Gates t regs f src offered dh) (hda : AllAfter dh) (hpre : AllAfter pre)
    (hx : x.afterReject = some c) :
    (connectRouted t regs f src offered dh (pre ++ x :: post)).dial = .closed c ∧
    (connectRouted t regs f src offered dh (pre ++ x :: post)).aAfter = some (idxFrom 0 (pre.length + 1)) ∧
    (connectRouted t regs f src offered dh (pre ++ x :: post)).onAccepting.isSome = true ∧
    (connectRouted t regs f src offered dh (pre ++ x :: post)).accept = .no := by
  have hent := (onAccepting_isSome_iff t regs f src offered dh (pre ++ x :: post)).mpr hg
  have hr := runAfter_first_reject pre post x c hpre hx 0
  have hd := (runAfter_none_iff dh 0).mpr hda
  refine ⟨?_, ?_, hent, ?_⟩ <;>
  · rw [connectRouted_of_leaves hg.1] at hent ⊢
    rw [routed_entered] at hent
    cases hh : (dispatch (build regs) f src offered).handler with
    | none => rw [hh] at hent; cases hent
    | some ha =>
      obtain ⟨h, a⟩ := ha
      unfold routed
      rw [hh]
      simp only
      unfold afterPhase
      rw [hd, hr]

/-- **handled_iff_all_gates** — with `G` = `Gates` (all dialer before-connect hooks accept ∧ the
target is another endpoint ∧ the primary name is non-empty ∧ the filter admits ∧ an offered
protocol is registered):
* `on_accepting` is entered  ⇔ G                      (after-handshake hooks play no role);
* `accept` is certainly called ⇔ G ∧ all after-handshake hooks on BOTH sides accept — and then the
  dial is `ok` with the entered handler's protocol;
* `accept` is subject to the race ⇔ G ∧ some DIALER after-hook rejects ∧ all acceptor after-hooks
  accept: the dialer gets `LocallyRejected`; the acceptor sees either the close first (no `accept`,
  its hooks never run) or completes first (`accept` runs on a connection that then ends with the
  dialer hook's code);
* otherwise `accept` is not called.  An ACCEPTOR after-hook rejection is observed by the acceptor
  as `LocallyRejected` inside `on_accepting` and by the dialer as a close with the hook's code
  (`acceptor_reject_closes_with_code`); a DIALER after-hook rejection by the dialer as
  `LocallyRejected` (last clause). -/
theorem handled_iff_all_gates (t : Target) (regs : List Alpn) (f : Option Filter) (src : Nat)
    (offered : List Alpn) (dh ah : List Hook) :
    ((connectRouted t regs f src offered dh ah).onAccepting.isSome = true ↔
      Gates t regs f src offered dh) ∧
    ((connectRouted t regs f src offered dh ah).accept = .yes ↔
      Gates t regs f src offered dh ∧ AllAfter dh ∧ AllAfter ah) ∧
    ((connectRouted t regs f src offered dh ah).accept = .race ↔
      Gates t regs f src offered dh ∧ ¬ AllAfter dh ∧ AllAfter ah) ∧
    ((connectRouted t regs f src offered dh ah).accept = .yes →
      ∃ h a, (connectRouted t regs f src offered dh ah).onAccepting = some (h, a) ∧
        (connectRouted t regs f src offered dh ah).dial = .ok a) ∧
    (Gates t regs f src offered dh → ¬ AllAfter dh →
      (connectRouted t regs f src offered dh ah).dial = .rejAfter) := by
  have hiff := onAccepting_isSome_iff t regs f src offered dh ah
  -- the three-way description of `accept`, given the gates
  have key : Gates t regs f src offered dh →
      ∃ h a, (connectRouted t regs f src offered dh ah).onAccepting = some (h, a) ∧
        (connectRouted t regs f src offered dh ah).accept = (afterPhase (runBefore 0 dh).1 (dispatch (build regs) f src offered).filterCalls h a dh ah).accept ∧
        (connectRouted t regs f src offered dh ah).dial = (afterPhase (runBefore 0 dh).1 (dispatch (build regs) f src offered).filterCalls h a dh ah).dial := by
    intro hg
    have hent := hiff.mpr hg
    rw [connectRouted_of_leaves hg.1] at hent ⊢
    rw [routed_entered] at hent ⊢
    cases hh : (dispatch (build regs) f src offered).handler with
    | none => rw [hh] at hent; cases hent
    | some ha =>
      obtain ⟨h, a⟩ := ha
      exact ⟨h, a, rfl, (routed_accept _ regs f src offered dh ah).2 h a hh⟩
  have nog : ¬ Gates t regs f src offered dh → (connectRouted t regs f src offered dh ah).accept = .no := by
    intro hng
    by_cases hl : Leaves t offered dh
    · have hnone : (dispatch (build regs) f src offered).handler = none := by
        cases hh : (dispatch (build regs) f src offered).handler with
        | none => rfl
        | some ha =>
          exfalso; apply hng
          have : (connectRouted t regs f src offered dh ah).onAccepting.isSome = true := by
            rw [connectRouted_of_leaves hl, routed_entered, hh]; rfl
          exact hiff.mp this
      rw [connectRouted_of_leaves hl]
      exact (routed_accept _ regs f src offered dh ah).1 hnone
    · exact (connectRouted_of_not_leaves hl regs f src ah).2.2.2.1
  refine ⟨hiff, ?_, ?_, ?_, ?_⟩
  · by_cases hg : Gates t regs f src offered dh
    · obtain ⟨h, a, _, hacc, _⟩ := key hg
      obtain ⟨p1, p2, p3⟩ := afterPhase_accept (runBefore 0 dh).1 (dispatch (build regs) f src offered).filterCalls h a dh ah
      rw [hacc]
      by_cases h1 : AllAfter ah
      · by_cases h2 : AllAfter dh
        · simp [(p2 h1 h2).1, hg, h1, h2]
        · simp [(p3 h1 h2).1, hg, h1, h2]
      · simp [p1 h1, h1]
    · simp [nog hg, hg]
  · by_cases hg : Gates t regs f src offered dh
    · obtain ⟨h, a, _, hacc, _⟩ := key hg
      obtain ⟨p1, p2, p3⟩ := afterPhase_accept (runBefore 0 dh).1 (dispatch (build regs) f src offered).filterCalls h a dh ah
      rw [hacc]
      by_cases h1 : AllAfter ah
      · by_cases h2 : AllAfter dh
        · simp [(p2 h1 h2).1, hg, h1, h2]
        · simp [(p3 h1 h2).1, hg, h1, h2]
      · simp [p1 h1, h1]
    · simp [nog hg, hg]
  · intro hy
    by_cases hg : Gates t regs f src offered dh
    · obtain ⟨h, a, hon, hacc, hdial⟩ := key hg
      obtain ⟨p1, p2, p3⟩ := afterPhase_accept (runBefore 0 dh).1 (dispatch (build regs) f src offered).filterCalls h a dh ah
      refine ⟨h, a, hon, ?_⟩
      rw [hdial]
      rw [hacc] at hy
      by_cases h1 : AllAfter ah
      · by_cases h2 : AllAfter dh
        · exact (p2 h1 h2).2
        · rw [(p3 h1 h2).1] at hy; cases hy
      · rw [p1 h1] at hy; cases hy
    · rw [nog hg] at hy; cases hy
  · intro hg hnd
    obtain ⟨h, a, _, _, hdial⟩ := key hg
    rw [hdial]
    have hd : (runAfter 0 dh).2 ≠ none := fun e => hnd ((runAfter_none_iff dh 0).mp e)
    unfold afterPhase
    split
    · rfl
    · rfl
    · rename_i hdc _; exact absurd hdc hd
    · rename_i hdc _; exact absurd hdc hd

/-- **handler_is_c40s** — the handler entered in the composed system is exactly C40's: the LAST
registration of the negotiated protocol, which the dialer offered, negotiated by the server's
preference (least registered offered name), admitted by the filter. -/
theorem handler_is_c40s (t : Target) (regs : List Alpn) (f : Option Filter) (src : Nat)
    (offered : List Alpn) (dh ah : List Hook) (h : Nat) (a : Alpn)
    (hent : (connectRouted t regs f src offered dh ah).onAccepting = some (h, a)) :
    (dispatch (build regs) f src offered).handler = some (h, a) ∧
    regs[h]? = some a ∧ (∀ h', h < h' → regs[h']? ≠ some a) ∧
    negotiate (build regs).alpns offered = some a ∧ a ∈ offered ∧ Admits f src ∧
    (∀ k, k ∈ regs → k ∈ offered → k = a ∨ bytesLt a k = true) := by
  have hd : (dispatch (build regs) f src offered).handler = some (h, a) := by
    by_cases hl : Leaves t offered dh
    · rw [connectRouted_of_leaves hl, routed_entered] at hent; exact hent
    · rw [(connectRouted_of_not_leaves hl regs f src ah).2.2.1] at hent; cases hent
  obtain ⟨h1, h2, h3, h4, _, h6⟩ := exactly_registered_handler regs f src offered h a hd
  exact ⟨hd, h1, h2, h3, h4, h6, negotiated_least regs offered a h3⟩

/-! ### Non-vacuity -/

/-- all gates open: handler 0 (registered for "a" = 97) is entered and accepts -/
example : (connectRouted .peer [[97], [98]] none 0 [[98], [97]] [⟨true, none⟩] [⟨true, none⟩]).accept = .yes ∧
    (connectRouted .peer [[97], [98]] none 0 [[98], [97]] [⟨true, none⟩] [⟨true, none⟩]).onAccepting = some (0, [97]) := by
  decide

/-- acceptor hook rejects with 42: entered, never accepted, the dialer sees 42 -/
example : (connectRouted .peer [[97]] none 0 [[97]] [] [⟨true, none⟩, ⟨true, some 42⟩]).accept = .no ∧
    (connectRouted .peer [[97]] none 0 [[97]] [] [⟨true, none⟩, ⟨true, some 42⟩]).onAccepting = some (0, [97]) ∧
    (connectRouted .peer [[97]] none 0 [[97]] [] [⟨true, none⟩, ⟨true, some 42⟩]).dial = .closed 42 := by
  decide

/-- dialer hook rejects after the handshake: the race -/
example : (connectRouted .peer [[97]] none 0 [[97]] [⟨true, some 7⟩] []).accept = .race := by decide

/-- dialer before-hook rejects: no Incoming -/
example : (connectRouted .peer [[97]] none 0 [[97]] [⟨false, none⟩] []).incoming = false := by decide

end IrohModel.C40
