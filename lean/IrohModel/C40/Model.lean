/-
C40 — the Router's dispatch of one incoming connection.
Model of `iroh/src/protocol.rs` (run loop filter handling, `handle_connection`, `ProtocolMap`,
`RouterBuilder::{accept, spawn}`) and of `Endpoint::set_alpns`.

```
spawn():   alpns = protocols.alpns()            -- BTreeMap keys: ascending byte order, no duplicates
           endpoint.set_alpns(alpns)            -- the server's ALPN preference list, in that order
run loop:  incoming = endpoint.accept()
           match filter(&incoming) {            -- only if a filter is installed
             Accept => {}
             Retry  => { if incoming.retry().is_err() { refuse } ; continue }
             Reject => { incoming.refuse(); continue }
             Ignore => { incoming.ignore(); continue } }
           spawn handle_connection(incoming)
handle_connection:
           accepting = incoming.accept()
           alpn = accepting.alpn().await        -- negotiated by the TLS stack
           handler = protocols.get(&alpn) else { "unsupported ALPN"; return }
           conn = handler.on_accepting(accepting).await ; handler.accept(conn).await
```

Assumed, stated here and exercised by the correspondence run (third-party code):
* rustls server-side ALPN selection (`rustls/src/server/hs.rs: process_common`): the FIRST of the
  server's protocols that occurs anywhere in the client's offer; none in common (or no server
  protocols at all) under QUIC ⇒ fatal alert `no_application_protocol`, the dial fails.
  The dialer's order is irrelevant — `negotiate` below.
* QUIC retry (noq): `Incoming::retry()` succeeds for an attempt that carries no retry token and the
  dialer then repeats the attempt with the token, which arrives as a NEW `Incoming` with
  `remote_addr_validated() = true`; `retry()` on such an attempt fails (the router refuses it).
  `refuse()` ⇒ the dialer sees CONNECTION_REFUSED; `ignore()` ⇒ the dialer sees nothing.
* A first attempt from a fresh endpoint is not validated.
-/
import IrohModel.Generated.C40

namespace IrohModel.C40

abbrev Alpn := List UInt8

/-- Strict lexicographic order on byte strings (`Ord for Vec<u8>`, the `BTreeMap` key order). -/
def bytesLt : Alpn → Alpn → Bool
  | [], [] => false
  | [], _ :: _ => true
  | _ :: _, [] => false
  | a :: as, b :: bs => a.toNat < b.toNat || (a.toNat == b.toNat && bytesLt as bs)

/-- `ProtocolMap` = `BTreeMap<Vec<u8>, Box<dyn DynProtocolHandler>>` as an association list kept
in ascending key order; a handler is represented by its id. -/
abbrev PMap := List (Alpn × Nat)

/-- `BTreeMap::insert`: replaces the value of an existing key. -/
def PMap.insert : PMap → Alpn → Nat → PMap
  | [], a, h => [(a, h)]
  | (k, v) :: rest, a, h =>
    if a = k then (a, h) :: rest
    else if bytesLt a k then (a, h) :: (k, v) :: rest
    else (k, v) :: PMap.insert rest a h

/-- `ProtocolMap::get`. -/
def PMap.get : PMap → Alpn → Option Nat
  | [], _ => none
  | (k, v) :: rest, a => if a = k then some v else PMap.get rest a

/-- `ProtocolMap::alpns`: the keys in map order. -/
def PMap.alpns (m : PMap) : List Alpn := m.map (·.1)

/-- `RouterBuilder::accept` called once per element, in order; the handler id is the position of
the call (`i` = id of the next registration). -/
def buildFrom (m : PMap) (i : Nat) : List Alpn → PMap
  | [] => m
  | a :: rest => buildFrom (m.insert a i) (i + 1) rest

def build (regs : List Alpn) : PMap := buildFrom [] 0 regs

inductive Verdict where
  | accept | retry | reject | ignore
deriving DecidableEq, Repr

/-- What an incoming filter can see of an attempt: where it comes from and whether that source
address has been validated. -/
structure Attempt where
  src : Nat
  validated : Bool
deriving DecidableEq, Repr

abbrev Filter := Attempt → Verdict

/-- rustls' selection rule (assumed, see header). -/
def negotiate (ours : List Alpn) (offered : List Alpn) : Option Alpn :=
  ours.find? (fun a => offered.contains a)

inductive Gate where
  | admitted | refused | ignored
deriving DecidableEq, Repr

/-- The run loop's filter handling for one dial, including the dialer's reaction to a RETRY:
returns the filter calls `(validated, verdict)` in order and what became of the dial. -/
def filterPhase (f : Option Filter) (src : Nat) : List (Bool × Verdict) × Gate :=
  match f with
  | none => ([], .admitted)
  | some f =>
    match f ⟨src, false⟩ with
    | .accept => ([(false, .accept)], .admitted)
    | .reject => ([(false, .reject)], .refused)
    | .ignore => ([(false, .ignore)], .ignored)
    | .retry =>
      match f ⟨src, true⟩ with
      | .accept => ([(false, .retry), (true, .accept)], .admitted)
      | .retry => ([(false, .retry), (true, .retry)], .refused)
      | .reject => ([(false, .retry), (true, .reject)], .refused)
      | .ignore => ([(false, .retry), (true, .ignore)], .ignored)

inductive DialResult where
  | ok (a : Alpn)
  | refused
  | noalpn
  | ignored
deriving DecidableEq, Repr

structure Outcome where
  filterCalls : List (Bool × Verdict)
  dial : DialResult
  /-- the handler whose `on_accepting` and `accept` are invoked, with the connection's ALPN -/
  handler : Option (Nat × Alpn)
deriving DecidableEq, Repr

/-- One dial from source `src` offering `offered` against a router with protocol map `m`. -/
def dispatch (m : PMap) (f : Option Filter) (src : Nat) (offered : List Alpn) : Outcome :=
  match filterPhase f src with
  | (calls, .refused) => ⟨calls, .refused, none⟩
  | (calls, .ignored) => ⟨calls, .ignored, none⟩
  | (calls, .admitted) =>
    match negotiate m.alpns offered with
    | none => ⟨calls, .noalpn, none⟩
    | some a =>
      match m.get a with
      | none => ⟨calls, .ok a, none⟩   -- "Ignoring connection: unsupported ALPN protocol"
      | some h => ⟨calls, .ok a, some (h, a)⟩

/-- The filter let the dial through: no filter, or accept at once, or retry and then accept of
the validated attempt. -/
def Admits (f : Option Filter) (src : Nat) : Prop :=
  match f with
  | none => True
  | some f => f ⟨src, false⟩ = .accept ∨ (f ⟨src, false⟩ = .retry ∧ f ⟨src, true⟩ = .accept)

/-- Id of the LAST registration of `a` among `regs`, ids starting at `i`. -/
def lastIdxFrom (i : Nat) : List Alpn → Alpn → Option Nat
  | [], _ => none
  | x :: rest, a =>
    match lastIdxFrom (i + 1) rest a with
    | some h => some h
    | none => if a = x then some i else none

end IrohModel.C40
