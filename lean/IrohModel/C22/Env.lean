/-
C22 — the environment of the resolve plumbing, modelled instead of assumed.

`Model.lean` takes `selected_path` and the open/abandoned status of paths as inputs
(`select`, `insertOpen`, `abandon`).  In the code they are written only by the connection
handlers of `RemoteStateActor` (iroh/src/socket/remote_map/remote_state.rs):

* `handle_msg_add_connection` — `connections.remove(id)`, `connections.insert(id, {paths: {}})`;
  if `conn.path(PathId::ZERO)` resolves to a network path: `register_and_configure_path`
  (`conn_state.paths[0] := addr`, `paths.insert_open_path(addr.remote())`); then `select_path`;
* `handle_path_event(Established)` — for a known, live connection: `register_and_configure_path`
  for the new path id, then `select_path`;
* `handle_path_event(Abandoned)` — for a known, live connection and a tracked path id:
  `conn_state.paths.remove(id)`; if **this connection** has no other path to the same remote
  address: `paths.abandoned_path(remote)`; then `select_path`.  (The comment in the code says
  "once no connections have any path to that remote addr"; the code looks at this connection
  only — modelled as written, see `NoSharedAbandon`.)
* `handle_connection_close` — `connections.remove(id)`; `selected_path := None` iff no
  connection is left;
* `select_path` — the `PathSelector` sees the tracked paths of all live connections and may
  return one of them (`PathSelection::set` takes a `PathSelectionData`, which only
  `PathSelectionContext::paths` hands out) or nothing; `selected_path` is replaced only by a
  returned path, never cleared here.

These are the ONLY writers of `selected_path` (lines `selected_path = None` /
`selected_path.replace`) and the only callers of `insert_open_path` / `abandoned_path`.

An environment event is executed as the base-model handler calls it amounts to
(`baseSteps`), so every theorem about base histories applies to `compile`d event histories.
-/
import IrohModel.C22.Model

namespace IrohModel.C22

/-- `ConnectionState::paths` of one entry of `RemoteStateActor::connections`:
path id ↦ remote address of the path. -/
structure Conn where
  id : Nat
  paths : List (Nat × Nat) := []
deriving DecidableEq, Repr

structure EState where
  base : State := {}
  conns : List Conn := []
deriving Repr

/-- One handler call of the actor, connection handlers included.  `sel` is what the
`PathSelector` returns in the handler's `select_path` call; `order` the path map's
iteration order at the handler's `prune_paths` call (as in `Step`). -/
inductive EOp
  /-- a message / lookup handler of the base model (`resolve`, `lookupItem`, …) -/
  | base (st : Step)
  /-- `handle_msg_add_connection`; `path0`: the remote address of path 0 if it resolves -/
  | connAdded (c : Nat) (path0 : Option Nat) (sel : Option Nat) (order : List Nat)
  /-- `PathEvent::Established { id: pid }` on connection `c`, network path to `a` -/
  | pathOpened (c pid a : Nat) (sel : Option Nat) (order : List Nat)
  /-- `PathEvent::Abandoned { id: pid }` on connection `c` -/
  | pathAbandoned (c pid : Nat) (sel : Option Nat)
  /-- the connection's `on_closed` future resolved -/
  | connClosed (c : Nat)
deriving Repr

def findConn (cs : List Conn) (c : Nat) : Option Conn := cs.find? (·.id == c)

/-- `paths.insert(pid, a)` -/
def Conn.setPath (k : Conn) (pid a : Nat) : Conn :=
  { k with paths := (k.paths.filter fun p => !(p.1 == pid)) ++ [(pid, a)] }

/-- `paths.remove(pid)` -/
def Conn.removePath (k : Conn) (pid : Nat) : Conn :=
  { k with paths := k.paths.filter fun p => !(p.1 == pid) }

def Conn.addrOf (k : Conn) (pid : Nat) : Option Nat :=
  (k.paths.find? (·.1 == pid)).map (·.2)

def setConn (cs : List Conn) (k : Conn) : List Conn :=
  cs.map fun x => if x.id == k.id then k else x

def removeConn (cs : List Conn) (c : Nat) : List Conn :=
  cs.filter fun x => !(x.id == c)

/-- What the selector is shown: the tracked paths of all connections. -/
def candidates (cs : List Conn) : List Nat := cs.flatMap fun k => k.paths.map (·.2)

/-- `select_path`: the base `select` call it amounts to (none if the selection is kept). -/
def selSteps (cs : List Conn) : Option Nat → List Step
  | some a => if (candidates cs).contains a then [⟨.select (some a), []⟩] else []
  | none => []

/-- The connection table after the handler. -/
def nextConns (cs : List Conn) : EOp → List Conn
  | .base _ => cs
  | .connAdded c path0 _ _ =>
    let cs := removeConn cs c
    match path0 with
    | some a => cs ++ [⟨c, [(0, a)]⟩]
    | none => cs ++ [⟨c, []⟩]
  | .pathOpened c pid a _ _ =>
    match findConn cs c with
    | some k => setConn cs (k.setPath pid a)
    | none => cs
  | .pathAbandoned c pid _ =>
    match findConn cs c with
    | some k => setConn cs (k.removePath pid)
    | none => cs
  | .connClosed c => removeConn cs c

/-- The calls on the base model (path state, `selected_path`) the handler makes. -/
def baseSteps (cs : List Conn) (op : EOp) : List Step :=
  match op with
  | .base st => [st]
  | .connAdded _ path0 sel order =>
    (match path0 with
     | some a => [⟨.insertOpen a, order⟩]
     | none => []) ++ selSteps (nextConns cs op) sel
  | .pathOpened c _ a sel order =>
    match findConn cs c with
    | some _ => ⟨.insertOpen a, order⟩ :: selSteps (nextConns cs op) sel
    | none => []
  | .pathAbandoned c pid sel =>
    match findConn cs c with
    | some k =>
      match k.addrOf pid with
      | some a =>
        -- "no other path of THIS connection goes to the same remote address"
        (if ((k.removePath pid).paths.map (·.2)).contains a then [] else [⟨.abandon a, []⟩])
          ++ selSteps (nextConns cs op) sel
      | none => []      -- "path not in path_id_map": returns before `select_path`
    | none => []
  | .connClosed c =>
    if (removeConn cs c).isEmpty then [⟨.select none, []⟩] else []

def estep (es : EState) (op : EOp) : EState × List Answer :=
  let r := run es.base (baseSteps es.conns op)
  ({ base := r.1, conns := nextConns es.conns op }, r.2)

def einit (configured : Bool := true) : EState := { base := init configured }

def erun : EState → List EOp → EState × List Answer
  | es, [] => (es, [])
  | es, op :: rest =>
    let (es1, a1) := estep es op
    let (es2, a2) := erun es1 rest
    (es2, a1 ++ a2)

/-- The base-model history an event history amounts to. -/
def compile : List Conn → List EOp → List Step
  | _, [] => []
  | cs, op :: rest => baseSteps cs op ++ compile (nextConns cs op) rest

end IrohModel.C22
