/-
C22 — helper lemmas: the path-list operations keep keys distinct, pruning only removes
non-live entries, and every handler preserves the invariant `Inv`.
-/
import IrohModel.C22.Model
import IrohModel.C23.Theorems

namespace IrohModel.C22

open IrohModel.C23 (Path Status WF)

/-! ## Path lists -/

theorem hasId_iff {l : List Path} {a : Nat} : hasId l a = true ↔ a ∈ l.map (·.id) := by
  unfold hasId
  rw [List.any_eq_true, List.mem_map]
  constructor
  · rintro ⟨p, hp, h⟩; exact ⟨p, hp, by simpa using h⟩
  · rintro ⟨p, hp, h⟩; exact ⟨p, hp, by simpa using h⟩

theorem hasId_false_iff {l : List Path} {a : Nat} : hasId l a = false ↔ a ∉ l.map (·.id) := by
  rw [← hasId_iff]; cases hasId l a <;> simp

theorem wf_nil : WF [] := by simp [WF]

theorem wf_append_single {l : List Path} {p : Path} (h : WF l) (hp : p.id ∉ l.map (·.id)) :
    WF (l ++ [p]) := by
  unfold WF at *
  rw [List.map_append, List.nodup_append]
  refine ⟨h, by simp, ?_⟩
  intro a ha b hb
  simp at hb
  subst hb
  intro hab; subst hab; exact hp ha

theorem insertUnknown_wf {l : List Path} (a : Nat) (h : WF l) : WF (insertUnknown l a) := by
  unfold insertUnknown
  split
  · exact h
  · rename_i hh
    exact wf_append_single h (hasId_false_iff.mp (by simpa using hh))

theorem mem_insertUnknown {l : List Path} {a : Nat} {p : Path} :
    p ∈ insertUnknown l a → p ∈ l ∨ (p.status = .unknown ∧ p.id = a) := by
  unfold insertUnknown
  split
  · exact Or.inl
  · intro h
    rcases List.mem_append.mp h with h | h
    · exact Or.inl h
    · simp at h; subst h; exact Or.inr ⟨rfl, rfl⟩

theorem subset_insertUnknown {l : List Path} {a : Nat} {p : Path} (h : p ∈ l) :
    p ∈ insertUnknown l a := by
  unfold insertUnknown
  split
  · exact h
  · exact List.mem_append_left _ h

theorem insertUnknown_ne_nil (l : List Path) (a : Nat) : insertUnknown l a ≠ [] := by
  unfold insertUnknown
  split
  · rename_i hh
    intro hl; subst hl; simp [hasId] at hh
  · simp

theorem insertAddrs_wf {l : List Path} (addrs : List Nat) (h : WF l) : WF (insertAddrs l addrs) := by
  unfold insertAddrs
  induction addrs generalizing l with
  | nil => exact h
  | cons a as ih => exact ih (insertUnknown_wf a h)

theorem subset_insertAddrs {l : List Path} (addrs : List Nat) {p : Path} (h : p ∈ l) :
    p ∈ insertAddrs l addrs := by
  unfold insertAddrs
  induction addrs generalizing l with
  | nil => exact h
  | cons a as ih => exact ih (subset_insertUnknown h)

theorem mem_insertAddrs {l : List Path} (addrs : List Nat) {p : Path} :
    p ∈ insertAddrs l addrs → p ∈ l ∨ (p.status = .unknown ∧ p.id ∈ addrs) := by
  unfold insertAddrs
  induction addrs generalizing l with
  | nil => exact Or.inl
  | cons a as ih =>
    intro h
    rcases ih h with h | ⟨h1, h2⟩
    · rcases mem_insertUnknown h with h | ⟨h1, h2⟩
      · exact Or.inl h
      · exact Or.inr ⟨h1, by simp [h2]⟩
    · exact Or.inr ⟨h1, List.mem_cons_of_mem _ h2⟩

theorem insertUnknown_has (l : List Path) (a : Nat) : ∃ p ∈ insertUnknown l a, p.id = a := by
  unfold insertUnknown
  split
  · rename_i hh
    obtain ⟨p, hp, hpa⟩ := List.mem_map.mp (hasId_iff.mp hh)
    exact ⟨p, hp, hpa⟩
  · exact ⟨⟨a, isRelayId a, .unknown⟩, by simp, rfl⟩

theorem insertAddrs_has {l : List Path} (addrs : List Nat) {a : Nat} (ha : a ∈ addrs) :
    ∃ p ∈ insertAddrs l addrs, p.id = a := by
  induction addrs generalizing l with
  | nil => cases ha
  | cons b bs ih =>
    show ∃ p ∈ insertAddrs (insertUnknown l b) bs, p.id = a
    rcases List.mem_cons.mp ha with rfl | h
    · obtain ⟨p, hp, hpa⟩ := insertUnknown_has l a
      exact ⟨p, subset_insertAddrs bs hp, hpa⟩
    · exact ih h

theorem insertAddrs_nil_left_eq_nil {addrs : List Nat} (h : insertAddrs [] addrs = []) : addrs = [] := by
  cases addrs with
  | nil => rfl
  | cons a as =>
    exfalso
    have hne := insertUnknown_ne_nil [] a
    obtain ⟨p, hp⟩ := List.exists_mem_of_ne_nil _ hne
    have : p ∈ insertAddrs [] (a :: as) := by
      show p ∈ insertAddrs (insertUnknown [] a) as
      exact subset_insertAddrs as hp
    rw [h] at this; cases this

theorem insertAddrs_nil (l : List Path) : insertAddrs l [] = l := rfl

theorem setStatus_ids (l : List Path) (a : Nat) (f : Status → Status) :
    (setStatus l a f).map (·.id) = l.map (·.id) := by
  unfold setStatus
  rw [List.map_map]
  apply List.map_congr_left
  intro p _
  simp only [Function.comp]
  split <;> rfl

theorem setStatus_wf {l : List Path} (a : Nat) (f : Status → Status) (h : WF l) :
    WF (setStatus l a f) := by
  unfold WF; rw [setStatus_ids]; exact h

theorem setStatus_eq_nil {l : List Path} {a : Nat} {f : Status → Status} :
    setStatus l a f = [] ↔ l = [] := by
  simp [setStatus]

theorem openPath_wf {l : List Path} (a : Nat) (h : WF l) : WF (openPath l a) := by
  unfold openPath
  split
  · exact setStatus_wf _ _ h
  · rename_i hh
    exact wf_append_single h (hasId_false_iff.mp (by simpa using hh))

/-- After `insert_open_path(a)` the entry of `a` exists and is open. -/
theorem openPath_has_open (l : List Path) (a : Nat) :
    ∃ p ∈ openPath l a, p.status = .open := by
  unfold openPath
  split
  · rename_i hh
    obtain ⟨q, hq, hqa⟩ := List.any_eq_true.mp hh
    refine ⟨{ q with status := .open }, ?_, rfl⟩
    unfold setStatus
    exact List.mem_map.mpr ⟨q, hq, by simp [hqa]⟩
  · exact ⟨⟨a, isRelayId a, .open⟩, by simp, rfl⟩

/-! ## Iteration order -/

theorem findId_some {l : List Path} {a : Nat} {p : Path} (h : findId l a = some p) :
    p ∈ l ∧ p.id = a := by
  unfold findId at h
  exact ⟨List.mem_of_find?_eq_some h, by simpa using List.find?_some h⟩

theorem findId_of_mem {l : List Path} (hwf : WF l) {p : Path} (hp : p ∈ l) :
    findId l p.id = some p := by
  unfold findId
  induction l with
  | nil => cases hp
  | cons q qs ih =>
    unfold WF at hwf
    rw [List.map_cons, List.nodup_cons] at hwf
    rcases List.mem_cons.mp hp with rfl | hp'
    · simp
    · have hne : q.id ≠ p.id := by
        intro he; apply hwf.1; rw [he]; exact List.mem_map_of_mem hp'
      have hb : (q.id == p.id) = false := by simpa using hne
      rw [List.find?_cons, hb]
      exact ih hwf.2 hp'

theorem filterMap_findId_ids {l : List Path} (hwf : WF l) :
    ∀ order : List Nat, (∀ a ∈ order, a ∈ l.map (·.id)) →
      (order.filterMap (findId l)).map (·.id) = order
  | [], _ => rfl
  | a :: as, h => by
    obtain ⟨p, hp, hpa⟩ := List.mem_map.mp (h a (by simp))
    have hf : findId l a = some p := by rw [← hpa]; exact findId_of_mem hwf hp
    rw [List.filterMap_cons, hf]
    simp only [List.map_cons]
    rw [filterMap_findId_ids hwf as (fun b hb => h b (List.mem_cons_of_mem _ hb)), hpa]

theorem validOrder_spec {order : List Nat} {l : List Path} (h : validOrder order l = true) :
    order.Nodup ∧ (∀ a ∈ order, a ∈ l.map (·.id)) ∧ (∀ p ∈ l, p.id ∈ order) := by
  unfold validOrder at h
  simp only [Bool.and_eq_true, decide_eq_true_eq, List.all_eq_true] at h
  obtain ⟨⟨h1, h2⟩, h3⟩ := h
  refine ⟨h1, fun a ha => hasId_iff.mp (h2 a ha), fun p hp => ?_⟩
  simpa using h3 p hp

theorem mem_reorder {order : List Nat} {l : List Path} (hwf : WF l) {p : Path} :
    p ∈ reorder order l ↔ p ∈ l := by
  unfold reorder
  split
  · rename_i hv
    obtain ⟨_, _, h3⟩ := validOrder_spec hv
    rw [List.mem_filterMap]
    constructor
    · rintro ⟨a, _, hf⟩; exact (findId_some hf).1
    · intro hp; exact ⟨p.id, h3 p hp, findId_of_mem hwf hp⟩
  · exact Iff.rfl

theorem reorder_wf {order : List Nat} {l : List Path} (hwf : WF l) : WF (reorder order l) := by
  unfold reorder
  split
  · rename_i hv
    obtain ⟨h1, h2, _⟩ := validOrder_spec hv
    unfold WF
    rw [filterMap_findId_ids hwf order h2]; exact h1
  · exact hwf

theorem reorder_eq_nil {order : List Nat} {l : List Path} (hwf : WF l) :
    reorder order l = [] ↔ l = [] := by
  constructor
  · intro h
    cases l with
    | nil => rfl
    | cons p ps =>
      have : p ∈ reorder order (p :: ps) := (mem_reorder hwf).mpr (by simp)
      rw [h] at this; cases this
  · intro h; subst h
    unfold reorder
    split
    · rename_i hv
      obtain ⟨_, h2, _⟩ := validOrder_spec hv
      cases order with
      | nil => rfl
      | cons a as => have := h2 a (by simp); simp at this
    · rfl

/-! ## Pruning (C23) -/

theorem pruneWith_nil (order : List Nat) : pruneWith order [] = [] := by
  unfold pruneWith
  rw [(reorder_eq_nil wf_nil).mpr rfl]
  rfl

theorem mem_of_mem_pruneWith {order : List Nat} {l : List Path} (hwf : WF l) {p : Path}
    (h : p ∈ pruneWith order l) : p ∈ l :=
  (mem_reorder hwf).mp ((C23.only_removes _).subset h)

theorem pruneWith_wf {order : List Nat} {l : List Path} (hwf : WF l) : WF (pruneWith order l) := by
  unfold WF pruneWith
  exact List.Nodup.sublist ((C23.only_removes _).map _) (reorder_wf hwf)

/-- A live path (open, unknown, relay) survives pruning. -/
theorem live_mem_pruneWith {order : List Nat} {l : List Path} (hwf : WF l) {p : Path}
    (hp : p ∈ l) (hl : p.Live) : p ∈ pruneWith order l :=
  C23.never_removes_open_unknown_relay _ (reorder_wf hwf) p ((mem_reorder hwf).mpr hp) hl

theorem pruneWith_ne_nil_of_live {order : List Nat} {l : List Path} (hwf : WF l) {p : Path}
    (hp : p ∈ l) (hl : p.Live) : pruneWith order l ≠ [] := by
  intro h
  have := live_mem_pruneWith (order := order) hwf hp hl
  rw [h] at this; cases this

/-! ## The invariant and what every handler guarantees -/

/-- Reachable-state invariant: distinct keys; queued requests are distinct, were made
(`< nextReq`), and wait only while no path is known. -/
structure Inv (s : State) : Prop where
  wf : WF s.paths
  nodup : s.pending.Nodup
  lt : ∀ r ∈ s.pending, r < s.nextReq
  waiting : s.pending ≠ [] → s.paths = []

theorem inv_init (c : Bool) : Inv (init c) :=
  ⟨wf_nil, List.nodup_nil, (fun _ h => by cases h), fun _ => rfl⟩

/-- The reply `emit_pending_resolve_requests(e)` sends. -/
def replyOf (s : State) (e : Option LookupErr) : Reply :=
  if s.paths.isEmpty then .err (e.getD .noResults) else .ok

theorem emit_eq (s : State) (e : Option LookupErr) :
    emit s e = ({ s with pending := [] }, s.pending.map fun i => (i, replyOf s e)) := by
  unfold emit replyOf
  split
  · rename_i h
    have h0 : s.pending = [] := by simpa using h
    cases s; simp_all
  · rfl

/-- What a handler taking `s` to `s'` and sending `ans` guarantees about requests. -/
structure Good (s s' : State) (ans : List Answer) : Prop where
  inv : Inv s'
  next_le : s.nextReq ≤ s'.nextReq
  ans_src : ∀ a ∈ ans, a.1 ∈ s.pending ∨ (s.nextReq ≤ a.1 ∧ a.1 < s'.nextReq)
  ans_nodup : (ans.map (·.1)).Nodup
  ans_done : ∀ a ∈ ans, a.1 ∉ s'.pending
  pend_src : ∀ r ∈ s'.pending, r ∈ s.pending ∨ (s.nextReq ≤ r ∧ r < s'.nextReq)
  no_loss : ∀ r, (r ∈ s.pending ∨ (s.nextReq ≤ r ∧ r < s'.nextReq)) →
    r ∈ s'.pending ∨ r ∈ ans.map (·.1)
  ok_iff : ∀ a ∈ ans, (a.2 = .ok ↔ s'.paths ≠ [])

/-- A handler that leaves the request queue alone and never makes a known path set
empty-from-nonempty matter: no answers. -/
theorem good_quiet {s s' : State} (hs : Inv s) (hp : s'.pending = s.pending)
    (hn : s'.nextReq = s.nextReq) (hwf : WF s'.paths) (he : s.paths = [] → s'.paths = []) :
    Good s s' [] where
  inv := ⟨hwf, hp ▸ hs.nodup, (fun r hr => by rw [hn]; exact hs.lt r (hp ▸ hr)),
          fun h => he (hs.waiting (hp ▸ h))⟩
  next_le := by omega
  ans_src := fun _ h => by cases h
  ans_nodup := List.nodup_nil
  ans_done := fun _ h => by cases h
  pend_src := fun r hr => Or.inl (hp ▸ hr)
  no_loss := fun r hr => by
    rcases hr with hr | ⟨h1, h2⟩
    · exact Or.inl (hp ▸ hr)
    · omega
  ok_iff := fun _ h => by cases h

/-- Two handlers in a row, the second not touching the path set. -/
theorem Good.trans {s s1 s2 : State} {a1 a2 : List Answer} (hs : Inv s)
    (g1 : Good s s1 a1) (g2 : Good s1 s2 a2) (hp : s2.paths = s1.paths) :
    Good s s2 (a1 ++ a2) where
  inv := g2.inv
  next_le := Nat.le_trans g1.next_le g2.next_le
  ans_src := fun a ha => by
    rcases List.mem_append.mp ha with h | h
    · rcases g1.ans_src a h with h | ⟨h1, h2⟩
      · exact Or.inl h
      · exact Or.inr ⟨h1, Nat.lt_of_lt_of_le h2 g2.next_le⟩
    · rcases g2.ans_src a h with h | ⟨h1, h2⟩
      · rcases g1.pend_src _ h with h | ⟨h3, h4⟩
        · exact Or.inl h
        · exact Or.inr ⟨h3, Nat.lt_of_lt_of_le h4 g2.next_le⟩
      · exact Or.inr ⟨Nat.le_trans g1.next_le h1, h2⟩
  ans_nodup := by
    rw [List.map_append, List.nodup_append]
    refine ⟨g1.ans_nodup, g2.ans_nodup, ?_⟩
    intro x hx y hy hxy
    subst hxy
    obtain ⟨a, ha, rfl⟩ := List.mem_map.mp hx
    obtain ⟨b, hb, hab⟩ := List.mem_map.mp hy
    have hlt : a.1 < s1.nextReq := by
      rcases g1.ans_src a ha with h | ⟨_, h⟩
      · exact Nat.lt_of_lt_of_le (hs.lt _ h) g1.next_le
      · exact h
    rcases g2.ans_src b hb with h | ⟨h, _⟩
    · rw [hab] at h; exact g1.ans_done a ha h
    · rw [hab] at h; omega
  ans_done := fun a ha hin => by
    rcases List.mem_append.mp ha with h | h
    · have hlt : a.1 < s1.nextReq := by
        rcases g1.ans_src a h with h' | ⟨_, h'⟩
        · exact Nat.lt_of_lt_of_le (hs.lt _ h') g1.next_le
        · exact h'
      rcases g2.pend_src _ hin with h' | ⟨h', _⟩
      · exact g1.ans_done a h h'
      · omega
    · exact g2.ans_done a h hin
  pend_src := fun r hr => by
    rcases g2.pend_src r hr with h | ⟨h1, h2⟩
    · rcases g1.pend_src r h with h | ⟨h3, h4⟩
      · exact Or.inl h
      · exact Or.inr ⟨h3, Nat.lt_of_lt_of_le h4 g2.next_le⟩
    · exact Or.inr ⟨Nat.le_trans g1.next_le h1, h2⟩
  no_loss := fun r hr => by
    have h1 : r ∈ s1.pending ∨ r ∈ a1.map (·.1) ∨ (s1.nextReq ≤ r ∧ r < s2.nextReq) := by
      rcases hr with hr | ⟨h1, h2⟩
      · rcases g1.no_loss r (Or.inl hr) with h | h
        · exact Or.inl h
        · exact Or.inr (Or.inl h)
      · by_cases hlt : r < s1.nextReq
        · rcases g1.no_loss r (Or.inr ⟨h1, hlt⟩) with h | h
          · exact Or.inl h
          · exact Or.inr (Or.inl h)
        · exact Or.inr (Or.inr ⟨by omega, h2⟩)
    rw [List.map_append]
    rcases h1 with h | h | h
    · rcases g2.no_loss r (Or.inl h) with h | h
      · exact Or.inl h
      · exact Or.inr (List.mem_append_right _ h)
    · exact Or.inr (List.mem_append_left _ h)
    · rcases g2.no_loss r (Or.inr h) with h | h
      · exact Or.inl h
      · exact Or.inr (List.mem_append_right _ h)
  ok_iff := fun a ha => by
    rcases List.mem_append.mp ha with h | h
    · rw [hp]; exact g1.ok_iff a h
    · exact g2.ok_iff a h

/-- All queued requests are answered with the same reply `r` and the queue is emptied. -/
theorem good_emit_all {s s' : State} (hs : Inv s) (r : Reply) (hp : s'.pending = [])
    (hn : s'.nextReq = s.nextReq) (hwf : WF s'.paths)
    (hr : s.pending ≠ [] → (r = .ok ↔ s'.paths ≠ [])) :
    Good s s' (s.pending.map fun i => (i, r)) where
  inv := ⟨hwf, hp ▸ List.nodup_nil, (fun r hr => by rw [hp] at hr; cases hr),
          fun h => absurd hp h⟩
  next_le := by omega
  ans_src := fun a ha => by
    obtain ⟨i, hi, rfl⟩ := List.mem_map.mp ha
    exact Or.inl hi
  ans_nodup := by
    rw [List.map_map]
    have : ((fun a : Answer => a.1) ∘ fun i => (i, r)) = id := rfl
    rw [this, List.map_id]; exact hs.nodup
  ans_done := fun a _ => by rw [hp]; exact List.not_mem_nil
  pend_src := fun r hr => by rw [hp] at hr; cases hr
  no_loss := fun x hx => by
    rcases hx with hx | ⟨h1, h2⟩
    · right
      rw [List.map_map]
      exact List.mem_map.mpr ⟨x, hx, rfl⟩
    · omega
  ok_iff := fun a ha => by
    obtain ⟨i, hi, rfl⟩ := List.mem_map.mp ha
    exact hr (List.ne_nil_of_mem hi)

/-! ## The handlers -/

theorem isEmpty_false_of_ne_nil {l : List Path} (h : l ≠ []) : l.isEmpty = false := by
  cases l with
  | nil => exact absurd rfl h
  | cons _ _ => rfl

/-- `insert_multiple`, with the `emit` call spelled out. -/
theorem insertMultiple_eq (s : State) (addrs order : List Nat) :
    insertMultiple s addrs order =
      if s.paths.isEmpty && !(insertAddrs s.paths addrs).isEmpty then
        ({ s with paths := pruneWith order (insertAddrs s.paths addrs), pending := [] },
          s.pending.map fun i => (i, Reply.ok))
      else ({ s with paths := pruneWith order (insertAddrs s.paths addrs) }, []) := by
  unfold insertMultiple
  by_cases hc : (s.paths.isEmpty && !(insertAddrs s.paths addrs).isEmpty) = true
  · simp only [hc, if_true, emit_eq]
    have hne : (insertAddrs s.paths addrs).isEmpty = false := by
      simp only [Bool.and_eq_true, Bool.not_eq_eq_eq_not, Bool.not_true] at hc; exact hc.2
    simp [replyOf, hne]
  · simp only [hc]
    rfl

/-- `insert_open_path`, with the `emit` call spelled out. -/
theorem insertOpen_eq (s : State) (a : Nat) (order : List Nat) :
    insertOpen s a order =
      ({ s with paths := pruneWith order (openPath s.paths a), pending := [] },
        s.pending.map fun i => (i, Reply.ok)) := by
  unfold insertOpen
  obtain ⟨p, hp, _⟩ := openPath_has_open s.paths a
  have hne := isEmpty_false_of_ne_nil (List.ne_nil_of_mem hp)
  simp [emit_eq, replyOf, hne]

/-- The lookup-finished handler, with the `emit` call spelled out. -/
theorem finishLookup_eq (s : State) (e : Option LookupErr) :
    finishLookup s e =
      if s.lookup then
        ({ s with pending := [], lookup := false }, s.pending.map fun i => (i, replyOf s e))
      else (s, []) := by
  unfold finishLookup
  cases hl : s.lookup <;> simp [emit_eq]

theorem insertMultiple_good {s : State} (hs : Inv s) (addrs order : List Nat) :
    Good s (insertMultiple s addrs order).1 (insertMultiple s addrs order).2 := by
  have hwf1 : WF (insertAddrs s.paths addrs) := insertAddrs_wf addrs hs.wf
  rw [insertMultiple_eq]
  split
  · -- empty → non-empty: everybody waiting is told Ok
    rename_i hc
    simp only [Bool.and_eq_true, List.isEmpty_iff, Bool.not_eq_eq_eq_not, Bool.not_true] at hc
    obtain ⟨he, hne⟩ := hc
    have hne' : insertAddrs s.paths addrs ≠ [] := by
      intro h; rw [h] at hne; simp at hne
    refine good_emit_all hs .ok ?_ ?_ ?_ ?_
    · rfl
    · rfl
    · exact pruneWith_wf hwf1
    · intro _
      simp only [true_iff]
      obtain ⟨p, hp⟩ := List.exists_mem_of_ne_nil _ hne'
      have hl : p.Live := by
        rcases mem_insertAddrs addrs hp with h | ⟨h, _⟩
        · rw [he] at h; cases h
        · exact Or.inr (Or.inr h)
      exact pruneWith_ne_nil_of_live hwf1 hp hl
  · rename_i hc
    refine good_quiet hs ?_ ?_ ?_ ?_
    · rfl
    · rfl
    · exact pruneWith_wf hwf1
    · intro he
      have h1 : insertAddrs s.paths addrs = [] := by
        cases hi : insertAddrs s.paths addrs with
        | nil => rfl
        | cons p ps =>
          exfalso; apply hc
          rw [hi, he]; rfl
      show pruneWith order (insertAddrs s.paths addrs) = []
      rw [h1]
      exact pruneWith_nil order

theorem insertOpen_good {s : State} (hs : Inv s) (a : Nat) (order : List Nat) :
    Good s (insertOpen s a order).1 (insertOpen s a order).2 := by
  have hwf1 : WF (openPath s.paths a) := openPath_wf a hs.wf
  rw [insertOpen_eq]
  obtain ⟨p, hp, hpo⟩ := openPath_has_open s.paths a
  refine good_emit_all hs .ok ?_ ?_ ?_ ?_
  · rfl
  · rfl
  · exact pruneWith_wf hwf1
  · intro _
    simp only [true_iff]
    exact pruneWith_ne_nil_of_live hwf1 hp (Or.inr (Or.inl hpo))

theorem resolveRemote_good {s : State} (hs : Inv s) :
    Good s (resolveRemote s).1 (resolveRemote s).2 := by
  unfold resolveRemote
  split
  · rename_i he
    have he' : s.paths = [] := by simpa using he
    exact {
      inv := ⟨hs.wf, by
          show (s.pending ++ [s.nextReq]).Nodup
          rw [List.nodup_append]
          refine ⟨hs.nodup, by simp, ?_⟩
          intro x hx y hy
          simp at hy; subst hy
          have := hs.lt x hx
          omega,
        fun r hr => by
          show r < s.nextReq + 1
          rcases List.mem_append.mp hr with h | h
          · have := hs.lt r h; omega
          · simp at h; omega,
        fun _ => he'⟩
      next_le := Nat.le_succ _
      ans_src := fun _ h => by cases h
      ans_nodup := List.nodup_nil
      ans_done := fun _ h => by cases h
      pend_src := fun r hr => by
        rcases List.mem_append.mp hr with h | h
        · exact Or.inl h
        · simp at h; subst h; exact Or.inr ⟨Nat.le_refl _, Nat.lt_succ_self _⟩
      no_loss := fun r hr => by
        left
        show r ∈ s.pending ++ [s.nextReq]
        rcases hr with h | ⟨h1, h2⟩
        · exact List.mem_append_left _ h
        · have : r = s.nextReq := by
            have : r < s.nextReq + 1 := h2
            omega
          subst this; simp
      ok_iff := fun _ h => by cases h }
  · rename_i he
    have hne : s.paths ≠ [] := by simpa using he
    have hpe : s.pending = [] := by
      cases hp : s.pending with
      | nil => rfl
      | cons x xs => exact absurd (hs.waiting (by simp [hp])) hne
    exact {
      inv := ⟨hs.wf, hs.nodup, fun r hr => by
          show r < s.nextReq + 1
          have := hs.lt r hr; omega, fun h => absurd hpe h⟩
      next_le := Nat.le_succ _
      ans_src := fun a ha => by
        simp at ha; subst ha
        exact Or.inr ⟨Nat.le_refl _, Nat.lt_succ_self _⟩
      ans_nodup := by simp
      ans_done := fun a ha hin => by
        simp at ha; subst ha
        have := hs.lt _ hin
        simp at this
      pend_src := fun r hr => Or.inl hr
      no_loss := fun r hr => by
        rcases hr with h | ⟨h1, h2⟩
        · exact Or.inl h
        · right
          have : r = s.nextReq := by
            have : r < s.nextReq + 1 := h2
            omega
          subst this; simp
      ok_iff := fun a ha => by
        simp at ha; subst ha
        simp [hne] }

theorem triggerLookup_pending (s : State) : (triggerLookup s).pending = s.pending := by
  unfold triggerLookup; split <;> rfl
theorem triggerLookup_nextReq (s : State) : (triggerLookup s).nextReq = s.nextReq := by
  unfold triggerLookup; split <;> rfl
theorem triggerLookup_paths (s : State) : (triggerLookup s).paths = s.paths := by
  unfold triggerLookup; split <;> rfl

theorem finishLookup_good {s : State} (hs : Inv s) (e : Option LookupErr) :
    Good s (finishLookup s e).1 (finishLookup s e).2 := by
  rw [finishLookup_eq]
  split
  · refine good_emit_all hs _ ?_ ?_ ?_ ?_
    · rfl
    · rfl
    · exact hs.wf
    · intro hp
      have he := hs.waiting hp
      show replyOf s e = .ok ↔ s.paths ≠ []
      unfold replyOf
      simp [he]
  · exact good_quiet hs rfl rfl hs.wf id

theorem resolveRemote_paths (s : State) : (resolveRemote s).1.paths = s.paths := by
  unfold resolveRemote; split <;> rfl

/-- **Every handler** keeps the invariant and treats requests as `Good` says. -/
theorem step_good {s : State} (hs : Inv s) (st : Step) : Good s (step s st).1 (step s st).2 := by
  have quiet : ∀ s' : State, s'.pending = s.pending → s'.nextReq = s.nextReq → WF s'.paths →
      (s.paths = [] → s'.paths = []) → Good s s' [] := fun _ h1 h2 h3 h4 => good_quiet hs h1 h2 h3 h4
  unfold step
  split
  · -- resolve
    rename_i addrs _
    have g1 := insertMultiple_good hs addrs st.order
    have g2 := resolveRemote_good g1.inv
    have g12 := Good.trans hs g1 g2 (resolveRemote_paths _)
    have g3 : Good (resolveRemote (insertMultiple s addrs st.order).1).1
        (triggerLookup (resolveRemote (insertMultiple s addrs st.order).1).1) [] :=
      good_quiet g2.inv (triggerLookup_pending _) (triggerLookup_nextReq _)
        (by rw [triggerLookup_paths]; exact g2.inv.wf) (by rw [triggerLookup_paths]; exact id)
    have := Good.trans hs g12 g3 (triggerLookup_paths _)
    simpa using this
  · exact insertMultiple_good hs _ _
  · exact insertOpen_good hs _ _
  · exact quiet _ rfl rfl (setStatus_wf _ _ hs.wf) (fun h => setStatus_eq_nil.mpr h)
  · exact quiet _ rfl rfl (pruneWith_wf hs.wf) (fun h => by
      show pruneWith st.order s.paths = []
      rw [h]; exact pruneWith_nil _)
  · exact quiet _ rfl rfl hs.wf id
  · exact quiet _ rfl rfl hs.wf id
  · -- lookupItem
    rename_i addrs wrongId _
    split
    · exact quiet _ rfl rfl hs.wf id
    · have hs1 : Inv { s with emitted := true } := ⟨hs.wf, hs.nodup, hs.lt, hs.waiting⟩
      split
      · exact quiet _ rfl rfl hs.wf id
      · have g := insertMultiple_good hs1 addrs st.order
        exact ⟨g.inv, g.next_le, g.ans_src, g.ans_nodup, g.ans_done, g.pend_src, g.no_loss, g.ok_iff⟩
  · exact finishLookup_good hs _
  · split
    · exact finishLookup_good hs _
    · exact quiet _ rfl rfl hs.wf id
  · split
    · exact quiet _ rfl rfl hs.wf id
    · exact finishLookup_good hs _

end IrohModel.C22
