/-
C22 — address resolution for a connect is answered exactly once and correctly.

Model of `RemotePathState` (iroh/src/socket/remote_map/remote_state/path_state.rs)
together with the fields of `State` (…/remote_state.rs) that decide how a
`ResolveRemote` request is answered:

* `paths`     — `RemotePathState::paths`, the entries of the `FxHashMap` (C23's `Path`:
                address id, relay flag, status);
* `pending`   — `pending_resolve_requests` (ids of the queued oneshot senders, FIFO);
* `selected`  — `State::selected_path` (remote address id);
* `lookup`    — `State::address_lookup_stream.is_some()`;
* `emitted`   — `AddressLookupStream::did_emit` of the running lookup;
* `configured`— whether any lookup service is configured (`AddressLookupServices`);
* `now`       — the clock read by `abandoned_path` (`Instant::now()`; virtual, an input).

An operation is one handler call of the actor (the actor is single threaded, every
handler runs to completion): `resolve` = `handle_msg_resolve_remote`, `insertOpen` =
what `register_and_configure_path` does to the path state, `abandon` = the `Abandoned`
path event, `lookupItem`/`lookupDone` = `handle_address_lookup_item` for `Some(Ok)` /
`None` / `Some(Err)`, `select` = `select_path` / `handle_connection_close` writing
`selected_path`.  `lookupEnd` / `lookupPoll` are the two ways the real
`AddressLookupStream` finishes (all services done; none configured).

Pruning is C23's `prune` (imported, not re-modelled).  It depends on the iteration
order of the hash map (ties between equal close times; which failed paths survive when
all failed), so every step carries the order the real map had at the `prune_paths`
call (`order`; reported by the harness, arbitrary in the theorems).
-/
import IrohModel.C23.Model
import IrohModel.Generated.C22

namespace IrohModel.C22

open IrohModel.C23 (Path Status)

/-- The two `AddressLookupFailed` variants. -/
inductive LookupErr
  | noService
  | noResults
deriving DecidableEq, Repr

/-- What is sent on a request's oneshot channel. -/
inductive Reply
  | ok
  | err (e : LookupErr)
deriving DecidableEq, Repr

/-- An answer: request id and what it was told. -/
abbrev Answer := Nat × Reply

structure State where
  paths : List Path := []
  pending : List Nat := []
  nextReq : Nat := 0
  selected : Option Nat := none
  lookup : Bool := false
  emitted : Bool := false
  configured : Bool := true
  now : Nat := 0
deriving DecidableEq, Repr

inductive Op
  /-- `State::handle_msg_resolve_remote(addrs, tx)` -/
  | resolve (addrs : List Nat)
  /-- `RemotePathState::insert_multiple` -/
  | insertMultiple (addrs : List Nat)
  /-- `RemotePathState::insert_open_path` -/
  | insertOpen (a : Nat)
  /-- `RemotePathState::abandoned_path` -/
  | abandon (a : Nat)
  /-- `RemotePathState::prune_paths` -/
  | prune
  /-- time passes -/
  | advance (dt : Nat)
  /-- `selected_path := a` -/
  | select (a : Option Nat)
  /-- the lookup stream yields an item (`wrongId`: for another endpoint id) -/
  | lookupItem (addrs : List Nat) (wrongId : Bool)
  /-- the lookup stream finishes: `none` = ended (`Ok`), `some e` = failed with `e` -/
  | lookupDone (r : Option LookupErr)
  /-- all lookup services are done: `AddressLookupStream` ends `Ok` if it emitted, else `NoResults` -/
  | lookupEnd
  /-- the stream is polled with nothing fed: `NoServiceConfigured` iff none is configured -/
  | lookupPoll
deriving Repr

/-- One handler call together with the map's iteration order at its `prune_paths` call. -/
structure Step where
  op : Op
  order : List Nat := []
deriving Repr

/-! ## Addresses -/

/-- Address ids encode the kind in the two low bits: 0 IPv4, 1 IPv6, 2 custom, 3 relay. -/
def isRelayId (a : Nat) : Bool := a % 4 == 3

def hasId (paths : List Path) (a : Nat) : Bool := paths.any (·.id == a)

/-- `paths.entry(addr).or_default()` — a new entry has status `Unknown`. -/
def insertUnknown (paths : List Path) (a : Nat) : List Path :=
  if hasId paths a then paths else paths ++ [⟨a, isRelayId a, .unknown⟩]

def insertAddrs (paths : List Path) (addrs : List Nat) : List Path :=
  addrs.foldl insertUnknown paths

def setStatus (paths : List Path) (a : Nat) (f : Status → Status) : List Path :=
  paths.map fun p => if p.id == a then { p with status := f p.status } else p

/-- `entry(addr).or_default().status = Open` -/
def openPath (paths : List Path) (a : Nat) : List Path :=
  if hasId paths a then setStatus paths a (fun _ => .open)
  else paths ++ [⟨a, isRelayId a, .open⟩]

/-- `abandoned_path`: `Open | Inactive → Inactive(now)`, `Unusable | Unknown → Unusable`. -/
def abandonStatus (now : Nat) : Status → Status
  | .open => .inactive now
  | .inactive _ => .inactive now
  | .unusable => .unusable
  | .unknown => .unusable

/-! ## Iteration order of the hash map -/

def findId (paths : List Path) (a : Nat) : Option Path := paths.find? (·.id == a)

/-- `order` lists exactly the keys of `paths`, each once. -/
def validOrder (order : List Nat) (paths : List Path) : Bool :=
  decide order.Nodup && order.all (hasId paths) && paths.all (fun p => order.contains p.id)

/-- The entries in the reported iteration order (unchanged if the report does not fit). -/
def reorder (order : List Nat) (paths : List Path) : List Path :=
  if validOrder order paths then order.filterMap (findId paths) else paths

/-- `prune_paths` on a map iterated in `order`. -/
def pruneWith (order : List Nat) (paths : List Path) : List Path :=
  C23.prune (reorder order paths)

/-! ## The handlers -/

/-- `emit_pending_resolve_requests(err)`. -/
def emit (s : State) (e : Option LookupErr) : State × List Answer :=
  if s.pending.isEmpty then (s, [])
  else
    let r : Reply := if s.paths.isEmpty then .err (e.getD .noResults) else .ok
    ({ s with pending := [] }, s.pending.map fun i => (i, r))

/-- `insert_multiple(addrs)`. -/
def insertMultiple (s : State) (addrs : List Nat) (order : List Nat) : State × List Answer :=
  let wasEmpty := s.paths.isEmpty
  let s1 := { s with paths := insertAddrs s.paths addrs }
  let (s2, ans) := if wasEmpty && !s1.paths.isEmpty then emit s1 none else (s1, [])
  ({ s2 with paths := pruneWith order s2.paths }, ans)

/-- `insert_open_path(a)`. -/
def insertOpen (s : State) (a : Nat) (order : List Nat) : State × List Answer :=
  let s1 := { s with paths := openPath s.paths a }
  let (s2, ans) := emit s1 none
  ({ s2 with paths := pruneWith order s2.paths }, ans)

/-- `resolve_remote(tx)`: the new request gets the id `nextReq`. -/
def resolveRemote (s : State) : State × List Answer :=
  if s.paths.isEmpty then
    ({ s with pending := s.pending ++ [s.nextReq], nextReq := s.nextReq + 1 }, [])
  else
    ({ s with nextReq := s.nextReq + 1 }, [(s.nextReq, .ok)])

/-- `trigger_address_lookup`. -/
def triggerLookup (s : State) : State :=
  if s.selected.isSome || s.lookup then s else { s with lookup := true, emitted := false }

/-- `handle_address_lookup_item` for the end of the stream (`None` / `Some(Err(e))`). -/
def finishLookup (s : State) (e : Option LookupErr) : State × List Answer :=
  if !s.lookup then (s, [])
  else
    let (s1, ans) := emit s e
    ({ s1 with lookup := false }, ans)

def step (s : State) (st : Step) : State × List Answer :=
  match st.op with
  | .resolve addrs =>
    let (s1, a1) := insertMultiple s addrs st.order
    let (s2, a2) := resolveRemote s1
    (triggerLookup s2, a1 ++ a2)
  | .insertMultiple addrs => insertMultiple s addrs st.order
  | .insertOpen a => insertOpen s a st.order
  | .abandon a => ({ s with paths := setStatus s.paths a (abandonStatus s.now) }, [])
  | .prune => ({ s with paths := pruneWith st.order s.paths }, [])
  | .advance dt => ({ s with now := s.now + dt }, [])
  | .select a => ({ s with selected := a }, [])
  | .lookupItem addrs wrongId =>
    if !s.lookup then (s, [])
    else
      let s1 := { s with emitted := true }
      if wrongId then (s1, []) else insertMultiple s1 addrs st.order
  | .lookupDone r => finishLookup s r
  | .lookupEnd =>
    if s.configured then finishLookup s (if s.emitted then none else some .noResults) else (s, [])
  | .lookupPoll =>
    if s.configured then (s, []) else finishLookup s (some .noService)

/-- A fresh actor state (`RemoteStateActor::new`). -/
def init (configured : Bool := true) : State := { configured := configured }

/-- Runs a history; returns the final state and all answers in the order they were sent. -/
def run : State → List Step → State × List Answer
  | s, [] => (s, [])
  | s, st :: rest =>
    let (s1, a1) := step s st
    let (s2, a2) := run s1 rest
    (s2, a1 ++ a2)

end IrohModel.C22
