/-
C22 — lemmas for the environment model (`Env.lean`): effect of the base handlers on open
entries and on `selected_path`, bookkeeping of the connection table, and the invariant
`EInv` with its preservation by every event.
-/
import IrohModel.C22.Env
import IrohModel.C22.Theorems

namespace IrohModel.C22

open IrohModel.C23 (Path Status WF)

/-! ## Base handlers: open entries, `selected_path` -/

/-- The path state has an entry for `a` with status `Open`. -/
def OpenAt (s : State) (a : Nat) : Prop := ∃ q ∈ s.paths, q.id = a ∧ q.status = .open

def Op.isAbandon : Op → Bool
  | .abandon _ => true
  | _ => false

def Op.isSelect : Op → Bool
  | .select _ => true
  | _ => false

def Op.isResolve : Op → Bool
  | .resolve _ => true
  | _ => false

theorem run_nil (s : State) : run s [] = (s, []) := rfl

theorem run_cons (s : State) (st : Step) (l : List Step) :
    run s (st :: l) = ((run (step s st).1 l).1, (step s st).2 ++ (run (step s st).1 l).2) := rfl

theorem insertMultiple_paths (s : State) (addrs order : List Nat) :
    (insertMultiple s addrs order).1.paths = pruneWith order (insertAddrs s.paths addrs) := by
  rw [insertMultiple_eq]; split <;> rfl

theorem insertMultiple_selected (s : State) (addrs order : List Nat) :
    (insertMultiple s addrs order).1.selected = s.selected := by
  rw [insertMultiple_eq]; split <;> rfl

theorem finishLookup_paths (s : State) (e : Option LookupErr) :
    (finishLookup s e).1.paths = s.paths := by
  rw [finishLookup_eq]; split <;> rfl

theorem finishLookup_selected (s : State) (e : Option LookupErr) :
    (finishLookup s e).1.selected = s.selected := by
  rw [finishLookup_eq]; split <;> rfl

theorem resolveRemote_selected (s : State) : (resolveRemote s).1.selected = s.selected := by
  unfold resolveRemote; split <;> rfl

theorem triggerLookup_selected (s : State) : (triggerLookup s).selected = s.selected := by
  unfold triggerLookup; split <;> rfl

/-- Only `select` writes `selected_path`. -/
theorem step_selected (s : State) (st : Step) (h : st.op.isSelect = false) :
    (step s st).1.selected = s.selected := by
  obtain ⟨op, order⟩ := st
  cases op with
  | select x => simp [Op.isSelect] at h
  | resolve addrs =>
    simp only [step, triggerLookup_selected, resolveRemote_selected, insertMultiple_selected]
  | insertMultiple addrs => exact insertMultiple_selected _ _ _
  | insertOpen a => simp only [step]; rw [insertOpen_eq]
  | abandon a => rfl
  | prune => rfl
  | advance dt => rfl
  | lookupItem addrs w =>
    simp only [step]
    split
    · rfl
    · split
      · rfl
      · exact insertMultiple_selected _ _ _
  | lookupDone r => exact finishLookup_selected _ _
  | lookupEnd =>
    simp only [step]; split
    · exact finishLookup_selected _ _
    · rfl
  | lookupPoll =>
    simp only [step]; split
    · rfl
    · exact finishLookup_selected _ _

theorem step_select (s : State) (x : Option Nat) (order : List Nat) :
    (step s ⟨.select x, order⟩).1.selected = x ∧ (step s ⟨.select x, order⟩).1.paths = s.paths :=
  ⟨rfl, rfl⟩

theorem openAt_pruneWith {l : List Path} (hwf : WF l) {order : List Nat} {a : Nat}
    (h : ∃ q ∈ l, q.id = a ∧ q.status = .open) :
    ∃ q ∈ pruneWith order l, q.id = a ∧ q.status = .open := by
  obtain ⟨q, hq, h1, h2⟩ := h
  exact ⟨q, live_mem_pruneWith hwf hq (Or.inr (Or.inl h2)), h1, h2⟩

theorem openAt_openPath {l : List Path} {a b : Nat}
    (h : ∃ q ∈ l, q.id = a ∧ q.status = .open) :
    ∃ q ∈ openPath l b, q.id = a ∧ q.status = .open := by
  obtain ⟨q, hq, h1, h2⟩ := h
  unfold openPath
  split
  · unfold setStatus
    by_cases hb : (q.id == b) = true
    · refine ⟨{ q with status := .open }, List.mem_map.mpr ⟨q, hq, by simp [hb]⟩, h1, rfl⟩
    · refine ⟨q, List.mem_map.mpr ⟨q, hq, by simp [hb]⟩, h1, h2⟩
  · exact ⟨q, List.mem_append_left _ hq, h1, h2⟩

theorem openPath_open_at (l : List Path) (a : Nat) :
    ∃ q ∈ openPath l a, q.id = a ∧ q.status = .open := by
  unfold openPath
  split
  · rename_i hh
    obtain ⟨q, hq, hqa⟩ := List.any_eq_true.mp hh
    refine ⟨{ q with status := .open }, ?_, by simpa using hqa, rfl⟩
    unfold setStatus
    exact List.mem_map.mpr ⟨q, hq, by simp [hqa]⟩
  · exact ⟨⟨a, isRelayId a, .open⟩, by simp, rfl, rfl⟩

/-- Every handler except `abandoned_path` keeps an open entry open (pruning never removes an
open path, C23). -/
theorem step_keeps_open {s : State} (hs : Inv s) (st : Step) (h : st.op.isAbandon = false) {a : Nat}
    (ho : OpenAt s a) : OpenAt (step s st).1 a := by
  obtain ⟨op, order⟩ := st
  have im : ∀ (s' : State) addrs, s'.paths = s.paths → OpenAt (insertMultiple s' addrs order).1 a := by
    intro s' addrs hs'
    unfold OpenAt
    rw [insertMultiple_paths, hs']
    obtain ⟨q, hq, h1, h2⟩ := ho
    exact openAt_pruneWith (insertAddrs_wf addrs hs.wf) ⟨q, subset_insertAddrs addrs hq, h1, h2⟩
  cases op with
  | abandon x => simp [Op.isAbandon] at h
  | resolve addrs =>
    unfold OpenAt
    simp only [step, triggerLookup_paths, resolveRemote_paths]
    exact im s addrs rfl
  | insertMultiple addrs => exact im s addrs rfl
  | insertOpen x =>
    unfold OpenAt
    simp only [step]; rw [insertOpen_eq]
    exact openAt_pruneWith (openPath_wf x hs.wf) (openAt_openPath ho)
  | prune => exact openAt_pruneWith hs.wf ho
  | advance dt => exact ho
  | select x => exact ho
  | lookupItem addrs w =>
    simp only [step]
    split
    · exact ho
    · split
      · exact ho
      · exact im _ addrs rfl
  | lookupDone r =>
    unfold OpenAt; simp only [step]; rw [finishLookup_paths]; exact ho
  | lookupEnd =>
    simp only [step]; split
    · unfold OpenAt; rw [finishLookup_paths]; exact ho
    · exact ho
  | lookupPoll =>
    simp only [step]; split
    · exact ho
    · unfold OpenAt; rw [finishLookup_paths]; exact ho

/-- `abandoned_path(b)` leaves the entries of other addresses alone. -/
theorem abandon_keeps_open {s : State} (b : Nat) (order : List Nat) {a : Nat} (hab : a ≠ b)
    (ho : OpenAt s a) : OpenAt (step s ⟨.abandon b, order⟩).1 a := by
  obtain ⟨q, hq, h1, h2⟩ := ho
  refine ⟨q, ?_, h1, h2⟩
  show q ∈ setStatus s.paths b (abandonStatus s.now)
  unfold setStatus
  refine List.mem_map.mpr ⟨q, hq, ?_⟩
  have : (q.id == b) = false := by rw [h1]; simpa using hab
  simp [this]

/-- `insert_open_path(a)` makes the entry of `a` open. -/
theorem insertOpen_opens {s : State} (hs : Inv s) (a : Nat) (order : List Nat) :
    OpenAt (step s ⟨.insertOpen a, order⟩).1 a := by
  unfold OpenAt
  simp only [step]; rw [insertOpen_eq]
  exact openAt_pruneWith (openPath_wf a hs.wf) (openPath_open_at s.paths a)

/-! ## Runs of handler calls -/

theorem run_inv_list {s : State} (hs : Inv s) (l : List Step) : Inv (run s l).1 := inv_run hs l

theorem run_keeps_open {s : State} (hs : Inv s) (l : List Step)
    (h : ∀ st ∈ l, st.op.isAbandon = false) {a : Nat} (ho : OpenAt s a) : OpenAt (run s l).1 a := by
  induction l generalizing s with
  | nil => exact ho
  | cons st rest ih =>
    rw [run_cons]
    exact ih (step_good hs st).inv (fun x hx => h x (List.mem_cons_of_mem _ hx))
      (step_keeps_open hs st (h st (by simp)) ho)

theorem run_selected {s : State} (l : List Step) (h : ∀ st ∈ l, st.op.isSelect = false) :
    (run s l).1.selected = s.selected := by
  induction l generalizing s with
  | nil => rfl
  | cons st rest ih =>
    rw [run_cons, ih (fun x hx => h x (List.mem_cons_of_mem _ hx)), step_selected s st (h st (by simp))]

theorem run_waiting {s : State} (hs : Inv s) (l : List Step)
    (h : ∀ st ∈ l, st.op.isResolve = false) (hw : s.pending ≠ [] → s.lookup = true) :
    (run s l).1.pending ≠ [] → (run s l).1.lookup = true := by
  induction l generalizing s with
  | nil => exact hw
  | cons st rest ih =>
    rw [run_cons]
    refine ih (step_good hs st).inv (fun x hx => h x (List.mem_cons_of_mem _ hx)) ?_
    refine waiting_lookup_step hs st ?_ hw
    rintro ⟨addrs, hr⟩
    have := h st (by simp)
    rw [hr] at this; simp [Op.isResolve] at this

/-! ## The connection table -/

theorem findConn_some {cs : List Conn} {c : Nat} {k : Conn} (h : findConn cs c = some k) :
    k ∈ cs ∧ k.id = c := by
  unfold findConn at h
  exact ⟨List.mem_of_find?_eq_some h, by simpa using List.find?_some h⟩

theorem findConn_none {cs : List Conn} {c : Nat} (h : findConn cs c = none) :
    ∀ k ∈ cs, k.id ≠ c := by
  unfold findConn at h
  intro k hk he
  have := List.find?_eq_none.mp h k hk
  simp [he] at this

theorem mem_removeConn {cs : List Conn} {c : Nat} {x : Conn} :
    x ∈ removeConn cs c ↔ x ∈ cs ∧ x.id ≠ c := by
  simp [removeConn]

theorem mem_setConn {cs : List Conn} {k x : Conn} (h : x ∈ setConn cs k) :
    x = k ∨ (x ∈ cs ∧ x.id ≠ k.id) := by
  unfold setConn at h
  obtain ⟨y, hy, rfl⟩ := List.mem_map.mp h
  by_cases he : (y.id == k.id) = true
  · simp [he]
  · simp only [he]
    exact Or.inr ⟨hy, by simpa using he⟩

theorem setConn_ids (cs : List Conn) (k : Conn) : (setConn cs k).map (·.id) = cs.map (·.id) := by
  unfold setConn
  rw [List.map_map]
  apply List.map_congr_left
  intro x _
  simp only [Function.comp]
  split
  · rename_i h
    have : x.id = k.id := by simpa using h
    exact this.symm
  · rfl

theorem setConn_mem_of_mem {cs : List Conn} {k0 k : Conn} (h0 : k0 ∈ cs) (hid : k0.id = k.id) :
    k ∈ setConn cs k := by
  unfold setConn
  exact List.mem_map.mpr ⟨k0, h0, by simp [hid]⟩

theorem setConn_ne_nil {cs : List Conn} {k : Conn} (h : cs ≠ []) : setConn cs k ≠ [] := by
  unfold setConn; simpa using h

theorem mem_removePath {k : Conn} {pid : Nat} {p : Nat × Nat} (h : p ∈ (k.removePath pid).paths) :
    p ∈ k.paths := by
  unfold Conn.removePath at h
  exact (List.mem_filter.mp h).1

theorem mem_setPath {k : Conn} {pid a : Nat} {p : Nat × Nat} (h : p ∈ (k.setPath pid a).paths) :
    p = (pid, a) ∨ p ∈ k.paths := by
  unfold Conn.setPath at h
  rcases List.mem_append.mp h with h | h
  · exact Or.inr (List.mem_filter.mp h).1
  · simp at h; exact Or.inl h

theorem setPath_ne_nil (k : Conn) (pid a : Nat) : (k.setPath pid a).paths ≠ [] := by
  unfold Conn.setPath; simp

theorem mem_candidates {cs : List Conn} {a : Nat} :
    a ∈ candidates cs ↔ ∃ k ∈ cs, ∃ p ∈ k.paths, p.2 = a := by
  simp [candidates, List.mem_flatMap]

/-- What `select_path` can do: keep the selection, or select a tracked path. -/
theorem selSteps_cases (cs : List Conn) (sel : Option Nat) :
    selSteps cs sel = [] ∨ ∃ a, a ∈ candidates cs ∧ selSteps cs sel = [⟨.select (some a), []⟩] := by
  cases sel with
  | none => exact Or.inl rfl
  | some a =>
    by_cases h : (candidates cs).contains a = true
    · exact Or.inr ⟨a, List.contains_iff_mem.mp h, by show (if (candidates cs).contains a = true then _ else _) = _; rw [if_pos h]⟩
    · exact Or.inl (by show (if (candidates cs).contains a = true then _ else _) = _; rw [if_neg h])

theorem selSteps_not_abandon (cs : List Conn) (sel : Option Nat) :
    ∀ st ∈ selSteps cs sel, st.op.isAbandon = false := by
  rcases selSteps_cases cs sel with h | ⟨a, _, h⟩ <;> rw [h] <;> simp [Op.isAbandon]

theorem selSteps_not_resolve (cs : List Conn) (sel : Option Nat) :
    ∀ st ∈ selSteps cs sel, st.op.isResolve = false := by
  rcases selSteps_cases cs sel with h | ⟨a, _, h⟩ <;> rw [h] <;> simp [Op.isResolve]

/-- After `select_path`: a selection implies a connection with a tracked path exists, if
that was so before or the table is non-empty anyway. -/
theorem selSteps_selected {s : State} (cs : List Conn) (sel : Option Nat)
    (h : s.selected ≠ none → cs ≠ []) :
    (run s (selSteps cs sel)).1.selected ≠ none → cs ≠ [] := by
  rcases selSteps_cases cs sel with h' | ⟨a, ha, h'⟩
  · rw [h']; exact h
  · intro _
    obtain ⟨k, hk, _⟩ := mem_candidates.mp ha
    exact List.ne_nil_of_mem hk

/-! ## Hypotheses on the event feed, and the invariant -/

/-- Handlers that belong to the connection side are not fed as plain base steps. -/
def Op.envOwned : Op → Bool
  | .select _ => true
  | .insertOpen _ => true
  | .abandon _ => true
  | _ => false

/-- Per-event hypotheses about what noq / the socket feed to the actor. -/
def OpOK (cs : List Conn) : EOp → Prop
  | .base st => st.op.envOwned = false
  /- (Q1) a connection is registered while its path 0 is still there and resolvable;
     (Q3) `stable_id`s of live connections are distinct -/
  | .connAdded c path0 _ _ => path0.isSome = true ∧ findConn cs c = none
  /- (H3) `NoSharedAbandon`: a path is abandoned on one connection only when no OTHER
     connection has a tracked path to the same remote address -/
  | .pathAbandoned c pid _ =>
    ∀ k a, findConn cs c = some k → k.addrOf pid = some a →
      ∀ k' ∈ cs, k'.id ≠ c → a ∉ k'.paths.map (·.2)
  | _ => True

/-- The connection an event leaves without any tracked path. -/
def emptied (cs : List Conn) (op : EOp) : Option Nat :=
  match op with
  | .pathAbandoned c _ _ =>
    match findConn (nextConns cs op) c with
    | some k => if k.paths.isEmpty then some c else none
    | none => none
  | _ => none

/-- The feed hypotheses along a history.  (Q2, the QUIC fact) when a `PathAbandoned` event
takes away the last tracked path of a connection, the next thing the actor handles is that
connection's close (`pend = some c`). -/
def FeedOK : Option Nat → List Conn → List EOp → Prop
  | _, _, [] => True
  | some c, cs, op :: rest => op = .connClosed c ∧ FeedOK none (nextConns cs op) rest
  | none, cs, op :: rest => OpOK cs op ∧ FeedOK (emptied cs op) (nextConns cs op) rest

/-- Invariant of the extended state; `pend = some c`: connection `c` has just lost its last
tracked path and is about to be closed. -/
structure EInv (pend : Option Nat) (es : EState) : Prop where
  inv : Inv es.base
  ids : (es.conns.map (·.id)).Nodup
  nonempty : ∀ k ∈ es.conns, some k.id ≠ pend → k.paths ≠ []
  tracked_open : ∀ k ∈ es.conns, ∀ p ∈ k.paths, OpenAt es.base p.2
  sel_conn : es.base.selected ≠ none → es.conns ≠ []
  waiting : es.base.pending ≠ [] → es.base.lookup = true

theorem einv_init (c : Bool) : EInv none (einit c) where
  inv := inv_init c
  ids := List.nodup_nil
  nonempty := fun _ h => by cases h
  tracked_open := fun _ h => by cases h
  sel_conn := fun h => absurd rfl h
  waiting := fun h => absurd rfl h

/-- With every live connection tracking a path, the environment assumption of the base
theorems holds. -/
theorem EInv.envOK {es : EState} (h : EInv none es) : EnvOK es.base := by
  intro hsel
  obtain ⟨k, hk⟩ := List.exists_mem_of_ne_nil _ (h.sel_conn hsel)
  obtain ⟨p, hp⟩ := List.exists_mem_of_ne_nil _ (h.nonempty k hk (by simp))
  obtain ⟨q, hq, _, hqo⟩ := h.tracked_open k hk p hp
  exact ⟨q, hq, hqo⟩

theorem findConn_setConn {cs : List Conn} {c : Nat} {k0 k : Conn} (h0 : findConn cs c = some k0)
    (hid : k.id = c) : findConn (setConn cs k) c = some k := by
  obtain ⟨hm, hc⟩ := findConn_some h0
  unfold findConn at *
  unfold setConn
  induction cs with
  | nil => cases hm
  | cons x xs ih =>
    rw [List.find?_cons] at h0
    rw [List.map_cons, List.find?_cons]
    by_cases hx : (x.id == c) = true
    · have hxk : (x.id == k.id) = true := by rw [hid]; exact hx
      have hkc : (k.id == c) = true := by simp [hid]
      simp only [hxk, if_true, hkc]
    · have hxk : (x.id == k.id) = false := by rw [hid]; simpa using hx
      have hx' : (x.id == c) = false := by simpa using hx
      simp only [hxk, Bool.false_eq_true, if_false, hx']
      rw [hx'] at h0
      have hm' : k0 ∈ xs := List.mem_of_find?_eq_some h0
      exact ih h0 hm'

/-- Closing a connection re-establishes the settled invariant, whether it was the pending
one or any other. -/
theorem estep_close {pend : Option Nat} {es : EState} (h : EInv pend es) (c : Nat)
    (hp : pend = none ∨ pend = some c) : EInv none (estep es (.connClosed c)).1 := by
  have hl : ∀ st ∈ baseSteps es.conns (.connClosed c), st.op.isAbandon = false ∧ st.op.isResolve = false := by
    intro st hst
    simp only [baseSteps] at hst
    split at hst
    · simp at hst; subst hst; exact ⟨rfl, rfl⟩
    · cases hst
  refine ⟨inv_run h.inv _, ?_, ?_, ?_, ?_, run_waiting h.inv _ (fun st hst => (hl st hst).2) h.waiting⟩
  · show ((removeConn es.conns c).map (·.id)).Nodup
    exact List.Nodup.sublist ((List.filter_sublist).map _) h.ids
  · intro k hk _
    obtain ⟨hk1, hk2⟩ := mem_removeConn.mp hk
    apply h.nonempty k hk1
    rcases hp with hp | hp <;> rw [hp] <;> simp [hk2]
  · intro k hk p hpp
    obtain ⟨hk1, _⟩ := mem_removeConn.mp hk
    exact run_keeps_open h.inv _ (fun st hst => (hl st hst).1) (h.tracked_open k hk1 p hpp)
  · show (run es.base (baseSteps es.conns (.connClosed c))).1.selected ≠ none → removeConn es.conns c ≠ []
    simp only [baseSteps]
    split
    · rename_i he
      intro hsel; exact absurd rfl hsel
    · rename_i he
      intro _ hnil; rw [hnil] at he; simp at he

theorem addrOf_mem {k : Conn} {pid a : Nat} (h : k.addrOf pid = some a) : (pid, a) ∈ k.paths := by
  unfold Conn.addrOf at h
  cases hf : k.paths.find? (·.1 == pid) with
  | none => simp [hf] at h
  | some p =>
    simp [hf] at h
    have hm := List.mem_of_find?_eq_some hf
    have hp : p.1 = pid := by simpa using List.find?_some hf
    have : p = (pid, a) := by cases p; simp_all
    rw [← this]; exact hm

theorem estep_conns (es : EState) (op : EOp) : (estep es op).1.conns = nextConns es.conns op := rfl

theorem estep_base (es : EState) (op : EOp) :
    (estep es op).1.base = (run es.base (baseSteps es.conns op)).1 := rfl

/-- A settled state and an admissible event: the invariant holds afterwards, with the
connection the event emptied (if any) pending. -/
theorem estep_ok {es : EState} (h : EInv none es) (op : EOp) (hok : OpOK es.conns op) :
    EInv (emptied es.conns op) (estep es op).1 := by
  cases op with
  | base st =>
    have hne : ∀ x ∈ [st], x.op.isAbandon = false ∧ x.op.isSelect = false := by
      intro x hx
      simp at hx; subst hx
      have : x.op.envOwned = false := hok
      cases hop : x.op <;> simp [hop, Op.envOwned] at this <;> simp [Op.isAbandon, Op.isSelect]
    refine ⟨inv_run h.inv _, h.ids, ?_, ?_, ?_, ?_⟩
    · intro k hk _; exact h.nonempty k hk (by simp)
    · intro k hk p hp
      exact run_keeps_open h.inv _ (fun x hx => (hne x hx).1) (h.tracked_open k hk p hp)
    · show (run es.base [st]).1.selected ≠ none → es.conns ≠ []
      rw [run_selected _ (fun x hx => (hne x hx).2)]; exact h.sel_conn
    · show (run es.base [st]).1.pending ≠ [] → (run es.base [st]).1.lookup = true
      rw [run_cons]
      exact waiting_lookup_step h.inv st (fun _ => h.envOK) h.waiting
  | connAdded c path0 sel order =>
    obtain ⟨hp0, hfresh⟩ := hok
    cases path0 with
    | none => simp at hp0
    | some a =>
      have hcs : nextConns es.conns (.connAdded c (some a) sel order) = removeConn es.conns c ++ [⟨c, [(0, a)]⟩] := rfl
      have hbs : baseSteps es.conns (.connAdded c (some a) sel order) =
          [⟨.insertOpen a, order⟩] ++ selSteps (removeConn es.conns c ++ [⟨c, [(0, a)]⟩]) sel := rfl
      have hna : ∀ x ∈ baseSteps es.conns (.connAdded c (some a) sel order), x.op.isAbandon = false := by
        rw [hbs]; intro x hx
        rcases List.mem_append.mp hx with hx | hx
        · simp at hx; subst hx; rfl
        · exact selSteps_not_abandon _ _ x hx
      have hnr : ∀ x ∈ baseSteps es.conns (.connAdded c (some a) sel order), x.op.isResolve = false := by
        rw [hbs]; intro x hx
        rcases List.mem_append.mp hx with hx | hx
        · simp at hx; subst hx; rfl
        · exact selSteps_not_resolve _ _ x hx
      have hrem : removeConn es.conns c = es.conns := by
        unfold removeConn
        apply List.filter_eq_self.mpr
        intro k hk
        have := findConn_none hfresh k hk
        simpa using this
      refine ⟨inv_run h.inv _, ?_, ?_, ?_, ?_, run_waiting h.inv _ hnr h.waiting⟩
      · rw [estep_conns]
        rw [hcs, hrem, List.map_append, List.nodup_append]
        refine ⟨h.ids, by simp, ?_⟩
        intro x hx y hy
        simp at hy; subst hy
        obtain ⟨k, hk, rfl⟩ := List.mem_map.mp hx
        exact findConn_none hfresh k hk
      · intro k hk _
        have hk' : k ∈ removeConn es.conns c ++ [⟨c, [(0, a)]⟩] := hk
        rcases List.mem_append.mp hk' with hk' | hk'
        · exact h.nonempty k (mem_removeConn.mp hk').1 (by simp)
        · simp at hk'; subst hk'; simp
      · intro k hk p hp
        have hk' : k ∈ removeConn es.conns c ++ [⟨c, [(0, a)]⟩] := hk
        rcases List.mem_append.mp hk' with hk' | hk'
        · exact run_keeps_open h.inv _ hna (h.tracked_open k (mem_removeConn.mp hk').1 p hp)
        · simp at hk'; subst hk'
          simp at hp; subst hp
          rw [estep_base]
          rw [hbs, run_append]
          exact run_keeps_open (inv_run h.inv _) _ (selSteps_not_abandon _ _)
            (by rw [run_cons, run_nil]; exact insertOpen_opens h.inv a order)
      · intro _
        rw [estep_conns]
        rw [hcs]; simp
  | pathOpened c pid a sel order =>
    cases hf : findConn es.conns c with
    | none =>
      -- "event for removed connection": nothing happens
      have hcs : nextConns es.conns (.pathOpened c pid a sel order) = es.conns := by
        simp [nextConns, hf]
      have hbs : baseSteps es.conns (.pathOpened c pid a sel order) = [] := by
        simp [baseSteps, hf]
      have : (estep es (.pathOpened c pid a sel order)).1 = es := by
        simp [estep, hcs, hbs, run_nil]
      rw [this]; exact h
    | some k0 =>
      obtain ⟨hk0, hk0c⟩ := findConn_some hf
      have hcs : nextConns es.conns (.pathOpened c pid a sel order) = setConn es.conns (k0.setPath pid a) := by
        simp [nextConns, hf]
      have hbs : baseSteps es.conns (.pathOpened c pid a sel order) =
          [⟨.insertOpen a, order⟩] ++ selSteps (setConn es.conns (k0.setPath pid a)) sel := by
        simp [baseSteps, hf, hcs]
      have hna : ∀ x ∈ baseSteps es.conns (.pathOpened c pid a sel order), x.op.isAbandon = false := by
        rw [hbs]; intro x hx
        rcases List.mem_append.mp hx with hx | hx
        · simp at hx; subst hx; rfl
        · exact selSteps_not_abandon _ _ x hx
      have hnr : ∀ x ∈ baseSteps es.conns (.pathOpened c pid a sel order), x.op.isResolve = false := by
        rw [hbs]; intro x hx
        rcases List.mem_append.mp hx with hx | hx
        · simp at hx; subst hx; rfl
        · exact selSteps_not_resolve _ _ x hx
      refine ⟨inv_run h.inv _, ?_, ?_, ?_, ?_, run_waiting h.inv _ hnr h.waiting⟩
      · rw [estep_conns]
        rw [hcs, setConn_ids]; exact h.ids
      · intro k hk _
        have hk' : k ∈ setConn es.conns (k0.setPath pid a) := by rw [← hcs]; exact hk
        rcases mem_setConn hk' with rfl | ⟨hk1, _⟩
        · exact setPath_ne_nil _ _ _
        · exact h.nonempty k hk1 (by simp)
      · intro k hk p hp
        have hk' : k ∈ setConn es.conns (k0.setPath pid a) := by rw [← hcs]; exact hk
        rw [estep_base]
        rcases mem_setConn hk' with rfl | ⟨hk1, _⟩
        · rcases mem_setPath hp with rfl | hp'
          · rw [hbs, run_append]
            exact run_keeps_open (inv_run h.inv _) _ (selSteps_not_abandon _ _)
              (by rw [run_cons, run_nil]; exact insertOpen_opens h.inv a order)
          · exact run_keeps_open h.inv _ hna (h.tracked_open k0 hk0 p hp')
        · exact run_keeps_open h.inv _ hna (h.tracked_open k hk1 p hp)
      · intro _
        rw [estep_conns]
        rw [hcs]; exact setConn_ne_nil (List.ne_nil_of_mem hk0)
  | pathAbandoned c pid sel =>
    cases hf : findConn es.conns c with
    | none =>
      have hcs : nextConns es.conns (.pathAbandoned c pid sel) = es.conns := by simp [nextConns, hf]
      have hbs : baseSteps es.conns (.pathAbandoned c pid sel) = [] := by simp [baseSteps, hf]
      have he : emptied es.conns (.pathAbandoned c pid sel) = none := by
        simp [emptied, hcs, hf]
      have : (estep es (.pathAbandoned c pid sel)).1 = es := by simp [estep, hcs, hbs, run_nil]
      rw [this, he]; exact h
    | some k0 =>
      obtain ⟨hk0, hk0c⟩ := findConn_some hf
      have hcs : nextConns es.conns (.pathAbandoned c pid sel) = setConn es.conns (k0.removePath pid) := by
        simp [nextConns, hf]
      have hfind' : findConn (setConn es.conns (k0.removePath pid)) c = some (k0.removePath pid) :=
        findConn_setConn hf hk0c
      cases ha : k0.addrOf pid with
      | none =>
        -- "path not in path_id_map": the table keeps its entries, nothing else happens
        have hsame : (k0.removePath pid).paths = k0.paths := by
          unfold Conn.removePath
          apply List.filter_eq_self.mpr
          intro p hp
          cases hf2 : k0.paths.find? (·.1 == pid) with
          | some q => simp [Conn.addrOf, hf2] at ha
          | none =>
            have := List.find?_eq_none.mp hf2 p hp
            simpa using this
        have hbs : baseSteps es.conns (.pathAbandoned c pid sel) = [] := by simp [baseSteps, hf, ha]
        have hne0 : k0.paths ≠ [] := h.nonempty k0 hk0 (by simp)
        have he : emptied es.conns (.pathAbandoned c pid sel) = none := by
          simp only [emptied, hcs, hfind', hsame]
          simp [hne0]
        rw [he]
        refine ⟨by simp [estep, hbs, run_nil]; exact h.inv, ?_, ?_, ?_, ?_, ?_⟩
        · rw [estep_conns]
          rw [hcs, setConn_ids]; exact h.ids
        · intro k hk _
          have hk' : k ∈ setConn es.conns (k0.removePath pid) := by rw [← hcs]; exact hk
          rcases mem_setConn hk' with rfl | ⟨hk1, _⟩
          · rw [hsame]; exact hne0
          · exact h.nonempty k hk1 (by simp)
        · intro k hk p hp
          have hk' : k ∈ setConn es.conns (k0.removePath pid) := by rw [← hcs]; exact hk
          rw [estep_base]
          rw [hbs, run_nil]
          rcases mem_setConn hk' with rfl | ⟨hk1, _⟩
          · exact h.tracked_open k0 hk0 p (mem_removePath hp)
          · exact h.tracked_open k hk1 p hp
        · rw [estep_conns, estep_base, hbs, run_nil, hcs]
          intro hs; exact setConn_ne_nil (h.sel_conn hs)
        · rw [estep_base, hbs, run_nil]; exact h.waiting
      | some a =>
        have hbs : baseSteps es.conns (.pathAbandoned c pid sel) =
            (if ((k0.removePath pid).paths.map (·.2)).contains a then [] else [⟨.abandon a, []⟩]) ++
              selSteps (setConn es.conns (k0.removePath pid)) sel := by
          simp [baseSteps, hf, ha, hcs]
        have hnr : ∀ x ∈ baseSteps es.conns (.pathAbandoned c pid sel), x.op.isResolve = false := by
          rw [hbs]; intro x hx
          rcases List.mem_append.mp hx with hx | hx
          · split at hx
            · cases hx
            · simp at hx; subst hx; rfl
          · exact selSteps_not_resolve _ _ x hx
        -- every path still tracked afterwards keeps its open entry
        have hkeep : ∀ b, (∃ k ∈ setConn es.conns (k0.removePath pid), ∃ p ∈ k.paths, p.2 = b) →
            OpenAt es.base b →
            OpenAt (run es.base (baseSteps es.conns (.pathAbandoned c pid sel))).1 b := by
          intro b hb hob
          rw [hbs, run_append]
          refine run_keeps_open (inv_run h.inv _) _ (selSteps_not_abandon _ _) ?_
          split
          · rw [run_nil]; exact hob
          · rename_i hnc
            rw [run_cons, run_nil]
            apply abandon_keeps_open a [] _ hob
            -- `b` is still tracked, `a` is not tracked by this connection any more (the test
            -- in the code) nor by any other (hypothesis H3)
            rintro rfl
            obtain ⟨k, hk, p, hp, hpb⟩ := hb
            rcases mem_setConn hk with rfl | ⟨hk1, hkid⟩
            · apply hnc
              simp only [List.contains_iff_mem]
              exact List.mem_map.mpr ⟨p, hp, hpb⟩
            · have hkc : k.id ≠ c := by rw [← hk0c]; exact hkid
              exact hok k0 b hf ha k hk1 hkc (List.mem_map.mpr ⟨p, hp, hpb⟩)
        refine ⟨inv_run h.inv _, ?_, ?_, ?_, ?_, run_waiting h.inv _ hnr h.waiting⟩
        · rw [estep_conns]
          rw [hcs, setConn_ids]; exact h.ids
        · intro k hk hpend
          have hk' : k ∈ setConn es.conns (k0.removePath pid) := by rw [← hcs]; exact hk
          rcases mem_setConn hk' with rfl | ⟨hk1, _⟩
          · intro hempty
            apply hpend
            simp only [emptied, hcs, hfind', hempty, List.isEmpty_nil, if_true]
            exact congrArg some hk0c
          · exact h.nonempty k hk1 (by simp)
        · intro k hk p hp
          have hk' : k ∈ setConn es.conns (k0.removePath pid) := by rw [← hcs]; exact hk
          apply hkeep p.2 ⟨k, hk', p, hp, rfl⟩
          rcases mem_setConn hk' with rfl | ⟨hk1, _⟩
          · exact h.tracked_open k0 hk0 p (mem_removePath hp)
          · exact h.tracked_open k hk1 p hp
        · intro _
          rw [estep_conns, hcs]; exact setConn_ne_nil (List.ne_nil_of_mem hk0)
  | connClosed c =>
    have : emptied es.conns (.connClosed c) = none := rfl
    rw [this]
    exact estep_close h c (Or.inl rfl)

end IrohModel.C22
