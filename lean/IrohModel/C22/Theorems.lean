/-
C22 — property theorems (only).  Statement of the property:

"A connect's address resolution is answered exactly once: with success as soon as
any path to the remote is known (immediately if one already is), and with failure
only after an address lookup has finished while no path is known (given lookup
services that eventually finish).  Once a remote has a known path it never loses
all of them."

All theorems quantify over EVERY history (`List Step`: any handler calls in any
order, any addresses, any time steps, any reported map iteration orders), from both
initial configurations (lookup services configured or not); proofs are by induction
over the history with the invariant `Inv` (Lemmas).

* `answered_at_most_once`, `ok_iff_path_known`, `no_waiting_while_path_known`,
  `fail_only_after_lookup_finished_empty`, `never_dropped` hold for every history.
* `lookup_running_while_waiting`, `eventually_answered` need the environment
  assumption `EnvOK` (a selected path is an open path of this remote — maintained by
  `select_path`/`handle_connection_close`/QUIC outside the modelled fields, DESIGN §5
  C22); `stuck_without_env` shows it is needed.
* The last sentence is FALSE of the code (known finding `C22:prune-empties-path-set`,
  inherited from C23's `split_off` arithmetic): `counterexample` is the reachable
  history; `never_loses_all_partial` / `immediate_if_known_partial` state exactly
  where the two affected clauses hold (whenever the pruned set is outside C23's
  finding class).
-/
import IrohModel.C22.Lemmas

namespace IrohModel.C22

open IrohModel.C23 (Path Status WF)

/-- Ids of the requests answered by a list of answers. -/
def answeredIds (ans : List Answer) : List Nat := ans.map (·.1)

/-- The state after a history. -/
def stateAfter (c : Bool) (h : List Step) : State := (run (init c) h).1

/-- All answers sent during a history, in order. -/
def answersOf (c : Bool) (h : List Step) : List Answer := (run (init c) h).2

/-- Environment assumption: a selected path is one of this remote's open paths. -/
def EnvOK (s : State) : Prop := s.selected ≠ none → ∃ p ∈ s.paths, p.status = .open

/-- The environment assumption holds in every state the history passes through. -/
def EnvAlong : State → List Step → Prop
  | s, [] => EnvOK s
  | s, st :: rest => EnvOK s ∧ EnvAlong (step s st).1 rest

/-- The handler is one of the ways an address lookup finishes. -/
def IsLookupFinish : Op → Prop
  | .lookupDone _ => True
  | .lookupEnd => True
  | .lookupPoll => True
  | _ => False

/-- C23's finding class: pruning applies, no path is live (open / unknown / relay) and
between 1 and 10 paths are inactive — exactly the sets `prune_non_relay_paths` empties. -/
def PruneEmptiesClass (l : List Path) : Prop :=
  30 ≤ C23.nonRelayCount l ∧ (∀ p ∈ l, ¬ p.Live) ∧ 1 ≤ C23.inactiveCount l ∧ C23.inactiveCount l ≤ 10

/-- The path set the handler's `prune_paths` call sees (the handler's insertions done). -/
def prunedSet (s : State) : Op → List Path
  | .resolve addrs => insertAddrs s.paths addrs
  | .insertMultiple addrs => insertAddrs s.paths addrs
  | .lookupItem addrs _ => insertAddrs s.paths addrs
  | .insertOpen a => openPath s.paths a
  | _ => s.paths

/-! ## Histories -/

theorem run_append (s : State) (h1 h2 : List Step) :
    run s (h1 ++ h2) = ((run (run s h1).1 h2).1, (run s h1).2 ++ (run (run s h1).1 h2).2) := by
  induction h1 generalizing s with
  | nil => simp [run]
  | cons st rest ih => simp [run, ih, List.append_assoc]

theorem inv_run {s : State} (hs : Inv s) (h : List Step) : Inv (run s h).1 := by
  induction h generalizing s with
  | nil => exact hs
  | cons st rest ih => exact ih (step_good hs st).inv

/-- Every state reached from a fresh actor satisfies the invariant. -/
theorem inv_reachable (c : Bool) (h : List Step) : Inv (stateAfter c h) :=
  inv_run (inv_init c) h

theorem run_spec {s : State} (hs : Inv s) (h : List Step) :
    (answeredIds (run s h).2).Nodup ∧
    (∀ r ∈ answeredIds (run s h).2, r ∈ s.pending ∨ s.nextReq ≤ r) ∧
    (∀ r ∈ (run s h).1.pending, r ∈ s.pending ∨ s.nextReq ≤ r) ∧
    s.nextReq ≤ (run s h).1.nextReq ∧
    (∀ r, (r ∈ s.pending ∨ (s.nextReq ≤ r ∧ r < (run s h).1.nextReq)) →
      r ∈ (run s h).1.pending ∨ r ∈ answeredIds (run s h).2) := by
  induction h generalizing s with
  | nil =>
    refine ⟨List.nodup_nil, (fun _ h => by cases h), fun r hr => Or.inl hr, Nat.le_refl _, ?_⟩
    intro r hr
    rcases hr with hr | ⟨h1, h2⟩
    · exact Or.inl hr
    · simp [run] at h2; omega
  | cons st rest ih =>
    have g := step_good hs st
    obtain ⟨i1, i2, i3, i4, i5⟩ := ih g.inv
    simp only [run, answeredIds, List.map_append] at *
    refine ⟨?_, ?_, ?_, Nat.le_trans g.next_le i4, ?_⟩
    · rw [List.nodup_append]
      refine ⟨g.ans_nodup, i1, ?_⟩
      intro x hx y hy hxy
      subst hxy
      obtain ⟨a, ha, rfl⟩ := List.mem_map.mp hx
      have hlt : a.1 < (step s st).1.nextReq := by
        rcases g.ans_src a ha with h | ⟨_, h⟩
        · exact Nat.lt_of_lt_of_le (hs.lt _ h) g.next_le
        · exact h
      rcases i2 _ hy with h | h
      · exact g.ans_done a ha h
      · omega
    · intro r hr
      rcases List.mem_append.mp hr with hr | hr
      · obtain ⟨a, ha, rfl⟩ := List.mem_map.mp hr
        rcases g.ans_src a ha with h | ⟨h, _⟩
        · exact Or.inl h
        · exact Or.inr h
      · rcases i2 r hr with h | h
        · rcases g.pend_src r h with h | ⟨h, _⟩
          · exact Or.inl h
          · exact Or.inr h
        · exact Or.inr (Nat.le_trans g.next_le h)
    · intro r hr
      rcases i3 r hr with h | h
      · rcases g.pend_src r h with h | ⟨h, _⟩
        · exact Or.inl h
        · exact Or.inr h
      · exact Or.inr (Nat.le_trans g.next_le h)
    · intro r hr
      have h1 : r ∈ (step s st).1.pending ∨ r ∈ (step s st).2.map (·.1) ∨
          ((step s st).1.nextReq ≤ r ∧ r < (run (step s st).1 rest).1.nextReq) := by
        rcases hr with hr | ⟨h1, h2⟩
        · rcases g.no_loss r (Or.inl hr) with h | h
          · exact Or.inl h
          · exact Or.inr (Or.inl h)
        · by_cases hlt : r < (step s st).1.nextReq
          · rcases g.no_loss r (Or.inr ⟨h1, hlt⟩) with h | h
            · exact Or.inl h
            · exact Or.inr (Or.inl h)
          · exact Or.inr (Or.inr ⟨by omega, h2⟩)
      rcases h1 with h | h | h
      · rcases i5 r (Or.inl h) with h | h
        · exact Or.inl h
        · exact Or.inr (List.mem_append_right _ h)
      · exact Or.inr (List.mem_append_left _ h)
      · rcases i5 r (Or.inr h) with h | h
        · exact Or.inl h
        · exact Or.inr (List.mem_append_right _ h)

/-! ## Answered exactly once -/

/-- **No request is answered twice**, in any history. -/
theorem answered_at_most_once (c : Bool) (h : List Step) :
    (answeredIds (answersOf c h)).Nodup :=
  (run_spec (inv_init c) h).1

/-- **No request is dropped**: after any history every request made so far has been
answered or is still queued (and never both). -/
theorem never_dropped (c : Bool) (h : List Step) (r : Nat) (hr : r < (stateAfter c h).nextReq) :
    (r ∈ answeredIds (answersOf c h) ∨ r ∈ (stateAfter c h).pending) ∧
    ¬ (r ∈ answeredIds (answersOf c h) ∧ r ∈ (stateAfter c h).pending) := by
  obtain ⟨_, _, _, _, i5⟩ := run_spec (inv_init c) h
  constructor
  · rcases i5 r (Or.inr ⟨Nat.zero_le _, hr⟩) with h | h
    · exact Or.inr h
    · exact Or.inl h
  · -- answered and queued: run one more (finishing) step and contradict at-most-once
    rintro ⟨ha, hp⟩
    have hinv := inv_reachable c h
    have hnd := answered_at_most_once c (h ++ [⟨.insertOpen 0, []⟩])
    unfold answersOf at hnd
    rw [run_append] at hnd
    simp only [run, step, answeredIds, List.map_append, List.append_nil] at hnd
    rw [insertOpen_eq] at hnd
    rw [List.nodup_append] at hnd
    apply hnd.2.2 r ha r _ rfl
    simp only [List.map_map]
    exact List.mem_map.mpr ⟨r, hp, rfl⟩

/-! ## Answered correctly -/

/-- **Success iff a path is known**: whenever a request is answered, the answer is `Ok`
exactly if the remote has a known path when the handler returns. -/
theorem ok_iff_path_known (c : Bool) (h : List Step) (st : Step) (a : Answer)
    (ha : a ∈ (step (stateAfter c h) st).2) :
    a.2 = .ok ↔ (step (stateAfter c h) st).1.paths ≠ [] :=
  (step_good (inv_reachable c h) st).ok_iff a ha

/-- **Success as soon as any path is known**: in no reachable state does a request wait
while a path is known. -/
theorem no_waiting_while_path_known (c : Bool) (h : List Step)
    (hw : (stateAfter c h).pending ≠ []) : (stateAfter c h).paths = [] :=
  (inv_reachable c h).waiting hw

/-- **Immediately if a path is known** — wherever this request's own pruning leaves a path:
the new request (`nextReq`) is told `Ok` by the `resolve` handler itself. -/
theorem immediate_if_known_partial (c : Bool) (h : List Step) (addrs order : List Nat)
    (hk : pruneWith order (insertAddrs (stateAfter c h).paths addrs) ≠ []) :
    ((stateAfter c h).nextReq, Reply.ok) ∈ (step (stateAfter c h) ⟨.resolve addrs, order⟩).2 := by
  generalize stateAfter c h = s at *
  simp only [step]
  apply List.mem_append_right
  have hp : (insertMultiple s addrs order).1.paths = pruneWith order (insertAddrs s.paths addrs) := by
    rw [insertMultiple_eq]; split <;> rfl
  have hn : (insertMultiple s addrs order).1.nextReq = s.nextReq := by
    rw [insertMultiple_eq]; split <;> rfl
  unfold resolveRemote
  rw [hp, hn, isEmpty_false_of_ne_nil hk]
  simp

/-- A `resolve` that brings an address not yet known is answered `Ok` at once. -/
theorem immediate_if_new_addr (c : Bool) (h : List Step) (addrs order : List Nat) (a : Nat)
    (ha : a ∈ addrs) (hnew : a ∉ (stateAfter c h).paths.map (·.id)) :
    ((stateAfter c h).nextReq, Reply.ok) ∈ (step (stateAfter c h) ⟨.resolve addrs, order⟩).2 := by
  apply immediate_if_known_partial
  have hwf := insertAddrs_wf addrs (inv_reachable c h).wf
  obtain ⟨p, hp, hid⟩ := insertAddrs_has addrs ha (l := (stateAfter c h).paths)
  rcases mem_insertAddrs addrs hp with hold | ⟨hu, _⟩
  · exact absurd (hid ▸ List.mem_map_of_mem hold) hnew
  · exact pruneWith_ne_nil_of_live hwf hp (Or.inr (Or.inr hu))

/-- **Failure only after a lookup has finished while no path is known**: an answer other
than `Ok` is sent only by a lookup-finished handler, with a lookup running and no path
known before and after. -/
theorem fail_only_after_lookup_finished_empty (c : Bool) (h : List Step) (st : Step) (a : Answer)
    (ha : a ∈ (step (stateAfter c h) st).2) (hf : a.2 ≠ .ok) :
    IsLookupFinish st.op ∧ (stateAfter c h).lookup = true ∧ (stateAfter c h).paths = [] ∧
    (step (stateAfter c h) st).1.paths = [] ∧ (step (stateAfter c h) st).1.lookup = false := by
  have hinv := inv_reachable c h
  generalize stateAfter c h = s at *
  have fin : ∀ e, a ∈ (finishLookup s e).2 →
      s.lookup = true ∧ s.paths = [] ∧ (finishLookup s e).1.paths = [] ∧
      (finishLookup s e).1.lookup = false := by
    intro e ha
    rw [finishLookup_eq] at ha ⊢
    cases hl : s.lookup
    · rw [hl] at ha; simp at ha
    · rw [hl] at ha; simp only [if_true] at ha
      obtain ⟨i, _, rfl⟩ := List.mem_map.mp ha
      have : s.paths = [] := by
        cases hp : s.paths with
        | nil => rfl
        | cons _ _ => exact absurd (by simp [replyOf, hp]) hf
      refine ⟨rfl, this, ?_, ?_⟩ <;> simp [this]
  have im : ∀ (s' : State) addrs order, a ∉ (insertMultiple s' addrs order).2 := by
    intro s' addrs order ha
    rw [insertMultiple_eq] at ha
    split at ha
    · obtain ⟨i, _, rfl⟩ := List.mem_map.mp ha; exact hf rfl
    · cases ha
  obtain ⟨op, order⟩ := st
  cases op with
  | resolve addrs =>
    exfalso
    simp only [step] at ha
    rcases List.mem_append.mp ha with ha | ha
    · exact im _ _ _ ha
    · unfold resolveRemote at ha
      split at ha
      · cases ha
      · simp at ha; subst ha; exact hf rfl
  | insertMultiple addrs => exact absurd ha (im _ _ _)
  | insertOpen x =>
    exfalso
    simp only [step] at ha
    rw [insertOpen_eq] at ha
    obtain ⟨i, _, rfl⟩ := List.mem_map.mp ha; exact hf rfl
  | abandon x => simp [step] at ha
  | prune => simp [step] at ha
  | advance dt => simp [step] at ha
  | select x => simp [step] at ha
  | lookupItem addrs w =>
    exfalso
    simp only [step] at ha
    split at ha
    · cases ha
    · split at ha
      · cases ha
      · exact im _ _ _ ha
  | lookupDone r =>
    simp only [step] at ha ⊢
    exact ⟨trivial, fin _ ha⟩
  | lookupEnd =>
    simp only [step] at ha ⊢
    split at ha
    · rename_i hc; simp only [hc, if_true]; exact ⟨trivial, fin _ ha⟩
    · cases ha
  | lookupPoll =>
    simp only [step] at ha ⊢
    split at ha
    · cases ha
    · rename_i hc
      have hc' : s.configured = false := by simpa using hc
      simp only [hc', Bool.false_eq_true, if_false]; exact ⟨trivial, fin _ ha⟩

/-! ## Eventually answered (given lookups that finish) -/

theorem finish_waiting {s : State} (hw : s.pending ≠ [] → s.lookup = true) (e : Option LookupErr) :
    (finishLookup s e).1.pending ≠ [] → (finishLookup s e).1.lookup = true := by
  rw [finishLookup_eq]
  cases hl : s.lookup
  · simp only [Bool.false_eq_true, if_false]; intro hp; exact hw hp
  · simp

/-- One step keeps "whoever waits, waits for a running lookup"; the environment assumption is
needed only in the state a `resolve` handler starts from. -/
theorem waiting_lookup_step {s : State} (hs : Inv s) (st : Step)
    (henv : (∃ addrs, st.op = .resolve addrs) → EnvOK s)
    (hw : s.pending ≠ [] → s.lookup = true) :
    (step s st).1.pending ≠ [] → (step s st).1.lookup = true := by
  obtain ⟨op, order⟩ := st
  have im : ∀ addrs, (insertMultiple s addrs order).1.pending ≠ [] →
      s.pending ≠ [] ∧ (insertMultiple s addrs order).1.lookup = s.lookup := by
    intro addrs h
    rw [insertMultiple_eq] at h ⊢
    split at h
    · exact absurd rfl h
    · rename_i hc; simp only [hc]; exact ⟨h, rfl⟩
  cases op with
  | resolve addrs =>
    have henv : EnvOK s := henv ⟨addrs, rfl⟩
    simp only [step]
    intro hp
    rw [triggerLookup_pending] at hp
    -- either an old request still waits (lookup already running), or the new one waits:
    -- then no path is known, so (environment) nothing is selected and a lookup is started
    have hsel : (insertMultiple s addrs order).1.selected = s.selected := by
      rw [insertMultiple_eq]; split <;> rfl
    have hlk : (insertMultiple s addrs order).1.lookup = s.lookup := by
      rw [insertMultiple_eq]; split <;> rfl
    have hpaths : (insertMultiple s addrs order).1.paths = pruneWith order (insertAddrs s.paths addrs) := by
      rw [insertMultiple_eq]; split <;> rfl
    unfold resolveRemote at hp ⊢
    split at hp
    · rename_i he
      rw [if_pos he]
      unfold triggerLookup
      simp only [hsel, hlk]
      have hnone : s.selected = none := by
        cases hsl : s.selected with
        | none => rfl
        | some x =>
          exfalso
          obtain ⟨p, hp1, hp2⟩ := henv (by simp [hsl])
          have hmem : p ∈ insertAddrs s.paths addrs := subset_insertAddrs addrs hp1
          have := live_mem_pruneWith (order := order) (insertAddrs_wf addrs hs.wf) hmem
            (Or.inr (Or.inl hp2))
          rw [hpaths] at he
          have he' : pruneWith order (insertAddrs s.paths addrs) = [] := by simpa using he
          rw [he'] at this; cases this
      simp only [hnone, Option.isSome_none, Bool.false_or]
      cases s.lookup <;> simp
    · rename_i he
      rw [if_neg he]
      obtain ⟨h1, _⟩ := im addrs hp
      unfold triggerLookup
      simp only [hsel, hlk, hw h1, Bool.or_true, if_true]
  | insertMultiple addrs =>
    simp only [step]; intro hp
    obtain ⟨h1, h2⟩ := im addrs hp
    rw [h2]; exact hw h1
  | insertOpen x =>
    simp only [step]; rw [insertOpen_eq]; intro hp; exact absurd rfl hp
  | abandon x => simpa [step] using hw
  | prune => simpa [step] using hw
  | advance dt => simpa [step] using hw
  | select x => simpa [step] using hw
  | lookupItem addrs w =>
    simp only [step]
    cases hl : s.lookup
    · simpa [hl] using hw
    · cases w
      · simp only [Bool.not_true, Bool.false_eq_true, if_false]
        intro hp
        have : ∀ s' : State, s'.lookup = true → (insertMultiple s' addrs order).1.lookup = true := by
          intro s' h'; rw [insertMultiple_eq]; split <;> exact h'
        exact this _ rfl
      · simp
  | lookupDone r =>
    simp only [step]; exact finish_waiting hw _
  | lookupEnd =>
    simp only [step]
    split
    · exact finish_waiting hw _
    · exact hw
  | lookupPoll =>
    simp only [step]
    split
    · exact hw
    · exact finish_waiting hw _

theorem waiting_lookup_run {s : State} (hs : Inv s) (hw : s.pending ≠ [] → s.lookup = true)
    (h : List Step) (henv : EnvAlong s h) :
    (run s h).1.pending ≠ [] → (run s h).1.lookup = true := by
  induction h generalizing s with
  | nil => exact hw
  | cons st rest ih =>
    exact ih (step_good hs st).inv (waiting_lookup_step hs st (fun _ => henv.1) hw) henv.2

/-- **Whoever waits, waits for a running lookup** (under the environment assumption):
so "the lookup eventually finishes" is all the progress a waiting request needs. -/
theorem lookup_running_while_waiting (c : Bool) (h : List Step) (henv : EnvAlong (init c) h)
    (hw : (stateAfter c h).pending ≠ []) : (stateAfter c h).lookup = true :=
  waiting_lookup_run (inv_init c) (fun h => absurd rfl h) h henv hw

/-- **Eventually answered, given lookups that finish**: after any history in which the
environment assumption held, the next completion of the address lookup (in whichever way:
`e = none` ended, `some _` failed) leaves every request made so far answered. -/
theorem eventually_answered (c : Bool) (h : List Step) (henv : EnvAlong (init c) h)
    (e : Option LookupErr) (r : Nat) (hr : r < (stateAfter c h).nextReq) :
    r ∈ answeredIds (answersOf c (h ++ [⟨.lookupDone e, []⟩])) := by
  unfold answersOf
  rw [run_append]
  simp only [run, answeredIds, List.map_append, List.append_nil, step]
  rcases (never_dropped c h r hr).1 with ha | hp
  · exact List.mem_append_left _ ha
  · apply List.mem_append_right
    have hl := lookup_running_while_waiting c h henv (List.ne_nil_of_mem hp)
    unfold stateAfter at hl hp
    rw [finishLookup_eq, hl]
    simp only [if_true, List.map_map]
    exact List.mem_map.mpr ⟨r, hp, rfl⟩

/-- Without the environment assumption a request can wait with no lookup running:
`selected_path` set while no path is known, then a resolve. -/
theorem stuck_without_env :
    let s := stateAfter true [⟨.select (some 0), []⟩, ⟨.resolve [], []⟩]
    s.pending = [0] ∧ s.lookup = false ∧ ¬ EnvOK s := by
  refine ⟨by decide, by decide, ?_⟩
  intro h
  obtain ⟨p, hp, _⟩ := h (by decide)
  have : (stateAfter true [⟨.select (some 0), []⟩, ⟨.resolve [], []⟩]).paths = [] := by decide
  rw [this] at hp; cases hp

/-! ## "Never loses all paths": the finding, and where the clause holds -/

theorem nodup_of_wf : ∀ {l : List Path}, WF l → l.Nodup
  | [], _ => List.nodup_nil
  | p :: ps, h => by
    unfold WF at h
    rw [List.map_cons, List.nodup_cons] at h
    rw [List.nodup_cons]
    exact ⟨fun hm => h.1 (List.mem_map_of_mem hm), nodup_of_wf h.2⟩

/-- The finding class does not depend on the map's iteration order. -/
theorem class_of_reorder {order : List Nat} {l : List Path} (hwf : WF l)
    (h : PruneEmptiesClass (reorder order l)) : PruneEmptiesClass l := by
  have hperm : (reorder order l).Perm l :=
    (List.perm_ext_iff_of_nodup (nodup_of_wf (reorder_wf hwf)) (nodup_of_wf hwf)).mpr
      (fun _ => mem_reorder hwf)
  obtain ⟨h1, h2, h3, h4⟩ := h
  have e1 : C23.nonRelayCount (reorder order l) = C23.nonRelayCount l :=
    (hperm.filter _).length_eq
  have e2 : C23.inactiveCount (reorder order l) = C23.inactiveCount l :=
    (hperm.filter _).length_eq
  exact ⟨e1 ▸ h1, fun p hp => h2 p ((mem_reorder hwf).mpr hp), e2 ▸ h3, e2 ▸ h4⟩

/-- Pruning empties a non-empty set only inside C23's finding class. -/
theorem pruneWith_eq_nil {order : List Nat} {l : List Path} (hwf : WF l) (hne : l ≠ [])
    (h : pruneWith order l = []) : PruneEmptiesClass l := by
  apply class_of_reorder (order := order) hwf
  exact (C23.empties_iff _ (reorder_wf hwf) (fun h' => hne ((reorder_eq_nil hwf).mp h'))).mp h

/-- **Never loses all paths — outside the finding class**: if a reachable state knows a
path and the set the handler prunes is not in C23's finding class, a path is still known
afterwards.  (Handlers that do not prune never remove a path at all.) -/
theorem never_loses_all_partial (c : Bool) (h : List Step) (st : Step)
    (hne : (stateAfter c h).paths ≠ [])
    (hcl : ¬ PruneEmptiesClass (prunedSet (stateAfter c h) st.op)) :
    (step (stateAfter c h) st).1.paths ≠ [] := by
  have hinv := inv_reachable c h
  generalize stateAfter c h = s at *
  obtain ⟨p0, hp0⟩ := List.exists_mem_of_ne_nil _ hne
  have im : ∀ (s' : State) addrs order, s'.paths = s.paths →
      ¬ PruneEmptiesClass (insertAddrs s.paths addrs) → (insertMultiple s' addrs order).1.paths ≠ [] := by
    intro s' addrs order hs' hc hnil
    have hp : (insertMultiple s' addrs order).1.paths = pruneWith order (insertAddrs s.paths addrs) := by
      rw [insertMultiple_eq, hs']; split <;> rfl
    rw [hp] at hnil
    exact hc (pruneWith_eq_nil (insertAddrs_wf addrs hinv.wf)
      (List.ne_nil_of_mem (subset_insertAddrs addrs hp0)) hnil)
  obtain ⟨op, order⟩ := st
  cases op with
  | resolve addrs =>
    simp only [step, triggerLookup_paths, resolveRemote_paths]
    exact im s addrs order rfl hcl
  | insertMultiple addrs => exact im s addrs order rfl hcl
  | insertOpen x =>
    simp only [step]; rw [insertOpen_eq]
    obtain ⟨p, hp, hpo⟩ := openPath_has_open s.paths x
    exact pruneWith_ne_nil_of_live (openPath_wf x hinv.wf) hp (Or.inr (Or.inl hpo))
  | abandon x => simp only [step]; exact fun h' => hne (setStatus_eq_nil.mp h')
  | prune =>
    simp only [step]
    exact fun h' => hcl (pruneWith_eq_nil hinv.wf hne h')
  | advance dt => exact hne
  | select x => exact hne
  | lookupItem addrs w =>
    simp only [step]
    split
    · exact hne
    · split
      · exact hne
      · exact im _ addrs order rfl hcl
  | lookupDone r =>
    simp only [step]; rw [finishLookup_eq]; split <;> exact hne
  | lookupEnd =>
    simp only [step]; split
    · rw [finishLookup_eq]; split <;> exact hne
    · exact hne
  | lookupPoll =>
    simp only [step]; split
    · exact hne
    · rw [finishLookup_eq]; split <;> exact hne

/-- Below the pruning threshold nothing is ever lost: with fewer than 30 non-relay paths in
the set the handler prunes, a known path stays known. -/
theorem never_loses_all_below_threshold (c : Bool) (h : List Step) (st : Step)
    (hne : (stateAfter c h).paths ≠ [])
    (hlt : C23.nonRelayCount (prunedSet (stateAfter c h) st.op) < 30) :
    (step (stateAfter c h) st).1.paths ≠ [] :=
  never_loses_all_partial c h st hne (fun hc => by have := hc.1; omega)

/-- The reachable history of the finding: a resolve brings 30 addresses, path 0 opens, all
30 paths are abandoned (29 never worked ⇒ unusable, path 0 ⇒ inactive), then a resolve
without addresses (the normal connect-by-id case). -/
def witness : List Step :=
  [⟨.resolve ((List.range 30).map (· * 4)), []⟩, ⟨.insertOpen 0, []⟩] ++
  (List.range 30).map (fun i => ⟨.abandon (i * 4), []⟩)

set_option maxRecDepth 20000 in
/-- **Witness of the recorded finding** `C22:prune-empties-path-set`: after `witness` the
remote has 30 known paths; the next `resolve` (no addresses) prunes all of them, so the
remote has lost every path, and the request — made while paths were known — is not
answered at once but queued behind a new address lookup. -/
theorem counterexample :
    (stateAfter true witness).paths.length = 30 ∧
    PruneEmptiesClass (stateAfter true witness).paths ∧
    (step (stateAfter true witness) ⟨.resolve [], []⟩).1.paths = [] ∧
    (step (stateAfter true witness) ⟨.resolve [], []⟩).2 = [] ∧
    (step (stateAfter true witness) ⟨.resolve [], []⟩).1.pending = [1] := by
  have hst : stateAfter true witness =
      { paths := ⟨0, false, .inactive 0⟩ ::
          (List.range 29).map (fun i => ⟨(i + 1) * 4, false, .unusable⟩),
        pending := [], nextReq := 1, selected := none, lookup := true, emitted := false,
        configured := true, now := 0 } := by
    decide
  have hs : (stateAfter true witness).paths =
      ⟨0, false, .inactive 0⟩ :: (List.range 29).map (fun i => ⟨(i + 1) * 4, false, .unusable⟩) := by
    rw [hst]
  have hcl : PruneEmptiesClass (stateAfter true witness).paths := by
    rw [hs]
    refine ⟨by decide, ?_, by decide, by decide⟩
    intro p hp hl
    rcases List.mem_cons.mp hp with rfl | hp
    · revert hl; unfold C23.Path.Live; decide
    · obtain ⟨i, _, rfl⟩ := List.mem_map.mp hp
      revert hl; unfold C23.Path.Live; simp
  have hwf : WF (stateAfter true witness).paths := (inv_reachable true witness).wf
  have hne : (stateAfter true witness).paths ≠ [] := by rw [hs]; simp
  have hnil : pruneWith [] (stateAfter true witness).paths = [] := by
    unfold pruneWith
    have hwf' := reorder_wf (order := []) hwf
    apply (C23.empties_iff _ hwf' (fun h' => hne ((reorder_eq_nil hwf).mp h'))).mpr
    have : reorder [] (stateAfter true witness).paths = (stateAfter true witness).paths := by
      unfold reorder validOrder
      rw [hs]; rfl
    rw [this]; exact hcl
  have hnext : (stateAfter true witness).nextReq = 1 := by rw [hst]
  have hpend : (stateAfter true witness).pending = [] := by rw [hst]
  have hsel : (stateAfter true witness).selected = none := by rw [hst]
  have hlk : (stateAfter true witness).lookup = true := by rw [hst]
  refine ⟨by rw [hs]; rfl, hcl, ?_, ?_, ?_⟩
  all_goals
    simp only [step, insertMultiple_eq, insertAddrs_nil, hnil, isEmpty_false_of_ne_nil hne,
      Bool.not_false, Bool.and_true]
    simp [resolveRemote, triggerLookup, hnext, hpend, hsel, hlk]

/-- The constants the finding class is stated with are the ones in the source now. -/
theorem consts_agree :
    Generated.C22.maxNonRelayPaths = 30 ∧ Generated.C22.maxInactiveNonRelayPaths = 10 ∧
    Generated.C22.maxNonRelayPaths = C23.maxNonRelay ∧
    Generated.C22.maxInactiveNonRelayPaths = C23.maxInactive := by decide

/-! ## Non-vacuity -/

/-- A history in which the environment assumption holds throughout and a request waits. -/
example : EnvAlong (init true) [⟨.resolve [], []⟩] ∧ (stateAfter true [⟨.resolve [], []⟩]).pending = [0] := by
  refine ⟨⟨fun h => absurd rfl h, fun h => absurd ?_ h⟩, by decide⟩
  decide
/-- … with a selected open path. -/
example : EnvOK (stateAfter true [⟨.insertOpen 4, []⟩, ⟨.select (some 4), []⟩]) :=
  fun _ => ⟨⟨4, false, .open⟩, by decide, rfl⟩
/-- An answer that is a failure exists (hypothesis of `fail_only_after_lookup_finished_empty`). -/
example : (0, Reply.err .noResults) ∈ (step (stateAfter true [⟨.resolve [], []⟩]) ⟨.lookupEnd, []⟩).2 := by
  decide
/-- … and with no service configured. -/
example : (0, Reply.err .noService) ∈ (step (stateAfter false [⟨.resolve [], []⟩]) ⟨.lookupPoll, []⟩).2 := by
  decide
/-- An `Ok` answer sent later (hypothesis of `ok_iff_path_known`). -/
example : (0, Reply.ok) ∈ (step (stateAfter true [⟨.resolve [], []⟩]) ⟨.lookupItem [8] false, []⟩).2 := by
  decide
/-- `immediate_if_known_partial`'s hypothesis is satisfiable. -/
example : pruneWith [] (insertAddrs (stateAfter true []).paths [4]) ≠ [] := by decide
/-- `never_loses_all_partial`'s hypotheses are satisfiable. -/
example : (stateAfter true [⟨.insertOpen 4, []⟩]).paths ≠ [] ∧
    ¬ PruneEmptiesClass (prunedSet (stateAfter true [⟨.insertOpen 4, []⟩]) Op.prune) := by
  refine ⟨by decide, fun h => ?_⟩
  have := h.1
  revert this; decide

end IrohModel.C22
