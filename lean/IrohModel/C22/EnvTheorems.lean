/-
C22 — the environment assumption `EnvOK` discharged inside the model.

`Theorems.lean` proves `lookup_running_while_waiting` / `eventually_answered` under the
assumption `EnvOK` ("a selected path is an open path of this remote") in every state.  Here
the writers of `selected_path` and of the open/abandoned status — the connection handlers of
`RemoteStateActor` — are part of the model (`Env.lean`), and `EnvOK` is PROVED for every
history of handler calls (messages, lookup items, connection added, path opened, path
abandoned, connection closed; any selector results; any order), under hypotheses that speak
only about the events fed in (`FeedOK`):

* (Q2, the QUIC fact) a `PathAbandoned` event that takes away the last tracked path of a
  connection is directly followed by that connection's close;
* (Q1) a connection is registered with its path 0 resolvable; (Q3) connection ids of live
  connections are distinct;
* (H3, `NoSharedAbandon`) a path is abandoned on one connection only when no other connection
  tracks a path to the same remote address — needed because the code tests "no other path to
  this remote" on the abandoning connection only (its comment says "no connections");
  `envOK_needs_no_shared_abandon` shows `EnvOK` fails without it.

`envOK_fails_in_window` shows why Q2 asks for "directly": between the two events the selected
path is not open (the assumption is needed, and proved, only where a `resolve` starts).
-/
import IrohModel.C22.EnvLemmas

namespace IrohModel.C22

/-- Every live connection tracks at least one open path (no connection is in the window
between losing its last path and being closed). -/
def Settled (es : EState) : Prop := ∀ k ∈ es.conns, k.paths ≠ []

theorem erun_cons (es : EState) (op : EOp) (rest : List EOp) :
    erun es (op :: rest) =
      ((erun (estep es op).1 rest).1, (estep es op).2 ++ (erun (estep es op).1 rest).2) := rfl

/-- **The event semantics is the base semantics**: an event history does to the resolve
plumbing exactly what its compiled base history does — same final state, same answers.  So
every theorem of `Theorems.lean` about base histories (answered at most once, never dropped,
Ok iff a path is known, failure only after a finished lookup, …) holds for event histories. -/
theorem compile_faithful (es : EState) (h : List EOp) :
    (erun es h).1.base = (run es.base (compile es.conns h)).1 ∧
    (erun es h).2 = (run es.base (compile es.conns h)).2 := by
  induction h generalizing es with
  | nil => exact ⟨rfl, rfl⟩
  | cons op rest ih =>
    obtain ⟨i1, i2⟩ := ih (estep es op).1
    rw [erun_cons]
    simp only [compile, run_append]
    rw [i1, i2]
    exact ⟨rfl, rfl⟩

theorem einv_run {pend : Option Nat} {es : EState} (hinv : EInv pend es) (h : List EOp)
    (hfeed : FeedOK pend es.conns h) : ∃ pend', EInv pend' (erun es h).1 := by
  induction h generalizing pend es with
  | nil => exact ⟨pend, hinv⟩
  | cons op rest ih =>
    rw [erun_cons]
    cases pend with
    | some c =>
      obtain ⟨hop, hrest⟩ := hfeed
      subst hop
      exact ih (estep_close hinv c (Or.inr rfl)) hrest
    | none =>
      obtain ⟨hok, hrest⟩ := hfeed
      exact ih (estep_ok hinv op hok) hrest

theorem EInv.envOK_of_settled {pend : Option Nat} {es : EState} (h : EInv pend es)
    (hs : Settled es) : EnvOK es.base := by
  intro hsel
  obtain ⟨k, hk⟩ := List.exists_mem_of_ne_nil _ (h.sel_conn hsel)
  obtain ⟨p, hp⟩ := List.exists_mem_of_ne_nil _ (hs k hk)
  obtain ⟨q, hq, _, hqo⟩ := h.tracked_open k hk p hp
  exact ⟨q, hq, hqo⟩

/-- **`EnvOK` is an invariant** — no longer an assumption: after any event history that
satisfies the feed hypotheses, whenever no connection is in the abandon→close window, a
selected path implies an open path of the remote. -/
theorem envOK_invariant (c : Bool) (h : List EOp) (hfeed : FeedOK none [] h)
    (hs : Settled (erun (einit c) h).1) : EnvOK (erun (einit c) h).1.base := by
  obtain ⟨pend', hinv⟩ := einv_run (einv_init c) h hfeed
  exact hinv.envOK_of_settled hs

/-- In every reachable state: each tracked path of each live connection has an `Open` entry
in the path state, and a selected path implies a live connection (`selected_path` is cleared
with the last connection). -/
theorem tracked_paths_open (c : Bool) (h : List EOp) (hfeed : FeedOK none [] h) :
    (∀ k ∈ (erun (einit c) h).1.conns, ∀ p ∈ k.paths, OpenAt (erun (einit c) h).1.base p.2) ∧
    ((erun (einit c) h).1.base.selected ≠ none → (erun (einit c) h).1.conns ≠ []) := by
  obtain ⟨pend', hinv⟩ := einv_run (einv_init c) h hfeed
  exact ⟨hinv.tracked_open, hinv.sel_conn⟩

/-- **Whoever waits, waits for a running lookup** — without the environment assumption. -/
theorem lookup_running_while_waiting_env_free (c : Bool) (h : List EOp) (hfeed : FeedOK none [] h)
    (hw : (erun (einit c) h).1.base.pending ≠ []) : (erun (einit c) h).1.base.lookup = true := by
  obtain ⟨pend', hinv⟩ := einv_run (einv_init c) h hfeed
  exact hinv.waiting hw

/-- **Eventually answered, given lookups that finish** — without the environment assumption:
after any event history satisfying the feed hypotheses, the next completion of the address
lookup (ended: `e = none`, failed: `some _`) leaves every request made so far answered. -/
theorem eventually_answered_env_free (c : Bool) (h : List EOp) (hfeed : FeedOK none [] h)
    (e : Option LookupErr) (r : Nat) (hr : r < (erun (einit c) h).1.base.nextReq) :
    r ∈ answeredIds (erun (einit c) (h ++ [.base ⟨.lookupDone e, []⟩])).2 := by
  obtain ⟨hb, ha⟩ := compile_faithful (einit c) h
  have hcomp : ∀ (cs : List Conn) (h1 h2 : List EOp),
      compile cs (h1 ++ h2) = compile cs h1 ++ compile ((h1.foldl nextConns cs)) h2 := by
    intro cs h1
    induction h1 generalizing cs with
    | nil => intro h2; rfl
    | cons op rest ih => intro h2; simp [compile, ih, List.append_assoc]
  obtain ⟨_, ha2⟩ := compile_faithful (einit c) (h ++ [.base ⟨.lookupDone e, []⟩])
  rw [ha2, hcomp]
  simp only [compile, baseSteps, List.append_nil]
  have hlk := lookup_running_while_waiting_env_free c h hfeed
  rw [hb] at hlk hr
  have hnd := never_dropped c (compile [] h) r hr
  show r ∈ answeredIds (run (init c) (compile [] h ++ [⟨.lookupDone e, []⟩])).2
  rw [run_append]
  simp only [run, answeredIds, List.map_append, List.append_nil, step]
  rcases hnd.1 with ha' | hp
  · exact List.mem_append_left _ ha'
  · apply List.mem_append_right
    unfold stateAfter at hp
    have hl : (run (init c) (compile [] h)).1.lookup = true := hlk (List.ne_nil_of_mem hp)
    rw [finishLookup_eq, hl]
    simp only [if_true, List.map_map]
    exact List.mem_map.mpr ⟨r, hp, rfl⟩

/-! ## Why the hypotheses are there -/

/-- **The window (why Q2 says "directly")**: after a connection's only path is abandoned and
before the connection is closed, a path is selected although none is open.  The history
satisfies the feed hypotheses; the state is not settled. -/
theorem envOK_fails_in_window :
    let h : List EOp := [.connAdded 1 (some 0) (some 0) [], .pathAbandoned 1 0 none]
    FeedOK none [] h ∧ ¬ Settled (erun (einit true) h).1 ∧ ¬ EnvOK (erun (einit true) h).1.base := by
  refine ⟨?_, ?_, ?_⟩
  · simp [FeedOK, OpOK, emptied, nextConns, findConn, removeConn, Conn.addrOf]
  · intro hs
    exact hs ⟨1, []⟩ (by decide) rfl
  · intro henv
    obtain ⟨p, hp, ho⟩ := henv (by decide)
    have : (erun (einit true) [.connAdded 1 (some 0) (some 0) [], .pathAbandoned 1 0 none]).1.base.paths =
        [⟨0, false, .inactive 0⟩] := by decide
    rw [this] at hp
    simp at hp; subst hp; cases ho

/-- **Why `NoSharedAbandon` (H3)**: two connections share a remote address; one abandons its
path to it — the code marks the address inactive although the other connection still uses
it — then loses its other path and is closed.  All connections left track an open path, a
path is selected, but no entry of the path state is `Open`. -/
theorem envOK_needs_no_shared_abandon :
    let h : List EOp :=
      [.connAdded 1 (some 0) (some 0) [], .connAdded 2 (some 0) none [], .pathOpened 1 1 4 none [],
       .pathAbandoned 1 0 none, .pathAbandoned 1 1 none, .connClosed 1]
    (erun (einit true) h).1.conns = [⟨2, [(0, 0)]⟩] ∧ Settled (erun (einit true) h).1 ∧
    ¬ EnvOK (erun (einit true) h).1.base := by
  have hc : (erun (einit true)
      [.connAdded 1 (some 0) (some 0) [], .connAdded 2 (some 0) none [], .pathOpened 1 1 4 none [],
       .pathAbandoned 1 0 none, .pathAbandoned 1 1 none, .connClosed 1]).1.conns = [⟨2, [(0, 0)]⟩] := by
    decide
  refine ⟨hc, ?_, ?_⟩
  · intro k hk
    rw [hc] at hk
    simp at hk; subst hk; simp
  · intro henv
    obtain ⟨p, hp, ho⟩ := henv (by decide)
    have : (erun (einit true)
        [.connAdded 1 (some 0) (some 0) [], .connAdded 2 (some 0) none [], .pathOpened 1 1 4 none [],
         .pathAbandoned 1 0 none, .pathAbandoned 1 1 none, .connClosed 1]).1.base.paths =
        [⟨0, false, .inactive 0⟩, ⟨4, false, .inactive 0⟩] := by decide
    rw [this] at hp
    simp at hp
    rcases hp with rfl | rfl <;> cases ho

/-! ## Non-vacuity -/

/-- A feed-conforming history: a resolve waits, a connection comes up over the relay, upgrades
to a direct path which is selected, the relay path is closed, another resolve arrives. -/
example :
    let h : List EOp :=
      [.base ⟨.resolve [], []⟩, .connAdded 1 (some 3) (some 3) [], .pathOpened 1 1 4 (some 4) [],
       .pathAbandoned 1 0 none, .base ⟨.resolve [], []⟩]
    FeedOK none [] h ∧ Settled (erun (einit true) h).1 ∧
    (erun (einit true) h).1.base.selected = some 4 ∧ (erun (einit true) h).2 = [(0, .ok), (1, .ok)] := by
  refine ⟨?_, ?_, by decide, by decide⟩
  · simp [FeedOK, OpOK, emptied, nextConns, findConn, removeConn, setConn, Conn.setPath,
      Conn.removePath, Conn.addrOf, Op.envOwned]
  · intro k hk
    have : (erun (einit true)
      [.base ⟨.resolve [], []⟩, .connAdded 1 (some 3) (some 3) [], .pathOpened 1 1 4 (some 4) [],
       .pathAbandoned 1 0 none, .base ⟨.resolve [], []⟩]).1.conns = [⟨1, [(1, 4)]⟩] := by decide
    rw [this] at hk
    simp at hk; subst hk; simp

/-- … and one that passes through the abandon→close window. -/
example :
    FeedOK none [] [.connAdded 1 (some 0) (some 0) [], .pathAbandoned 1 0 none, .connClosed 1] ∧
    (erun (einit true) [.connAdded 1 (some 0) (some 0) [], .pathAbandoned 1 0 none, .connClosed 1]).1.base.selected = none := by
  refine ⟨?_, by decide⟩
  simp [FeedOK, OpOK, emptied, nextConns, findConn, removeConn, setConn,
    Conn.removePath, Conn.addrOf]

end IrohModel.C22
