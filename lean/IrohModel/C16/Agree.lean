/-
C16 ↔ C17 — the receive-path model of C17 (`IrohModel.C17.takeSegments`, on
`Batch` with `seg = 0` for "no segment size") and the model of C16
(`IrohModel.C16.takeSegments`, on `Datagrams` with `Option` segment size and the
saturating product) are the same function on their shared domain: every
well-formed batch (segment size a `NonZeroU16`, contents length within `usize`)
and every `n`, including `n = 0` and `n = usize::MAX`.

Neither model is edited; this file imports both.
-/
import IrohModel.C16.Model
import IrohModel.C17.Model

namespace IrohModel.C16

/-- A C16 batch seen as a C17 batch coming from sender `src` (C17 does not track ECN). -/
def toBatch (src : Nat) (d : Datagrams) : C17.Batch :=
  { src := src, seg := d.segmentSize.getD 0, contents := d.contents }

private theorem getD_ite (c : Prop) [Decidable c] (s : Nat) :
    (if c then some s else none).getD 0 = if c then s else 0 := by
  split <;> rfl

private theorem getD_ite' (c : Prop) [Decidable c] (s : Nat) :
    (if c then none else some s).getD 0 = if c then 0 else s := by
  split <;> rfl

/-- On every batch whose segment size is non-zero when present and whose length fits `usize`,
C17's `takeSegments` returns exactly the images of what C16's `takeSegments` returns. -/
theorem takeSegments_agree (src : Nat) (d : Datagrams) (n : Nat)
    (hseg : ∀ s, d.segmentSize = some s → 1 ≤ s) (hlen : d.contents.length ≤ usizeMax) :
    C17.takeSegments (toBatch src d) n =
      (toBatch src (takeSegments d n).1, toBatch src (takeSegments d n).2) := by
  obtain ⟨ecn, seg, contents⟩ := d
  cases seg with
  | none =>
    simp [C17.takeSegments, takeSegments, toBatch]
  | some s =>
    have hs : 1 ≤ s := hseg s rfl
    have hs0 : ¬ s = 0 := by omega
    have hk : min (satMul n s) contents.length = min (n * s) contents.length := by
      unfold satMul
      simp only at hlen
      omega
    simp only [C17.takeSegments, takeSegments, toBatch, Option.getD_some, hs0, if_false, hk,
      Generated.C16.batchMinSegments]
    simp only [getD_ite, getD_ite']
    rfl

/-- The taken and remaining contents agree in particular (the part C17's theorems talk about). -/
theorem takeSegments_agree_contents (src : Nat) (d : Datagrams) (n : Nat)
    (hseg : ∀ s, d.segmentSize = some s → 1 ≤ s) (hlen : d.contents.length ≤ usizeMax) :
    (C17.takeSegments (toBatch src d) n).1.contents = (takeSegments d n).1.contents ∧
    (C17.takeSegments (toBatch src d) n).2.contents = (takeSegments d n).2.contents := by
  rw [takeSegments_agree src d n hseg hlen]
  exact ⟨rfl, rfl⟩

end IrohModel.C16
