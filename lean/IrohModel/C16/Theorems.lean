/-
C16 — property theorems (only).

Statement: repeatedly taking at most `n` segments from a datagram batch yields
the original bytes in order with nothing lost or duplicated; each taken batch
holds at most `n` segments, carries a segment size only when it holds more than
one datagram, and keeps the batch's ECN marking.  Quantified over all contents,
all segment sizes (dividing the length or not, larger than the contents or not)
and all `n ≥ 1` — including `n = usize::MAX`, where the repaired code saturates
the product `n · segment_size`.

`takeAll n d` is the caller's loop over the modelled `take_segments`
(`Model.lean`); `datagramsOf` / `chunks` (`Lemmas.lean`) say which datagrams a
batch stands for.  All proofs are by induction (on the number of segments for
`chunks`, on the progress measure for the loop); nothing is decided on samples.
-/
import IrohModel.C16.Lemmas

namespace IrohModel.C16

/-- Values the Rust type can hold: a `NonZeroU16` segment size, a slice length within `usize`. -/
def Datagrams.WF (d : Datagrams) : Prop :=
  (∀ s, d.segmentSize = some s → 1 ≤ s ∧ s ≤ 65535) ∧ d.contents.length ≤ usizeMax

/-- The segment size the invariant of the loop is stated for: the batch's own, or — for a
single datagram — any size that covers the contents. -/
private def refSize (d : Datagrams) : Nat :=
  match d.segmentSize with
  | some s => s
  | none => max 1 d.contents.length

private theorem refSize_pos (d : Datagrams) (h : d.WF) : 1 ≤ refSize d := by
  unfold refSize
  split
  · next s hs => exact (h.1 s hs).1
  · omega

private theorem refSize_inv (d : Datagrams) : Inv (refSize d) d := by
  unfold refSize Inv
  split
  · next s hs => exact Or.inl hs
  · next hs => exact Or.inr ⟨hs, by omega⟩

private theorem run_spec (n : Nat) (hn : 1 ≤ n) (d : Datagrams) (h : d.WF) :
    RunSpec n (refSize d) d (takeAll n d) :=
  takeAll_spec n (refSize d) hn (refSize_pos d h) (measure d) d (Nat.le_refl _) h.2 (refSize_inv d)

/-- The loop always ends (it never reaches a call that takes nothing) and the contents of the
taken batches, concatenated in order, are exactly the original contents. -/
theorem concat_eq (n : Nat) (hn : 1 ≤ n) (d : Datagrams) (h : d.WF) :
    (takeAll n d).2 = false ∧
    (takeAll n d).1.flatMap (fun st => st.taken.contents) = d.contents :=
  ⟨(run_spec n hn d h).not_stuck, (run_spec n hn d h).concat⟩

/-- Every taken batch holds at most `n` datagrams — counted with its own segment size, and
(for a batch with segment size `s`) also as "at most `n·s` bytes". -/
theorem at_most_n (n : Nat) (hn : 1 ≤ n) (d : Datagrams) (h : d.WF) :
    ∀ st ∈ (takeAll n d).1,
      (datagramsOf st.taken).length ≤ n ∧
      (∀ s, d.segmentSize = some s → st.taken.contents.length ≤ n * s) := by
  intro st hst
  have hr := run_spec n hn d h
  obtain ⟨_, hle, hiff, hcases⟩ := hr.each st hst
  have hpos := refSize_pos d h
  constructor
  · unfold datagramsOf
    rcases hcases with hnone | hsome
    · rw [hnone]
      by_cases he : st.taken.contents = [] <;> simp [he] <;> omega
    · rw [hsome]
      exact chunks_length_le _ hpos n _ hle
  · intro s hs
    have : refSize d = s := by unfold refSize; rw [hs]
    rw [← this]; exact hle

/-- A taken batch carries a segment size exactly when it holds more than one datagram, and
then it is the original batch's segment size. -/
theorem seg_size_iff_multi (n : Nat) (hn : 1 ≤ n) (d : Datagrams) (h : d.WF) :
    ∀ st ∈ (takeAll n d).1,
      (st.taken.segmentSize.isSome ↔ 1 < (datagramsOf st.taken).length) ∧
      (∀ s, st.taken.segmentSize = some s → d.segmentSize = some s ∧ s < st.taken.contents.length) ∧
      (st.taken.segmentSize = none → ∀ s, d.segmentSize = some s → st.taken.contents.length ≤ s) := by
  intro st hst
  have hr := run_spec n hn d h
  obtain ⟨_, hle, hiff, hcases⟩ := hr.each st hst
  have hpos := refSize_pos d h
  have hsome_d : ∀ s, st.taken.segmentSize = some s → d.segmentSize = some s := by
    intro s hs
    rcases hcases with hnone | hsome
    · rw [hnone] at hs; cases hs
    · have hlt := hiff.mp hsome
      have hrs : refSize d = s := by rw [hsome] at hs; exact Option.some.inj hs
      -- a single-datagram batch never yields a sized batch: contents ≤ refSize
      cases hd : d.segmentSize with
      | some s' =>
        have : refSize d = s' := by unfold refSize; rw [hd]
        rw [← hrs, this]
      | none =>
        exfalso
        have hc := hr.concat
        have hlen : st.taken.contents.length ≤ d.contents.length := by
          rw [← hc]
          exact length_le_flatMap_of_mem (fun st => st.taken.contents) hst
        have : refSize d = max 1 d.contents.length := by unfold refSize; rw [hd]
        omega
  refine ⟨?_, ?_, ?_⟩
  · unfold datagramsOf
    rcases hcases with hnone | hsome
    · rw [hnone]
      by_cases he : st.taken.contents = [] <;> simp [he]
    · rw [hsome]
      have := chunks_length_ge_two _ hpos _ (hiff.mp hsome)
      simp only [Option.isSome_some, true_iff]
      omega
  · intro s hs
    refine ⟨hsome_d s hs, ?_⟩
    rcases hcases with hnone | hsome
    · rw [hnone] at hs; cases hs
    · have : refSize d = s := by rw [hsome] at hs; exact Option.some.inj hs
      rw [← this]; exact hiff.mp hsome
  · intro hnone s hs
    have hrs : refSize d = s := by unfold refSize; rw [hs]
    have : ¬ refSize d < st.taken.contents.length := by
      intro hlt
      have := hiff.mpr hlt
      rw [hnone] at this; cases this
    omega

/-- Every taken batch keeps the batch's ECN marking. -/
theorem ecn_kept (n : Nat) (hn : 1 ≤ n) (d : Datagrams) (h : d.WF) :
    ∀ st ∈ (takeAll n d).1, st.taken.ecn = d.ecn :=
  fun st hst => ((run_spec n hn d h).each st hst).1

/-- Batch boundaries fall on datagram boundaries: cutting each taken batch by its own segment
size gives back exactly the original sequence of datagrams. -/
theorem boundaries_aligned (n : Nat) (hn : 1 ≤ n) (d : Datagrams) (h : d.WF) :
    (takeAll n d).1.flatMap (fun st => datagramsOf st.taken) = datagramsOf d := by
  have hr := run_spec n hn d h
  rw [hr.aligned]
  unfold datagramsOf refSize
  cases hd : d.segmentSize with
  | some s => rfl
  | none =>
    simp only
    by_cases he : d.contents = []
    · simp [he, chunks_nil]
    · simp only [he, if_false]
      exact chunks_le _ _ (by omega) he (by omega)

/-- `take_segments(0)` (outside the property; relevant to the receive path, C17): on a batch of
more than one datagram it takes nothing and changes nothing, so repeating it never ends. -/
theorem take_zero_stuck (d : Datagrams) (s : Nat) (hs : d.segmentSize = some s)
    (hlen : s < d.contents.length) :
    takeSegments d 0 = ({ ecn := d.ecn, segmentSize := none, contents := [] }, d) := by
  unfold takeSegments
  rw [hs]
  have h0 : min (satMul 0 s) d.contents.length = 0 := by unfold satMul; omega
  simp only [h0, List.take_zero, List.drop_zero, List.length_nil]
  have : ¬ d.contents.length ≤ s := by omega
  cases d
  simp_all

/-- One call that leaves something behind took a full batch: exactly `n · s` bytes. -/
theorem takeSegments_full (n s : Nat) (d : Datagrams) (hlen : d.contents.length ≤ usizeMax)
    (hseg : d.segmentSize = some s) (hne : (takeSegments d n).2.contents ≠ []) :
    (takeSegments d n).1.contents.length = n * s := by
  unfold takeSegments at hne ⊢
  rw [hseg] at hne ⊢
  simp only [List.length_take] at hne ⊢
  have hdrop : (d.contents.drop (min (satMul n s) d.contents.length)).length ≠ 0 := by
    intro h0; exact hne (List.length_eq_zero_iff.mp h0)
  rw [List.length_drop] at hdrop
  unfold satMul at hdrop ⊢
  omega

/-- A call on a batch without a segment size (a single datagram) leaves nothing behind. -/
theorem takeSegments_none_rest (n : Nat) (d : Datagrams) (hseg : d.segmentSize = none) :
    (takeSegments d n).2.contents = [] := by
  unfold takeSegments
  rw [hseg]

/-- Batches are maximal: in the repeated call every taken batch except the last one holds
exactly `n` full datagrams (`n · s` bytes) — so the number of calls is the least possible and a
short batch can only be the final one. -/
theorem all_but_last_full (n : Nat) (d : Datagrams) (h : d.WF) :
    ∀ (i : Nat) (hi : i + 1 < (takeAll n d).1.length) (s : Nat), d.segmentSize = some s →
      ((takeAll n d).1[i]'(by omega)).taken.contents.length = n * s := by
  suffices H : ∀ (m : Nat) (d : Datagrams), measure d ≤ m → d.contents.length ≤ usizeMax →
      ∀ (i : Nat) (hi : i + 1 < (takeAll n d).1.length) (s : Nat), d.segmentSize = some s →
        ((takeAll n d).1[i]'(by omega)).taken.contents.length = n * s from
    H (measure d) d (Nat.le_refl _) h.2
  intro m
  induction m with
  | zero =>
    intro d hm hlen i hi s hseg
    exfalso
    unfold measure at hm
    rw [hseg] at hm
    simp at hm
  | succ m ih =>
    intro d hm hlen i hi s hseg
    by_cases hre : (takeSegments d n).2.contents.isEmpty = true
    · exfalso; rw [takeAll] at hi; simp [hre] at hi
    · by_cases hmlt : measure (takeSegments d n).2 < measure d
      · have hne : (takeSegments d n).2.contents ≠ [] := by
          intro e; rw [e] at hre; exact hre rfl
        have hEq : takeAll n d =
            (⟨(takeSegments d n).1, (takeSegments d n).2⟩ :: (takeAll n (takeSegments d n).2).1,
             (takeAll n (takeSegments d n).2).2) := by
          rw [takeAll]; simp [hre, hmlt]
        have hlen2 : (takeSegments d n).2.contents.length ≤ usizeMax := by
          have : (takeSegments d n).2.contents.length ≤ d.contents.length := by
            unfold takeSegments; rw [hseg]; simp only [List.length_drop]; omega
          omega
        cases i with
        | zero =>
          simp only [hEq, List.getElem_cons_zero]
          exact takeSegments_full n s d hlen hseg hne
        | succ j =>
          have hi' : j + 1 < (takeAll n (takeSegments d n).2).1.length := by
            rw [hEq] at hi; simpa using hi
          -- the rest still carries the segment size: otherwise its run has one step
          have hseg2 : (takeSegments d n).2.segmentSize = some s := by
            cases hs2 : (takeSegments d n).2.segmentSize with
            | some s2 =>
              have : s2 = s := by
                unfold takeSegments at hs2; rw [hseg] at hs2
                simp only at hs2
                split at hs2 <;> simp_all
              rw [this]
            | none =>
              exfalso
              have hnone := takeSegments_none_rest n (takeSegments d n).2 hs2
              rw [takeAll] at hi'
              simp [hnone] at hi'
          have := ih (takeSegments d n).2 (by omega) hlen2 j hi' s hseg2
          simpa [hEq] using this
      · exfalso; rw [takeAll] at hi; simp [hre, hmlt] at hi

-- Non-vacuity of `all_but_last_full`: a run with more than one call exists.
example : 0 + 1 < (takeAll 2 ⟨some .ce, some 3, [1, 2, 3, 4, 5, 6, 7]⟩).1.length := by
  rw [takeAll]
  simp [takeSegments, satMul, usizeMax, measure, Generated.C16.batchMinSegments]
  rw [takeAll]
  simp [takeSegments]

-- Non-vacuity: well-formed batches exist for every shape the statement names, and the
-- hypotheses `1 ≤ n`, `d.WF` are jointly satisfiable also for `n = usize::MAX`.
example : Datagrams.WF ⟨some .ce, some 3, [1, 2, 3, 4, 5, 6, 7]⟩ := by
  refine ⟨?_, by simp [usizeMax]⟩
  intro s hs; cases hs; omega
example : Datagrams.WF ⟨none, none, []⟩ := ⟨(by intro s hs; cases hs), (by simp [usizeMax])⟩
example : (1 : Nat) ≤ usizeMax := by decide
example :
    (takeAll usizeMax ⟨some .ce, some 3, [1, 2, 3, 4, 5, 6, 7]⟩).1.flatMap
      (fun st => st.taken.contents) = [1, 2, 3, 4, 5, 6, 7] :=
  (concat_eq usizeMax (by decide) _
    ⟨(by intro s hs; cases hs; omega), (by simp [usizeMax])⟩).2

end IrohModel.C16
